// Package e3 drives the real RecoveryTracker (C08) through its public methods and through
// KafkaConsumer.Receive, with a recording FBContext, plus two more real instances that are fed
// the messages the first one sent (all of them / only the last per key).
package e3

import (
	"encoding/json"
	"sort"
	"strconv"
	"time"

	"github.com/digitalocean/firebolt"
	"github.com/digitalocean/firebolt/fbcontext"
	"github.com/digitalocean/firebolt/node/kafkaconsumer"

	"fbverif/e2"
	"fbverif/fake"
	"fbverif/sx"
)

// input := (parts ops)
//   op := (1 p from to)            AddRecoveryRequest
//       | (2 p from to)            UpdateRecoveryRequest
//       | (3 p to)                 MarkRecoveryComplete
//       | (4 mt key payload)       KafkaConsumer.Receive; mt 0 "recoveryrequest", 1 "recoverycancelall", else unknown
//   key := (bytes...)     payload := (0 ((from to)...)) marshalled through the real types | (k) fixed bytes Payloads[k]
// obs := (steps replica_all replica_last)
//   step := (err ack (get...) snapshot sent)   get := () | ((from to))
//   snapshot, sent, replica_* := ((p ((from to)...))...) sorted by p

const (
	mtRequest = "recoveryrequest"
	mtCancel  = "recoverycancelall"
)

// Payloads are the fixed payload byte strings: 1..5 must not decode, 6..9 decode to no requests.
var Payloads = map[int64]string{
	1: "not json",
	2: "",
	3: `{"recovery_requests":5}`,
	4: `[1,2]`,
	5: `{"recovery_requests":[{"from_offset":"x"}]}`,
	6: `{}`,
	7: `null`,
	8: `{"recovery_requests":null}`,
	9: `{"other":1}`,
}

// keys that are not the plain decimal form of a partition
var oddKeys = []string{"", "x", "1x", "+2", "-1", "007", "-", "+", "99999999999999999999", "-99999999999999999999",
	"4294967297", "2147483648", " 1", "1 ", "0x1", "1_0", "99999999999999999999x", "9223372036854775807", "1.0", "३"}

var universe = []int64{-1, 0, 1, 2, 3, 7}

type shadow struct {
	m map[int64][][2]int64
}

func (s *shadow) add(p, f, t int64) {
	rs := s.m[p]
	found := false
	for i := range rs {
		if f <= rs[i][1] && rs[i][0] <= t {
			if f < rs[i][0] {
				rs[i][0] = f
			}
			if t > rs[i][1] {
				rs[i][1] = t
			}
			found = true
		}
	}
	if !found {
		rs = append(rs, [2]int64{f, t})
	}
	s.m[p] = rs
}
func (s *shadow) update(p, f, t int64) {
	rs := s.m[p]
	if len(rs) > 0 && rs[0][1] == t {
		rs[0][0] = f
	}
}
func (s *shadow) complete(p, t int64) {
	rs, ok := s.m[p]
	if !ok {
		return
	}
	keep := [][2]int64{}
	for _, r := range rs {
		if r[1] != t {
			keep = append(keep, r)
		}
	}
	if len(keep) != len(rs) {
		s.m[p] = keep
	}
}

func genRange(r *sx.Rng, rs [][2]int64, base int64) (int64, int64) {
	d, e := r.Range(1, 10), r.Range(1, 10)
	if len(rs) == 0 || r.Chance(12) {
		f := base + r.Range(0, 200)
		return f, f + sx.Pick(r, int64(0), 1, 2, 5, 20, 50)
	}
	q := rs[r.Intn(len(rs))]
	a, b := q[0], q[1]
	switch r.Intn(16) {
	case 0:
		return a - d, a + e
	case 1:
		return b - e, b + d
	case 2:
		return b, b + d // touches: from == to of the existing one
	case 3:
		return a - d, a // touches: to == from of the existing one
	case 4:
		return b + 1, b + 1 + d // adjacent integers, no common point
	case 5:
		return a - 1 - d, a - 1
	case 6:
		if b-a >= 2 {
			x := r.Range(0, (b-a)/2)
			y := r.Range(0, (b-a)/2)
			return a + x, b - y
		}
		return a, b
	case 7:
		return a - d, b + e
	case 8:
		if r.Bool() {
			return a - d, b // same to, lower from
		}
		return a + r.Range(0, 3), b
	case 9:
		return a, b
	case 10, 11: // bridge two requests
		q2 := rs[r.Intn(len(rs))]
		lo, hi := b, q2[0]
		if lo > hi {
			lo, hi = q2[1], a
		}
		if lo > hi {
			lo, hi = hi, lo
		}
		return lo - sx.Pick(r, int64(0), 0, 1, e), hi + sx.Pick(r, int64(0), 0, 1, d)
	case 12:
		return b + 10 + d, b + 10 + d + e
	case 13:
		if r.Bool() {
			return b, b
		}
		return a, a
	case 14:
		if r.Chance(30) {
			return b + d, a - e // inverted (outside the property's notion of a range; the model follows the code anyway)
		}
		return a - d, b
	default:
		return a + 1, b + 1
	}
}

// Gen generates one history.
func Gen(r *sx.Rng, idx int, focus string) sx.Tree {
	np := int(r.Range(1, 4))
	var n int
	switch r.Intn(5) {
	case 0, 1:
		n = int(r.Range(1, 8))
	case 2, 3:
		n = int(r.Range(8, 25))
	default:
		n = int(r.Range(25, 60))
	}
	base := sx.Pick(r, int64(0), 0, 0, 0, 1000, 1000000, int64(1)<<40, int64(1)<<62)
	sh := &shadow{m: map[int64][][2]int64{}}
	part := func() int64 {
		if r.Chance(50) {
			return 0
		}
		return int64(r.Intn(np))
	}
	ops := []sx.Tree{}
	for len(ops) < n {
		p := part()
		rs := sh.m[p]
		switch w := r.Intn(100); {
		case w < 40: // file a range
			f, t := genRange(r, rs, base)
			sh.add(p, f, t)
			ops = append(ops, sx.Ints(1, p, f, t))
		case w < 58: // progress update
			var f, t int64
			if len(rs) > 0 && r.Chance(70) {
				a, b := rs[0][0], rs[0][1]
				t = b
				f = sx.Pick(r, a+1, (a+b)/2, b, b+3, a-2, a, a+r.Range(0, 5))
			} else if len(rs) > 0 {
				a, b := rs[0][0], rs[0][1]
				other := rs[r.Intn(len(rs))]
				t = sx.Pick(r, other[1], b+1, b-1, a, base+r.Range(0, 200))
				f = a + r.Range(0, 3)
			} else {
				f = base + r.Range(0, 100)
				t = f + r.Range(0, 20)
			}
			sh.update(p, f, t)
			ops = append(ops, sx.Ints(2, p, f, t))
		case w < 75: // completion
			var t int64
			if len(rs) > 0 {
				other := rs[r.Intn(len(rs))]
				a, b := rs[0][0], rs[0][1]
				t = sx.Pick(r, b, b, b, b, other[1], other[1], a, other[0], b+1, b-1)
			} else {
				t = base + r.Range(0, 100)
			}
			sh.complete(p, t)
			ops = append(ops, sx.Ints(3, p, t))
		case w < 87: // snapshot from another instance
			var lst [][2]int64
			switch r.Intn(4) {
			case 0: // what another instance would broadcast after working on our state
				src := sh.m[int64(r.Intn(np))]
				for i, q := range src {
					if i == 0 && r.Bool() {
						q[0] += r.Range(0, 3)
					}
					if r.Chance(80) {
						lst = append(lst, q)
					}
				}
			case 1:
			default:
				k := r.Intn(4)
				for i := 0; i < k; i++ {
					f, t := genRange(r, lst, base)
					lst = append(lst, [2]int64{f, t})
				}
			}
			key := strconv.Itoa(int(p))
			if r.Chance(15) {
				key = oddKeys[r.Intn(len(oddKeys))]
				p = -100 // the shadow does not follow odd keys
			}
			if p != -100 {
				sh.m[p] = append([][2]int64{}, lst...)
			} else {
				sh.m = map[int64][][2]int64{} // lose track: steering only
			}
			kids := []sx.Tree{}
			for _, q := range lst {
				kids = append(kids, sx.Ints(q[0], q[1]))
			}
			ops = append(ops, sx.T(sx.L(4), sx.L(0), sx.Str(key), sx.T(sx.L(0), sx.T(kids...))))
		case w < 91: // cancel-all
			for k := range sh.m {
				sh.m[k] = [][2]int64{}
			}
			ops = append(ops, sx.T(sx.L(4), sx.L(1), sx.Str(sx.Pick(r, "", "0", "all")), sx.Ints(sx.Pick(r, int64(2), 7, 1))))
		case w < 97: // payload from the fixed table
			k := r.Range(1, 9)
			key := strconv.Itoa(int(p))
			if r.Chance(20) {
				key = oddKeys[r.Intn(len(oddKeys))]
				sh.m = map[int64][][2]int64{}
			} else if k >= 6 {
				sh.m[p] = [][2]int64{}
			}
			ops = append(ops, sx.T(sx.L(4), sx.L(0), sx.Str(key), sx.Ints(k)))
		default: // unknown message type
			ops = append(ops, sx.T(sx.L(4), sx.L(r.Range(2, 3)), sx.Str(strconv.Itoa(int(p))), sx.Ints(6)))
		}
	}
	return sx.T(sx.Ints(universe...), sx.T(ops...))
}

type instance struct {
	k   *kafkaconsumer.KafkaConsumer
	rt  *kafkaconsumer.RecoveryTracker
	ctx *fake.Ctx
}

func newInstance() *instance {
	ctx := &fake.Ctx{}
	out := make(chan firebolt.Event, 4)
	rc := kafkaconsumer.NewRecoveryConsumerV(fake.NewConsumer(), "t", out, 1000, 1000, ctx)
	k := kafkaconsumer.NewKafkaConsumerV(fake.NewConsumer(), "t", out, 100, rc, ctx)
	return &instance{k: k, rt: rc.TrackerV(), ctx: ctx}
}

func (in *instance) snapshot() sx.Tree {
	snap := in.rt.SnapshotV()
	ks := []int{}
	for p := range snap {
		ks = append(ks, int(p))
	}
	sort.Ints(ks)
	kids := []sx.Tree{}
	for _, p := range ks {
		rs := []sx.Tree{}
		for _, q := range snap[int32(p)] {
			rs = append(rs, sx.Ints(q[0], q[1]))
		}
		kids = append(kids, sx.T(sx.L(int64(p)), sx.T(rs...)))
	}
	return sx.T(kids...)
}

func payloadBytes(t sx.Tree, p int32) []byte {
	if t.At(0).Int() != 0 {
		return []byte(Payloads[t.At(0).Int()])
	}
	rr := &kafkaconsumer.RecoveryRequests{Requests: []*kafkaconsumer.RecoveryRequest{}}
	for _, q := range t.At(1).Kids {
		rr.Requests = append(rr.Requests, &kafkaconsumer.RecoveryRequest{PartitionID: p,
			FromOffset: q.At(0).Int(), ToOffset: q.At(1).Int(), Created: time.Unix(1600000000, 0)})
	}
	b, err := json.Marshal(rr)
	if err != nil {
		panic(err)
	}
	return b
}

// Run executes one history against the real code.
func Run(in sx.Tree) sx.Tree {
	parts := in.At(0).Kids
	org := newInstance()
	var all []fbcontext.Message
	steps := []sx.Tree{}
	for _, op := range in.At(1).Kids {
		var err error
		acks := len(org.ctx.Acked)
		switch op.At(0).Int() {
		case 1:
			err = org.rt.AddRecoveryRequest(int32(op.At(1).Int()), op.At(2).Int(), op.At(3).Int())
		case 2:
			err = org.rt.UpdateRecoveryRequest(int32(op.At(1).Int()), op.At(2).Int(), op.At(3).Int())
		case 3:
			err = org.rt.MarkRecoveryComplete(int32(op.At(1).Int()), op.At(2).Int())
		case 4:
			mt := "somethingelse"
			switch op.At(1).Int() {
			case 0:
				mt = mtRequest
			case 1:
				mt = mtCancel
			}
			key := string(op.At(2).ByteSlice())
			pid, _ := strconv.Atoi(key)
			err = org.k.Receive(fbcontext.Message{MessageType: mt, Key: key, Payload: payloadBytes(op.At(3), int32(pid))})
		default:
			panic("e3: unknown op")
		}
		gets := []sx.Tree{}
		for _, p := range parts {
			if q := org.rt.GetRecoveryRequest(int32(p.Int())); q != nil {
				gets = append(gets, sx.T(sx.Ints(q.FromOffset, q.ToOffset)))
			} else {
				gets = append(gets, sx.T())
			}
		}
		msgs := org.ctx.TakeSent()
		all = append(all, msgs...)
		sent := []sx.Tree{}
		for _, m := range msgs {
			if m.MessageType != mtRequest {
				sent = append(sent, sx.T(sx.L(-7), sx.T())) // a message of another type: never expected
				continue
			}
			sent = append(sent, e2.DecodeSnapshot(m.Key, m.Payload))
		}
		sort.SliceStable(sent, func(i, j int) bool { return sent[i].At(0).Int() < sent[j].At(0).Int() })
		steps = append(steps, sx.T(sx.B(err != nil), sx.B(len(org.ctx.Acked) > acks), sx.T(gets...), org.snapshot(), sx.T(sent...)))
	}
	// a replica that sees every message, in the order they were sent
	ra := newInstance()
	for _, m := range all {
		_ = ra.k.Receive(m)
	}
	// a replica that sees only the last message of every key (compacted topic)
	last := map[string]int{}
	for i, m := range all {
		last[m.MessageType+"\x00"+m.Key] = i
	}
	rl := newInstance()
	for i, m := range all {
		if last[m.MessageType+"\x00"+m.Key] == i {
			_ = rl.k.Receive(m)
		}
	}
	return sx.T(sx.T(steps...), ra.snapshot(), rl.snapshot())
}
