// Package e2 drives KafkaConsumer.assignPartitions (C06) over a scripted client.
package e2

import (
	"encoding/json"
	"math"

	"github.com/confluentinc/confluent-kafka-go/kafka"

	"github.com/digitalocean/firebolt"
	"github.com/digitalocean/firebolt/node/kafkaconsumer"

	"fbverif/fake"
	"fbverif/sx"
)

// input := ((maxlag recov maxrec) (parts...) committed wms assign_err)
//   committed := () on error | (((p off)...))      wms := (() | (low high) ...)
// obs := (err assigned sent owned)
//   assigned, owned := () | (((p off)...))    sent := ((p ((from to)...)) ...)

const sentinelPartition = 9999

// Gen generates one case.
func Gen(r *sx.Rng, idx int, focus string) sx.Tree {
	big := func() int64 { return sx.Pick(r, int64(1)<<40, int64(1)<<62, (int64(1)<<62)-1, int64(1)<<31) }
	var maxlag int64
	switch r.Intn(6) {
	case 0:
		maxlag = 0
	case 1:
		maxlag = math.MaxInt64
	case 2:
		maxlag = big()
	default:
		maxlag = r.Range(1, 2000)
	}
	recov := r.Chance(75)
	var maxrec int64
	switch r.Intn(5) {
	case 0:
		maxrec = 1
	case 1:
		maxrec = math.MaxInt64
	default:
		maxrec = r.Range(1, 3000)
	}
	np := int(r.Range(1, 6))
	if r.Chance(3) {
		np = 0
	}
	parts := []int64{}
	used := map[int64]bool{}
	for len(parts) < np {
		p := r.Range(0, 11)
		if used[p] && !r.Chance(2) { // duplicates are outside C06's domain; a few are generated on purpose
			continue
		}
		used[p] = true
		parts = append(parts, p)
	}
	com := []sx.Tree{}
	wms := []sx.Tree{}
	for _, p := range parts {
		// high watermark
		var high int64
		switch r.Intn(8) {
		case 0:
			high = 0
		case 1:
			high = big()
		default:
			high = r.Range(0, 10000)
		}
		// committed offset relative to high and maxlag: aim at the boundaries of the lag test
		var c int64
		present := true
		switch r.Intn(12) {
		case 0:
			present = false
		case 1:
			c = -1001 // OffsetInvalid
		case 2:
			c = 0
		case 3:
			c = high
		case 4:
			c = high + r.Range(1, 50) // committed beyond the head
		case 5, 6, 7: // exactly at / around the lag boundary
			if maxlag <= high {
				c = high - maxlag + r.Range(-2, 2)
			} else {
				c = r.Range(0, high)
			}
		default:
			c = r.Range(0, high)
		}
		if c < 0 && c != -1001 {
			c = 0
		}
		// boundary of the trimming test: make skipped size == maxrec-1, maxrec, maxrec+1
		if r.Chance(20) && maxlag <= high && maxrec < (1<<40) {
			to := high - maxlag
			c = to - maxrec + r.Range(-1, 1)
			if c < 0 {
				c = 0
			}
		}
		if present {
			com = append(com, sx.Ints(p, c))
		}
		if r.Chance(3) { // stray entry for a partition that is not assigned
			com = append(com, sx.Ints(p+100, r.Range(0, 100)))
		}
		low := r.Range(0, 5)
		if low > high {
			low = high
		}
		wms = append(wms, sx.Ints(low, high))
	}
	comT := sx.T(sx.T(com...))
	// faults
	afail := false
	switch r.Intn(14) {
	case 0:
		comT = sx.T()
	case 1, 2:
		if len(wms) > 0 {
			wms[r.Intn(len(wms))] = sx.T()
		}
	case 3:
		afail = true
	}
	return sx.T(sx.Ints(maxlag, b2i(recov), maxrec), sx.Ints(parts...), comT, sx.T(wms...), sx.B(afail))
}

func b2i(b bool) int64 {
	if b {
		return 1
	}
	return 0
}

// Run executes one case against the real code.
func Run(in sx.Tree) sx.Tree {
	cfg := in.At(0)
	maxlag, recov, maxrec := cfg.At(0).Int(), cfg.At(1).Bool(), cfg.At(2).Int()
	topic := "t"
	var parts []kafka.TopicPartition
	for _, p := range in.At(1).Kids {
		parts = append(parts, kafka.TopicPartition{Topic: &topic, Partition: int32(p.Int())})
	}
	main := fake.NewConsumer()
	if in.At(2).Len() == 0 {
		main.CommittedErr = true
	} else {
		for _, e := range in.At(2).At(0).Kids {
			main.CommittedRes = append(main.CommittedRes, kafka.TopicPartition{Topic: &topic, Partition: int32(e.At(0).Int()), Offset: kafka.Offset(e.At(1).Int())})
		}
	}
	for _, w := range in.At(3).Kids {
		if w.Len() == 0 {
			main.Watermarks = append(main.Watermarks, fake.Wm{Err: true})
		} else {
			main.Watermarks = append(main.Watermarks, fake.Wm{Low: w.At(0).Int(), High: w.At(1).Int()})
		}
	}
	main.AssignErr = in.At(4).Bool()

	ctx := &fake.Ctx{}
	out := make(chan firebolt.Event, 16)
	var rc *kafkaconsumer.RecoveryConsumer
	if recov {
		rc = kafkaconsumer.NewRecoveryConsumerV(fake.NewConsumer(), topic, out, int(maxrec), 1000, ctx)
		rc.SetAssignedPartitions([]kafka.TopicPartition{{Topic: &topic, Partition: sentinelPartition}})
	}
	k := kafkaconsumer.NewKafkaConsumerV(main, topic, out, int(maxlag), rc, ctx)
	err := k.AssignPartitionsV(parts)

	assigned := sx.T()
	if len(main.Assigns) > 0 {
		assigned = sx.T(tps(main.Assigns[len(main.Assigns)-1]))
	}
	sent := []sx.Tree{}
	for _, m := range ctx.Sent {
		sent = append(sent, DecodeSnapshot(m.Key, m.Payload))
	}
	owned := sx.T()
	if rc != nil {
		ap := rc.AssignedPartitionsV()
		if !(len(ap) == 1 && ap[0].Partition == sentinelPartition) {
			owned = sx.T(tps(ap))
		}
	}
	return sx.T(sx.B(err != nil), assigned, sx.T(sent...), owned)
}

func tps(l []kafka.TopicPartition) sx.Tree {
	k := []sx.Tree{}
	for _, tp := range l {
		k = append(k, sx.Ints(int64(tp.Partition), int64(tp.Offset)))
	}
	return sx.T(k...)
}

// DecodeSnapshot turns one recovery-request message into (partition ((from to)...)).
func DecodeSnapshot(key string, payload []byte) sx.Tree {
	var v struct {
		Requests []struct {
			From int64 `json:"from_offset"`
			To   int64 `json:"to_offset"`
		} `json:"recovery_requests"`
	}
	p := int64(-1)
	if n, err := parseInt(key); err == nil {
		p = n
	}
	if err := json.Unmarshal(payload, &v); err != nil {
		return sx.T(sx.L(p), sx.T(sx.Ints(-1, -1)))
	}
	rs := []sx.Tree{}
	for _, r := range v.Requests {
		rs = append(rs, sx.Ints(r.From, r.To))
	}
	return sx.T(sx.L(p), sx.T(rs...))
}

func parseInt(s string) (int64, error) {
	var n int64
	neg := false
	if len(s) == 0 {
		return 0, errBad
	}
	i := 0
	if s[0] == '-' {
		neg = true
		i = 1
	}
	for ; i < len(s); i++ {
		if s[i] < '0' || s[i] > '9' {
			return 0, errBad
		}
		n = n*10 + int64(s[i]-'0')
	}
	if neg {
		n = -n
	}
	return n, nil
}

type badErr struct{}

func (badErr) Error() string { return "bad int" }

var errBad = badErr{}
