// Package e2 drives KafkaConsumer.assignPartitions (C06) over a scripted client.
package e2

import (
	"encoding/json"
	"math"
	"strconv"
	"time"

	"github.com/confluentinc/confluent-kafka-go/kafka"

	"github.com/digitalocean/firebolt"
	"github.com/digitalocean/firebolt/node/kafkaconsumer"

	"fbverif/fake"
	"fbverif/sx"
)

// input := ((maxlag recov maxrec) (parts...) committed wms assign_err)
//   committed := () on error | (((p off)...))      wms := (() | (low high) ...)
// obs := (err assigned sent owned)
//   assigned, owned := () | (((p off)...))    sent := ((p ((from to)...)) ...)

const sentinelPartition = 9999

// genRetry generates one retry scenario: (7 cfg parts (attempt...) cancel); each failed attempt costs the
// hard-wired 3 s of the retry ticker, so only a couple of them are generated per run.
func genRetry(r *sx.Rng) sx.Tree {
	base := Gen(r, 1000, "")
	natt := int(r.Range(2, 3))
	atts := []sx.Tree{}
	succeeded := false
	advance := r.Chance(65)
	for k := 0; k < natt; k++ {
		a := Gen(r.Fork(), 1000, "")
		com, wms, af := base.At(2), base.At(3), sx.B(false)
		_ = a
		if k > 0 && advance {
			// records keep arriving between the attempts (3 s apart): the high watermarks have moved on
			w := []sx.Tree{}
			for _, x := range base.At(3).Kids {
				if x.Len() == 2 {
					w = append(w, sx.Ints(x.At(0).Int(), x.At(1).Int()+int64(k)*r.Range(1, 900)))
				} else {
					w = append(w, x)
				}
			}
			wms = sx.T(w...)
		}
		last := k == natt-1
		if !last || r.Chance(30) {
			switch r.Intn(3) {
			case 0:
				com = sx.T()
			case 1:
				if wms.Len() > 0 {
					w := append([]sx.Tree(nil), wms.Kids...)
					w[r.Intn(len(w))] = sx.T()
					wms = sx.T(w...)
				} else {
					com = sx.T()
				}
			default:
				af = sx.B(true)
			}
		} else {
			succeeded = true
		}
		if base.At(2).Len() == 0 && com.Len() != 0 {
			com = sx.T(sx.T())
		}
		atts = append(atts, sx.T(com, wms, af))
	}
	// whether some scripted attempt really succeeds (the base case itself may carry a Committed or watermark error)
	succeeded = false
	nparts := base.At(1).Len()
	for _, a := range atts {
		ok := a.At(0).Len() == 1 && !a.At(2).Bool() && a.At(1).Len() >= nparts
		for j := 0; ok && j < nparts; j++ {
			if a.At(1).At(j).Len() != 2 {
				ok = false
			}
		}
		if ok {
			succeeded = true
		}
	}
	cancel := int64(9)
	if !succeeded || r.Chance(30) {
		cancel = r.Range(0, int64(natt)-2)
		if cancel < 0 {
			cancel = 0
		}
	}
	return sx.T(sx.L(7), base.At(0), base.At(1), sx.T(atts...), sx.L(cancel))
}

// effectiveMaxLag: math.MaxInt64 in a case stands for "maxpartitionlag is not configured"; what the source then uses is
// whatever the real checkConfig puts into the configuration map (the model: no limit).
func effectiveMaxLag(maxlag int64) int64 {
	if maxlag != math.MaxInt64 {
		return maxlag
	}
	cfg := map[string]string{"brokers": "127.0.0.1:1", "consumergroup": "verif", "topic": "t", "buffersize": "10"}
	if err := (&kafkaconsumer.KafkaConsumer{}).CheckConfigV(cfg); err != nil {
		return maxlag
	}
	v, err := strconv.ParseInt(cfg["maxpartitionlag"], 10, 64)
	if err != nil {
		return maxlag
	}
	return v
}

// Gen generates one case.
func Gen(r *sx.Rng, idx int, focus string) sx.Tree {
	if idx < 2 {
		return genRetry(r)
	}
	big := func() int64 { return sx.Pick(r, int64(1)<<40, int64(1)<<62, (int64(1)<<62)-1, int64(1)<<31) }
	var maxlag int64
	switch r.Intn(6) {
	case 0:
		maxlag = 0
	case 1:
		maxlag = math.MaxInt64
	case 2:
		maxlag = big()
	default:
		maxlag = r.Range(1, 2000)
	}
	recov := r.Chance(75)
	var maxrec int64
	switch r.Intn(5) {
	case 0:
		maxrec = 1
	case 1:
		maxrec = math.MaxInt64
	default:
		maxrec = r.Range(1, 3000)
	}
	np := int(r.Range(1, 6))
	if r.Chance(3) {
		np = 0
	}
	parts := []int64{}
	used := map[int64]bool{}
	for len(parts) < np {
		p := r.Range(0, 11)
		if used[p] && !r.Chance(2) { // duplicates are outside C06's domain; a few are generated on purpose
			continue
		}
		used[p] = true
		parts = append(parts, p)
	}
	com := []sx.Tree{}
	wms := []sx.Tree{}
	for _, p := range parts {
		// high watermark
		var high int64
		switch r.Intn(8) {
		case 0:
			high = 0
		case 1:
			high = big()
		default:
			high = r.Range(0, 10000)
		}
		// committed offset relative to high and maxlag: aim at the boundaries of the lag test
		var c int64
		present := true
		switch r.Intn(12) {
		case 0:
			present = false
		case 1:
			c = -1001 // OffsetInvalid
		case 2:
			c = 0
		case 3:
			c = high
		case 4:
			c = high + r.Range(1, 50) // committed beyond the head
		case 5, 6, 7: // exactly at / around the lag boundary
			if maxlag <= high {
				c = high - maxlag + r.Range(-2, 2)
			} else {
				c = r.Range(0, high)
			}
		default:
			c = r.Range(0, high)
		}
		if c < 0 && c != -1001 {
			c = 0
		}
		// boundary of the trimming test: make skipped size == maxrec-1, maxrec, maxrec+1
		if r.Chance(20) && maxlag <= high && maxrec < (1<<40) {
			to := high - maxlag
			c = to - maxrec + r.Range(-1, 1)
			if c < 0 {
				c = 0
			}
		}
		if present {
			com = append(com, sx.Ints(p, c))
		}
		if r.Chance(3) { // stray entry for a partition that is not assigned
			com = append(com, sx.Ints(p+100, r.Range(0, 100)))
		}
		low := r.Range(0, 5)
		if low > high {
			low = high
		}
		wms = append(wms, sx.Ints(low, high))
	}
	comT := sx.T(sx.T(com...))
	// faults
	afail := false
	switch r.Intn(14) {
	case 0:
		comT = sx.T()
	case 1, 2:
		if len(wms) > 0 {
			wms[r.Intn(len(wms))] = sx.T()
		}
	case 3:
		afail = true
	}
	return sx.T(sx.Ints(maxlag, b2i(recov), maxrec), sx.Ints(parts...), comT, sx.T(wms...), sx.B(afail))
}

func b2i(b bool) int64 {
	if b {
		return 1
	}
	return 0
}

// runRetry drives retryAssignPartitions with per-attempt broker scripts; a revocation (RevokeV, as the Kafka
// client's RevokedPartitions event triggers) arrives 1.5 s after the attempt after which the scenario cancels.
func runRetry(in sx.Tree) sx.Tree {
	cfg := in.At(1)
	maxlag, recov, maxrec := cfg.At(0).Int(), cfg.At(1).Bool(), cfg.At(2).Int()
	topic := "t"
	var parts []kafka.TopicPartition
	for _, p := range in.At(2).Kids {
		parts = append(parts, kafka.TopicPartition{Topic: &topic, Partition: int32(p.Int())})
	}
	main := fake.NewConsumer()
	for _, a := range in.At(3).Kids {
		ans := fake.CommittedAnswer{}
		if a.At(0).Len() == 0 {
			ans.Err = true
		} else {
			for _, e := range a.At(0).At(0).Kids {
				ans.Res = append(ans.Res, kafka.TopicPartition{Topic: &topic, Partition: int32(e.At(0).Int()), Offset: kafka.Offset(e.At(1).Int())})
			}
			// the watermark answers this attempt will consume: up to and including its first error
			failed := false
			for i, w := range a.At(1).Kids {
				if i >= len(parts) {
					break
				}
				if w.Len() == 0 {
					main.Watermarks = append(main.Watermarks, fake.Wm{Err: true})
					failed = true
					break
				}
				main.Watermarks = append(main.Watermarks, fake.Wm{Low: w.At(0).Int(), High: w.At(1).Int()})
			}
			if !failed && a.At(1).Len() < len(parts) {
				main.Watermarks = append(main.Watermarks, fake.Wm{Err: true}) // a query beyond the script fails
			}
		}
		main.CommittedScript = append(main.CommittedScript, ans)
	}
	// Assign is reached only by attempts whose queries all succeeded
	for _, a := range in.At(3).Kids {
		ok := a.At(0).Len() != 0 && a.At(1).Len() >= len(parts)
		for i, w := range a.At(1).Kids {
			if i < len(parts) && w.Len() == 0 {
				ok = false
			}
		}
		if ok {
			main.AssignErrScript = append(main.AssignErrScript, a.At(2).Bool())
		}
	}
	main.CommittedErr = true // beyond the script every attempt fails (the scenario always ends before)
	ctx := &fake.Ctx{}
	out := make(chan firebolt.Event, 16)
	var rc *kafkaconsumer.RecoveryConsumer
	if recov {
		rc = kafkaconsumer.NewRecoveryConsumerV(fake.NewConsumer(), topic, out, int(maxrec), 1000, ctx)
		rc.SetAssignedPartitions([]kafka.TopicPartition{{Topic: &topic, Partition: sentinelPartition}})
	}
	k := kafkaconsumer.NewKafkaConsumerV(main, topic, out, int(effectiveMaxLag(maxlag)), rc, ctx)
	done := make(chan struct{})
	go func() {
		k.RetryAssignPartitionsV(parts)
		close(done)
	}()
	cancel := in.At(4).Int()
	if cancel < int64(in.At(3).Len()) {
		// revocation between attempt cancel+1 and the next tick
		timer := time.After(time.Duration(cancel)*3*time.Second + 1500*time.Millisecond)
		select {
		case <-done:
		case <-timer:
			k.RevokeV()
		}
	}
	select {
	case <-done:
	case <-time.After(time.Duration(in.At(3).Len())*3*time.Second + 2*time.Second):
	}
	assigns := []sx.Tree{}
	for _, a := range main.Assigns {
		assigns = append(assigns, tps(a))
	}
	sent := []sx.Tree{}
	for _, m := range ctx.Sent {
		sent = append(sent, DecodeSnapshot(m.Key, m.Payload))
	}
	owned := sx.T()
	if rc != nil {
		ap := rc.AssignedPartitionsV()
		if !(len(ap) == 1 && ap[0].Partition == sentinelPartition) {
			owned = sx.T(tps(ap))
		}
	}
	return sx.T(sx.L(int64(main.CommittedCalls)), sx.T(assigns...), sx.T(sent...), owned)
}

// Run executes one case against the real code.
func Run(in sx.Tree) sx.Tree {
	if in.Len() == 5 && in.At(0).IsLeaf && in.At(0).Int() == 7 {
		return runRetry(in)
	}
	cfg := in.At(0)
	maxlag, recov, maxrec := cfg.At(0).Int(), cfg.At(1).Bool(), cfg.At(2).Int()
	topic := "t"
	var parts []kafka.TopicPartition
	for _, p := range in.At(1).Kids {
		parts = append(parts, kafka.TopicPartition{Topic: &topic, Partition: int32(p.Int())})
	}
	main := fake.NewConsumer()
	if in.At(2).Len() == 0 {
		main.CommittedErr = true
	} else {
		for _, e := range in.At(2).At(0).Kids {
			main.CommittedRes = append(main.CommittedRes, kafka.TopicPartition{Topic: &topic, Partition: int32(e.At(0).Int()), Offset: kafka.Offset(e.At(1).Int())})
		}
	}
	for _, w := range in.At(3).Kids {
		if w.Len() == 0 {
			main.Watermarks = append(main.Watermarks, fake.Wm{Err: true})
		} else {
			main.Watermarks = append(main.Watermarks, fake.Wm{Low: w.At(0).Int(), High: w.At(1).Int()})
		}
	}
	main.AssignErr = in.At(4).Bool()

	ctx := &fake.Ctx{}
	out := make(chan firebolt.Event, 16)
	var rc *kafkaconsumer.RecoveryConsumer
	if recov {
		rc = kafkaconsumer.NewRecoveryConsumerV(fake.NewConsumer(), topic, out, int(maxrec), 1000, ctx)
		rc.SetAssignedPartitions([]kafka.TopicPartition{{Topic: &topic, Partition: sentinelPartition}})
	}
	k := kafkaconsumer.NewKafkaConsumerV(main, topic, out, int(effectiveMaxLag(maxlag)), rc, ctx)
	err := k.AssignPartitionsV(parts)

	assigned := sx.T()
	if len(main.Assigns) > 0 {
		assigned = sx.T(tps(main.Assigns[len(main.Assigns)-1]))
	}
	sent := []sx.Tree{}
	for _, m := range ctx.Sent {
		sent = append(sent, DecodeSnapshot(m.Key, m.Payload))
	}
	owned := sx.T()
	if rc != nil {
		ap := rc.AssignedPartitionsV()
		if !(len(ap) == 1 && ap[0].Partition == sentinelPartition) {
			owned = sx.T(tps(ap))
		}
	}
	return sx.T(sx.B(err != nil), assigned, sx.T(sent...), owned)
}

func tps(l []kafka.TopicPartition) sx.Tree {
	k := []sx.Tree{}
	for _, tp := range l {
		k = append(k, sx.Ints(int64(tp.Partition), int64(tp.Offset)))
	}
	return sx.T(k...)
}

// DecodeSnapshot turns one recovery-request message into (partition ((from to)...)).
func DecodeSnapshot(key string, payload []byte) sx.Tree {
	var v struct {
		Requests []struct {
			From int64 `json:"from_offset"`
			To   int64 `json:"to_offset"`
		} `json:"recovery_requests"`
	}
	p := int64(-1)
	if n, err := parseInt(key); err == nil {
		p = n
	}
	if err := json.Unmarshal(payload, &v); err != nil {
		return sx.T(sx.L(p), sx.T(sx.Ints(-1, -1)))
	}
	rs := []sx.Tree{}
	for _, r := range v.Requests {
		rs = append(rs, sx.Ints(r.From, r.To))
	}
	return sx.T(sx.L(p), sx.T(rs...))
}

func parseInt(s string) (int64, error) {
	var n int64
	neg := false
	if len(s) == 0 {
		return 0, errBad
	}
	i := 0
	if s[0] == '-' {
		neg = true
		i = 1
	}
	for ; i < len(s); i++ {
		if s[i] < '0' || s[i] > '9' {
			return 0, errBad
		}
		n = n*10 + int64(s[i]-'0')
	}
	if neg {
		n = -n
	}
	return n, nil
}

type badErr struct{}

func (badErr) Error() string { return "bad int" }

var errBad = badErr{}
