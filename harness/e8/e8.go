// Package e8 drives the parameter handling code of firebolt (C20): the four buildConfigMap functions (through
// util.ApplyLibrdkafkaConf and confluent's ConfigMap.SetKey), KafkaConsumer.checkConfig and the typed getters of
// firebolt.Nodeconfig.
package e8

import (
	"math"
	"sort"
	"strconv"

	"github.com/confluentinc/confluent-kafka-go/kafka"

	"github.com/digitalocean/firebolt"
	"github.com/digitalocean/firebolt/message"
	"github.com/digitalocean/firebolt/node/kafkaconsumer"
	"github.com/digitalocean/firebolt/node/kafkaproducer"

	"fbverif/sx"
)

// input :=  (1 which params)                      buildConfigMap; which: 0 source, 1 recovery consumer, 2 receiver, 3 producer
//         | (2 params)                            KafkaConsumer.checkConfig
//         | (3 req params name d min max)         IntConfig (req=0) / IntConfigRequired (req=1)
//         | (4 req params name d)                 StringConfig / StringConfigRequired
//         | (5 req params name d min max)         Float64Config / Float64ConfigRequired
//   params := ((key value)...) byte lists, distinct keys, sorted;  float := () NaN | (orderkey)
// obs   :=  (1 0) error | (1 1) panic | (1 2 ((key cval)...))      cval := (0 bytes) | (1 int) | (2 bool) | (3 ((key sval)...))
//         | (2 ok params') | (3 ()|(v) params') | (4 ()|(bytes) params') | (5 ()|(float)|-1 params' oracle)
//   oracle := (d dtxt parse min max): dtxt = FormatFloat(d,'g',-1,64), parse := ((text ()|(float))...) = what strconv.ParseFloat
//   answers for dtxt and the configured text; derived by Run from the input, never read from it

const pfx = "librdkafka."

var defaultKeys = [][]string{
	{"bootstrap.servers", "group.id", "session.timeout.ms", "enable.auto.commit", "auto.commit.interval.ms", "statistics.interval.ms",
		"go.events.channel.enable", "go.events.channel.size", "go.application.rebalance.enable", "socket.keepalive.enable", "log.connection.close"},
	{"bootstrap.servers", "group.id", "session.timeout.ms", "enable.auto.commit", "auto.offset.reset", "go.events.channel.enable",
		"go.events.channel.size", "go.application.rebalance.enable", "socket.keepalive.enable", "log.connection.close"},
	{"bootstrap.servers", "group.id", "session.timeout.ms", "enable.auto.commit", "go.events.channel.enable", "go.events.channel.size",
		"go.application.rebalance.enable", "socket.keepalive.enable", "log.connection.close", "enable.partition.eof"},
	{"bootstrap.servers", "statistics.interval.ms", "queue.buffering.max.messages", "queue.buffering.max.kbytes", "queue.buffering.max.ms",
		"log.connection.close", "socket.keepalive.enable", "compression.codec"},
}

var otherKeys = []string{"fetch.min.bytes", "client.id", "security.protocol", "auto.offset.reset", "compression.codec", "enable.partition.eof",
	"statistics.interval.ms", "x", "a.b", "go.events.channel.size", "group.id"}

func randStr(r *sx.Rng, max int) string {
	n := int(r.Range(0, int64(max)))
	if r.Chance(8) {
		n = 0
	}
	b := []byte{}
	for len(b) < n {
		switch r.Intn(10) {
		case 0:
			b = append(b, '.')
		case 1:
			b = append(b, byte(r.Intn(256)))
		case 2:
			b = append(b, []byte(sx.Pick(r, "é", "日", "ß", "{", "}", " ", "_", "-", "=", "\x00"))...)
		case 3:
			b = append(b, byte('0'+r.Intn(10)))
		default:
			b = append(b, byte('a'+r.Intn(26)))
		}
	}
	if len(b) > max {
		b = b[:max]
	}
	return string(b)
}

var numLits = []string{"0", "1", "-1", "+5", "007", "-0", "+0", " 5", "5 ", "1_000", "0x10", "1e3", "", "9223372036854775807",
	"9223372036854775808", "-9223372036854775808", "-9223372036854775809", "+9223372036854775807", "+9223372036854775808",
	"18446744073709551615", "18446744073709551616", "99999999999999999999999", "-", "+", "--1", "+-1", "１２", "1.0",
	"999999999999999999", "1000000000000000000", "+99999999999999999", "-99999999999999999", "-999999999999999999",
	"000000000000000000001", "-00000000000000000000", "12a", "a12", "1 2", "2147483648", "-2147483649", "0_0", "٣"}

func numStr(r *sx.Rng) string {
	switch r.Intn(10) {
	case 0, 1, 2, 3:
		return strconv.FormatInt(r.Range(-3, 300), 10)
	case 4:
		return strconv.FormatInt(int64(r.Next()), 10)
	case 5:
		return sx.Pick(r, "+", "-", "") + strconv.FormatUint(r.Next(), 10)
	default:
		return sx.Pick(r, numLits...)
	}
}

var boolLits = []string{"1", "t", "T", "TRUE", "true", "True", "0", "f", "F", "FALSE", "false", "False",
	"tRUE", "TRue", "yes", "no", "on", "off", "2", " true", "true ", "T ", "tr", "truee", "fALSE", "01", "tRue", "FaLSE", "-1", "y"}

func anyValue(r *sx.Rng) string {
	switch r.Intn(8) {
	case 0, 1:
		return numStr(r)
	case 2:
		return sx.Pick(r, boolLits...)
	case 3:
		return sx.Pick(r, "earliest", "latest", "error", "snappy", "broker1:9092,broker2:9092", "{topic}.x", pfx+"y", "")
	default:
		return randStr(r, 24)
	}
}

func clip(s string) string {
	if len(s) > 24+len(pfx) {
		return s[:24+len(pfx)]
	}
	return s
}

// one parameter key for a buildConfigMap case
func buildKey(r *sx.Rng, which int, allowDtc bool, allowTopic bool) string {
	switch r.Intn(20) {
	case 0, 1, 2, 3, 4:
		return pfx + sx.Pick(r, defaultKeys[which]...)
	case 5, 6, 7:
		return pfx + sx.Pick(r, otherKeys...)
	case 8:
		return pfx + randStr(r, 12)
	case 9:
		// un-prefixed look-alikes of client keys: must not leak
		return sx.Pick(r, sx.Pick(r, defaultKeys[which]...), sx.Pick(r, otherKeys...), "librdkafka", "Librdkafka.x", " librdkafka.x",
			"xlibrdkafka.y", "librdkafka_.z", "librdkafk.a.x", "{topic}.q", "default.topic.config", "LIBRDKAFKA.client.id")
	case 10:
		return pfx // empty remainder
	case 11:
		return pfx + pfx + sx.Pick(r, "x", "", sx.Pick(r, defaultKeys[which]...)) // nested prefix: removed exactly once
	case 12, 13:
		if allowTopic {
			return pfx + "{topic}." + sx.Pick(r, "auto.offset.reset", "x", "", "a.b", "{topic}.y", randStr(r, 6))
		}
		return pfx + "{topic}" // not the redirect prefix
	case 14:
		if allowDtc {
			return pfx + "default.topic.config"
		}
		return pfx + "default.topic.confi"
	case 15:
		return pfx + sx.Pick(r, "{topic}", "{topic", "{Topic}.x", "topic.x", "{topic}x") // near misses of the redirect prefix
	default:
		return randStr(r, 16)
	}
}

func sortedParams(m map[string]string) sx.Tree {
	keys := make([]string, 0, len(m))
	for k := range m {
		keys = append(keys, k)
	}
	sort.Strings(keys)
	k := make([]sx.Tree, 0, len(keys))
	for _, key := range keys {
		k = append(k, sx.T(sx.Str(key), sx.Str(m[key])))
	}
	return sx.T(k...)
}

func genBuild(r *sx.Rng) sx.Tree {
	which := r.Intn(4)
	m := map[string]string{}
	// firebolt's own parameters (mostly valid, so that the default table exists)
	if !r.Chance(6) {
		m["brokers"] = sx.Pick(r, "broker:9092", "b1:9092,b2:9092", "x")
	} else if r.Bool() {
		m["brokers"] = ""
	}
	if !r.Chance(8) {
		m["buffersize"] = strconv.FormatInt(r.Range(1, 5000), 10)
	} else if r.Chance(70) {
		m["buffersize"] = numStr(r)
	}
	if r.Chance(80) {
		m["consumergroup"] = sx.Pick(r, "grp", "firebolt", "")
	}
	if r.Chance(50) {
		m["topic"] = "logs"
	}
	// at most one of {direct default.topic.config override, {topic}. redirects} except for a few deliberate conflicts
	mode := r.Intn(20)
	allowDtc, allowTopic := mode < 5, mode >= 5
	if mode == 19 {
		allowDtc = true
	}
	n := int(r.Range(0, 8))
	for i := 0; i < n && len(m) < 12; i++ {
		m[clip(buildKey(r, which, allowDtc, allowTopic))] = anyValue(r)
	}
	return sx.T(sx.L(1), sx.L(int64(which)), sortedParams(m))
}

func genCheck(r *sx.Rng) sx.Tree {
	m := map[string]string{"brokers": "b:9092", "consumergroup": "g", "topic": "t", "buffersize": strconv.FormatInt(r.Range(1, 1000), 10)}
	k := r.Intn(10)
	if k < 5 { // mostly valid base with optional fields
	} else if k < 7 {
		f := sx.Pick(r, "brokers", "consumergroup", "topic", "buffersize")
		if r.Bool() {
			delete(m, f)
		} else {
			m[f] = ""
		}
	}
	switch r.Intn(6) {
	case 0, 1:
		m["buffersize"] = numStr(r)
	case 2:
		m["buffersize"] = sx.Pick(r, "0", "1", "-1", "2", "+1", "01", "-0")
	}
	switch r.Intn(6) {
	case 0, 1:
		m["maxpartitionlag"] = numStr(r)
	case 2:
		m["maxpartitionlag"] = sx.Pick(r, "0", "-1", "1", "", "-0", "+0", "9223372036854775807", "9223372036854775808")
	}
	switch r.Intn(5) {
	case 0, 1:
		m["parallelrecoveryenabled"] = sx.Pick(r, boolLits...)
	case 2:
		m["parallelrecoveryenabled"] = sx.Pick(r, "", "true", "false", randStr(r, 5))
	}
	for i := int(r.Range(0, 4)); i > 0 && len(m) < 12; i-- {
		m[sx.Pick(r, pfx+"client.id", "parallelrecoverymaxrecords", "parallelrecoverymaxrate", randStr(r, 10), "Brokers", "topic ")] = anyValue(r)
	}
	return sx.T(sx.L(2), sortedParams(m))
}

func extraParams(r *sx.Rng, m map[string]string) {
	for i := int(r.Range(0, 5)); i > 0 && len(m) < 12; i-- {
		m[sx.Pick(r, "workers", "batchsize", "name ", "Name", randStr(r, 12), "")] = anyValue(r)
	}
}

func genInt(r *sx.Rng) sx.Tree {
	var mn, mx int64
	switch r.Intn(8) {
	case 0:
		mn, mx = math.MinInt64, math.MaxInt64
	case 1:
		mn, mx = 0, math.MaxInt64
	case 2:
		mn, mx = r.Range(0, 50), r.Range(-50, 0) // min > max (or both 0)
	case 3:
		mn = r.Range(-10, 10)
		mx = mn
	case 4:
		mn, mx = math.MinInt64, r.Range(-5, 5)
	default:
		mn = r.Range(-20, 100)
		mx = mn + r.Range(0, 1000)
	}
	around := func() int64 {
		switch r.Intn(7) {
		case 0:
			return mn
		case 1:
			return mx
		case 2:
			if mn > math.MinInt64 {
				return mn - 1
			}
			return mn
		case 3:
			if mx < math.MaxInt64 {
				return mx + 1
			}
			return mx
		case 4:
			return sx.Pick(r, int64(math.MaxInt64), int64(math.MinInt64), int64(0))
		default:
			if mn <= mx && mx-mn > 0 && mx-mn < 1<<40 {
				return r.Range(mn, mx)
			}
			return r.Range(-100, 100)
		}
	}
	d := around()
	name := sx.Pick(r, "workers", "batchsize", "n", "", "日")
	m := map[string]string{}
	extraParams(r, m)
	switch r.Intn(10) {
	case 0, 1, 2: // absent
		delete(m, name)
	case 3, 4, 5, 6:
		s := strconv.FormatInt(around(), 10)
		if r.Chance(15) {
			s = sx.Pick(r, "+", "0", "00", " ") + s
		}
		m[name] = s
	case 7:
		m[name] = ""
	default:
		m[name] = numStr(r)
	}
	return sx.T(sx.L(3), sx.B(r.Chance(30)), sortedParams(m), sx.Str(name), sx.L(d), sx.L(mn), sx.L(mx))
}

func genStr(r *sx.Rng) sx.Tree {
	name := sx.Pick(r, "index", "name", "", "é")
	m := map[string]string{}
	extraParams(r, m)
	switch r.Intn(4) {
	case 0, 1:
		delete(m, name)
	case 2:
		m[name] = ""
	default:
		m[name] = anyValue(r)
	}
	return sx.T(sx.L(4), sx.B(r.Chance(35)), sortedParams(m), sx.Str(name), sx.Str(randStr(r, 24)))
}

func fkey(f float64) sx.Tree {
	if f != f {
		return sx.T()
	}
	b := math.Float64bits(f)
	if b>>63 != 0 {
		return sx.T(sx.L(-int64(b & 0x7fffffffffffffff)))
	}
	return sx.T(sx.L(int64(b)))
}

var floatLits = []float64{0, 1, -1, 0.5, 0.015, 1.0, 0.1234567, 0.0149996, 1.0 / 3.0, math.Pi, 100, 1e21, 1e-7, 123456789.123456789,
	math.MaxFloat64, -math.MaxFloat64, math.SmallestNonzeroFloat64, 2.2250738585072014e-308, 0.1, 0.2, 0.30000000000000004, 5e-324}

var floatTexts = []string{"NaN", "nan", "Inf", "-Inf", "+Inf", "infinity", "-infinity", "1e999", "-1e999", "1e-400", "0x1p-2", "0x1.8p1", "1_0",
	"0x_1p0", ".5", "5.", "abc", "", " 1", "1 ", "1e3", "-0", "+0", "0.0", "1e", "e1", "1.7976931348623159e308", "1.7976931348623157e308",
	"0.1234567", "4.9e-324", "2e-324", "١"}

func fmtF(f float64) string { return strconv.FormatFloat(f, 'g', -1, 64) }

func genFloat(r *sx.Rng) sx.Tree {
	any := func() float64 {
		switch r.Intn(12) {
		case 0:
			return math.NaN()
		case 1:
			return math.Inf(1)
		case 2:
			return math.Inf(-1)
		case 3:
			return math.Copysign(0, -1)
		case 4:
			return math.Float64frombits(r.Next()) // any bit pattern (may be NaN)
		case 5:
			return float64(r.Range(-1000, 1000)) / float64(r.Range(1, 997))
		default:
			return sx.Pick(r, floatLits...)
		}
	}
	var mn, mx float64
	switch r.Intn(8) {
	case 0:
		mn, mx = math.Inf(-1), math.Inf(1)
	case 1:
		mn, mx = any(), any()
	case 2:
		mn, mx = 1.0, 0.015 // min > max
	case 3:
		mn = any()
		mx = mn
	default:
		mn = sx.Pick(r, []float64{0.015, 0, -1, 0.1, 1e-7}...)
		mx = mn + sx.Pick(r, []float64{0.985, 1, 100, 1e21, 0.2}...)
	}
	around := func() float64 {
		switch r.Intn(8) {
		case 0:
			return mn
		case 1:
			return mx
		case 2:
			return math.Nextafter(mn, math.Inf(-1))
		case 3:
			return math.Nextafter(mx, math.Inf(1))
		case 4:
			return math.Nextafter(mn, math.Inf(1))
		case 5:
			return mn + (mx-mn)*float64(r.Range(0, 1000))/1000
		default:
			return any()
		}
	}
	d := around()
	if r.Chance(10) {
		d = sx.Pick(r, []float64{0.1234567, 0.0149996, 0.01500000000000001, 1.0000000000000002}...)
	}
	if d == 0 {
		d = 0 // the order key does not distinguish -0 from +0: the default handed to the code is always +0
	}
	name := sx.Pick(r, "rate", "ratio", "")
	m := map[string]string{}
	extraParams(r, m)
	switch r.Intn(10) {
	case 0, 1, 2:
		delete(m, name)
	case 3, 4, 5:
		m[name] = fmtF(around())
	case 6:
		m[name] = strconv.FormatFloat(around(), sx.Pick(r, byte('f'), byte('e'), byte('g')), int(r.Range(0, 20)), 64)
	case 7:
		m[name] = numStr(r)
	default:
		m[name] = sx.Pick(r, floatTexts...)
	}
	return sx.T(sx.L(5), sx.B(r.Chance(30)), sortedParams(m), sx.Str(name), fkey(d), fkey(mn), fkey(mx))
}

// Gen generates one case.
func Gen(r *sx.Rng, idx int, focus string) sx.Tree {
	switch k := r.Intn(20); {
	case k < 8:
		return genBuild(r)
	case k < 12:
		return genCheck(r)
	case k < 15:
		return genInt(r)
	case k < 16:
		return genStr(r)
	default:
		return genFloat(r)
	}
}

func toMap(t sx.Tree) map[string]string {
	m := map[string]string{}
	for _, kv := range t.Kids {
		m[string(kv.At(0).ByteSlice())] = string(kv.At(1).ByteSlice())
	}
	return m
}

func encScalar(v kafka.ConfigValue) (sx.Tree, bool) {
	switch x := v.(type) {
	case string:
		return sx.T(sx.L(0), sx.Str(x)), true
	case int:
		return sx.T(sx.L(1), sx.L(int64(x))), true
	case bool:
		return sx.T(sx.L(2), sx.B(x)), true
	}
	return sx.T(sx.L(9)), false
}

func encConfigMap(cm kafka.ConfigMap) sx.Tree {
	keys := make([]string, 0, len(cm))
	for k := range cm {
		keys = append(keys, k)
	}
	sort.Strings(keys)
	out := []sx.Tree{}
	for _, k := range keys {
		var v sx.Tree
		if sub, ok := cm[k].(kafka.ConfigMap); ok {
			sk := make([]string, 0, len(sub))
			for x := range sub {
				sk = append(sk, x)
			}
			sort.Strings(sk)
			ents := []sx.Tree{}
			for _, x := range sk {
				sv, _ := encScalar(sub[x])
				ents = append(ents, sx.T(sx.Str(x), sv))
			}
			v = sx.T(sx.L(3), sx.T(ents...))
		} else {
			v, _ = encScalar(cm[k])
		}
		out = append(out, sx.T(sx.Str(k), v))
	}
	return sx.T(out...)
}

func runBuild(which int64, params map[string]string) (obs sx.Tree) {
	defer func() {
		if rec := recover(); rec != nil {
			obs = sx.T(sx.L(1), sx.L(1))
		}
	}()
	var cm *kafka.ConfigMap
	var err error
	switch which {
	case 0:
		cm, err = (&kafkaconsumer.KafkaConsumer{}).BuildConfigMapV(params)
	case 1:
		cm, err = (&kafkaconsumer.RecoveryConsumer{}).BuildConfigMapV(params)
	case 2:
		cm, err = message.ReceiverBuildConfigMapE8V(params)
	case 3:
		cm, err = kafkaproducer.ProducerBuildConfigMapE8V(params)
	default:
		panic("e8: unknown client")
	}
	if err != nil || cm == nil {
		return sx.T(sx.L(1), sx.L(0))
	}
	return sx.T(sx.L(1), sx.L(2), encConfigMap(*cm))
}

func optF(f float64, err error) sx.Tree {
	if err != nil {
		return sx.T()
	}
	return sx.T(fkey(f))
}

// Run executes one case against the real code.
func Run(in sx.Tree) sx.Tree {
	switch in.At(0).Int() {
	case 1:
		return runBuild(in.At(1).Int(), toMap(in.At(2)))
	case 2:
		m := toMap(in.At(1))
		err := (&kafkaconsumer.KafkaConsumer{}).CheckConfigV(m)
		return sx.T(sx.L(2), sx.B(err == nil), sortedParams(m))
	case 3:
		m := toMap(in.At(2))
		name := string(in.At(3).ByteSlice())
		d, mn, mx := int(in.At(4).Int()), int(in.At(5).Int()), int(in.At(6).Int())
		var v int
		var err error
		if in.At(1).Bool() {
			v, err = firebolt.Nodeconfig(m).IntConfigRequired(name, mn, mx)
		} else {
			v, err = firebolt.Nodeconfig(m).IntConfig(name, d, mn, mx)
		}
		res := sx.T()
		if err == nil {
			res = sx.T(sx.L(int64(v)))
		}
		return sx.T(sx.L(3), res, sortedParams(m))
	case 4:
		m := toMap(in.At(2))
		name := string(in.At(3).ByteSlice())
		d := string(in.At(4).ByteSlice())
		var v string
		var err error
		if in.At(1).Bool() {
			v, err = firebolt.Nodeconfig(m).StringConfigRequired(name)
		} else {
			v, err = firebolt.Nodeconfig(m).StringConfig(name, d)
		}
		res := sx.T()
		if err == nil {
			res = sx.T(sx.Str(v))
		}
		return sx.T(sx.L(4), res, sortedParams(m))
	case 5:
		return runFloat(in)
	}
	panic("e8: unknown case kind")
}

// floatOracle is what strconv answers for the texts a float getter case can look at: the formatted default and
// the configured value.  oracle := (d dtxt ((text ()|(float))...) min max), all floats as canonical order keys.
func floatOracle(d, mn, mx float64, m map[string]string, name string) sx.Tree {
	dtxt := fmtF(d)
	texts := []string{dtxt}
	if v, ok := m[name]; ok && v != dtxt {
		texts = append(texts, v)
	}
	parse := []sx.Tree{}
	for _, t := range texts {
		parse = append(parse, sx.T(sx.Str(t), optF(strconv.ParseFloat(t, 64))))
	}
	return sx.T(fkey(d), sx.Str(dtxt), sx.T(parse...), fkey(mn), fkey(mx))
}

// runFloat: input (5 req params name d min max); the older form (5 req params name d dtxt parse min max) is still
// read, its dtxt and parse fields are ignored.  The oracle is always derived here, never taken from the input.
// obs := (5 ()|(float)|-1 params' oracle), -1 = the getter panicked.
func runFloat(in sx.Tree) (obs sx.Tree) {
	m := toMap(in.At(2))
	name := string(in.At(3).ByteSlice())
	imn, imx := 5, 6
	if in.Len() == 9 {
		imn, imx = 7, 8
	} else if in.Len() != 7 {
		panic("e8: bad float case")
	}
	d, mn, mx := unkey(in.At(4)), unkey(in.At(imn)), unkey(in.At(imx))
	if d == 0 {
		d = 0 // the order key does not distinguish -0 from +0: the default handed to the code is always +0
	}
	oracle := floatOracle(d, mn, mx, m, name)
	defer func() {
		if rec := recover(); rec != nil {
			obs = sx.T(sx.L(5), sx.L(-1), sortedParams(m), oracle)
		}
	}()
	var v float64
	var err error
	if in.At(1).Bool() {
		v, err = firebolt.Nodeconfig(m).Float64ConfigRequired(name, mn, mx)
	} else {
		v, err = firebolt.Nodeconfig(m).Float64Config(name, d, mn, mx)
	}
	return sx.T(sx.L(5), optF(v, err), sortedParams(m), oracle)
}

// unkey inverts fkey (NaN for ()); -0 and +0 share key 0 and come back as +0
func unkey(t sx.Tree) float64 {
	if t.Len() == 0 {
		return math.NaN()
	}
	if t.Len() != 1 || !t.At(0).IsLeaf || !t.At(0).Z.IsInt64() {
		return math.NaN()
	}
	k := t.At(0).Int()
	if k < 0 {
		return math.Float64frombits(uint64(-k) | 1<<63)
	}
	return math.Float64frombits(uint64(k))
}
