package e4

import "fbverif/sx"

// Gen generates one case.  Streams:
//   - scenario cases (most): 1-4 partitions, each with one request (window empty / single / small / large, from on and
//     off the progress-broadcast grid, occasionally trimmed by maxrec), requests filed before or after the assignment,
//     then fresh records pumped in interleaved chunks with stale records (below the position) and stragglers (ahead of
//     it, e.g. right after a refresh caused by a late request of another partition), refreshes, truncation errors,
//     revocations and crashes thrown in at any point, then (mostly) pumped to completion;
//   - chaos cases: arbitrary op sequences incl. raw records, foreign snapshots, cancel-all, main assignments;
//   - for focus C19: a few timing cases first (real constructor, wall clock), and more main-consumer records.
func Gen(r *sx.Rng, idx int, focus string) sx.Tree {
	if focus == "C19" {
		switch {
		case idx < 6:
			// rates 50..2000/s; n slightly above 100 + 0.3 s worth of tokens
			rate := sx.Pick(r, int64(50), int64(100), int64(200), int64(500), int64(1000), int64(2000))
			if idx == 0 {
				rate = 50
			}
			if idx == 1 {
				// a second partition whose short request completes after the initial burst is used up
				n := 350 + r.Range(0, 60)
				return sx.T(sx.L(1), sx.L(200), sx.L(n), sx.L(2), sx.L(0), sx.L(0), sx.L(105+r.Range(0, 20)))
			}
			n := 100 + rate*3/10 + r.Range(1, 10)
			nmain := int64(0)
			if rate <= 100 {
				nmain = 10
			}
			return sx.T(sx.L(1), sx.L(rate), sx.L(n), sx.L(r.Range(1, 3)), sx.L(nmain))
		case idx%3500 == 8:
			// very low rates (1/rate well above any per-wait timeout): n just above the burst, lower bound (n-100)/rate = 1..2 s.
			// One such case per 3500 inputs: one in the quick tier (rotating by seed), more in the thorough tier.
			rate := r.Range(1, 3)
			n := 100 + rate + r.Range(0, rate)
			// ... run concurrently with the main consumer, which handles a rebalance and one record while the recovery
			// goroutine waits for its last token
			return sx.T(sx.L(1), sx.L(rate), sx.L(n), sx.L(r.Range(1, 2)), sx.L(1), sx.L(1))
		case idx < 8:
			// at or below the burst: no waiting at all is required (lower bound 0)
			return sx.T(sx.L(1), sx.L(sx.Pick(r, int64(50), int64(1000))), sx.L(r.Range(1, 100)), sx.L(r.Range(1, 3)), sx.L(3))
		}
	}
	if r.Chance(22) {
		return genChaos(r, focus)
	}
	return genScenario(r, focus)
}

func opPump(p, k int64) sx.Tree       { return sx.Ints(1, p, k) }
func opStale(p, d int64) sx.Tree      { return sx.Ints(2, p, d) }
func opRaw(p, o int64) sx.Tree        { return sx.Ints(3, p, o) }
func opAhead(p, d int64) sx.Tree      { return sx.Ints(13, p, d) }
func opWild(p, d int64) sx.Tree       { return sx.Ints(15, p, d) }
func opMain(p, o int64) sx.Tree       { return sx.Ints(4, p, o) }
func opRefresh() sx.Tree              { return sx.Ints(6) }
func opRevoke() sx.Tree               { return sx.Ints(8) }
func opCrash() sx.Tree                { return sx.Ints(12) }
func opHandoff() sx.Tree              { return sx.Ints(16) } // like a crash, but the successor is a peer that saw every broadcast
func opRecCrash(p int64) sx.Tree      { return sx.Ints(14, p) }
func opRequest(p, f, t int64) sx.Tree { return sx.Ints(9, p, f, t) }
func opSetOwned(ps []int64) sx.Tree   { return sx.T(sx.L(7), sx.Ints(ps...)) }
func crashOrHandoff(r *sx.Rng) sx.Tree {
	if r.Chance(45) {
		return opHandoff()
	}
	return opCrash()
}

func opKErr(code int64, wmerr bool, lows [][2]int64) sx.Tree {
	l := []sx.Tree{}
	for _, x := range lows {
		l = append(l, sx.Ints(x[0], x[1]))
	}
	return sx.T(sx.L(5), sx.L(code), sx.B(wmerr), sx.T(l...))
}

type win struct{ p, f, t int64 }

func genScenario(r *sx.Rng, focus string) sx.Tree {
	every := sx.Pick(r, int64(1), int64(2), int64(3), int64(5), int64(5), int64(7), int64(10), int64(50))
	maxrec := int64(1000000)
	np := int(r.Range(1, 4))
	used := map[int64]bool{}
	wins := []win{}
	for len(wins) < np {
		p := r.Range(0, 7)
		if used[p] {
			continue
		}
		used[p] = true
		var f int64
		switch r.Intn(4) {
		case 0:
			f = every * r.Range(0, 40) // from on the broadcast grid
		case 1:
			f = every*r.Range(0, 40) + 1
		default:
			f = r.Range(0, 400)
		}
		var size int64
		switch r.Intn(10) {
		case 0:
			size = 0
		case 1:
			size = 1
		case 2:
			size = 2
		case 3:
			size = r.Range(60, 200)
		default:
			size = r.Range(2, 25)
		}
		wins = append(wins, win{p, f, f + size})
	}
	if r.Chance(12) && len(wins) > 0 { // trimming by parallelrecoverymaxrecords: exactly at / around the window size
		w := wins[0]
		maxrec = (w.t - w.f) + r.Range(-3, 1)
		if maxrec < 1 {
			maxrec = 1
		}
	}
	ops := []sx.Tree{}
	owned := []int64{}
	for _, w := range wins {
		owned = append(owned, w.p)
	}
	if r.Chance(30) { // a partition without any request is owned as well
		owned = append(owned, 8+r.Range(0, 3))
	}
	setOwned := func() {
		o := append([]int64(nil), owned...)
		if r.Chance(20) && len(o) > 1 {
			o[0], o[len(o)-1] = o[len(o)-1], o[0]
		}
		ops = append(ops, opSetOwned(o))
	}
	// a second outage while the first request of a partition is still being worked: a second, disjoint request for the
	// same partition waits in the tracker and becomes the active one when the first completes
	queued := []win{}
	if r.Chance(25) {
		w := wins[r.Intn(len(wins))]
		f2 := w.t + r.Range(1, 40)
		queued = append(queued, win{w.p, f2, f2 + r.Range(1, 20)})
	}
	requests := func() {
		for _, w := range wins {
			ops = append(ops, opRequest(w.p, w.f, w.t))
		}
		for _, w := range queued {
			ops = append(ops, opRequest(w.p, w.f, w.t))
		}
	}
	// one partition's request may arrive late: the refresh it causes re-assigns the client while the others are being
	// recovered, and a straggler of the previous assignment (ahead of the new position) is delivered right after it
	late := -1
	if len(wins) >= 2 && r.Chance(40) {
		late = r.Intn(len(wins))
	}
	allWins := wins
	if late >= 0 {
		wins = append(append([]win(nil), allWins[:late]...), allWins[late+1:]...)
	}
	if r.Bool() {
		setOwned()
		requests()
	} else {
		requests()
		if r.Chance(30) {
			ops = append(ops, opRefresh()) // refresh before anything is owned
		}
		setOwned()
	}
	ops = append(ops, opRefresh())

	gridStop := 12
	if focus == "C09" {
		gridStop = 30
	}
	if r.Chance(gridStop) {
		// the owner stops while blocked on the emission of a record whose offset is on the progress-broadcast grid
		w := wins[r.Intn(len(wins))]
		k := (every-w.f%every)%every + every*r.Range(0, 1)
		if k == 0 {
			k = every
		}
		if w.f+k < w.t {
			ops = append(ops, opPump(w.p, k), opRecCrash(w.p))
			setOwned()
			ops = append(ops, opRefresh())
		}
	}
	disrupt := 10
	if focus == "C09" {
		disrupt = 22
	}
	mainPct := 6
	if focus == "C19" {
		mainPct = 25
	}
	wild := r.Chance(12) // only a minority of cases is exposed to the known finding F11
	steps := int(r.Range(3, 30))
	lateAt := -1
	if late >= 0 {
		lateAt = r.Intn(steps)
	}
	for i := 0; i < steps; i++ {
		if i == lateAt {
			lw := allWins[late]
			ops = append(ops, opRequest(lw.p, lw.f, lw.t))
			if r.Chance(90) {
				ops = append(ops, opRefresh())
			}
			for k := int(r.Range(0, 2)); k > 0; k-- {
				ops = append(ops, opAhead(wins[r.Intn(len(wins))].p, r.Range(0, 3)))
			}
			wins = allWins
		}
		w := wins[r.Intn(len(wins))]
		size := w.t - w.f
		switch {
		case wild && r.Chance(10):
			// unrestricted straggler (F11 exposure), often followed by what turns it into a loss: a re-assignment
			ops = append(ops, opWild(w.p, r.Range(0, size+1)))
			switch r.Intn(4) {
			case 0:
				ops = append(ops, opRevoke())
				setOwned()
				ops = append(ops, opRefresh())
			case 1:
				ops = append(ops, crashOrHandoff(r))
				setOwned()
				ops = append(ops, opRefresh())
			}
		case r.Chance(7):
			ops = append(ops, opAhead(w.p, r.Range(0, 4)))
		case r.Chance(mainPct):
			ops = append(ops, opMain(r.Range(0, 9), r.Range(0, 500)))
		case r.Chance(disrupt):
			switch r.Intn(7) {
			case 0:
				ops = append(ops, opRefresh())
			case 1: // rebalance: revoked, then (mostly) owned again, refreshed sooner or later
				ops = append(ops, opRevoke())
				if r.Chance(40) {
					ops = append(ops, opPump(w.p, r.Range(1, 4)))
				}
				if r.Chance(85) {
					setOwned()
					if r.Chance(85) {
						ops = append(ops, opRefresh())
					}
				}
			case 2, 3: // crash / hand-off to a new instance
				if r.Chance(40) {
					ops = append(ops, opRevoke())
				}
				if r.Chance(35) {
					ops = append(ops, opRecCrash(w.p)) // stops while handling the next record of w.p
				} else {
					ops = append(ops, crashOrHandoff(r))
				}
				if r.Chance(90) {
					setOwned()
					if r.Chance(90) {
						ops = append(ops, opRefresh())
					}
				}
			case 4: // truncation: low below / at / inside / at the end of / above the window
				lows := [][2]int64{}
				for _, x := range wins {
					if r.Chance(70) {
						var low int64
						switch r.Intn(6) {
						case 0:
							low = x.f - r.Range(0, 3)
						case 1:
							low = x.f + 1
						case 2:
							low = x.t
						case 3:
							low = x.t + r.Range(1, 5)
						case 4:
							low = x.t - 1
						default:
							low = r.Range(x.f, x.t+1)
						}
						if low < 0 {
							low = 0
						}
						lows = append(lows, [2]int64{x.p, low})
					}
				}
				ops = append(ops, opKErr(sx.Pick(r, int64(1), int64(2), int64(2)), r.Chance(8), lows))
				if r.Chance(85) {
					ops = append(ops, opRefresh())
				}
			case 5: // an error that must be ignored
				ops = append(ops, opKErr(sx.Pick(r, int64(3), int64(4)), false, [][2]int64{{w.p, w.t + 10}}))
			case 6: // a snapshot / garbage for a partition nobody here recovers
				if r.Bool() {
					ops = append(ops, sx.T(sx.L(11), sx.T(sx.L(1), sx.L(12+r.Range(0, 3)), sx.T(sx.Ints(r.Range(0, 50), r.Range(50, 90))))))
				} else {
					ops = append(ops, sx.T(sx.L(11), sx.T(sx.L(2), sx.L(w.p))))
				}
			}
		case r.Chance(18):
			ops = append(ops, opStale(w.p, r.Range(0, size+2)))
		default:
			var k int64
			switch r.Intn(5) {
			case 0:
				k = 1
			case 1:
				k = size + r.Range(0, 3)
			default:
				k = r.Range(1, size/2+3)
			}
			ops = append(ops, opPump(w.p, k))
		}
	}
	if r.Chance(80) { // pump everything to completion
		if r.Chance(50) {
			setOwned()
			ops = append(ops, opRefresh())
		}
		for _, w := range wins {
			if r.Chance(92) {
				ops = append(ops, opPump(w.p, w.t-w.f+3))
			}
		}
		for _, w := range queued {
			ops = append(ops, opPump(w.p, r.Range(1, 4)), opPump(w.p, w.t-w.f+3))
		}
	}
	second := 15
	if focus == "C07" || focus == "C09" {
		second = 30
	}
	if r.Chance(second) {
		// a second round on a partition whose request is (mostly) complete by now: the next request for it arrives over
		// the tracking topic (a peer filed it), often small enough to complete without any progress broadcast in between
		w := wins[r.Intn(len(wins))]
		if r.Chance(80) {
			ops = append(ops, opPump(w.p, w.t-w.f+3))
		}
		f2 := w.t + r.Range(0, 30)
		size2 := r.Range(1, every+2)
		if r.Chance(20) {
			size2 = r.Range(1, 40)
		}
		ops = append(ops, sx.T(sx.L(11), sx.T(sx.L(1), sx.L(w.p), sx.T(sx.Ints(f2, f2+size2)))))
		if r.Chance(90) {
			ops = append(ops, opRefresh())
		}
		if r.Chance(30) {
			ops = append(ops, opPump(w.p, r.Range(1, size2)))
		}
		if size2 <= 15 { // record by record: the per-record clauses (completion is broadcast, ...) apply to single-record steps
			for i := int64(0); i < size2+3; i++ {
				ops = append(ops, opPump(w.p, 1))
			}
		} else {
			ops = append(ops, opPump(w.p, size2+3))
		}
		if r.Chance(30) { // and a third, filed locally
			f3 := f2 + size2 + r.Range(0, 5)
			ops = append(ops, opRequest(w.p, f3, f3+r.Range(1, every+2)), opRefresh(), opPump(w.p, every+6))
		}
	}
	if r.Chance(22) {
		// a hand-off after (most) requests are complete: the successor must not recover anything that was completed
		ops = append(ops, crashOrHandoff(r))
		setOwned()
		ops = append(ops, opRefresh())
		for _, w := range wins {
			if r.Chance(60) {
				ops = append(ops, opPump(w.p, r.Range(1, 6)))
			}
		}
	}
	return sx.T(sx.L(0), sx.Ints(maxrec, every, r.Range(0, 100)), sx.T(ops...))
}

func genChaos(r *sx.Rng, focus string) sx.Tree {
	every := sx.Pick(r, int64(1), int64(2), int64(5), int64(10))
	maxrec := sx.Pick(r, int64(1), int64(5), int64(20), int64(1000000))
	maxlag := sx.Pick(r, int64(0), int64(10), int64(100))
	n := int(r.Range(1, 40))
	ops := []sx.Tree{}
	part := func() int64 { return r.Range(0, 3) }
	off := func() int64 { return r.Range(0, 60) }
	for i := 0; i < n; i++ {
		switch r.Intn(16) {
		case 0, 1, 2:
			ops = append(ops, opPump(part(), r.Range(1, 12)))
		case 3:
			switch r.Intn(5) {
			case 0, 1:
				ops = append(ops, opStale(part(), r.Range(0, 10)))
			case 2, 3:
				ops = append(ops, opAhead(part(), r.Range(0, 5)))
			default:
				ops = append(ops, opWild(part(), r.Range(0, 12)))
			}
		case 4, 5:
			ops = append(ops, opRaw(part(), off()))
		case 6:
			ops = append(ops, opMain(part(), off()))
		case 7:
			lows := [][2]int64{}
			for p := int64(0); p < 4; p++ {
				if r.Bool() {
					lows = append(lows, [2]int64{p, off()})
				}
			}
			ops = append(ops, opKErr(r.Range(1, 4), r.Chance(10), lows))
		case 8, 9:
			ops = append(ops, opRefresh())
		case 10:
			ps := []int64{}
			for k := int(r.Range(0, 4)); k > 0; k-- {
				ps = append(ps, part())
			}
			ops = append(ops, opSetOwned(ps))
		case 11:
			switch r.Intn(3) {
			case 0:
				ops = append(ops, opRevoke())
			case 1:
				ops = append(ops, crashOrHandoff(r))
			default:
				ops = append(ops, opRecCrash(part()))
			}
		case 12, 13:
			f := off()
			t := f + r.Range(-2, 25)
			ops = append(ops, opRequest(part(), f, t))
		case 14:
			pcs := []sx.Tree{}
			seen := map[int64]bool{}
			for k := int(r.Range(1, 3)); k > 0; k-- {
				p := part()
				if seen[p] {
					continue
				}
				seen[p] = true
				high := r.Range(0, 200)
				if r.Chance(8) {
					high = -1
				}
				c := r.Range(0, 200)
				if r.Chance(10) {
					c = -1001
				}
				pcs = append(pcs, sx.Ints(p, c, high))
			}
			ops = append(ops, sx.T(sx.L(10), sx.B(r.Chance(8)), sx.T(pcs...)))
		case 15:
			switch r.Intn(5) {
			case 0, 1:
				rs := []sx.Tree{}
				for k := int(r.Range(0, 2)); k > 0; k-- {
					f := off()
					rs = append(rs, sx.Ints(f, f+r.Range(0, 20)))
				}
				ops = append(ops, sx.T(sx.L(11), sx.T(sx.L(1), sx.L(part()), sx.T(rs...))))
			case 2:
				ops = append(ops, sx.T(sx.L(11), sx.T(sx.L(2), sx.L(part()))))
			case 3:
				ops = append(ops, sx.T(sx.L(11), sx.T(sx.L(3))))
			default:
				ops = append(ops, sx.T(sx.L(11), sx.T(sx.L(4))))
			}
		}
	}
	return sx.T(sx.L(0), sx.Ints(maxrec, every, maxlag), sx.T(ops...))
}
