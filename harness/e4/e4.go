// Package e4 drives the real RecoveryConsumer / KafkaConsumer (C07, C09, C19) over scripted clients.
//
// logic case  := (0 (maxrec every maxlag) (op ...))
//
//	op := (1 p k) Pump | (2 p d) Stale | (3 p o) RawRec | (4 p o) MainRec | (5 code wmerr ((p low)...)) KErr
//	    | (6) Refresh | (7 (p...)) SetOwned | (8) Revoke | (9 p f t) Request | (10 cerr ((p committed high)...)) MAssign
//	    | (11 msg) Deliver, msg := (1 p ((f t)...)) | (2 p) | (3) | (4)  | (12) Crash
//	    | (14 p) RecCrash: next record of p delivered, owner abandoned while (if) blocked on the emission
//	    | (15 p d) Wild: like Ahead without the restriction (may be on the broadcast grid or beyond to: known finding F11)
//	    | (13 p d) Ahead: a straggler n+1+|d| ahead of the client's position n, only inside the window and off the broadcast grid
//
// obs := (0 (perop ...)), perop := (emits calls sent err acks waits active owned tracker cli)
//
// timing case := (1 rate n nparts nmain)      obs := (1 limit_milli burst every elapsed_us main_us emitted mainemitted)
package e4

import (
	"context"
	"fmt"
	"sort"
	"strconv"
	"strings"
	"sync"
	"time"

	"github.com/confluentinc/confluent-kafka-go/kafka"

	"github.com/digitalocean/firebolt"
	"github.com/digitalocean/firebolt/fbcontext"
	"github.com/digitalocean/firebolt/node/kafkaconsumer"

	"fbverif/e2"
	"fbverif/fake"
	"fbverif/sx"
)

const (
	topicName = "t"
	hugeRate  = 1000000000
	nParts    = 16
)

// recClient is the scripted recovery client: it records calls and keeps, per assigned partition, the offset of the
// next record it would deliver.
type recClient struct {
	*fake.Consumer
	pos   map[int32]int64
	calls []sx.Tree
}

func newRecClient() *recClient {
	return &recClient{Consumer: fake.NewConsumer(), pos: map[int32]int64{}}
}

func (c *recClient) Assign(ps []kafka.TopicPartition) error {
	sorted := append([]kafka.TopicPartition(nil), ps...)
	sort.SliceStable(sorted, func(i, j int) bool { return sorted[i].Partition < sorted[j].Partition })
	c.pos = map[int32]int64{}
	arg := []sx.Tree{}
	for _, tp := range sorted {
		c.pos[tp.Partition] = int64(tp.Offset)
		arg = append(arg, sx.Ints(int64(tp.Partition), int64(tp.Offset)))
	}
	c.calls = append(c.calls, sx.T(sx.L(1), sx.T(arg...)))
	return c.Consumer.Assign(ps)
}

func (c *recClient) Unassign() error {
	c.pos = map[int32]int64{}
	c.calls = append(c.calls, sx.T(sx.L(0)))
	return c.Consumer.Unassign()
}

// mainClient is the scripted main consumer client (Committed / QueryWatermarkOffsets answered per MAssign op).
type mainClient struct {
	*fake.Consumer
	cerr   bool
	com    []kafka.TopicPartition
	wms    []fake.Wm
	wmCall int
}

func (c *mainClient) Committed(ps []kafka.TopicPartition, timeoutMs int) ([]kafka.TopicPartition, error) {
	if c.cerr {
		return nil, fmt.Errorf("scripted committed error")
	}
	return c.com, nil
}

func (c *mainClient) QueryWatermarkOffsets(topic string, partition int32, timeoutMs int) (int64, int64, error) {
	i := c.wmCall
	c.wmCall++
	if i >= len(c.wms) || c.wms[i].Err {
		return 0, 0, fmt.Errorf("scripted watermark error")
	}
	return c.wms[i].Low, c.wms[i].High, nil
}

// waitCtx counts the limiter's consultations: rate.Limiter.WaitN polls ctx.Done() and then calls ctx.Deadline() exactly
// once per call.  When the limiter is NOT handed this context itself but one derived from it (context.WithTimeout /
// WithDeadline consult parent.Deadline() first and parent.Done() afterwards), Deadline() is reached without a preceding
// Done(): such a wait is recorded as a negative entry (-1 - events emitted so far) - it can be abandoned by a deadline.
type waitCtx struct {
	context.Context
	ch       chan firebolt.Event
	waits    *[]int64
	mu       *sync.Mutex
	base     *int // events put into the channel by the harness itself (RecCrash pre-fills it)
	doneSeen *bool
}

func (w *waitCtx) Done() <-chan struct{} {
	w.mu.Lock()
	*w.doneSeen = true
	w.mu.Unlock()
	return w.Context.Done()
}

func (w *waitCtx) Deadline() (time.Time, bool) {
	w.mu.Lock()
	v := int64(len(w.ch) - *w.base)
	if !*w.doneSeen {
		v = -1 - v
	}
	*w.doneSeen = false
	*w.waits = append(*w.waits, v)
	w.mu.Unlock()
	return time.Time{}, false
}

type instance struct {
	rc   *kafkaconsumer.RecoveryConsumer
	k    *kafkaconsumer.KafkaConsumer
	cl   *recClient
	main *mainClient
	ctx  *fake.Ctx
}

type world struct {
	maxrec, every, maxlag int64
	out                   chan firebolt.Event
	outCap                int
	waits                 []int64
	mu                    sync.Mutex
	base                  int
	doneSeen              bool
	log                   []fbcontext.Message
	in                    *instance
}

func (w *world) newInstance() {
	in := &instance{cl: newRecClient(), main: &mainClient{Consumer: fake.NewConsumer()}, ctx: &fake.Ctx{}}
	in.rc = kafkaconsumer.NewRecoveryConsumerV(in.cl, topicName, w.out, int(w.maxrec), hugeRate, in.ctx)
	in.rc.SetUpdateEveryV(w.every)
	in.rc.SetWaitCtxV(&waitCtx{Context: context.Background(), ch: w.out, waits: &w.waits, mu: &w.mu, base: &w.base, doneSeen: &w.doneSeen})
	in.k = kafkaconsumer.NewKafkaConsumerV(in.main, topicName, w.out, int(w.maxlag), in.rc, in.ctx)
	w.in = in
}

func payloadOf(p, o int64) []byte { return []byte(fmt.Sprintf("%d:%d", p, o)) }

func recMsg(p, o int64) *kafka.Message {
	t := topicName
	return &kafka.Message{TopicPartition: kafka.TopicPartition{Topic: &t, Partition: int32(p), Offset: kafka.Offset(o)}, Value: payloadOf(p, o)}
}

func tps(ps []int64) []kafka.TopicPartition {
	t := topicName
	r := []kafka.TopicPartition{}
	for _, p := range ps {
		r = append(r, kafka.TopicPartition{Topic: &t, Partition: int32(p)})
	}
	return r
}

func (w *world) record(p, o int64) {
	before := len(w.in.cl.calls)
	w.in.rc.ProcessEventV(recMsg(p, o))
	_ = before
}

// fresh delivers the next record of p, if the client is assigned p
func (w *world) fresh(p int64) {
	cl := w.in.cl
	n, ok := cl.pos[int32(p)]
	if !ok {
		return
	}
	before := len(cl.calls)
	w.in.rc.ProcessEventV(recMsg(p, n))
	if len(cl.calls) == before {
		if cur, ok := cl.pos[int32(p)]; ok {
			cl.pos[int32(p)] = cur + 1
		}
	}
}

func abs(x int64) int64 {
	if x < 0 {
		return -x
	}
	return x
}

func reqPayload(p int64, rs sx.Tree) []byte {
	var sb strings.Builder
	sb.WriteString(`{"recovery_requests":[`)
	for i, r := range rs.Kids {
		if i > 0 {
			sb.WriteByte(',')
		}
		fmt.Fprintf(&sb, `{"partition_id":%d,"from_offset":%d,"to_offset":%d,"created":"2020-01-01T00:00:00Z"}`, p, r.At(0).Int(), r.At(1).Int())
	}
	sb.WriteString(`]}`)
	return []byte(sb.String())
}

// Run executes one case against the real code.
func Run(in sx.Tree) sx.Tree {
	if in.At(0).Int() == 1 {
		return runTiming(in)
	}
	cfg := in.At(1)
	w := &world{maxrec: cfg.At(0).Int(), every: cfg.At(1).Int(), maxlag: cfg.At(2).Int()}
	total := 64
	for _, op := range in.At(2).Kids {
		if op.At(0).Int() == 1 {
			total += int(op.At(2).Int())
		}
	}
	w.outCap = total + 8
	w.out = make(chan firebolt.Event, w.outCap)
	w.newInstance()
	per := []sx.Tree{}
	for _, op := range in.At(2).Kids {
		w.waits = nil
		w.doneSeen = false
		w.in.cl.calls = nil
		isErr := false
		acksBefore := len(w.in.ctx.Acked)
		var crashSent, crashCalls []sx.Tree
		var crashWaits []int64
		switch op.At(0).Int() {
		case 1:
			for i := int64(0); i < op.At(2).Int(); i++ {
				w.fresh(op.At(1).Int())
			}
		case 2:
			p, d := op.At(1).Int(), op.At(2).Int()
			o := d
			if n, ok := w.in.cl.pos[int32(p)]; ok {
				o = n - 1 - abs(d)
			}
			w.in.rc.ProcessEventV(recMsg(p, o))
		case 3:
			w.in.rc.ProcessEventV(recMsg(op.At(1).Int(), op.At(2).Int()))
		case 15:
			p, d := op.At(1).Int(), op.At(2).Int()
			if n, ok := w.in.cl.pos[int32(p)]; ok {
				if _, ok := w.in.rc.ActiveV()[int32(p)]; ok {
					w.in.rc.ProcessEventV(recMsg(p, n+1+abs(d)))
				}
			}
		case 13:
			p, d := op.At(1).Int(), op.At(2).Int()
			if n, ok := w.in.cl.pos[int32(p)]; ok {
				if ft, ok := w.in.rc.ActiveV()[int32(p)]; ok {
					o := n + 1 + abs(d)
					if o <= ft[1] && o%w.every != 0 {
						w.in.rc.ProcessEventV(recMsg(p, o))
					}
				}
			}
		case 4:
			w.in.k.ProcessEventV(recMsg(op.At(1).Int(), op.At(2).Int()))
		case 5:
			wm := map[int32]fake.Wm{}
			for p := int32(0); p < nParts; p++ {
				wm[p] = fake.Wm{Err: op.At(2).Bool()}
			}
			if !op.At(2).Bool() {
				seen := map[int32]bool{}
				for _, e := range op.At(3).Kids { // the first entry of a partition counts (as in the model's lookup)
					p := int32(e.At(0).Int())
					if !seen[p] {
						seen[p] = true
						wm[p] = fake.Wm{Low: e.At(1).Int(), High: e.At(1).Int() + 1000000}
					}
				}
			}
			w.in.cl.WmByPartition = wm
			var code kafka.ErrorCode
			switch op.At(1).Int() {
			case 1:
				code = kafka.ErrInvalidMsg
			case 2:
				code = kafka.ErrOffsetOutOfRange
			case 3:
				code = kafka.ErrUnknownTopicOrPart
			default:
				code = kafka.ErrTimedOut
			}
			w.in.rc.ProcessEventV(kafka.NewError(code, "scripted", false))
		case 6:
			_ = w.in.rc.RefreshAssignments()
		case 7:
			ps := []int64{}
			for _, p := range op.At(1).Kids {
				ps = append(ps, p.Int())
			}
			w.in.rc.SetAssignedPartitions(tps(ps))
		case 8:
			w.in.k.RevokeV()
		case 9:
			w.in.rc.RequestRecovery(int32(op.At(1).Int()), kafka.Offset(op.At(2).Int()), kafka.Offset(op.At(3).Int()))
		case 10:
			m := w.in.main
			m.cerr = op.At(1).Bool()
			m.com, m.wms, m.wmCall = nil, nil, 0
			ps := []int64{}
			t := topicName
			for _, e := range op.At(2).Kids {
				p, c, h := e.At(0).Int(), e.At(1).Int(), e.At(2).Int()
				ps = append(ps, p)
				m.com = append(m.com, kafka.TopicPartition{Topic: &t, Partition: int32(p), Offset: kafka.Offset(c)})
				m.wms = append(m.wms, fake.Wm{Err: h < 0, Low: 0, High: h})
			}
			isErr = w.in.k.AssignPartitionsV(tps(ps)) != nil
		case 11:
			m := op.At(1)
			var msg fbcontext.Message
			switch m.At(0).Int() {
			case 1:
				msg = fbcontext.Message{MessageType: "recoveryrequest", Key: strconv.Itoa(int(m.At(1).Int())), Payload: reqPayload(m.At(1).Int(), m.At(2))}
				w.log = append(w.log, msg)
			case 2:
				msg = fbcontext.Message{MessageType: "recoveryrequest", Key: strconv.Itoa(int(m.At(1).Int())), Payload: []byte(`{"recovery_requests":[{`)}
			case 3:
				msg = fbcontext.Message{MessageType: "recoverycancelall", Key: "all"}
			default:
				msg = fbcontext.Message{MessageType: "somethingelse", Key: "k"}
			}
			isErr = w.in.k.Receive(msg) != nil
		case 14:
			// the next record of p is delivered while the source channel is full (back-pressure): the handler either
			// returns (nothing to emit) or ends up blocked on the send; then the instance is abandoned like in a crash
			p := op.At(1).Int()
			if n, ok := w.in.cl.pos[int32(p)]; ok {
				old := w.in
				w.mu.Lock()
				w.base = w.outCap
				w.mu.Unlock()
				for len(w.out) < w.outCap {
					w.out <- firebolt.Event{}
				}
				done := make(chan struct{})
				go func(ch chan struct{}) {
					defer func() { _ = recover(); close(ch) }()
					old.rc.ProcessEventV(recMsg(p, n))
				}(done)
				state := func() (int, int) {
					w.mu.Lock()
					nw := len(w.waits)
					w.mu.Unlock()
					return nw, old.ctx.SentCount()
				}
				lastW, lastS := state()
				lastChange := time.Now()
				deadline := time.Now().Add(3 * time.Second)
				finished, blocked := false, false
				for !finished && !blocked && time.Now().Before(deadline) {
					select {
					case <-done:
						finished = true
					case <-time.After(time.Millisecond):
						nw, ns := state()
						if nw != lastW || ns != lastS {
							lastW, lastS, lastChange = nw, ns, time.Now()
						} else if nw > 0 && time.Since(lastChange) > 30*time.Millisecond {
							blocked = true // the limiter was consulted and nothing has moved since: parked on the send
						}
					}
				}
				if !finished && !blocked {
					isErr = true // neither returned nor reached the send: an observation, never a pass
				}
				// what the old instance sent before it stopped is on the topic
				for _, m := range old.ctx.TakeSent() {
					w.log = append(w.log, m)
					crashSent = append(crashSent, e2.DecodeSnapshot(m.Key, m.Payload))
				}
				crashCalls = old.cl.calls
				w.mu.Lock()
				crashWaits = append([]int64(nil), w.waits...)
				w.mu.Unlock()
				// the blocked goroutine keeps the old (full) channel and the old wait recorder; the successor gets fresh ones
				w.out = make(chan firebolt.Event, w.outCap)
				w.base = 0
				w.waits = nil
				w.doneSeen = false
			}
			fallthrough
		case 12:
			// the instance is gone; its successor reads the compacted topic: the last payload per key
			last := map[string]fbcontext.Message{}
			order := []string{}
			for _, m := range w.log {
				if _, ok := last[m.Key]; !ok {
					order = append(order, m.Key)
				}
				last[m.Key] = m
			}
			acksBefore = 0
			w.newInstance()
			for _, key := range order {
				_ = w.in.k.Receive(last[key])
			}
		case 16:
			// the instance is gone; a peer that has been running all along takes over: it has received every broadcast
			// as it was sent (the very bytes, in order), not just the last one per key
			acksBefore = 0
			all := append([]fbcontext.Message(nil), w.log...)
			w.newInstance()
			for _, m := range all {
				_ = w.in.k.Receive(m)
			}
		}
		// observe
		emits := []sx.Tree{}
		for len(w.out) > 0 {
			ev := <-w.out
			p, o := int64(-1), int64(-1)
			if b, ok := ev.Payload.([]byte); ok {
				parts := strings.Split(string(b), ":")
				if len(parts) == 2 {
					p, _ = strconv.ParseInt(parts[0], 10, 64)
					o, _ = strconv.ParseInt(parts[1], 10, 64)
				}
			}
			emits = append(emits, sx.T(sx.L(p), sx.L(o), sx.B(ev.Recovery)))
		}
		sentMsgs := w.in.ctx.TakeSent()
		sent := append([]sx.Tree{}, crashSent...)
		for _, m := range sentMsgs {
			w.log = append(w.log, m)
			sent = append(sent, e2.DecodeSnapshot(m.Key, m.Payload))
		}
		sort.SliceStable(sent, func(i, j int) bool { return sent[i].At(0).Int() < sent[j].At(0).Int() })
		waits := []sx.Tree{}
		for _, x := range append(crashWaits, w.waits...) {
			waits = append(waits, sx.L(x))
		}
		per = append(per, sx.T(sx.T(emits...), sx.T(append(crashCalls, w.in.cl.calls...)...), sx.T(sent...), sx.B(isErr),
			sx.L(int64(len(w.in.ctx.Acked)-acksBefore)), sx.T(waits...), w.activeTree(), w.ownedTree(), w.trackerTree(), w.cliTree()))
	}
	return sx.T(sx.L(0), sx.T(per...))
}

func (w *world) activeTree() sx.Tree {
	a := w.in.rc.ActiveV()
	keys := []int{}
	for p := range a {
		keys = append(keys, int(p))
	}
	sort.Ints(keys)
	r := []sx.Tree{}
	for _, p := range keys {
		r = append(r, sx.Ints(int64(p), a[int32(p)][0], a[int32(p)][1]))
	}
	return sx.T(r...)
}

func (w *world) ownedTree() sx.Tree {
	r := []sx.Tree{}
	for _, tp := range w.in.rc.AssignedPartitionsV() {
		r = append(r, sx.L(int64(tp.Partition)))
	}
	return sx.T(r...)
}

func (w *world) trackerTree() sx.Tree {
	s := w.in.rc.TrackerV().SnapshotV()
	keys := []int{}
	for p := range s {
		keys = append(keys, int(p))
	}
	sort.Ints(keys)
	r := []sx.Tree{}
	for _, p := range keys {
		rs := []sx.Tree{}
		for _, q := range s[int32(p)] {
			rs = append(rs, sx.Ints(q[0], q[1]))
		}
		r = append(r, sx.T(sx.L(int64(p)), sx.T(rs...)))
	}
	return sx.T(r...)
}

func (w *world) cliTree() sx.Tree {
	keys := []int{}
	for p := range w.in.cl.pos {
		keys = append(keys, int(p))
	}
	sort.Ints(keys)
	r := []sx.Tree{}
	for _, p := range keys {
		r = append(r, sx.Ints(int64(p), w.in.cl.pos[int32(p)]))
	}
	return sx.T(r...)
}

// runTiming builds the consumer with the REAL constructor (limiter from configuration), then measures how long n
// recovery records take and how long interleaved main-consumer records take.
func runTiming(in sx.Tree) sx.Tree {
	rate, n, np, nmain := in.At(1).Int(), in.At(2).Int(), in.At(3).Int(), in.At(4).Int()
	if np < 1 {
		np = 1
	}
	out := make(chan firebolt.Event, int(n+nmain)+16)
	ctx := &fake.Ctx{}
	cl := newRecClient()
	config := map[string]string{
		"parallelrecoverymaxrecords": "10000000", "parallelrecoverymaxrate": strconv.FormatInt(rate, 10),
		"buffersize": "100", "brokers": "127.0.0.1:1", "topic": topicName, "consumergroup": "verif",
	}
	rc, err := kafkaconsumer.NewRecoveryConsumerRealV(cl, topicName, out, config, ctx)
	if err != nil {
		return sx.T(sx.L(1), sx.L(-1), sx.L(-1), sx.L(-1), sx.L(0), sx.L(0), sx.L(0), sx.L(0))
	}
	k := kafkaconsumer.NewKafkaConsumerV(fake.NewConsumer(), topicName, out, 0, rc, ctx)
	// optional 7th field: partition 1's request is short (to = short): it completes while partition 0 is still being
	// recovered and the bucket is empty - the set of partitions under recovery changes, the limit must not
	short := int64(0)
	if in.Len() >= 7 && np >= 2 {
		short = in.At(6).Int()
	}
	ps := []int64{}
	for p := int64(0); p < np; p++ {
		ps = append(ps, p)
		to := n + 10
		if short > 0 && p == 1 {
			to = short
		}
		rc.RequestRecovery(int32(p), 0, kafka.Offset(to))
	}
	rc.SetAssignedPartitions(tps(ps))
	_ = rc.RefreshAssignments()
	// read once recovery is under way (whenever the implementation chooses to build its limiter)
	limit, burst := rc.LimiterParamsV()
	every := rc.UpdateEveryV()
	mainEvery := int64(0)
	if nmain > 0 && n > 100 {
		mainEvery = (n - 100) / (nmain + 1)
		if mainEvery < 1 {
			mainEvery = 1
		}
	}
	var mainDur time.Duration
	mainSent := int64(0)
	if in.Len() >= 6 && in.At(5).Int() == 1 {
		// concurrent variant: the recovery consumer runs in its own goroutine (as in production); while it waits for the
		// token of its last record the main consumer handles a rebalance (RevokedPartitions) and one more record:
		// neither may have to wait for the limiter
		var elapsed time.Duration
		rdone := make(chan struct{})
		t0 := time.Now()
		go func() {
			defer close(rdone)
			for i := int64(0); i < n; i++ {
				rc.ProcessEventV(recMsg(i%np, i/np+1))
			}
			elapsed = time.Since(t0)
		}()
		deadline := time.Now().Add(time.Duration(float64(n)/float64(rate)*float64(time.Second)) + 5*time.Second)
		for int64(len(out)) < n-1 && time.Now().Before(deadline) {
			time.Sleep(200 * time.Microsecond)
		}
		time.Sleep(5 * time.Millisecond)
		m0 := time.Now()
		k.ProcessEventV(kafka.RevokedPartitions{})
		for mainSent < nmain {
			k.ProcessEventV(recMsg(0, 2000000+mainSent))
			mainSent++
		}
		mainDur = time.Since(m0)
		select {
		case <-rdone:
		case <-time.After(5*time.Second + time.Duration(2*float64(time.Second)/float64(rate))):
			elapsed = time.Since(t0)
		}
		emitted, mainEmitted := int64(0), int64(0)
		for len(out) > 0 {
			ev := <-out
			if ev.Recovery {
				emitted++
			} else {
				mainEmitted++
			}
		}
		return sx.T(sx.L(1), sx.L(int64(limit*1000+0.5)), sx.L(int64(burst)), sx.L(every), sx.L(elapsed.Microseconds()),
			sx.L(mainDur.Microseconds()), sx.L(emitted), sx.L(mainEmitted))
	}
	if short > 0 {
		// records of partitions 0 and 1 alternate until partition 1 has delivered its window and the record after it
		// (which completes its request); the rest comes from partition 0: n records are inside a window
		t0 := time.Now()
		next := map[int64]int64{0: 1, 1: 1}
		fed := int64(0)
		for fed < n {
			for _, p := range []int64{0, 1} {
				if p == 1 && next[1] > short+1 {
					continue
				}
				if fed >= n && !(p == 1 && next[1] == short+1) {
					continue
				}
				rc.ProcessEventV(recMsg(p, next[p]))
				if !(p == 1 && next[p] == short+1) {
					fed++
				}
				next[p]++
			}
		}
		elapsed := time.Since(t0)
		emitted := int64(0)
		for len(out) > 0 {
			if ev := <-out; ev.Recovery {
				emitted++
			}
		}
		return sx.T(sx.L(1), sx.L(int64(limit*1000+0.5)), sx.L(int64(burst)), sx.L(every), sx.L(elapsed.Microseconds()),
			sx.L(0), sx.L(emitted), sx.L(0))
	}
	t0 := time.Now()
	for i := int64(0); i < n; i++ {
		rc.ProcessEventV(recMsg(i%np, i/np+1))
		if mainEvery > 0 && i >= 100 && (i-100)%mainEvery == mainEvery-1 && mainSent < nmain {
			m0 := time.Now()
			k.ProcessEventV(recMsg(0, 1000000+i))
			mainDur += time.Since(m0)
			mainSent++
		}
	}
	elapsed := time.Since(t0)
	for mainSent < nmain {
		m0 := time.Now()
		k.ProcessEventV(recMsg(0, 2000000+mainSent))
		mainDur += time.Since(m0)
		mainSent++
	}
	emitted, mainEmitted := int64(0), int64(0)
	for len(out) > 0 {
		ev := <-out
		if ev.Recovery {
			emitted++
		} else {
			mainEmitted++
		}
	}
	return sx.T(sx.L(1), sx.L(int64(limit*1000+0.5)), sx.L(int64(burst)), sx.L(every), sx.L(elapsed.Microseconds()),
		sx.L(mainDur.Microseconds()), sx.L(emitted), sx.L(mainEmitted))
}
