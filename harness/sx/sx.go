// Package sx: trees of integers (the exchange format with the Coq judges), a deterministic
// PRNG (splitmix64) from which every random choice of the harness derives, and small helpers.
package sx

import (
	"bufio"
	"fmt"
	"math/big"
	"strings"
)

// Tree is either a leaf integer (Kids == nil, IsLeaf) or a list.
type Tree struct {
	IsLeaf bool
	Z      *big.Int
	Kids   []Tree
}

func L(v int64) Tree     { return Tree{IsLeaf: true, Z: big.NewInt(v)} }
func LB(v *big.Int) Tree { return Tree{IsLeaf: true, Z: new(big.Int).Set(v)} }
func T(kids ...Tree) Tree {
	if kids == nil {
		kids = []Tree{}
	}
	return Tree{Kids: kids}
}
func B(b bool) Tree {
	if b {
		return L(1)
	}
	return L(0)
}
func Opt(present bool, t Tree) Tree {
	if present {
		return T(t)
	}
	return T()
}
func Ints(vs ...int64) Tree {
	k := make([]Tree, len(vs))
	for i, v := range vs {
		k[i] = L(v)
	}
	return T(k...)
}
func Bytes(b []byte) Tree {
	k := make([]Tree, len(b))
	for i, v := range b {
		k[i] = L(int64(v))
	}
	return T(k...)
}
func Str(s string) Tree { return Bytes([]byte(s)) }

func (t Tree) write(sb *strings.Builder) {
	if t.IsLeaf {
		sb.WriteString(t.Z.String())
		return
	}
	sb.WriteByte('(')
	for i, k := range t.Kids {
		if i > 0 {
			sb.WriteByte(' ')
		}
		k.write(sb)
	}
	sb.WriteByte(')')
}

func (t Tree) String() string {
	var sb strings.Builder
	t.write(&sb)
	return sb.String()
}

// Int returns the leaf value as int64 (panics when not a small leaf).
func (t Tree) Int() int64 {
	if !t.IsLeaf || !t.Z.IsInt64() {
		panic("sx: not an int64 leaf: " + t.String())
	}
	return t.Z.Int64()
}
func (t Tree) Bool() bool { return t.Int() != 0 }
func (t Tree) At(i int) Tree {
	if t.IsLeaf || i >= len(t.Kids) {
		panic(fmt.Sprintf("sx: no child %d in %s", i, t.String()))
	}
	return t.Kids[i]
}
func (t Tree) Len() int { return len(t.Kids) }
func (t Tree) ByteSlice() []byte {
	b := make([]byte, len(t.Kids))
	for i, k := range t.Kids {
		b[i] = byte(k.Int())
	}
	return b
}

// Parse parses one tree.
func Parse(s string) (Tree, error) {
	p := &parser{s: s}
	t, err := p.item()
	if err != nil {
		return Tree{}, err
	}
	p.skip()
	if p.pos != len(p.s) {
		return Tree{}, fmt.Errorf("sx: trailing input at %d", p.pos)
	}
	return t, nil
}

type parser struct {
	s   string
	pos int
}

func (p *parser) skip() {
	for p.pos < len(p.s) && (p.s[p.pos] == ' ' || p.s[p.pos] == '\t' || p.s[p.pos] == '\r' || p.s[p.pos] == '\n') {
		p.pos++
	}
}
func (p *parser) item() (Tree, error) {
	p.skip()
	if p.pos >= len(p.s) {
		return Tree{}, fmt.Errorf("sx: unexpected end")
	}
	if p.s[p.pos] == '(' {
		p.pos++
		kids := []Tree{}
		for {
			p.skip()
			if p.pos >= len(p.s) {
				return Tree{}, fmt.Errorf("sx: unclosed paren")
			}
			if p.s[p.pos] == ')' {
				p.pos++
				return Tree{Kids: kids}, nil
			}
			k, err := p.item()
			if err != nil {
				return Tree{}, err
			}
			kids = append(kids, k)
		}
	}
	st := p.pos
	for p.pos < len(p.s) && p.s[p.pos] != ' ' && p.s[p.pos] != '(' && p.s[p.pos] != ')' {
		p.pos++
	}
	z, ok := new(big.Int).SetString(p.s[st:p.pos], 10)
	if !ok {
		return Tree{}, fmt.Errorf("sx: bad integer %q", p.s[st:p.pos])
	}
	return Tree{IsLeaf: true, Z: z}, nil
}

// ReadLines calls f for every non-empty line of r.
func ReadLines(r *bufio.Reader, f func(string) error) error {
	sc := bufio.NewScanner(r)
	sc.Buffer(make([]byte, 1<<20), 1<<28)
	for sc.Scan() {
		line := strings.TrimSpace(sc.Text())
		if line == "" {
			continue
		}
		if err := f(line); err != nil {
			return err
		}
	}
	return sc.Err()
}

// Rng is splitmix64.
type Rng struct{ s uint64 }

func NewRng(seed uint64) *Rng { return &Rng{s: seed} }
func (r *Rng) Next() uint64 {
	r.s += 0x9e3779b97f4a7c15
	z := r.s
	z = (z ^ (z >> 30)) * 0xbf58476d1ce4e5b9
	z = (z ^ (z >> 27)) * 0x94d049bb133111eb
	return z ^ (z >> 31)
}

// Intn returns a value in [0,n).
func (r *Rng) Intn(n int) int {
	if n <= 0 {
		return 0
	}
	return int(r.Next() % uint64(n))
}

// Range returns a value in [lo,hi].
func (r *Rng) Range(lo, hi int64) int64 {
	if hi <= lo {
		return lo
	}
	return lo + int64(r.Next()%uint64(hi-lo+1))
}
func (r *Rng) Bool() bool          { return r.Next()&1 == 1 }
func (r *Rng) Chance(pct int) bool { return r.Intn(100) < pct }
func (r *Rng) Fork() *Rng          { return NewRng(r.Next()) }

// Pick returns one of the values.
func Pick[T any](r *Rng, vs ...T) T { return vs[r.Intn(len(vs))] }
