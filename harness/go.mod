module fbverif

go 1.19

require (
	github.com/confluentinc/confluent-kafka-go v1.9.2
	github.com/digitalocean/firebolt v0.0.0
	github.com/sirupsen/logrus v1.9.0
)

require (
	github.com/beorn7/perks v1.0.1 // indirect
	github.com/cespare/xxhash/v2 v2.1.2 // indirect
	github.com/davecgh/go-spew v1.1.1 // indirect
	github.com/golang/protobuf v1.5.2 // indirect
	github.com/matttproud/golang_protobuf_extensions v1.0.1 // indirect
	github.com/pmezard/go-difflib v1.0.0 // indirect
	github.com/prometheus/client_golang v1.12.1 // indirect
	github.com/prometheus/client_model v0.2.0 // indirect
	github.com/prometheus/common v0.32.1 // indirect
	github.com/prometheus/procfs v0.7.3 // indirect
	github.com/stretchr/objx v0.4.0 // indirect
	github.com/stretchr/testify v1.8.0 // indirect
	golang.org/x/sys v0.13.0 // indirect
	golang.org/x/time v0.0.0-20191024005414-555d28b269f0 // indirect
	google.golang.org/protobuf v1.28.0 // indirect
	gopkg.in/yaml.v3 v3.0.1 // indirect
)

replace github.com/digitalocean/firebolt => /repo
