module fbverif

go 1.19

require (
	github.com/confluentinc/confluent-kafka-go v1.9.2
	github.com/digitalocean/firebolt v0.0.0
	github.com/olivere/elastic/v7 v7.0.32
	github.com/sirupsen/logrus v1.9.0
)

require (
	github.com/Comcast/go-leaderelection v0.0.0-20181102191523-272fd9e2bddc // indirect
	github.com/Shopify/sarama v1.30.1 // indirect
	github.com/beorn7/perks v1.0.1 // indirect
	github.com/cespare/xxhash/v2 v2.1.2 // indirect
	github.com/davecgh/go-spew v1.1.1 // indirect
	github.com/digitalocean/captainslog v0.0.0-20190610170928-cd175de8a6e2 // indirect
	github.com/eapache/go-resiliency v1.2.0 // indirect
	github.com/eapache/go-xerial-snappy v0.0.0-20180814174437-776d5712da21 // indirect
	github.com/eapache/queue v1.1.0 // indirect
	github.com/golang/protobuf v1.5.2 // indirect
	github.com/golang/snappy v0.0.4 // indirect
	github.com/hashicorp/go-uuid v1.0.2 // indirect
	github.com/jcmturner/aescts/v2 v2.0.0 // indirect
	github.com/jcmturner/dnsutils/v2 v2.0.0 // indirect
	github.com/jcmturner/gofork v1.0.0 // indirect
	github.com/jcmturner/gokrb5/v8 v8.4.2 // indirect
	github.com/jcmturner/rpc/v2 v2.0.3 // indirect
	github.com/josharian/intern v1.0.0 // indirect
	github.com/klauspost/compress v1.13.6 // indirect
	github.com/mailru/easyjson v0.7.7 // indirect
	github.com/matttproud/golang_protobuf_extensions v1.0.1 // indirect
	github.com/pierrec/lz4 v2.6.1+incompatible // indirect
	github.com/pkg/errors v0.9.1 // indirect
	github.com/pmezard/go-difflib v1.0.0 // indirect
	github.com/prometheus/client_golang v1.12.1 // indirect
	github.com/prometheus/client_model v0.2.0 // indirect
	github.com/prometheus/common v0.32.1 // indirect
	github.com/prometheus/procfs v0.7.3 // indirect
	github.com/rcrowley/go-metrics v0.0.0-20201227073835-cf1acfcdf475 // indirect
	github.com/samuel/go-zookeeper v0.0.0-20180130194729-c4fab1ac1bec // indirect
	github.com/stretchr/objx v0.4.0 // indirect
	github.com/stretchr/testify v1.8.0 // indirect
	github.com/tidwall/gjson v1.12.1 // indirect
	github.com/tidwall/match v1.1.1 // indirect
	github.com/tidwall/pretty v1.2.0 // indirect
	golang.org/x/crypto v0.14.0 // indirect
	golang.org/x/net v0.17.0 // indirect
	golang.org/x/sys v0.13.0 // indirect
	golang.org/x/time v0.0.0-20191024005414-555d28b269f0 // indirect
	google.golang.org/protobuf v1.28.0 // indirect
	gopkg.in/yaml.v2 v2.4.0 // indirect
	gopkg.in/yaml.v3 v3.0.1 // indirect
)

replace github.com/digitalocean/firebolt => /repo
