package e1

import (
	"bytes"
	"fmt"
	"os"
	"os/exec"
	"strings"
	"syscall"
	"time"

	"github.com/digitalocean/firebolt/node"

	"fbverif/sx"
)

// Run executes one case.  Lockstep input: ((1 T cfgs intents) (net snap0 ((cmd snap)...) stopped bad));
// free-running input: (0 T cfgs (seed (count ok)...)).
func Run(in sx.Tree) sx.Tree {
	if in.Len() == 2 && !in.At(0).IsLeaf && in.At(0).Len() > 0 && in.At(0).At(0).IsLeaf && in.At(0).At(0).Int() == 1 {
		return runLock(in.At(0), in.At(1))
	}
	if in.Len() >= 4 && in.At(0).IsLeaf && in.At(0).Int() == 2 {
		return runSetupFail(in)
	}
	return runFree(in)
}

// runSetupFail: a scripted source whose Setup fails in some incarnation.  The unchanged executor ends the whole process
// then (os.Exit(1) in prepareSource), so the case runs in a child process (this binary, FB_E1_CHILD=1) that writes the
// trace event by event; the parent collects what was written and how the child ended.
func runSetupFail(in sx.Tree) sx.Tree {
	if os.Getenv("FB_E1_CHILD") == "" {
		exe, err := os.Executable()
		if err != nil {
			return sx.T(sx.L(-2))
		}
		cmd := exec.Command(exe, "e1", "run")
		cmd.Env = append(os.Environ(), "FB_E1_CHILD=1")
		cmd.Stdin = strings.NewReader(in.String() + "\n")
		var out bytes.Buffer
		cmd.Stdout = &out
		done := make(chan error, 1)
		if err := cmd.Start(); err != nil {
			return sx.T(sx.L(-2))
		}
		go func() { done <- cmd.Wait() }()
		limit := 8 * time.Second
		for _, ph := range in.At(3).Kids[1:] {
			if !ph.At(1).Bool() || (ph.Len() >= 3 && ph.At(2).Bool()) {
				limit += 11 * time.Second
			}
		}
		exit := int64(0)
		select {
		case err := <-done:
			if ee, ok := err.(*exec.ExitError); ok {
				exit = int64(ee.ExitCode())
			} else if err != nil {
				exit = -1
			}
		case <-time.After(limit):
			_ = cmd.Process.Kill()
			<-done
			exit = -9
		}
		netd := sx.T()
		tr := []sx.Tree{}
		for _, line := range strings.Split(out.String(), "\n") {
			switch {
			case strings.HasPrefix(line, "N "):
				if t, err := sx.Parse(line[2:]); err == nil {
					netd = t
				}
			case strings.HasPrefix(line, "T "):
				if t, err := sx.Parse(line[2:]); err == nil {
					tr = append(tr, t)
				}
			}
		}
		return sx.T(netd, sx.T(tr...), sx.L(exit))
	}
	// child
	timeout := int(in.At(1).Int())
	cfgs := decCfgs(in.At(2))
	par := in.At(3)
	r := newRT(false, uint64(par.At(0).Int()))
	r.sink = true
	for _, ph := range par.Kids[1:] {
		r.script = append(r.script, srcPhase{count: int(ph.At(0).Int()), ok: ph.At(1).Bool(), setupFail: ph.Len() >= 3 && ph.At(2).Bool()})
	}
	ex, roots, err := r.build(cfgs, timeout)
	if err != nil {
		return sx.T(sx.L(-2))
	}
	rootIDs := map[string]bool{}
	for _, rc := range roots {
		if !rc.Disabled {
			rootIDs[rc.ID] = true
		}
	}
	tab := table(ex, roots)
	r.mu.Lock()
	_, _ = os.Stdout.WriteString("N " + r.netDump(tab, rootIDs).String() + "\n")
	r.mu.Unlock()
	done := make(chan struct{})
	go func() {
		ex.Execute()
		close(done)
	}()
	limit := time.Duration(timeout)*time.Second + 3*time.Second
	for _, ph := range r.script {
		if !ph.ok || ph.setupFail {
			limit += 11 * time.Second
		}
	}
	select {
	case <-done:
		r.log(sx.T(sx.L(10), sx.B(r.allShutEnded(tab))))
	case <-time.After(limit):
	}
	return sx.T()
}

func decCfgs(t sx.Tree) []*nodeCfg {
	var cfgs []*nodeCfg
	for _, k := range t.Kids {
		cfgs = append(cfgs, decCfg(k))
	}
	return cfgs
}

var debug = os.Getenv("FBDEBUG") != ""

type lockRun struct {
	r        *rt
	tab      []*node.Context
	execDone chan struct{}
	returned bool
}

func (l *lockRun) mainCode() int64 {
	select {
	case <-l.execDone:
		l.returned = true
	default:
	}
	if !l.returned {
		return 0
	}
	if l.r.allShutEnded(l.tab) {
		return 1
	}
	return 2
}

func (l *lockRun) srcState(inc int, st int64) sx.Tree { return sx.Ints(st, int64(inc)) }

func runLock(orig, pred sx.Tree) sx.Tree {
	timeout := int(orig.At(1).Int())
	cfgs := decCfgs(orig.At(2))
	r := newRT(true, 0)
	ex, roots, err := r.build(cfgs, timeout)
	if err != nil {
		return sx.T(sx.L(-2))
	}
	rootIDs := map[string]bool{}
	for _, rc := range roots {
		if !rc.Disabled {
			rootIDs[rc.ID] = true
		}
	}
	l := &lockRun{r: r, execDone: make(chan struct{})}
	l.tab = table(ex, roots)
	netd := r.netDump(l.tab, rootIDs)
	go func() {
		ex.Execute()
		close(l.execDone)
	}()
	srcInc, srcSt := 0, int64(0)
	snap := func() sx.Tree {
		if r.sourceEnded() {
			// observed, not assumed: some incarnation's Start has returned nil
			return r.snapshot(l.tab, l.mainCode(), sx.Ints(2, 0))
		}
		return r.snapshot(l.tab, l.mainCode(), sx.Ints(srcSt, int64(srcInc)))
	}
	// wait until the implementation shows the predicted quiescent snapshot (and keeps it), or give up
	await := func(want string, limit time.Duration) sx.Tree {
		deadline := time.Now().Add(limit)
		for {
			s := snap()
			if s.String() == want {
				time.Sleep(3 * time.Millisecond)
				s2 := snap()
				if s2.String() == want {
					return s2
				}
				continue
			}
			if time.Now().After(deadline) {
				// not reached: report what is there once it stopped changing
				prev := s.String()
				for i := 0; i < 20; i++ {
					time.Sleep(10 * time.Millisecond)
					s = snap()
					if s.String() == prev {
						break
					}
					prev = s.String()
				}
				return s
			}
			time.Sleep(300 * time.Microsecond)
		}
	}
	snap0 := sx.T()
	snaps := []sx.Tree{}
	waits := []sx.Tree{}
	awaits := []sx.Tree{} // per command: how long it took until the predicted snapshot was there (ms)
	if pred.Len() >= 3 {
		snap0 = await(pred.At(1).String(), 2*time.Second)
		for ci, cs := range pred.At(2).Kids {
			c, want := cs.At(0), cs.At(1).String()
			if debug {
				fmt.Fprintf(os.Stderr, "cmd %d %s at %s\n", ci, c.String(), time.Now().Format("15:04:05.000"))
			}
			limit := 2 * time.Second
			switch c.At(0).Int() {
			case 1:
				ack := make(chan struct{})
				select {
				case r.srcCmd <- srcCmd{kind: 1, id: c.At(1).Int(), ack: ack}:
					select {
					case <-ack:
					case <-time.After(2 * time.Second):
					}
				case <-time.After(2 * time.Second):
				}
			case 2:
				if h := r.byNid(c.At(1).Int()); h != nil {
					it := item{c.At(2).At(0).Int(), c.At(2).At(1).Int()}
					h.mu.Lock()
					var g *gateEntry
					for _, x := range h.gate {
						if x.it == it {
							g = x
							break
						}
					}
					h.mu.Unlock()
					if g != nil {
						select {
						case g.rel <- decOutcome(c.At(3)):
						default:
						}
					}
				}
			case 3:
				if h := r.byNid(c.At(1).Int()); h != nil {
					it := item{c.At(2).At(0).Int(), c.At(2).At(1).Int()}
					o := decOutcome(c.At(3))
					go h.complete(it, o)
				}
			case 4, 5:
				if c.At(0).Int() == 4 && len(pred.At(2).Kids)%2 == 1 {
					// end the run the way an application does: Executor.Shutdown() asks the source to stop
					done := ex.Shutdown()
					go func() { <-done }()
					dl := time.Now().Add(2 * time.Second)
					for time.Now().Before(dl) && !r.sourceEnded() {
						time.Sleep(200 * time.Microsecond)
					}
				} else {
					ack := make(chan struct{})
					select {
					case r.srcCmd <- srcCmd{kind: int(c.At(0).Int()), ack: ack}:
						<-ack
					case <-time.After(2 * time.Second):
					}
				}
				if c.At(0).Int() == 4 {
					// the snapshot shows the source as ended once its Start has returned nil
				} else {
					srcInc++
					limit = 13 * time.Second
				}
			case 6:
				limit = time.Duration(timeout)*time.Second + 2500*time.Millisecond
			case 7:
				// a real signal: executor.New registered the executor for it (signal.Notify), so the process survives
				_ = syscall.Kill(os.Getpid(), syscall.SIGTERM)
				time.Sleep(25 * time.Millisecond)
			}
			t0 := time.Now()
			var s sx.Tree
			if c.At(0).Int() == 6 {
				// wait for Execute to return (or give up after the timeout plus a margin)
				select {
				case <-l.execDone:
				case <-time.After(limit):
				}
				waits = append(waits, sx.L(time.Since(t0).Milliseconds()))
				if l.mainCode() == 1 {
					s = await(want, 500*time.Millisecond)
				} else {
					s = snap()
				}
			} else if c.At(0).Int() == 0 {
				s = snap() // skipped intent: nothing happens
			} else {
				if c.At(0).Int() == 5 {
					// the supervisor pauses 10 s, then prepares and starts a new incarnation
					dl := time.Now().Add(limit)
					for time.Now().Before(dl) {
						r.mu.Lock()
						st := r.startedInc
						r.mu.Unlock()
						if st >= srcInc {
							break
						}
						time.Sleep(5 * time.Millisecond)
					}
					limit = 2 * time.Second
				}
				s = await(want, limit)
			}
			snaps = append(snaps, s)
			awaits = append(awaits, sx.L(time.Since(t0).Milliseconds()))
			if s.String() != want && !(c.At(0).Int() == 6 && l.mainCode() == 2) {
				break // first disagreement: what follows would only repeat it
			}
		}
	}
	l.cleanup()
	// what is there once everything has been let through: judged only if Execute returned with every node shut down
	r.mu.Lock()
	em := r.emitted
	r.mu.Unlock()
	fin := sx.T(snap(), sx.L(em))
	return sx.T(netd, snap0, sx.T(snaps...), sx.T(waits...), fin, sx.T(awaits...))
}

func (r *rt) byNid(nid int64) *hnode {
	r.mu.Lock()
	defer r.mu.Unlock()
	for _, h := range r.nodes {
		if h.nid == nid {
			return h
		}
	}
	return nil
}

// cleanup lets every goroutine of the case finish: filter everything at the gates and in flight, end the source.
func (l *lockRun) cleanup() {
	r := l.r
	stop := make(chan struct{})
	go func() {
		for {
			select {
			case <-stop:
				return
			default:
			}
			r.mu.Lock()
			hs := []*hnode{}
			for _, h := range r.nodes {
				hs = append(hs, h)
			}
			r.mu.Unlock()
			for _, h := range hs {
				h.mu.Lock()
				gs := append([]*gateEntry(nil), h.gate...)
				fs := append([]*flight(nil), h.inflight...)
				h.mu.Unlock()
				for _, g := range gs {
					select {
					case g.rel <- outcome{kind: 0}:
					default:
					}
				}
				for _, f := range fs {
					go h.complete(f.it, outcome{kind: 0})
				}
			}
			time.Sleep(time.Millisecond)
		}
	}()
	go func() {
		// the source may be waiting for a command (any incarnation)
		for {
			ack := make(chan struct{})
			select {
			case r.srcCmd <- srcCmd{kind: 4, ack: ack}:
				return
			case <-stop:
				return
			}
		}
	}()
	select {
	case <-l.execDone:
	case <-time.After(1500 * time.Millisecond):
	}
	time.Sleep(2 * time.Millisecond)
	close(stop)
}

func runFree(in sx.Tree) sx.Tree {
	timeout := int(in.At(1).Int())
	cfgs := decCfgs(in.At(2))
	par := in.At(3)
	r := newRT(false, uint64(par.At(0).Int()))
	for _, ph := range par.Kids[1:] {
		r.script = append(r.script, srcPhase{count: int(ph.At(0).Int()), ok: ph.At(1).Bool()})
	}
	ex, roots, err := r.build(cfgs, timeout)
	if err != nil {
		return sx.T(sx.L(-2))
	}
	rootIDs := map[string]bool{}
	for _, rc := range roots {
		if !rc.Disabled {
			rootIDs[rc.ID] = true
		}
	}
	tab := table(ex, roots)
	netd := r.netDump(tab, rootIDs)
	stalled := false
	if in.Len() >= 5 {
		for _, k := range in.At(4).Kids {
			r.stall[k.Int()] = true
			stalled = true
		}
	}
	if in.Len() >= 6 {
		for _, k := range in.At(5).Kids {
			r.slow[k.Int()] = true
		}
	}
	if in.Len() >= 7 && in.At(6).Len() >= 1 {
		r.failPct = uint64(in.At(6).At(0).Int())
	}
	done := make(chan struct{})
	go func() {
		ex.Execute()
		close(done)
	}()
	// with some discarding subtree stalled, everybody else must still be able to go on: the source finishes
	// emitting (nobody upstream of the stalled nodes waits for them)
	stallOK := int64(1)
	stallInfo := []sx.Tree{}
	cut := int64(-1)
	if stalled {
		select {
		case <-r.srcEnded:
		case <-time.After(4 * time.Second):
			stallOK = 0
		}
		// wait until nothing moves any more (everybody except the stalled subtrees is done), then take stock
		prev, stable := int64(-1), 0
		for i := 0; i < 400 && stable < 6; i++ {
			time.Sleep(5 * time.Millisecond)
			r.mu.Lock()
			a := r.activity
			r.mu.Unlock()
			if a == prev {
				stable++
			} else {
				stable = 0
				prev = a
			}
		}
		// two stock-takings 300 ms apart: a delivery that was merely in flight at the first one has landed by
		// the second, a sender really waiting for a stalled node is still waiting
		for round := 0; round < 2; round++ {
			if round == 1 {
				time.Sleep(300 * time.Millisecond)
			}
			r.mu.Lock()
			c0 := int64(len(r.trace))
			r.mu.Unlock()
			if round == 0 {
				cut = c0
			}
			for _, c := range tab {
				if r.stall[r.idOf[c.Config.ID]] {
					_, _, _, _, disc := counters(c.Config.ID)
					stallInfo = append(stallInfo, sx.Ints(r.idOf[c.Config.ID], int64(len(c.Ch)), disc, c0))
				}
			}
		}
		close(r.stallCh)
	}
	limit := time.Duration(timeout)*time.Second + 3*time.Second
	for _, ph := range r.script {
		if !ph.ok {
			limit += 11 * time.Second
		}
	}
	select {
	case <-done:
		r.log(sx.T(sx.L(10), sx.B(r.allShutEnded(tab))))
	case <-time.After(limit):
	}
	r.mu.Lock()
	tr := append([]sx.Tree(nil), r.trace...)
	r.mu.Unlock()
	ks := []sx.Tree{}
	for _, c := range tab {
		recv, proc, filt, fail, disc := counters(c.Config.ID)
		ks = append(ks, sx.Ints(recv, proc, filt, fail, disc, bufferFull(c.Config.ID)))
	}
	return sx.T(netd, sx.T(tr...), sx.T(ks...), sx.T(sx.L(stallOK), sx.L(cut), sx.T(stallInfo...)))
}

// sourceEnded reports whether some incarnation's Start has returned nil.
func (r *rt) sourceEnded() bool {
	r.mu.Lock()
	defer r.mu.Unlock()
	return r.srcNil
}
