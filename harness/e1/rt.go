// Package e1 drives a real firebolt executor built from generated configurations with harness-owned
// source and node types (no hooks needed): lockstep gated scenarios and free-running runs.
package e1

import (
	"context"
	"errors"
	"fmt"
	"io"
	"os"
	"reflect"
	"sort"
	"sync"
	"time"

	"github.com/digitalocean/firebolt"
	"github.com/digitalocean/firebolt/config"
	"github.com/digitalocean/firebolt/executor"
	"github.com/digitalocean/firebolt/fbcontext"
	"github.com/digitalocean/firebolt/metrics"
	"github.com/digitalocean/firebolt/node"
	"github.com/digitalocean/firebolt/util"

	"fbverif/sx"
)

type item struct{ id, err int64 }

func (it item) tree() sx.Tree { return sx.Ints(it.id, it.err) }

type outcome struct {
	kind int // 0 results, 1 fail, 2 later
	ids  []int64
	err  int64
}

func (o outcome) tree() sx.Tree {
	switch o.kind {
	case 0:
		return sx.T(sx.L(0), sx.Ints(o.ids...))
	case 1:
		return sx.T(sx.L(1), sx.L(o.err))
	}
	return sx.T(sx.L(2))
}

func decOutcome(t sx.Tree) outcome {
	switch t.At(0).Int() {
	case 0:
		o := outcome{kind: 0}
		for _, k := range t.At(1).Kids {
			o.ids = append(o.ids, k.Int())
		}
		return o
	case 1:
		return outcome{kind: 1, err: t.At(1).Int()}
	}
	return outcome{kind: 2}
}

// nodeCfg mirrors the cfg tree of the case input.
type nodeCfg struct {
	id             int64
	kind           int
	workers, buf   int
	disabled, disc bool
	kids           []*nodeCfg
	handler        *nodeCfg
}

func decCfg(t sx.Tree) *nodeCfg {
	c := &nodeCfg{id: t.At(0).Int(), kind: int(t.At(1).Int()), workers: int(t.At(2).Int()), buf: int(t.At(3).Int()),
		disabled: t.At(4).Bool(), disc: t.At(5).Bool()}
	for _, k := range t.At(6).Kids {
		c.kids = append(c.kids, decCfg(k))
	}
	if t.At(7).Len() == 1 {
		h := t.At(7).At(0)
		c.handler = &nodeCfg{id: h.At(0).Int(), kind: int(h.At(1).Int()), workers: int(h.At(2).Int()), buf: int(h.At(3).Int()), disc: h.At(4).Bool()}
	}
	return c
}

var kindNames = []string{"vsync", "vfanout", "vasync"}

// gateEntry is one Process/ProcessAsync call waiting for its scripted outcome.
type gateEntry struct {
	it  item
	rel chan outcome
}

// flight is one async event handed to ProcessAsync and not yet called back.
type flight struct {
	it item
	ae *firebolt.AsyncEvent
	ev *firebolt.Event
}

type errInfo struct {
	code int64
	ev   *firebolt.Event
	err  error
}

// rt is the state of the case currently running in this process.
type rt struct {
	mu         sync.Mutex
	prefix     string
	lock       bool // lockstep (gated) mode
	seed       uint64
	nodes      map[string]*hnode
	idOf       map[string]int64
	trace      []sx.Tree
	srcCmd     chan srcCmd
	srcInc     int
	startedInc int
	srcNil     bool
	emitted    int64          // lockstep: events the source was told to emit (it blocks until the executor takes each)
	stall      map[int64]bool // free mode: nodes whose first call blocks until released
	slow       map[int64]bool // free mode: slow consumers (a short sleep per call)
	failPct    uint64         // free mode: percentage of calls that fail (default 16)
	stallCh    chan struct{}
	srcEnded   chan struct{}
	script     []srcPhase // free mode: per incarnation
	errs       map[string]*errInfo
	errSeq     int
	nextEv     int64
	done       chan struct{}
	activity   int64
	sink       bool // child process of a setup-failure scenario: every trace event is also written to stdout at once
}

type srcCmd struct {
	kind int // 1 emit, 4 end, 5 fail
	id   int64
	ack  chan struct{}
}

type srcPhase struct {
	count     int
	ok        bool
	setupFail bool // Setup of this incarnation returns an error
}

var cur *rt
var curMu sync.Mutex
var caseSeq int
var regOnce sync.Once

func (r *rt) log(t sx.Tree) {
	r.mu.Lock()
	r.trace = append(r.trace, t)
	r.activity++
	if r.sink {
		// unbuffered: the executor may end the process (os.Exit) right after this event
		_, _ = os.Stdout.WriteString("T " + t.String() + "\n")
	}
	r.mu.Unlock()
}

func register() {
	regOnce.Do(func() {
		reg := node.GetRegistry()
		reg.RegisterSourceType("vsrc", func() node.Source { return &hsrc{} }, reflect.TypeOf(int64(0)))
		reg.RegisterNodeType("vsync", func() node.Node { return &syncNode{hnode{kind: 0}} }, reflect.TypeOf(int64(0)), reflect.TypeOf(int64(0)))
		reg.RegisterNodeType("vfanout", func() node.Node { return &fanoutNode{hnode{kind: 1}} }, reflect.TypeOf(int64(0)), reflect.TypeOf(int64(0)))
		reg.RegisterNodeType("vasync", func() node.Node { return &asyncNode{hnode{kind: 2}} }, reflect.TypeOf(int64(0)), reflect.TypeOf(int64(0)))
	})
}

func (r *rt) toConfig(c *nodeCfg) *node.Config {
	idstr := fmt.Sprintf("%s%d", r.prefix, c.id)
	r.idOf[idstr] = c.id
	nc := &node.Config{ID: idstr, Name: kindNames[c.kind], Workers: c.workers, BufferSize: c.buf,
		Disabled: c.disabled, DiscardOnFullBuffer: c.disc, Params: map[string]string{}}
	for _, k := range c.kids {
		nc.Children = append(nc.Children, r.toConfig(k))
	}
	if c.handler != nil {
		nc.ErrorHandler = r.toConfig(c.handler)
	}
	return nc
}

// ---------------------------------------------------------------- nodes
type hnode struct {
	fbcontext.ContextAware
	r        *rt
	idstr    string
	nid      int64
	kind     int
	mu       sync.Mutex
	gate     []*gateEntry
	inflight []*flight
	shutB    bool
	shutE    bool
	cbWg     sync.WaitGroup // outstanding async callbacks (contract: Shutdown waits for them)
	flightCh chan struct{}  // signalled whenever inflight shrinks
}

func (h *hnode) Init(id string, ctx fbcontext.FBContext) {
	h.ContextAware.Init(id, ctx)
	curMu.Lock()
	h.r = cur
	curMu.Unlock()
	h.idstr = id
	h.nid = h.r.idOf[id]
	h.flightCh = make(chan struct{}, 1)
	h.r.mu.Lock()
	h.r.nodes[id] = h
	h.r.mu.Unlock()
}
func (h *hnode) Setup(cfg map[string]string) error {
	h.r.log(sx.T(sx.L(11), sx.L(h.nid)))
	return nil
}
func (h *hnode) Receive(msg fbcontext.Message) error { return nil }

func (h *hnode) itemOf(ev *firebolt.Event) item {
	switch p := ev.Payload.(type) {
	case int64:
		return item{p, 0}
	case firebolt.EventError:
		// identity of the original event and of the very error the failing node returned
		h.r.mu.Lock()
		defer h.r.mu.Unlock()
		if p.Err == nil {
			return item{-1, -1}
		}
		info := h.r.errs[p.Err.Error()]
		if info == nil {
			return item{-1, -2}
		}
		same := false
		func() {
			defer func() { _ = recover() }()
			same = p.Err == info.err
		}()
		evp, ok := p.Event.(*firebolt.Event)
		if !same || !ok || evp != info.ev {
			return item{-1, -3}
		}
		if id, ok := evp.Payload.(int64); ok {
			return item{id, info.code}
		}
		if ee, ok := evp.Payload.(firebolt.EventError); ok { // a handler's own failure (no handler of its own): not reachable
			_ = ee
		}
		return item{-1, -4}
	}
	return item{-1, -5}
}

func (h *hnode) mkErr(code int64, ev *firebolt.Event) error {
	h.r.mu.Lock()
	defer h.r.mu.Unlock()
	h.r.errSeq++
	msg := fmt.Sprintf("verr-%s-%d", h.r.prefix, h.r.errSeq)
	var e error
	switch h.r.errSeq % 3 {
	case 0:
		e = firebolt.NewFBError(fmt.Sprintf("CODE%d", code), msg)
	case 1:
		e = errors.New(msg)
	default:
		// an error that wraps a structured one: the handler must still get THIS error, not the one inside
		e = fmt.Errorf("%s: %w", msg, firebolt.NewFBError(fmt.Sprintf("CODE%d", code), "inner"))
	}
	h.r.errs[e.Error()] = &errInfo{code: code, ev: ev, err: e}
	return e
}

// wait at the gate (lockstep) or compute the scripted outcome (free mode)
func (h *hnode) decide(ev *firebolt.Event, it item) outcome {
	if h.r.lock {
		g := &gateEntry{it: it, rel: make(chan outcome, 1)}
		h.mu.Lock()
		h.gate = append(h.gate, g)
		h.mu.Unlock()
		h.r.log(sx.T(sx.L(5), sx.L(h.nid), it.tree()))
		o := <-g.rel
		return o
	}
	h.r.log(sx.T(sx.L(5), sx.L(h.nid), it.tree()))
	if h.r.stall[h.nid] {
		<-h.r.stallCh // stalled until the harness has seen whether everybody else could go on
	}
	if h.r.slow[h.nid] {
		time.Sleep(15 * time.Microsecond)
	}
	return h.freeOutcome(it, false)
}

func mix(a, b, c uint64) uint64 {
	r := sx.NewRng(a ^ (b * 0x9e3779b97f4a7c15) ^ (c * 0xc2b2ae3d27d4eb4f))
	return r.Next()
}

func (h *hnode) freeOutcome(it item, callback bool) outcome {
	hv := mix(h.r.seed, uint64(h.nid)+1, uint64(it.id)*7+uint64(it.err))
	if d := hv >> 40 % 7; d < 3 { // small latency on some calls
		time.Sleep(time.Duration(d*60+20) * time.Microsecond)
	}
	base := (it.id*13+h.nid+1)*8 + it.err
	switch x := hv % 100; {
	case x < 14:
		return outcome{kind: 0}
	case x < 14+h.r.failPct:
		return outcome{kind: 1, err: int64(hv>>8%3) + 1}
	case x < 46+h.r.failPct && h.kind == 2 && !callback:
		return outcome{kind: 2}
	default:
		n := 1
		if h.kind == 1 {
			n = int(hv >> 16 % 4)
		}
		if h.kind != 1 && it.err == 0 && hv>>24%3 == 0 {
			return outcome{kind: 0, ids: []int64{it.id}} // pass the same event on
		}
		o := outcome{kind: 0}
		for j := 0; j < n; j++ {
			o.ids = append(o.ids, base*4+int64(j))
		}
		return o
	}
}

func (h *hnode) removeGate(it item) *gateEntry {
	h.mu.Lock()
	defer h.mu.Unlock()
	for i, g := range h.gate {
		if g.it == it {
			h.gate = append(h.gate[:i], h.gate[i+1:]...)
			return g
		}
	}
	return nil
}

func (h *hnode) Shutdown() error {
	h.mu.Lock()
	h.shutB = true
	h.mu.Unlock()
	h.r.log(sx.T(sx.L(8), sx.L(h.nid)))
	if h.kind == 2 {
		// contract of async nodes: flush — wait until every accepted event has been called back
		for {
			h.mu.Lock()
			n := len(h.inflight)
			h.mu.Unlock()
			if n == 0 {
				break
			}
			select {
			case <-h.flightCh:
			case <-time.After(2 * time.Millisecond):
			}
		}
		h.cbWg.Wait()
	}
	h.r.log(sx.T(sx.L(9), sx.L(h.nid)))
	h.mu.Lock()
	h.shutE = true
	h.mu.Unlock()
	if h.nid%3 == 1 {
		// a Shutdown that reports an error has still returned: the framework logs it and carries on
		return errors.New("scripted shutdown error")
	}
	return nil
}

type syncNode struct{ hnode }

func (n *syncNode) Process(ev *firebolt.Event) (*firebolt.Event, error) {
	it := n.itemOf(ev)
	o := n.decide(ev, it)
	n.removeGate(it)
	n.r.log(sx.T(sx.L(6), sx.L(n.nid), it.tree(), o.tree()))
	switch o.kind {
	case 1:
		if o.err%2 == 0 {
			// a node may hand back an event together with its error: the error decides (the event is failed)
			return ev.WithPayload(int64(-7)), n.mkErr(o.err, ev)
		}
		return nil, n.mkErr(o.err, ev)
	default:
		if len(o.ids) == 0 {
			return nil, nil
		}
		if o.ids[0] == it.id && it.err == 0 {
			return ev, nil // pass the very same event on
		}
		return ev.WithPayload(o.ids[0]), nil
	}
}

type fanoutNode struct{ hnode }

func (n *fanoutNode) Process(ev *firebolt.Event) ([]firebolt.Event, error) {
	it := n.itemOf(ev)
	o := n.decide(ev, it)
	n.removeGate(it)
	n.r.log(sx.T(sx.L(6), sx.L(n.nid), it.tree(), o.tree()))
	if o.kind == 1 {
		if o.err%2 == 0 {
			// partial results together with the error: the error decides
			return []firebolt.Event{*ev.WithPayload(int64(-7)), *ev.WithPayload(int64(-8))}, n.mkErr(o.err, ev)
		}
		return nil, n.mkErr(o.err, ev)
	}
	res := []firebolt.Event{}
	for _, id := range o.ids {
		if id == it.id && it.err == 0 {
			res = append(res, *ev)
		} else {
			res = append(res, *ev.WithPayload(id))
		}
	}
	if len(res) == 0 && it.id%2 == 0 {
		return nil, nil // both nil and empty slices mean "filtered"
	}
	return res, nil
}

type asyncNode struct{ hnode }

func (n *hnode) answer(ae *firebolt.AsyncEvent, ev *firebolt.Event, it item, o outcome) {
	switch o.kind {
	case 1:
		ae.ReturnError(n.mkErr(o.err, ev))
	default:
		if len(o.ids) == 0 {
			if it.id%2 == 0 {
				ae.ReturnFiltered()
			} else {
				ae.ReturnEvent(nil)
			}
			return
		}
		if o.ids[0] == it.id && it.err == 0 {
			ae.ReturnEvent(ae) // pass the very same (retained) event on, as batching nodes do
			return
		}
		ae.ReturnEvent(ae.WithPayload(o.ids[0]))
	}
}

func (n *asyncNode) ProcessAsync(ae *firebolt.AsyncEvent) {
	ev := ae.Event
	it := n.itemOf(ev)
	o := n.decide(ev, it)
	n.removeGate(it)
	if o.kind == 2 {
		f := &flight{it: it, ae: ae, ev: ev}
		n.mu.Lock()
		n.inflight = append(n.inflight, f)
		n.mu.Unlock()
		n.r.log(sx.T(sx.L(6), sx.L(n.nid), it.tree(), o.tree()))
		if !n.r.lock {
			// free mode: complete later from another goroutine, out of order
			hv := mix(n.r.seed^0xabc, uint64(n.nid)+1, uint64(it.id))
			n.cbWg.Add(1)
			go func() {
				defer n.cbWg.Done()
				time.Sleep(time.Duration(hv%400) * time.Microsecond)
				n.complete(it, n.freeOutcome(it, true))
			}()
		}
		return
	}
	// inline completion on the worker goroutine
	n.r.log(sx.T(sx.L(6), sx.L(n.nid), it.tree(), o.tree()))
	n.answer(ae, ev, it, o)
}

// complete fires the callback of an in-flight event from the calling (foreign) goroutine.
func (n *hnode) complete(it item, o outcome) bool {
	n.mu.Lock()
	var f *flight
	for i, x := range n.inflight {
		if x.it == it {
			f = x
			n.inflight = append(n.inflight[:i], n.inflight[i+1:]...)
			break
		}
	}
	if f != nil && n.r.lock {
		n.cbWg.Add(1)
	}
	n.mu.Unlock()
	if f == nil {
		return false
	}
	n.r.log(sx.T(sx.L(7), sx.L(n.nid), it.tree(), o.tree()))
	select {
	case n.flightCh <- struct{}{}:
	default:
	}
	if n.r.lock {
		defer n.cbWg.Done()
	}
	n.answer(f.ae, f.ev, f.it, o)
	return true
}

// ---------------------------------------------------------------- source
// scriptedSourceErr: what a failing incarnation returns from Start.  Any error means "restart me" (C18); the kinds differ
// only in what they wrap.
func scriptedSourceErr(inc int) error {
	switch (inc + 1) % 4 {
	case 1:
		return fmt.Errorf("scripted source failure: poll upstream: %w", context.Canceled)
	case 2:
		return io.EOF
	case 3:
		return fmt.Errorf("scripted source failure: %w", context.DeadlineExceeded)
	}
	return errors.New("scripted source failure")
}

type hsrc struct {
	fbcontext.ContextAware
	r   *rt
	ch  chan firebolt.Event
	inc int
	// Setup returned an error: a Start of this instance is logged and ends the run at once
	noSetup bool
}

func (s *hsrc) Init(id string, ctx fbcontext.FBContext) {
	s.ContextAware.Init(id, ctx)
	curMu.Lock()
	s.r = cur
	curMu.Unlock()
}
func (s *hsrc) Setup(cfg map[string]string, ch chan firebolt.Event) error {
	s.ch = ch
	s.r.mu.Lock()
	s.inc = s.r.srcInc
	s.r.srcInc++
	fail := !s.r.lock && s.inc < len(s.r.script) && s.r.script[s.inc].setupFail
	s.r.mu.Unlock()
	if fail {
		s.noSetup = true
		s.r.log(sx.T(sx.L(12), sx.L(int64(s.inc))))
		return errors.New("scripted setup failure")
	}
	s.r.log(sx.T(sx.L(1), sx.L(int64(s.inc))))
	return nil
}
func (s *hsrc) Receive(msg fbcontext.Message) error { return nil }

// Shutdown is what Executor.Shutdown() calls: a well-behaved source then returns nil from Start.
func (s *hsrc) Shutdown() error {
	if s.r.lock {
		go func() {
			select {
			case s.r.srcCmd <- srcCmd{kind: 4, ack: make(chan struct{})}:
			case <-time.After(3 * time.Second):
			}
		}()
	}
	return nil
}
func (s *hsrc) Start() error {
	s.r.log(sx.T(sx.L(2), sx.L(int64(s.inc))))
	s.r.mu.Lock()
	s.r.startedInc = s.inc
	s.r.mu.Unlock()
	if s.r.lock {
		for c := range s.r.srcCmd {
			switch c.kind {
			case 1:
				s.r.log(sx.T(sx.L(4), sx.L(c.id)))
				s.r.mu.Lock()
				s.r.emitted++
				s.r.mu.Unlock()
				s.ch <- firebolt.Event{Payload: c.id, Created: time.Now()}
				close(c.ack)
			case 4:
				s.r.log(sx.T(sx.L(3), sx.L(int64(s.inc)), sx.L(1)))
				s.r.mu.Lock()
				s.r.srcNil = true
				s.r.mu.Unlock()
				close(c.ack)
				return nil
			case 5:
				s.r.log(sx.T(sx.L(3), sx.L(int64(s.inc)), sx.L(0)))
				close(c.ack)
				return scriptedSourceErr(s.inc)
			}
		}
		return nil
	}
	if s.noSetup {
		s.r.log(sx.T(sx.L(3), sx.L(int64(s.inc)), sx.L(1)))
		return nil
	}
	ph := srcPhase{count: 0, ok: true}
	if s.inc < len(s.r.script) {
		ph = s.r.script[s.inc]
	}
	for i := 0; i < ph.count; i++ {
		s.r.mu.Lock()
		s.r.nextEv++
		id := s.r.nextEv
		s.r.mu.Unlock()
		s.r.log(sx.T(sx.L(4), sx.L(id)))
		s.ch <- firebolt.Event{Payload: id, Created: time.Now()}
	}
	s.r.log(sx.T(sx.L(3), sx.L(int64(s.inc)), sx.B(ph.ok)))
	if ph.ok {
		select {
		case <-s.r.srcEnded:
		default:
			close(s.r.srcEnded)
		}
		return nil
	}
	return scriptedSourceErr(s.inc)
}

// ---------------------------------------------------------------- building and observing
func newRT(lock bool, seed uint64) *rt {
	register()
	curMu.Lock()
	caseSeq++
	r := &rt{prefix: fmt.Sprintf("k%d_", caseSeq), lock: lock, seed: seed, nodes: map[string]*hnode{}, idOf: map[string]int64{},
		srcCmd: make(chan srcCmd), errs: map[string]*errInfo{}, done: make(chan struct{}),
		stall: map[int64]bool{}, slow: map[int64]bool{}, failPct: 16, stallCh: make(chan struct{}), srcEnded: make(chan struct{})}
	cur = r
	curMu.Unlock()
	return r
}

func (r *rt) build(cfgs []*nodeCfg, timeout int) (*executor.Executor, []*node.Config, error) {
	var roots []*node.Config
	for _, c := range cfgs {
		roots = append(roots, r.toConfig(c))
	}
	c := config.Config{ApplicationName: "verif", MetricsPrefix: "verif", Source: &node.SourceConfig{Name: "vsrc", ID: r.prefix + "src", Params: map[string]string{}},
		Nodes: roots, ShutdownTimeOut: timeout}
	ex, err := executor.New(executor.WithConfig(c))
	return ex, roots, err
}

// table walks the REAL context tree in setup order (node, handler, children preorder).
func table(ex *executor.Executor, roots []*node.Config) []*node.Context {
	var out []*node.Context
	var walk func(c *node.Context)
	walk = func(c *node.Context) {
		out = append(out, c)
		if c.ErrorHandler != nil {
			out = append(out, c.ErrorHandler)
		}
		for _, k := range c.Children {
			walk(k)
		}
	}
	for _, rc := range roots {
		if ctx := ex.FindNodeByID(rc.ID); ctx != nil && isRoot(ex, rc.ID, ctx) {
			walk(ctx)
		}
	}
	return out
}

// FindNodeByID searches all roots depth-first; a disabled root is simply not found as a root (ids are unique per case).
func isRoot(ex *executor.Executor, id string, ctx *node.Context) bool { return ctx.Config.ID == id }

func kindCode(ctx *node.Context) int64 {
	switch ctx.NodeType {
	case node.Sync:
		return 0
	case node.Fanout:
		return 1
	case node.Async:
		return 2
	}
	return -1
}

func (r *rt) netDump(tab []*node.Context, nroots map[string]bool) sx.Tree {
	handlers := map[*node.Context]bool{}
	for _, c := range tab {
		if c.ErrorHandler != nil {
			handlers[c.ErrorHandler] = true
		}
	}
	rows := []sx.Tree{}
	for _, c := range tab {
		kids := []sx.Tree{}
		for _, k := range c.Children {
			kids = append(kids, sx.L(r.idOf[k.Config.ID]))
		}
		h := sx.T()
		if c.ErrorHandler != nil {
			h = sx.T(sx.L(r.idOf[c.ErrorHandler.Config.ID]))
		}
		role := int64(1)
		if handlers[c] {
			role = 2
		} else if nroots[c.Config.ID] {
			role = 0
		}
		rows = append(rows, sx.T(sx.L(r.idOf[c.Config.ID]), sx.L(kindCode(c)), sx.L(int64(c.Config.Workers)), sx.L(int64(cap(c.Ch))),
			sx.B(c.Config.DiscardOnFullBuffer), sx.T(kids...), h, sx.L(role)))
	}
	return sx.T(rows...)
}

func sortedItems(l []item) sx.Tree {
	sort.Slice(l, func(i, j int) bool {
		if l[i].id != l[j].id {
			return l[i].id < l[j].id
		}
		return l[i].err < l[j].err
	})
	k := []sx.Tree{}
	for _, it := range l {
		k = append(k, it.tree())
	}
	return sx.T(k...)
}

func bufferFull(id string) int64 {
	v, err := util.GetCounterVecValue(metrics.Node().BufferFullEvents, id)
	if err != nil {
		return -1
	}
	return int64(v)
}

func counters(id string) (recv, proc, filt, fail, disc int64) {
	g := func(v float64, err error) int64 {
		if err != nil {
			return -1
		}
		return int64(v)
	}
	m := metrics.Node()
	recv = g(util.GetCounterVecValue(m.EventsReceived, id))
	proc = g(util.GetCounterVecValue(m.Successes, id))
	filt = g(util.GetCounterVecValue(m.Filtered, id))
	fail = g(util.GetCounterVecValue(m.Failures, id))
	disc = g(util.GetCounterVecValue(m.DiscardedEvents, id))
	return
}

func (r *rt) snapshot(tab []*node.Context, mainCode int64, srcState sx.Tree) sx.Tree {
	rows := []sx.Tree{}
	for _, c := range tab {
		h := r.nodeOf(c.Config.ID)
		var gate, infl []item
		sb, se := false, false
		if h != nil {
			h.mu.Lock()
			for _, g := range h.gate {
				gate = append(gate, g.it)
			}
			for _, f := range h.inflight {
				infl = append(infl, f.it)
			}
			sb, se = h.shutB, h.shutE
			h.mu.Unlock()
		}
		recv, proc, filt, fail, disc := counters(c.Config.ID)
		rows = append(rows, sx.T(sx.L(int64(len(c.Ch))), sortedItems(gate), sortedItems(infl),
			sx.Ints(recv, proc, filt, fail), sx.L(disc), sx.T(sx.B(sb), sx.B(se))))
	}
	return sx.T(sx.T(rows...), sx.L(mainCode), srcState)
}

func (r *rt) nodeOf(id string) *hnode {
	r.mu.Lock()
	defer r.mu.Unlock()
	return r.nodes[id]
}

func (r *rt) allShutEnded(tab []*node.Context) bool {
	for _, c := range tab {
		h := r.nodeOf(c.Config.ID)
		if h == nil {
			return false
		}
		h.mu.Lock()
		e := h.shutE
		h.mu.Unlock()
		if !e {
			return false
		}
	}
	return true
}
