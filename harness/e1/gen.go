package e1

import "fbverif/sx"

type genState struct {
	big    bool
	r      *sx.Rng
	nextID int64
	nodes  int
}

func (g *genState) tree(depth int, focus string) sx.Tree {
	r := g.r
	g.nextID++
	id := g.nextID
	g.nodes++
	kind := int64(sx.Pick(r, 0, 0, 1, 2))
	if focus == "C16" && r.Chance(40) {
		kind = 1
	}
	workers := int64(sx.Pick(r, 1, 1, 2, 3))
	buf := int64(sx.Pick(r, 1, 1, 2, 3))
	disabled := depth > 0 && r.Chance(8)
	if depth == 0 && r.Chance(4) {
		disabled = true
	}
	disc := r.Chance(22)
	if focus == "C02" || focus == "C16" {
		disc = r.Chance(35)
	}
	kids := []sx.Tree{}
	maxDepth, maxNodes := 3, 9
	if g.big {
		maxDepth, maxNodes = 4, 16
	}
	if depth < maxDepth && g.nodes < maxNodes {
		nk := sx.Pick(r, 0, 1, 1, 2, 2, 3)
		if depth == 0 && nk == 0 {
			nk = 1
		}
		for i := 0; i < nk && g.nodes < maxNodes+1; i++ {
			kids = append(kids, g.tree(depth+1, focus))
		}
	}
	h := sx.T()
	hp := 35
	if focus == "C02" {
		hp = 70
	}
	if r.Chance(hp) {
		g.nextID++
		h = sx.T(sx.Ints(g.nextID, int64(sx.Pick(r, 0, 0, 2)), int64(sx.Pick(r, 1, 1, 2, 3)), int64(sx.Pick(r, 1, 1, 2)), b2i(r.Chance(30))))
	}
	return sx.T(sx.L(id), sx.L(kind), sx.L(workers), sx.L(buf), sx.B(disabled), sx.B(disc), sx.T(kids...), h)
}

func b2i(b bool) int64 {
	if b {
		return 1
	}
	return 0
}

// netLen is the number of rows of the running table (enabled nodes and their handlers).
func netLen(cfgs []sx.Tree) int {
	n := 0
	var walk func(t sx.Tree)
	walk = func(t sx.Tree) {
		if t.At(4).Bool() {
			return
		}
		n++
		if t.At(7).Len() == 1 {
			n++
		}
		for _, k := range t.At(6).Kids {
			walk(k)
		}
	}
	for _, c := range cfgs {
		walk(c)
	}
	return n
}

// comb: one fast multi-worker root feeding several small discarding children (many concurrent producers per
// discarding buffer: the situation in which "discard" must stay atomic with "full")
func comb(r *sx.Rng) (sx.Tree, []sx.Tree) {
	kids := []sx.Tree{}
	stall := []sx.Tree{}
	nk := int(r.Range(3, 7))
	for i := 0; i < nk; i++ {
		id := int64(10 + i)
		kids = append(kids, sx.T(sx.L(id), sx.L(0), sx.L(1), sx.L(r.Range(1, 2)), sx.B(false), sx.B(true), sx.T(), sx.T()))
		stall = append(stall, sx.L(id))
	}
	root := sx.T(sx.L(1), sx.L(1), sx.L(r.Range(3, 4)), sx.L(r.Range(1, 3)), sx.B(false), sx.B(false), sx.T(kids...), sx.T())
	return root, stall
}

// Gen generates one case; the mix of lockstep / free-running and the scenario shapes depend on the focus.
func Gen(r *sx.Rng, idx int, focus string) sx.Tree {
	big := false
	if len(focus) > 0 && focus[len(focus)-1] == '+' { // thorough tier: larger trees, longer scenarios
		big = true
		focus = focus[:len(focus)-1]
	}
	if (focus == "C04" && r.Chance(25)) || (focus == "C16" && r.Chance(15)) || (focus != "C04" && focus != "C16" && r.Chance(3)) {
		root, ids := comb(r)
		if r.Chance(40) { // stalled for the whole emission phase
			return sx.T(sx.L(0), sx.L(2), sx.T(root), sx.T(sx.L(int64(r.Next()>>8)), sx.Ints(r.Range(150, 500), 1)), sx.T(ids...), sx.T())
		}
		// slow consumers: every freed slot is a new chance for two producers to meet at a nearly full buffer
		return sx.T(sx.L(0), sx.L(2), sx.T(root), sx.T(sx.L(int64(r.Next()>>8)), sx.Ints(r.Range(400, 1500), 1)), sx.T(), sx.T(ids...))
	}
	g := &genState{r: r, big: big}
	nroots := sx.Pick(r, 1, 1, 1, 2)
	if big {
		nroots = sx.Pick(r, 1, 1, 2, 3)
	}
	cfgs := []sx.Tree{}
	for i := 0; i < nroots; i++ {
		cfgs = append(cfgs, g.tree(0, focus))
	}
	if len(cfgs) >= 2 && r.Chance(40) {
		// two roots of the same capacity: one source event can find both of them full
		a, b := cfgs[0], cfgs[1]
		kids := append([]sx.Tree{b.At(0), b.At(1), a.At(2), a.At(3)}, b.Kids[4:]...)
		cfgs[1] = sx.T(kids...)
	}
	if len(cfgs) >= 2 && ((focus == "C16" || focus == "C04") && r.Chance(25) || r.Chance(6)) {
		// a disabled root listed before an enabled discarding one with a small buffer: its discards are its own
		a, b := cfgs[0], cfgs[1]
		ka := append([]sx.Tree{a.At(0), a.At(1), a.At(2), a.At(3), sx.L(1)}, a.Kids[5:]...)
		kb := append([]sx.Tree{b.At(0), b.At(1), sx.L(1), sx.L(1), sx.L(0), sx.L(1)}, b.Kids[6:]...)
		cfgs[0], cfgs[1] = sx.T(ka...), sx.T(kb...)
	}
	lockPct := 50
	switch focus {
	case "C17":
		lockPct = 100
	case "C04":
		lockPct = 60
	case "C05", "C16":
		lockPct = 30
	}
	if !r.Chance(lockPct) {
		// free-running
		n := int64(r.Range(0, 40))
		phases := []sx.Tree{sx.L(int64(r.Next() >> 8))}
		if focus == "C18" && r.Chance(5) {
			// the Setup of the replacement source fails (run in a child process: the executor exits then)
			k := n / 3
			phases = append(phases, sx.Ints(k, 0), sx.Ints(n-k, 1, 1), sx.Ints(1, 1))
			return sx.T(sx.L(2), sx.L(2), sx.T(cfgs...), sx.T(phases...))
		}
		if focus == "C18" && r.Chance(9) {
			k := n / 2
			phases = append(phases, sx.Ints(k, 0), sx.Ints(n-k, 1))
		} else {
			phases = append(phases, sx.Ints(n, 1))
		}
		// stall one discarding node (if any) for the whole emission phase: nobody else may have to wait for it
		stall := []sx.Tree{}
		if (focus == "C04" && r.Chance(80)) || r.Chance(25) {
			if ids := discardingIDs(cfgs); len(ids) > 0 {
				stall = append(stall, sx.L(ids[r.Intn(len(ids))]))
				if focus == "C04" {
					phases[1] = sx.Ints(r.Range(100, 600), 1)
					phases = phases[:2]
				}
			}
		}
		if ((focus == "C02" && r.Chance(60)) || ((focus == "C04" || focus == "C16") && r.Chance(25))) && len(stall) == 0 {
			// slow error handlers and many failures: handler buffers fill, reports must still all arrive (or be
			// discarded and counted when the HANDLER is marked discard_on_full_buffer)
			phases[1] = sx.Ints(r.Range(60, 200), 1)
			phases = phases[:2]
			return sx.T(sx.L(0), sx.L(2), sx.T(cfgs...), sx.T(phases...), sx.T(), sx.T(handlerIDs(cfgs)...), sx.Ints(45))
		}
		return sx.T(sx.L(0), sx.L(2), sx.T(cfgs...), sx.T(phases...), sx.T(stall...))
	}
	// lockstep scenario
	ints := []sx.Tree{}
	rel := func() sx.Tree {
		kinds := []int{0, 0, 0, 1, 2, 2, 3, 3, 4, 4}
		switch focus {
		case "C02": // many failures, so that handler buffers fill
			kinds = []int{0, 1, 2, 2, 2, 2, 2, 3, 4}
		case "C16", "C04": // many multi-result fanouts, so that several events of one delivery meet a full buffer
			kinds = []int{0, 1, 2, 3, 3, 3, 3, 3, 4}
		}
		return sx.Ints(2, r.Range(0, 15), r.Range(0, 3), int64(kinds[r.Intn(len(kinds))]), r.Range(0, 7))
	}
	comp := func() sx.Tree {
		return sx.Ints(3, r.Range(0, 15), r.Range(0, 3), int64(sx.Pick(r, 0, 0, 1, 2, 3)), r.Range(0, 7))
	}
	steps := int(r.Range(5, 45))
	if big {
		steps = int(r.Range(20, 110))
	}
	if len(cfgs) >= 2 && r.Chance(35) {
		// opening burst: the source emits until the main loop is blocked (further emits are skipped by the model)
		for i := 0; i < 9; i++ {
			ints = append(ints, sx.Ints(1))
		}
	}
	for i := 0; i < steps; i++ {
		switch x := r.Intn(100); {
		case x < 30:
			ints = append(ints, sx.Ints(1))
		case x < 85:
			ints = append(ints, rel())
		default:
			ints = append(ints, comp())
		}
	}
	stall := (focus == "C17" && r.Chance(70)) || (focus != "C17" && r.Chance(6))
	if focus == "C18" && r.Chance(7) {
		ints = append(ints, sx.Ints(5), sx.Ints(1), rel(), sx.Ints(1))
	}
	if (focus == "C03" && r.Chance(45)) || (focus != "C03" && r.Chance(20)) {
		// end by SIGTERM instead; often while the main loop is blocked handing an event to a full root buffer
		if r.Chance(60) {
			for i := 0; i < int(r.Range(2, 7)); i++ {
				ints = append(ints, sx.Ints(1))
			}
		}
		ints = append(ints, sx.Ints(7))
	} else {
		ints = append(ints, sx.Ints(4))
	}
	if !stall {
		// drain: release everything, several passes
		for pass := 0; pass < 4; pass++ {
			for n := int64(0); n < int64(netLen(cfgs)); n++ {
				ints = append(ints, sx.Ints(2, n, 0, int64(sx.Pick(r, 0, 0, 1, 2, 3)), r.Range(0, 7)))
				ints = append(ints, sx.Ints(3, n, 0, int64(sx.Pick(r, 0, 1, 2)), r.Range(0, 7)))
			}
		}
	} else if r.Chance(60) {
		// everybody finishes except one stalled row: the cascade completes around it
		nl := int64(netLen(cfgs))
		st := r.Range(0, nl)
		for pass := 0; pass < 4; pass++ {
			for n := int64(0); n < nl; n++ {
				if n == st {
					continue
				}
				ints = append(ints, sx.Ints(2, n, 0, int64(sx.Pick(r, 0, 1, 2, 3)), r.Range(0, 7)))
				ints = append(ints, sx.Ints(3, n, 0, int64(sx.Pick(r, 0, 1, 2)), r.Range(0, 7)))
			}
		}
	} else {
		for i := 0; i < int(r.Range(0, 6)); i++ {
			ints = append(ints, rel())
		}
	}
	ints = append(ints, sx.Ints(6))
	tmo := int64(1)
	if focus == "C17" && stall && r.Chance(7) {
		tmo = 6 // longer than any periodic activity inside the wait: the bound is the configured timeout, whatever it is
	}
	return sx.T(sx.L(1), sx.L(tmo), sx.T(cfgs...), sx.T(ints...))
}

// discardingIDs lists the ids of enabled nodes (not handlers) marked discard_on_full_buffer whose ancestors are enabled.
func discardingIDs(cfgs []sx.Tree) []int64 {
	var out []int64
	var walk func(t sx.Tree)
	walk = func(t sx.Tree) {
		if t.At(4).Bool() {
			return
		}
		if t.At(5).Bool() {
			out = append(out, t.At(0).Int())
		}
		for _, k := range t.At(6).Kids {
			walk(k)
		}
	}
	for _, c := range cfgs {
		walk(c)
	}
	return out
}

// handlerIDs lists the ids of the error handlers of enabled nodes.
func handlerIDs(cfgs []sx.Tree) []sx.Tree {
	var out []sx.Tree
	var walk func(t sx.Tree)
	walk = func(t sx.Tree) {
		if t.At(4).Bool() {
			return
		}
		if t.At(7).Len() == 1 {
			out = append(out, sx.L(t.At(7).At(0).At(0).Int()))
		}
		for _, k := range t.At(6).Kids {
			walk(k)
		}
	}
	for _, c := range cfgs {
		walk(c)
	}
	return out
}
