package e5

import (
	"encoding/base64"
	"encoding/json"
	"reflect"
	"sync"
	"time"

	"github.com/digitalocean/firebolt"
	"github.com/digitalocean/firebolt/node"

	"fbverif/sx"
)

var regOnce sync.Once

func registerTypes() {
	regOnce.Do(func() {
		node.GetRegistry().RegisterSourceType("e5src", func() node.Source {
			s := &srcT{}
			srcInstances = append(srcInstances, s)
			return s
		}, reflect.TypeOf(""))
		node.GetRegistry().RegisterNodeType("e5node", func() node.Node { return &nodeT{} }, reflect.TypeOf(""), reflect.TypeOf(""))
	})
}

var _ = firebolt.Event{}

// ------------------------------------------------------------------ strings

// valid UTF-8 pieces covering every escape class of encoding/json: quotes, backslash, control characters,
// the HTML-escaped <>&, U+2028/2029, DEL, 2/3/4-byte sequences, U+FFFD itself, NUL
var pieces = []string{
	"a", "b", "c", "k", "T", "z", "0", "9", " ", "_", ".", ":", "/",
	"\"", "\\", "\n", "\r", "\t", "\b", "\f", "\x00", "\x01", "\x1f", "\x7f",
	"<", ">", "&", "'", " ", " ", "é", "ÿ", "\u0080", "߿", "ࠀ", "￿", "�",
	"\U00010000", "\U0001F600", "\U0010FFFF", "日本", "{", "}", "[", "]", ",", "\\u0041", "%", "=", "+",
}

func utf8String(r *sx.Rng, maxPieces int, dashPct int) string {
	n := r.Intn(maxPieces + 1)
	s := ""
	for i := 0; i < n; i++ {
		if r.Chance(dashPct) {
			s += "-"
		} else if r.Chance(60) {
			s += pieces[r.Intn(13)]
		} else {
			s += pieces[r.Intn(len(pieces))]
		}
	}
	return s
}

func payload(r *sx.Rng, max int) []byte {
	switch r.Intn(6) {
	case 0:
		return []byte{}
	case 1:
		n := r.Intn(max + 1)
		b := make([]byte, n)
		for i := range b {
			b[i] = byte(r.Intn(256))
		}
		return b
	case 2:
		return []byte{0}
	default:
		n := r.Intn(9)
		b := make([]byte, n)
		for i := range b {
			b[i] = byte('a' + r.Intn(26))
		}
		return b
	}
}

type pair struct{ t, k string }

// a pool of (type,key) pairs that contains families whose naive concatenations coincide
func pairPool(r *sx.Rng, n int, dashInType bool) []pair {
	pool := []pair{}
	for len(pool) < n {
		switch r.Intn(7) {
		case 0, 1: // split one string at two different places: "ab"+"c" / "a"+"bc"
			base := utf8String(r, 4, 0)
			if base == "" {
				base = "abc"
			}
			rs := []rune(base)
			i, j := r.Intn(len(rs)+1), r.Intn(len(rs)+1)
			pool = append(pool, pair{string(rs[:i]), string(rs[i:])}, pair{string(rs[:j]), string(rs[j:])})
		case 2: // keys with dashes sharing prefixes with other types: ("a","b-c") ("a","b") ("a-b","c")
			a, b, c := utf8String(r, 2, 0), utf8String(r, 2, 0), utf8String(r, 2, 0)
			pool = append(pool, pair{a, b + "-" + c}, pair{a, b})
			if dashInType {
				pool = append(pool, pair{a + "-" + b, c})
			}
		case 3:
			pool = append(pool, pair{"", utf8String(r, 2, 30)}, pair{utf8String(r, 2, 0), ""})
		default:
			d := 0
			if dashInType {
				d = 10
			}
			pool = append(pool, pair{utf8String(r, 3, d), utf8String(r, 3, 15)})
		}
	}
	return pool
}

// ------------------------------------------------------------------ kind 10

type wireJSON struct {
	Message struct {
		MessageType string `json:"messagetype"`
		Key         string `json:"key"`
		Payload     []byte `json:"payload"`
	} `json:"message"`
	Updated time.Time `json:"updated"`
	Ack     bool      `json:"ack"`
}

func jstr(s string) string {
	b, _ := json.Marshal(s)
	return string(b)
}

// the value of a well-formed record, in one of several spellings encoding/json accepts
func rawRecord(r *sx.Rng, p pair, pl []byte, ack bool, small bool) []byte {
	v := r.Intn(10)
	if small {
		v = 1
	}
	switch v {
	case 0: // other field order, extra fields, whitespace
		return []byte(`{ "ack":` + map[bool]string{true: "true", false: "false"}[ack] + `, "extra":[1,{"a":null}], "message" : {"payload":"` +
			base64.StdEncoding.EncodeToString(pl) + `","key":` + jstr(p.k) + `,"x":1,"messagetype":` + jstr(p.t) + `}}`)
	case 1: // no timestamp, payload null when empty
		pls := `"` + base64.StdEncoding.EncodeToString(pl) + `"`
		if len(pl) == 0 {
			pls = "null"
		}
		return []byte(`{"message":{"messagetype":` + jstr(p.t) + `,"key":` + jstr(p.k) + `,"payload":` + pls + `},"ack":` +
			map[bool]string{true: "true", false: "false"}[ack] + `}`)
	case 2: // field names in another case (encoding/json matches case-insensitively)
		return []byte(`{"Message":{"MessageType":` + jstr(p.t) + `,"KEY":` + jstr(p.k) + `,"Payload":"` +
			base64.StdEncoding.EncodeToString(pl) + `"},"ACK":` + map[bool]string{true: "true", false: "false"}[ack] + `}`)
	default:
		w := wireJSON{Updated: time.Unix(1600000000+int64(r.Intn(100000)), 0).UTC(), Ack: ack}
		w.Message.MessageType, w.Message.Key, w.Message.Payload = p.t, p.k, pl
		b, _ := json.Marshal(w)
		return b
	}
}

func garbage(r *sx.Rng, p pair) []byte {
	good := rawRecord(r, p, []byte("xy"), false, false)
	switch r.Intn(14) {
	case 0:
		return good[:r.Intn(len(good))] // truncated JSON
	case 1:
		n := r.Intn(12)
		b := make([]byte, n)
		for i := range b {
			b[i] = byte(r.Intn(256))
		}
		return b
	case 2:
		return []byte(`{"message":"notanobject"}`)
	case 3:
		return []byte(`{"message":{"messagetype":5,"key":"k"}}`)
	case 4:
		return []byte(`{"message":{"messagetype":"t","key":"k"},"ack":"yes"}`)
	case 5:
		return []byte(`[1,2,3]`)
	case 6:
		return []byte(`"just a string"`)
	case 7:
		return []byte(`{"message":{"messagetype":"t","key":"k","payload":"!!notbase64"}}`)
	case 8:
		return []byte(`{"message":{"messagetype":"t","key":"k"},"updated":"yesterday"}`)
	case 9:
		return []byte(`{"foo":1}`) // valid JSON of another shape: decodes to the zero message
	case 10:
		return []byte(`null`)
	case 11:
		return []byte(`{}`)
	case 12:
		return append(good, '}')
	default:
		return []byte{}
	}
}

func genRecv(r *sx.Rng, small bool) sx.Tree {
	np := sx.Pick(r, 1, 1, 1, 2, 2, 2, 3, 3)
	pids := []int64{}
	for i := 0; i < np; i++ {
		pids = append(pids, int64(i))
	}
	if r.Chance(15) { // arbitrary distinct ids
		base := r.Range(1, 40)
		for i := range pids {
			pids[i] = base + int64(i)*r.Range(1, 3)
		}
	}
	wms := []sx.Tree{}
	for range pids {
		low := sx.Pick(r, int64(0), int64(0), r.Range(0, 1000), r.Range(0, 1<<40))
		span := sx.Pick(r, int64(0), r.Range(0, 100), int64(49999), int64(50000), int64(50001), r.Range(50000, 200000), r.Range(0, 1<<40))
		ok := int64(1)
		if r.Chance(6) {
			ok = 0
			if r.Chance(50) {
				low, span = 0, 0
			}
		}
		wms = append(wms, sx.Ints(ok, low, low+span))
	}
	npool := int(r.Range(1, 6))
	if small {
		npool = int(r.Range(1, 2))
	}
	pool := pairPool(r, npool, true)
	ops := []sx.Tree{}
	part := func() int64 { return pids[r.Intn(len(pids))] }
	plmax := 24
	if small {
		plmax = 2
	}
	records := func(n int) {
		for i := 0; i < n; i++ {
			p := pool[r.Intn(len(pool))]
			switch {
			case r.Chance(12):
				ops = append(ops, sx.T(sx.L(0), sx.L(part()), sx.Bytes(garbage(r, p))))
			case r.Chance(4):
				ops = append(ops, sx.T(sx.L(sx.Pick(r, int64(2), int64(3)))))
			default:
				ops = append(ops, sx.T(sx.L(0), sx.L(part()), sx.Bytes(rawRecord(r, p, payload(r, plmax), r.Chance(30), small))))
			}
		}
	}
	budget := int(r.Range(0, 60))
	if r.Chance(10) {
		budget = int(r.Range(60, 80))
	}
	if small {
		budget = int(r.Range(0, 8))
	}
	// catching up: records interleaved with end-of-partition signals that do not yet cover every partition
	order := append([]int64{}, pids...)
	for i := len(order) - 1; i > 0; i-- {
		j := r.Intn(i + 1)
		order[i], order[j] = order[j], order[i]
	}
	pre := r.Intn(budget + 1)
	complete := !r.Chance(12)
	seen := []int64{}
	for i, p := range order {
		if i == len(order)-1 && !complete {
			break
		}
		chunk := r.Intn(pre + 1)
		pre -= chunk
		records(chunk)
		if i == len(order)-1 {
			records(pre)
			pre = 0
		}
		// repeated signals of partitions that already reported
		for len(seen) > 0 && r.Chance(45) {
			ops = append(ops, sx.Ints(1, seen[r.Intn(len(seen))]))
			if r.Chance(50) {
				records(r.Intn(3))
			}
		}
		ops = append(ops, sx.Ints(1, p))
		seen = append(seen, p)
	}
	if !complete {
		records(pre)
		for len(seen) > 0 && r.Chance(60) {
			ops = append(ops, sx.Ints(1, seen[r.Intn(len(seen))]))
		}
	}
	if r.Chance(3) { // a signal of a partition that is not part of the topic: outside C10's quantifier
		ops = append(ops, sx.Ints(1, 99))
	}
	// live
	rest := budget - len(ops)
	for rest > 0 {
		n := r.Intn(rest + 1)
		records(n)
		rest -= n + 1
		if r.Chance(50) {
			ops = append(ops, sx.Ints(1, part()))
		}
	}
	nerr := []sx.Tree{}
	for i := r.Intn(4); i > 0; i-- {
		nerr = append(nerr, sx.B(r.Chance(50)))
	}
	// partitions whose entry in the topic metadata carries an error (a leader election at startup): the receiver logs it
	// and goes on exactly as without it
	merr := []int64{}
	if r.Chance(12) {
		for _, p := range pids {
			if r.Chance(40) {
				merr = append(merr, p)
			}
		}
	}
	return sx.T(sx.L(10), sx.Ints(pids...), sx.T(wms...), sx.T(ops...), sx.T(nerr...), sx.Ints(merr...))
}

// ------------------------------------------------------------------ kind 11

func genRoute(r *sx.Rng, small bool) sx.Tree {
	maxNodes := 18
	if small {
		maxNodes = 5
	}
	ntypes := int(r.Range(1, 5))
	types := []string{}
	for i := 0; i < ntypes; i++ {
		if r.Chance(70) {
			types = append(types, "t"+string(rune('0'+i)))
		} else {
			types = append(types, utf8String(r, 3, 10))
		}
	}
	unknown := "unknown-type"
	nextID := int64(0)
	subs := func() sx.Tree {
		calls := []sx.Tree{}
		n := sx.Pick(r, 0, 1, 1, 1, 1, 2, 3)
		for i := 0; i < n; i++ {
			ts := []sx.Tree{}
			for _, t := range types {
				if r.Chance(45) {
					ts = append(ts, sx.Str(t))
				}
			}
			if r.Chance(8) {
				ts = append(ts, sx.Str(types[0]), sx.Str(types[0])) // listed twice: still delivered once
			}
			calls = append(calls, sx.T(ts...))
		}
		return sx.T(calls...)
	}
	dupIDs := r.Chance(10) // config validation is not part of WithConfig: two nodes may carry the same id
	party := func() sx.Tree {
		id := nextID
		nextID++
		if dupIDs && id > 1 && r.Chance(40) {
			return sx.T(sx.L(r.Range(1, id-1)), subs(), sx.B(r.Chance(70)))
		}
		return sx.T(sx.L(id), subs(), sx.B(r.Chance(25)))
	}
	total := 0
	var mk func(depth int) sx.Tree
	mk = func(depth int) sx.Tree {
		total++
		p := party()
		dis := r.Chance(10)
		h := sx.T()
		if r.Chance(25) {
			h = sx.T(party())
		}
		kids := []sx.Tree{}
		if depth < 4 && total < maxNodes {
			nk := sx.Pick(r, 0, 0, 1, 1, 2, 3)
			for i := 0; i < nk && total < maxNodes; i++ {
				kids = append(kids, mk(depth+1))
			}
		}
		return sx.T(p, sx.B(dis), h, sx.T(kids...))
	}
	src := party()
	roots := []sx.Tree{}
	for i := sx.Pick(r, 0, 1, 1, 2, 2, 3); i > 0 && total < maxNodes; i-- {
		roots = append(roots, mk(1))
	}
	msgs := []sx.Tree{}
	for i := int(r.Range(1, 3)); i > 0; i-- {
		t := types[r.Intn(len(types))]
		if r.Chance(10) {
			t = unknown
		}
		msgs = append(msgs, msgTree(t, utf8String(r, 3, 10), payload(r, 16)))
	}
	// the supervisor replaces a failed source by a fresh instance: messages after that go to the new one
	restarts := []int64{}
	if r.Chance(30) {
		restarts = append(restarts, int64(r.Intn(len(msgs)+1)))
		if len(msgs) < 3 {
			msgs = append(msgs, msgs[r.Intn(len(msgs))])
		}
	}
	return sx.T(sx.L(11), src, sx.T(roots...), sx.T(msgs...), sx.Ints(restarts...))
}

// ------------------------------------------------------------------ kind 12

func genSend(r *sx.Rng, small bool) sx.Tree {
	ns := sx.Pick(r, 1, 1, 2, 3)
	topics := []int64{}
	for i := 0; i < ns; i++ {
		if r.Chance(70) {
			topics = append(topics, 1) // several senders of one topic
		} else {
			topics = append(topics, r.Range(1, 3))
		}
	}
	pool := pairPool(r, int(r.Range(1, 6)), false)
	ops := []sx.Tree{}
	outside := r.Chance(4)
	nops, plmax := int(r.Range(1, 24)), 256
	if small {
		nops, plmax = int(r.Range(1, 4)), 3
	}
	for i := nops; i > 0; i-- {
		p := pool[r.Intn(len(pool))]
		if outside && r.Chance(15) { // outside C12's quantifier: '-' in the type / a key that is not UTF-8
			if r.Bool() {
				p.t += "-x"
			} else {
				p.k += "\xff"
			}
		}
		pl := payload(r, plmax)
		nilp := int64(0)
		if len(pl) == 0 && r.Bool() {
			nilp = 1
		}
		ack := r.Chance(30)
		ops = append(ops, sx.T(sx.L(int64(r.Intn(ns))), sx.L(int64(r.Intn(3))), sx.B(ack), sx.Str(p.t), sx.Str(p.k), sx.Bytes(pl), sx.L(nilp)))
	}
	// the senders run on hosts whose clocks disagree (seconds added to the `updated` stamp of each sender's records)
	skews := []int64{}
	if ns > 1 && r.Chance(60) {
		for i := 0; i < ns; i++ {
			skews = append(skews, r.Range(-7200, 7200))
		}
	}
	return sx.T(sx.L(12), sx.Ints(topics...), sx.T(ops...), sx.Ints(skews...))
}
