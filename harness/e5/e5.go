// Package e5 drives the messaging code of firebolt: the Kafka message receiver over a scripted consumer (C10),
// the executor's message routing walk over harness-defined source/node types (C11) and the message sender over a
// scripted producer, fed back into real receivers (C12).
package e5

import (
	"bytes"
	"encoding/json"
	"errors"
	"fmt"
	"sort"
	"strconv"
	"time"
	"unicode/utf8"

	"github.com/confluentinc/confluent-kafka-go/kafka"

	"github.com/digitalocean/firebolt"
	"github.com/digitalocean/firebolt/config"
	"github.com/digitalocean/firebolt/executor"
	"github.com/digitalocean/firebolt/fbcontext"
	"github.com/digitalocean/firebolt/message"
	"github.com/digitalocean/firebolt/node"
	"github.com/digitalocean/firebolt/node/kafkaproducer"

	"fbverif/sx"
)

// Encodings (see coq/Judge/E5.v):
//   msg := ((type bytes) (key bytes) (payload bytes))      wire-opt := () | ((msg ack))
// kind 10  input := (10 (pid...) ((ok low high)...) (op...) (nerr...))
//            op := (0 partition (raw bytes)) | (1 partition) | (2) | (3)
//          obs   := ((wire-opt per record op...) ((pid start)...) ((initialized (msg...)) per op...))
// kind 11  input := (11 party (rnode...) (msg...))   party := (id ((type...) per Subscribe call...) fail)
//            rnode := (party disabled (handler-party)? (rnode...))
//          obs   := ((((id msg)...) (failing id...)) per message...)
// kind 12  input := (12 (topic code per sender...) ((sender path ack type key payload nilpayload)...))
//          obs   := (((tvalid kvalid)...) ((err ((topic partition key wire-opt)...))...) (live msg...) (full msg...) (compacted msg...))

// Gen generates one case; focus C10/C11/C12 selects the kind, anything else a mix.
func Gen(r *sx.Rng, idx int, focus string) sx.Tree {
	// the first cases and every fourth one are small, so that a failure is first met on a small case
	small := idx < 240 || idx%4 == 0
	switch focus {
	case "C10":
		return genRecv(r, small)
	case "C11":
		return genRoute(r, small)
	case "C12":
		return genSend(r, small)
	}
	switch idx % 3 {
	case 0:
		return genRecv(r, small)
	case 1:
		return genRoute(r, small)
	}
	return genSend(r, small)
}

// Run executes one case against the real code.
func Run(in sx.Tree) sx.Tree {
	switch in.At(0).Int() {
	case 10:
		return runRecv(in)
	case 11:
		return runRoute(in)
	case 12:
		return runSend(in)
	}
	panic("e5: unknown case kind")
}

// ------------------------------------------------------------------ common

func msgTree(t, k string, p []byte) sx.Tree { return sx.T(sx.Str(t), sx.Str(k), sx.Bytes(p)) }

func msgOf(m message.Message) sx.Tree { return msgTree(m.MessageType, m.Key, m.Payload) }

func decodedTree(value []byte) sx.Tree {
	m, ack, ok := message.DecodeWireV(value)
	if !ok {
		return sx.T()
	}
	return sx.T(sx.T(msgOf(m), sx.B(ack)))
}

func cloneMsg(m message.Message) message.Message {
	c := m
	if m.Payload != nil {
		c.Payload = append([]byte{}, m.Payload...)
	}
	return c
}

func lessMsg(a, b message.Message) bool {
	if a.MessageType != b.MessageType {
		return a.MessageType < b.MessageType
	}
	if a.Key != b.Key {
		return a.Key < b.Key
	}
	return bytes.Compare(a.Payload, b.Payload) < 0
}

func msgList(ms []message.Message) sx.Tree {
	k := []sx.Tree{}
	for _, m := range ms {
		k = append(k, msgOf(m))
	}
	return sx.T(k...)
}

func sortedMsgList(ms []message.Message) sx.Tree {
	c := append([]message.Message{}, ms...)
	sort.SliceStable(c, func(i, j int) bool { return lessMsg(c[i], c[j]) })
	return msgList(c)
}

// scripted kafka consumer: answers QueryWatermarkOffsets in call order with (low, high, err) exactly as scripted
type wm struct {
	ok        bool
	low, high int64
}
type consumer struct {
	wms   []wm
	calls int
}

func (c *consumer) Subscribe(string, kafka.RebalanceCb) error      { return nil }
func (c *consumer) Events() chan kafka.Event                       { return nil }
func (c *consumer) Assign(partitions []kafka.TopicPartition) error { return nil }
func (c *consumer) Unassign() error                                { return nil }
func (c *consumer) Committed(p []kafka.TopicPartition, t int) ([]kafka.TopicPartition, error) {
	return nil, errors.New("not scripted")
}
func (c *consumer) QueryWatermarkOffsets(topic string, partition int32, timeoutMs int) (int64, int64, error) {
	i := c.calls
	c.calls++
	if i >= len(c.wms) {
		return 0, 0, errors.New("scripted watermark error")
	}
	if !c.wms[i].ok {
		return c.wms[i].low, c.wms[i].high, errors.New("scripted watermark error")
	}
	return c.wms[i].low, c.wms[i].high, nil
}
func (c *consumer) GetMetadata(topic *string, allTopics bool, timeoutMs int) (*kafka.Metadata, error) {
	return nil, errors.New("not scripted")
}
func (c *consumer) Close() error { return nil }

// a receiver over a scripted consumer that records the notifier calls
type recv struct {
	r         *message.KafkaMessageReceiver
	delivered []message.Message
	calls     int
	nerr      []bool
}

func newRecv(c *consumer, pcount int, nerr []bool) *recv {
	rc := &recv{nerr: nerr}
	rc.r = message.NewKafkaReceiverV(c, "mt", pcount, func(m message.Message) []error {
		rc.delivered = append(rc.delivered, cloneMsg(m))
		i := rc.calls
		rc.calls++
		if len(rc.nerr) > 0 && rc.nerr[i%len(rc.nerr)] {
			return []error{errors.New("scripted notifier error")}
		}
		return nil
	})
	return rc
}

func (rc *recv) record(value []byte) { rc.r.ProcessEventV(&kafka.Message{Value: value}) }
func (rc *recv) eof(p int32) {
	t := "mt"
	rc.r.ProcessEventV(kafka.PartitionEOF{Topic: &t, Partition: p})
}

// ------------------------------------------------------------------ kind 10: receiver history

func runRecv(in sx.Tree) sx.Tree {
	var parts []kafka.PartitionMetadata
	for _, p := range in.At(1).Kids {
		pm := kafka.PartitionMetadata{ID: int32(p.Int())}
		if in.Len() >= 6 {
			for _, e := range in.At(5).Kids {
				if e.Int() == p.Int() {
					pm.Error = kafka.NewError(kafka.ErrLeaderNotAvailable, "scripted metadata error", false)
				}
			}
		}
		parts = append(parts, pm)
	}
	c := &consumer{}
	for _, w := range in.At(2).Kids {
		c.wms = append(c.wms, wm{ok: w.At(0).Bool(), low: w.At(1).Int(), high: w.At(2).Int()})
	}
	var nerr []bool
	for _, b := range in.At(4).Kids {
		nerr = append(nerr, b.Bool())
	}
	rc := newRecv(c, len(parts), nerr)
	assigns := []sx.Tree{}
	for _, tp := range rc.r.BuildPartitionAssignmentsV(parts) {
		assigns = append(assigns, sx.Ints(int64(tp.Partition), int64(tp.Offset)))
	}
	decoded := []sx.Tree{}
	steps := []sx.Tree{}
	was := rc.r.Initialized()
	for _, op := range in.At(3).Kids {
		before := len(rc.delivered)
		switch op.At(0).Int() {
		case 0:
			raw := op.At(2).ByteSlice()
			decoded = append(decoded, decodedTree(raw))
			rc.record(raw)
		case 1:
			rc.eof(int32(op.At(1).Int()))
		case 2:
			rc.r.ProcessEventV(kafka.NewError(kafka.ErrAllBrokersDown, "scripted", false))
		default:
			rc.r.ProcessEventV(kafka.OffsetsCommitted{})
		}
		now := rc.r.Initialized()
		out := rc.delivered[before:]
		if now && !was { // deliveries of the initialisation step come from ranging over a Go map: a multiset
			steps = append(steps, sx.T(sx.B(now), sortedMsgList(out)))
		} else {
			steps = append(steps, sx.T(sx.B(now), msgList(out)))
		}
		was = now
	}
	return sx.T(sx.T(decoded...), sx.T(assigns...), sx.T(steps...))
}

// ------------------------------------------------------------------ kind 11: routing

type received struct {
	id  int64
	msg fbcontext.Message
}

var recorder []received

// every source instance the registry was asked for, in order; an instance the executor has replaced is dead and must
// never be handed a message again
var srcInstances []*srcT

type party struct {
	fbcontext.ContextAware
	label int64
	fail  bool
	dead  bool
}

func (p *party) setup(params map[string]string) error {
	l, err := strconv.ParseInt(params["label"], 10, 64)
	if err != nil {
		return err
	}
	p.label = l
	p.fail = params["fail"] == "1"
	calls, err := decodeSubs(params["subs"])
	if err != nil {
		return err
	}
	for _, c := range calls {
		p.Subscribe(c)
	}
	return nil
}

func (p *party) Receive(msg fbcontext.Message) error {
	cp := msg
	if msg.Payload != nil {
		cp.Payload = append([]byte{}, msg.Payload...)
	}
	if p.dead {
		recorder = append(recorder, received{-99, cp}) // a replaced instance: never expected
		return nil
	}
	recorder = append(recorder, received{p.label, cp})
	if p.fail {
		return errors.New(strconv.FormatInt(p.label, 10))
	}
	return nil
}
func (p *party) Shutdown() error { return nil }

type srcT struct{ party }

func (s *srcT) Setup(params map[string]string, ch chan firebolt.Event) error { return s.setup(params) }
func (s *srcT) Start() error                                                 { return nil }

type nodeT struct{ party }

func (n *nodeT) Setup(params map[string]string) error { return n.setup(params) }
func (n *nodeT) Process(ev *firebolt.Event) (*firebolt.Event, error) {
	return ev, nil
}

func encodeSubs(calls sx.Tree) string {
	s := ""
	for i, c := range calls.Kids {
		if i > 0 {
			s += ";"
		}
		s += "c"
		for j, t := range c.Kids {
			if j > 0 {
				s += ","
			}
			s += "x" + fmt.Sprintf("%x", t.ByteSlice())
		}
	}
	return s
}

func decodeSubs(s string) ([][]string, error) {
	var calls [][]string
	if s == "" {
		return nil, nil
	}
	for _, c := range splitOn(s, ';') {
		if len(c) == 0 || c[0] != 'c' {
			return nil, errors.New("bad subs")
		}
		types := []string{}
		if len(c) > 1 {
			for _, t := range splitOn(c[1:], ',') {
				if len(t) == 0 || t[0] != 'x' {
					return nil, errors.New("bad subs type")
				}
				var b []byte
				if _, err := fmt.Sscanf(t[1:], "%x", &b); err != nil && len(t) > 1 {
					return nil, err
				}
				types = append(types, string(b))
			}
		}
		calls = append(calls, types)
	}
	return calls, nil
}

func splitOn(s string, sep byte) []string {
	out := []string{}
	cur := ""
	for i := 0; i < len(s); i++ {
		if s[i] == sep {
			out = append(out, cur)
			cur = ""
		} else {
			cur += string(s[i])
		}
	}
	return append(out, cur)
}

func partyParams(p sx.Tree) (string, map[string]string) {
	id := strconv.FormatInt(p.At(0).Int(), 10)
	params := map[string]string{"label": id, "subs": encodeSubs(p.At(1))}
	if p.At(2).Bool() {
		params["fail"] = "1"
	}
	return id, params
}

func nodeConfig(t sx.Tree) *node.Config {
	id, params := partyParams(t.At(0))
	c := &node.Config{ID: "n" + id, Name: "e5node", Workers: 1, BufferSize: 1, Params: params, Disabled: t.At(1).Bool()}
	if t.At(2).Len() > 0 {
		hid, hparams := partyParams(t.At(2).At(0))
		c.ErrorHandler = &node.Config{ID: "h" + hid, Name: "e5node", Workers: 1, BufferSize: 1, Params: hparams}
	}
	for _, k := range t.At(3).Kids {
		c.Children = append(c.Children, nodeConfig(k))
	}
	return c
}

func runRoute(in sx.Tree) sx.Tree {
	registerTypes()
	sid, sparams := partyParams(in.At(1))
	cfg := config.Config{ApplicationName: "verif", MetricsPrefix: "verif", ShutdownTimeOut: 1,
		Source: &node.SourceConfig{Name: "e5src", ID: "s" + sid, Params: sparams}}
	for _, n := range in.At(2).Kids {
		cfg.Nodes = append(cfg.Nodes, nodeConfig(n))
	}
	ex, err := executor.New(executor.WithConfig(cfg))
	if err != nil {
		panic(err)
	}
	out := []sx.Tree{}
	for mi, m := range in.At(3).Kids {
		if in.Len() >= 5 {
			for _, ri := range in.At(4).Kids {
				if ri.Int() == int64(mi) {
					for _, s := range srcInstances {
						s.dead = true
					}
					ex.PrepareSourceV()
				}
			}
		}
		recorder = nil
		msg := message.Message{MessageType: string(m.At(0).ByteSlice()), Key: string(m.At(1).ByteSlice()), Payload: m.At(2).ByteSlice()}
		errs := ex.DeliverMessageV(msg)
		rs := []sx.Tree{}
		for _, r := range recorder {
			rs = append(rs, sx.T(sx.L(r.id), msgTree(r.msg.MessageType, r.msg.Key, r.msg.Payload)))
		}
		es := []sx.Tree{}
		for _, e := range errs {
			id, perr := strconv.ParseInt(e.Error(), 10, 64)
			if perr != nil {
				id = -7
			}
			es = append(es, sx.L(id))
		}
		out = append(out, sx.T(sx.T(rs...), sx.T(es...)))
	}
	return sx.T(out...)
}

// ------------------------------------------------------------------ kind 12: sender -> topic -> receiver

type producer struct{ ch chan *kafka.Message }

func (p *producer) ProduceChannel() chan *kafka.Message { return p.ch }
func (p *producer) Events() chan kafka.Event            { return nil }
func (p *producer) Flush(timeoutMs int) int             { return 0 }
func (p *producer) Close()                              {}

func topicName(code int64) string { return "mt" + strconv.FormatInt(code, 10) }
func topicCode(name *string) int64 {
	if name == nil || len(*name) < 3 || (*name)[:2] != "mt" {
		return -1
	}
	c, err := strconv.ParseInt((*name)[2:], 10, 64)
	if err != nil {
		return -1
	}
	return c
}

// skewRecord moves the `updated` stamp of a record written by the real sender by d seconds: the sender's host clock
// is off by d.  Everything else stays byte-identical.
func skewRecord(value []byte, d int64) []byte {
	if d == 0 {
		return value
	}
	var m map[string]json.RawMessage
	if json.Unmarshal(value, &m) != nil {
		return value
	}
	raw, ok := m["updated"]
	var t time.Time
	if !ok || json.Unmarshal(raw, &t) != nil {
		return value
	}
	nb, err := json.Marshal(t.Add(time.Duration(d) * time.Second))
	if err != nil {
		return value
	}
	return bytes.Replace(value, append([]byte(`"updated":`), raw...), append([]byte(`"updated":`), nb...), 1)
}

func runSend(in sx.Tree) sx.Tree {
	var prods []*producer
	var senders []message.Sender
	for _, t := range in.At(1).Kids {
		p := &producer{ch: make(chan *kafka.Message, 64)}
		kp := kafkaproducer.NewKafkaProducerE5V(p, topicName(t.Int()))
		prods = append(prods, p)
		senders = append(senders, message.NewKafkaMessageSenderV(kp, topicName(t.Int())))
	}
	defer message.SetSenderV(nil)
	ctx := fbcontext.NewFBContext(func() string { return "verif" })
	executor.ConfigureMessagingV(ctx)
	app := &executor.Executor{}

	live := newRecv(&consumer{}, 1, nil)
	live.eof(0)
	type rec struct{ key, value []byte }
	var log []rec
	utf := []sx.Tree{}
	steps := []sx.Tree{}
	for _, op := range in.At(2).Kids {
		si, path, ack := int(op.At(0).Int()), op.At(1).Int(), op.At(2).Bool()
		typ, key := string(op.At(3).ByteSlice()), string(op.At(4).ByteSlice())
		payload := op.At(5).ByteSlice()
		if op.At(6).Bool() && len(payload) == 0 {
			payload = nil
		}
		utf = append(utf, sx.T(sx.B(utf8.ValidString(typ)), sx.B(utf8.ValidString(key))))
		if si < 0 || si >= len(senders) {
			steps = append(steps, sx.T(sx.B(true), sx.T()))
			continue
		}
		message.SetSenderV(senders[si])
		var err error
		switch {
		case path == 1 && !ack:
			err = ctx.SendMessage(fbcontext.Message{MessageType: typ, Key: key, Payload: payload})
		case path == 1 && ack:
			err = ctx.AckMessage(fbcontext.Message{MessageType: typ, Key: key, Payload: payload})
		case path == 2 && !ack:
			err = app.SendMessage(message.Message{MessageType: typ, Key: key, Payload: payload})
		case ack:
			err = message.GetSender().Ack(message.Message{MessageType: typ, Key: key, Payload: payload})
		default:
			err = message.GetSender().Send(message.Message{MessageType: typ, Key: key, Payload: payload})
		}
		recs := []sx.Tree{}
		for pi, p := range prods {
			for len(p.ch) > 0 {
				km := <-p.ch
				if in.Len() >= 4 && pi < in.At(3).Len() {
					km.Value = skewRecord(km.Value, in.At(3).At(pi).Int())
				}
				recs = append(recs, sx.T(sx.L(topicCode(km.TopicPartition.Topic)), sx.L(int64(km.TopicPartition.Partition)),
					sx.Bytes(km.Key), decodedTree(km.Value)))
				log = append(log, rec{km.Key, km.Value})
				live.record(km.Value)
			}
		}
		steps = append(steps, sx.T(sx.B(err != nil), sx.T(recs...)))
	}
	full := newRecv(&consumer{}, 1, nil)
	for _, r := range log {
		full.record(r.value)
	}
	full.eof(0)
	// Kafka log compaction: the last record of every record key survives, order kept
	comp := newRecv(&consumer{}, 1, nil)
	for i, r := range log {
		last := true
		for _, r2 := range log[i+1:] {
			if bytes.Equal(r2.key, r.key) {
				last = false
				break
			}
		}
		if last {
			comp.record(r.value)
		}
	}
	comp.eof(0)
	return sx.T(sx.T(utf...), sx.T(steps...), msgList(live.delivered), sortedMsgList(full.delivered), sortedMsgList(comp.delivered))
}
