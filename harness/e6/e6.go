// Package e6 drives config.Read (C13) on generated YAML files against a fixed registry palette.
package e6

import (
	"fmt"
	"os"
	"path/filepath"
	"reflect"
	"strconv"
	"strings"
	"sync"

	"github.com/digitalocean/firebolt"
	"github.com/digitalocean/firebolt/config"
	"github.com/digitalocean/firebolt/node"

	"fbverif/sx"
)

// input := (pre (nodereg srcreg) src idata timeout (node...) style)
//   pre: 0 parses | 1 yaml syntax error | 2 scalar of the wrong type | 3 null node entry
//   nodereg := ((name cons prod)...)  srcreg := ((name prod)...)   types, src, idata: () | (code)
//   node := (name id workers buffersize kidskey (node...) handler style)   id, handler: () | (x)
// obs := (out cfg)   out: 0 Config returned | 1 error | 2 panic | -2 harness refuses the case
//   cfg := () | ((src idata timeout (node...)))
//
// Strings are interned: code c -> str(c); type codes -> reflect types (0 = nil type).

const (
	tyNil = 0
	tyErr = 1 // *firebolt.EventError
	tyA   = 2
	tyB   = 3
	tyC   = 4
)

type tA struct{ A int }
type tB struct{ B string }
type tC struct{ C bool }

func goType(code int64) reflect.Type {
	switch code {
	case tyErr:
		return reflect.TypeOf(&firebolt.EventError{})
	case tyA:
		return reflect.TypeOf(&tA{})
	case tyB:
		return reflect.TypeOf(tB{})
	case tyC:
		return reflect.TypeOf([]tC{})
	}
	return nil
}

type ntype struct{ name, cons, prod int64 }

// the palette: every consume/produce combination the rules distinguish, incl. nil types
var nodePalette = []ntype{
	{0, tyA, tyA}, {1, tyA, tyB}, {2, tyB, tyA}, {3, tyB, tyB}, {4, tyA, tyNil}, {5, tyB, tyNil},
	{6, tyErr, tyNil}, {7, tyErr, tyA}, {8, tyNil, tyA}, {9, tyA, tyErr}, {10, tyNil, tyNil},
	{13, tyA, tyA}, {14, tyB, tyC}, {15, tyC, tyA}, {16, tyC, tyC}, {17, tyErr, tyErr},
}

// names 11, 12, 48 (the empty string), 49 are never registered
var unregNames = []int64{11, 12, 48, 49}

type stype struct{ name, prod int64 }

var srcPalette = []stype{{0, tyA}, {1, tyB}, {2, tyNil}, {3, tyErr}, {5, tyC}}
var unregSrc = []int64{4, 6, 48}

func optT(code int64) sx.Tree {
	if code == tyNil {
		return sx.T()
	}
	return sx.T(sx.L(code))
}

func paletteTree() sx.Tree {
	ns := []sx.Tree{}
	for _, n := range nodePalette {
		ns = append(ns, sx.T(sx.L(n.name), optT(n.cons), optT(n.prod)))
	}
	ss := []sx.Tree{}
	for _, s := range srcPalette {
		ss = append(ss, sx.T(sx.L(s.name), optT(s.prod)))
	}
	return sx.T(sx.T(ns...), sx.T(ss...))
}

var regOnce sync.Once
var paletteStr string

func register() {
	regOnce.Do(func() {
		r := node.GetRegistry()
		for _, n := range nodePalette {
			r.RegisterNodeType(str(n.name), nil, goType(n.cons), goType(n.prod))
		}
		for _, s := range srcPalette {
			r.RegisterSourceType(str(s.name), nil, goType(s.prod))
		}
		paletteStr = paletteTree().String()
	})
}

// str: injective code -> string.  0..47 "n<c>", 48 "", 49 "n49", 50..99 "x<c>", >= 100 decimal digits
func str(c int64) string {
	switch {
	case c == 48:
		return ""
	case c >= 0 && c < 50:
		return "n" + strconv.FormatInt(c, 10)
	case c >= 50 && c < 100:
		return "x" + strconv.FormatInt(c, 10)
	case c >= 100:
		return strconv.FormatInt(c, 10)
	}
	return "neg" + strconv.FormatInt(-c, 10)
}

func code(s string) int64 {
	if s == "" {
		return 48
	}
	if len(s) > 1 && (s[0] == 'n' || s[0] == 'x') {
		if v, err := strconv.ParseInt(s[1:], 10, 64); err == nil && str(v) == s {
			return v
		}
	}
	if v, err := strconv.ParseInt(s, 10, 64); err == nil && v >= 100 && str(v) == s {
		return v
	}
	return -2
}

var transports = []string{"", "kafka", "Kafka", "redis", "kafka2"}

func trStr(c int64) string {
	if c >= 0 && int(c) < len(transports) {
		return transports[c]
	}
	return "t" + strconv.FormatInt(c, 10)
}
func trCode(s string) int64 {
	for i, t := range transports {
		if t == s {
			return int64(i)
		}
	}
	return -2
}

// ---------------------------------------------------------------- generator

type gnode struct {
	name    int64
	id      int64 // -1 = absent
	workers int64
	bufsz   int64
	kidskey bool
	kids    []*gnode
	h       *gnode
	style   int64
	path    []int
}

func (n *gnode) effID() int64 {
	if n.id < 0 {
		return n.name
	}
	return n.id
}

func (n *gnode) tree() sx.Tree {
	id := sx.T()
	if n.id >= 0 {
		id = sx.T(sx.L(n.id))
	}
	ks := []sx.Tree{}
	for _, k := range n.kids {
		ks = append(ks, k.tree())
	}
	h := sx.T()
	if n.h != nil {
		h = sx.T(n.h.tree())
	}
	return sx.T(sx.L(n.name), id, sx.L(n.workers), sx.L(n.bufsz), sx.B(n.kidskey || len(n.kids) > 0), sx.T(ks...), h, sx.L(n.style))
}

func consumers(t int64) []ntype {
	out := []ntype{}
	for _, n := range nodePalette {
		if n.cons == t {
			out = append(out, n)
		}
	}
	return out
}

func prodOf(name int64) int64 {
	for _, n := range nodePalette {
		if n.name == name {
			return n.prod
		}
	}
	return tyNil
}

type gen struct {
	r      *sx.Rng
	nextID int64
	count  int
	max    int
	neg    bool
}

func (g *gen) size() int64 {
	switch g.r.Intn(10) {
	case 0, 1, 2, 3:
		return 0
	case 4:
		return 1
	default:
		return g.r.Range(1, 9)
	}
}

func (g *gen) attrs(n *gnode) {
	n.workers, n.bufsz = g.size(), g.size()
	if g.neg && g.r.Chance(15) { // negative sizes are outside C13's quantifier; a few cases carry them
		n.workers = -g.r.Range(1, 3)
	}
	if g.neg && g.r.Chance(15) {
		n.bufsz = -g.r.Range(1, 3)
	}
	n.id = -1
	if g.r.Chance(55) {
		n.id = g.nextID
		g.nextID++
		if g.r.Chance(6) {
			n.id = 100 + g.r.Range(0, 899) // numeric-looking id
		}
	}
	n.style = int64(g.r.Next() & 0x7ff)
	if g.r.Chance(12) {
		n.style |= 0x800 // disabled: true - validation and defaults do not depend on it
	}
	if !g.r.Chance(35) {
		n.style &^= 0x31 // env references only in a third of the nodes
	}
}

func (g *gen) handler() *gnode {
	h := &gnode{name: sx.Pick(g.r, int64(6), 6, 7, 17)}
	g.attrs(h)
	return h
}

func (g *gen) build(produced int64, depth int) *gnode {
	cands := consumers(produced)
	n := &gnode{}
	if len(cands) == 0 {
		n.name = nodePalette[g.r.Intn(len(nodePalette))].name
	} else {
		n.name = cands[g.r.Intn(len(cands))].name
	}
	g.count++
	g.attrs(n)
	if g.r.Chance(25) {
		n.h = g.handler()
	}
	nk := 0
	if depth < 4 {
		switch g.r.Intn(10) {
		case 0, 1, 2:
			nk = 0
		case 3, 4, 5, 6:
			nk = 1
		case 7, 8:
			nk = 2
		default:
			nk = 3
		}
	}
	for i := 0; i < nk && g.count < g.max; i++ {
		n.kids = append(n.kids, g.build(prodOf(n.name), depth+1))
	}
	if len(n.kids) == 0 && g.r.Chance(8) {
		n.kidskey = true // `children: []`
	}
	return n
}

func walk(roots []*gnode, f func(n *gnode)) {
	var rec func(n *gnode, path []int)
	rec = func(n *gnode, path []int) {
		n.path = append([]int{}, path...)
		f(n)
		for i, k := range n.kids {
			rec(k, append(path, i))
		}
	}
	for i, r := range roots {
		rec(r, []int{i})
	}
}

func onChain(p []int) bool {
	for _, x := range p[1:] {
		if x != 0 {
			return false
		}
	}
	return true
}
func isPrefix(p, q []int) bool {
	if len(p) > len(q) {
		return false
	}
	for i := range p {
		if p[i] != q[i] {
			return false
		}
	}
	return true
}

// same classes as pair_class in coq/Judge/E6.v
func pairClass(p, q []int) int {
	if p[0] != q[0] {
		if onChain(p) && onChain(q) {
			return 26
		}
		return 27
	}
	if isPrefix(p, q) {
		if onChain(q) {
			return 20
		}
		return 21
	}
	if len(p) == len(q) && isPrefix(p[:len(p)-1], q) {
		a, b := p[len(p)-1], q[len(q)-1]
		if a == 0 && b == 1 {
			return 22
		}
		if a == 0 {
			return 24
		}
		return 23
	}
	return 25
}

// plantDup makes two nodes of a randomly chosen position class carry the same id
func (g *gen) plantDup(roots []*gnode) {
	all := []*gnode{}
	walk(roots, func(n *gnode) { all = append(all, n) })
	if len(all) < 2 {
		return
	}
	byClass := map[int][][2]*gnode{}
	classes := []int{}
	for i := 0; i < len(all); i++ {
		for j := i + 1; j < len(all); j++ {
			c := pairClass(all[i].path, all[j].path)
			if _, ok := byClass[c]; !ok {
				classes = append(classes, c)
			}
			byClass[c] = append(byClass[c], [2]*gnode{all[i], all[j]})
		}
	}
	// classes is in discovery order (deterministic)
	c := classes[g.r.Intn(len(classes))]
	pr := byClass[c][g.r.Intn(len(byClass[c]))]
	u, v := pr[0], pr[1]
	if g.r.Bool() {
		u, v = v, u
	}
	if u.effID() == 48 && !(u.name == v.name && g.r.Bool()) { // never write the empty string as an explicit id
		u.id = g.nextID
		g.nextID++
	}
	switch {
	case u.effID() == 48: // only left when both are unnamed: two nodes without name and id
		u.id, v.id = -1, -1
	case u.name == v.name && g.r.Chance(50):
		u.id, v.id = -1, -1 // two nodes of one type without ids
	case g.r.Chance(30) && u.name != 48:
		v.id = u.name // explicit id equal to the other's type name
		u.id = -1
	default:
		v.id = u.effID()
	}
}

func pickNode(g *gen, roots []*gnode) *gnode {
	all := []*gnode{}
	walk(roots, func(n *gnode) { all = append(all, n) })
	if len(all) == 0 {
		return nil
	}
	return all[g.r.Intn(len(all))]
}

func otherConsumer(g *gen, not int64) int64 {
	for {
		n := nodePalette[g.r.Intn(len(nodePalette))]
		if n.cons != not {
			return n.name
		}
	}
}

func consOf(name int64) int64 {
	for _, n := range nodePalette {
		if n.name == name {
			return n.cons
		}
	}
	return -1
}

// Gen generates one case.
func Gen(r *sx.Rng, idx int, focus string) sx.Tree {
	g := &gen{r: r, nextID: 50}
	g.max = sx.Pick(r, 1, 3, 6, 10, 14, 14)
	g.neg = r.Chance(4)
	pre := int64(0)
	src := srcPalette[r.Intn(len(srcPalette))]
	if r.Chance(60) {
		src = srcPalette[r.Intn(2)]
	}
	srcName := src.name
	srcPresent := true
	nroots := sx.Pick(r, 0, 1, 1, 1, 1, 2, 2, 2, 3, 4)
	if r.Chance(3) {
		nroots = 0
	}
	roots := []*gnode{}
	for i := 0; i < nroots && (g.count < g.max || i == 0); i++ {
		roots = append(roots, g.build(src.prod, 1))
	}
	// de-collide defaulted ids most of the time (natural collisions of equal type names stay in 15% of the cases)
	if !r.Chance(15) {
		seen := map[int64]bool{}
		walk(roots, func(n *gnode) {
			if seen[n.effID()] {
				n.id = g.nextID
				g.nextID++
			}
			seen[n.effID()] = true
		})
	}
	idata := int64(-1)
	switch r.Intn(10) {
	case 0, 1, 2, 3:
		idata = 1
	case 4:
		idata = sx.Pick(r, int64(0), 2, 3, 4)
	}
	timeout := int64(0)
	switch r.Intn(10) {
	case 0, 1, 2, 3:
		timeout = r.Range(1, 90)
	case 4:
		if g.neg {
			timeout = -r.Range(1, 5)
		}
	case 5:
		timeout = sx.Pick(r, int64(1), 9, 10, 11)
	}
	// faults
	nf := sx.Pick(r, 0, 0, 0, 1, 1, 1, 1, 1, 2, 2)
	for f := 0; f < nf; f++ {
		switch r.Intn(12) {
		case 0, 1, 2, 3: // duplicate ids at some pair-of-positions class
			g.plantDup(roots)
		case 4: // unregistered name at some node
			if n := pickNode(g, roots); n != nil {
				n.name = sx.Pick(r, unregNames...)
			}
		case 5: // unregistered handler / source
			if n := pickNode(g, roots); n != nil && r.Bool() {
				if n.h == nil {
					n.h = g.handler()
				}
				n.h.name = sx.Pick(r, unregNames...)
			} else {
				srcName = sx.Pick(r, unregSrc...)
			}
		case 6, 7: // consume/produce mismatch on some edge (incl. nil types on either side)
			if n := pickNode(g, roots); n != nil {
				n.name = otherConsumer(g, consOf(n.name))
			}
		case 8, 9, 10: // illegal error handler attachments
			if n := pickNode(g, roots); n != nil {
				if n.h == nil {
					n.h = g.handler()
				}
				switch r.Intn(6) {
				case 0:
					k := g.build(prodOf(n.h.name), 4)
					n.h.kids = append(n.h.kids, k)
				case 1:
					n.h.kidskey = true
				case 2:
					n.h.h = g.handler()
				case 3:
					n.h.name = sx.Pick(r, int64(0), 1, 2, 9, 14)
				case 4:
					n.h.name = sx.Pick(r, int64(8), 10) // consumes the nil type
				case 5:
					n.h.name = sx.Pick(r, unregNames...)
				}
			}
		case 11: // a handler sharing its id with a node (handlers are outside the uniqueness rule)
			if n := pickNode(g, roots); n != nil {
				if n.h == nil {
					n.h = g.handler()
				}
				if m := pickNode(g, roots); m != nil && m.effID() != 48 {
					n.h.id = m.effID()
				}
			}
		}
	}
	// malformed stream
	if r.Chance(6) {
		switch r.Intn(4) {
		case 0:
			srcPresent = false
		default:
			pre = int64(r.Range(1, 3))
		}
	}
	srcT := sx.T()
	if srcPresent {
		srcT = sx.T(sx.L(srcName))
	}
	idT := sx.T()
	if idata >= 0 {
		idT = sx.T(sx.L(idata))
	}
	ns := []sx.Tree{}
	for _, n := range roots {
		ns = append(ns, n.tree())
	}
	return sx.T(sx.L(pre), paletteTree(), srcT, idT, sx.L(timeout), sx.T(ns...), sx.L(int64(r.Next()&0x1ff)))
}

// ---------------------------------------------------------------- YAML rendering

type render struct {
	sb   strings.Builder
	env  map[string]string
	step int
	seqI bool // sequence items indented below their key
}

func (w *render) envRef(val string) string {
	k := fmt.Sprintf("E6V_%d", len(w.env))
	w.env[k] = val
	return "${" + k + "}"
}

func quote(s string, style int64) string {
	if s == "" {
		return `""`
	}
	if style&0x80 != 0 {
		return `"` + s + `"`
	}
	return s
}

func (w *render) line(ind int, s string) {
	w.sb.WriteString(strings.Repeat(" ", ind))
	w.sb.WriteString(s)
	w.sb.WriteByte('\n')
}

// node writes the mapping of one node; with dash the first key goes on the `- ` line
func (w *render) node(n sx.Tree, ind int, dash bool) {
	name, idT, workers, bufsz := n.At(0).Int(), n.At(1), n.At(2).Int(), n.At(3).Int()
	kidskey, kids, hT, style := n.At(4).Bool(), n.At(5), n.At(6), n.At(7).Int()
	lines := []func(ind int, prefix string){}
	scalar := func(key, val string) {
		lines = append(lines, func(ind int, prefix string) { w.line(ind, prefix+key+": "+val) })
	}
	// name
	if name != 48 {
		v := quote(str(name), style)
		if style&0x10 != 0 {
			v = w.envRef(str(name))
		}
		scalar("name", v)
	} else if style&0x2 != 0 {
		scalar("name", `""`)
	}
	// id
	if idT.Len() > 0 {
		v := quote(str(idT.At(0).Int()), style)
		if idT.At(0).Int() >= 100 && style&0x80 == 0 {
			v = str(idT.At(0).Int()) // a plain number
		}
		if style&0x1 != 0 {
			v = w.envRef(str(idT.At(0).Int()))
		}
		scalar("id", v)
	} else if style&0x2 != 0 {
		scalar("id", `""`)
	}
	if workers != 0 || style&0x4 != 0 {
		v := strconv.FormatInt(workers, 10)
		if style&0x20 != 0 {
			v = w.envRef(v)
		}
		scalar("workers", v)
	}
	if bufsz != 0 || style&0x8 != 0 {
		v := strconv.FormatInt(bufsz, 10)
		if style&0x20 != 0 {
			v = w.envRef(v)
		}
		scalar("buffersize", v)
	}
	if style&0x800 != 0 {
		scalar("disabled", "true")
	}
	if style&0x200 != 0 {
		scalar("discard_on_full_buffer", "true")
		lines = append(lines, func(ind int, prefix string) {
			w.line(ind, prefix+"params:")
			w.line(ind+len(prefix)+w.step, "p1: v1")
		})
	}
	kidsF := func(ind int, prefix string) {
		if kids.Len() == 0 {
			if kidskey {
				w.line(ind, prefix+"children: []")
			} else {
				w.line(ind, prefix+sx.Pick(sx.NewRng(uint64(style)), "children:", "children: ~", "children: null"))
			}
			return
		}
		w.line(ind, prefix+"children:")
		ci := ind + len(prefix)
		if w.seqI {
			ci += w.step
		}
		for _, k := range kids.Kids {
			w.node(k, ci, true)
		}
	}
	hF := func(ind int, prefix string) {
		if hT.Len() == 0 {
			w.line(ind, prefix+"error_handler:")
			return
		}
		w.line(ind, prefix+"error_handler:")
		w.node(hT.At(0), ind+len(prefix)+w.step, false)
	}
	var tail []func(ind int, prefix string)
	if kids.Len() > 0 || kidskey || style&0x40 != 0 {
		tail = append(tail, kidsF)
	}
	if hT.Len() > 0 || style&0x400 != 0 {
		tail = append(tail, hF)
	}
	if style&0x100 != 0 && len(tail) == 2 {
		tail[0], tail[1] = tail[1], tail[0]
	}
	if style&0x100 != 0 && len(lines) > 1 {
		lines[0], lines[len(lines)-1] = lines[len(lines)-1], lines[0]
	}
	lines = append(lines, tail...)
	if len(lines) == 0 {
		panic("e6: mapping without keys") // excluded by normalise
	}
	for i, f := range lines {
		if dash {
			if i == 0 {
				f(ind, "- ")
			} else {
				f(ind+2, "")
			}
		} else {
			f(ind, "")
		}
	}
}

func emptyMapping(n sx.Tree) bool {
	style := n.At(7).Int()
	return n.At(0).Int() == 48 && style&0x2 == 0 && n.At(1).Len() == 0 && n.At(2).Int() == 0 && style&0x4 == 0 &&
		n.At(3).Int() == 0 && style&0x8 == 0 && style&0x200 == 0 && n.At(5).Len() == 0 && !n.At(4).Bool() &&
		style&0x40 == 0 && n.At(6).Len() == 0 && style&0x400 == 0 && style&0x800 == 0
}

// normalise: a handler (or node) that would be written as a mapping without any key gets an explicit `name: ""`
func normalise(n sx.Tree) sx.Tree {
	kids := []sx.Tree{}
	for _, k := range n.At(5).Kids {
		kids = append(kids, normalise(k))
	}
	h := sx.T()
	if n.At(6).Len() > 0 {
		h = sx.T(normalise(n.At(6).At(0)))
	}
	style := n.At(7).Int()
	m := sx.T(n.At(0), n.At(1), n.At(2), n.At(3), n.At(4), sx.T(kids...), h, sx.L(style))
	if emptyMapping(m) {
		m.Kids[7] = sx.L(style | 0x2)
	}
	return m
}

// Render writes the YAML file text for a case and the environment it needs.
func Render(in sx.Tree) (string, map[string]string) {
	pre, srcT, idT, timeout, nodes, gs := in.At(0).Int(), in.At(2), in.At(3), in.At(4).Int(), in.At(5), in.At(6).Int()
	w := &render{env: map[string]string{}, step: 2}
	if gs&0x1 != 0 {
		w.step = 4
	}
	w.seqI = gs&0x2 != 0
	top := []func(){}
	top = append(top, func() { w.line(0, "application: e6app") })
	if srcT.Len() > 0 {
		top = append(top, func() {
			w.line(0, "source:")
			s := srcT.At(0).Int()
			v := quote(str(s), 0)
			if gs&0x20 != 0 {
				v = w.envRef(str(s))
			}
			w.line(w.step, "name: "+v)
			if gs&0x40 != 0 {
				w.line(w.step, "params:")
				w.line(2*w.step, "topic: ${E6_UNSET_VARIABLE}")
			}
		})
	}
	if idT.Len() > 0 {
		top = append(top, func() {
			t := idT.At(0).Int()
			if t == 0 && gs&0x100 != 0 {
				w.line(0, "internaldata: {}")
				return
			}
			w.line(0, "internaldata:")
			if t == 0 && gs&0x80 != 0 {
				w.line(w.step, "params:")
				w.line(2*w.step, "a: b")
				return
			}
			v := quote(trStr(t), 0)
			if gs&0x10 != 0 {
				v = w.envRef(trStr(t))
			}
			w.line(w.step, "transport: "+v)
		})
	}
	if timeout != 0 || gs&0x80 != 0 {
		top = append(top, func() {
			v := strconv.FormatInt(timeout, 10)
			if gs&0x8 != 0 {
				v = w.envRef(v)
			}
			w.line(0, "shutdowntimeout: "+v)
		})
	}
	if pre == 2 {
		top = append(top, func() { w.line(0, "metricsport: notanumber") })
	}
	top = append(top, func() {
		if nodes.Len() == 0 && pre != 3 {
			if gs&0x40 != 0 {
				w.line(0, "nodes: []")
			} else if gs&0x4 != 0 {
				w.line(0, "nodes:")
			}
			return
		}
		w.line(0, "nodes:")
		ci := 0
		if w.seqI {
			ci = w.step
		}
		for i, n := range nodes.Kids {
			if pre == 3 && i == nodes.Len()/2 {
				w.line(ci, "- ~")
			}
			w.node(normalise(n), ci, true)
		}
		if pre == 3 && nodes.Len() == 0 {
			w.line(ci, "-")
		}
	})
	// key order of the top level: rotate
	k := int(gs>>3) % len(top)
	top = append(top[k:], top[:k]...)
	for _, f := range top {
		f()
	}
	if pre == 1 {
		w.sb.WriteString("nodes:\n  - name: [unclosed\n   bad: : indent\n")
	}
	return w.sb.String(), w.env
}

// ---------------------------------------------------------------- driver

func cfgTree(n *node.Config) sx.Tree {
	if n == nil {
		return sx.T(sx.L(-3))
	}
	id := sx.T()
	if n.ID != "" {
		id = sx.T(sx.L(code(n.ID)))
	}
	ks := []sx.Tree{}
	for _, k := range n.Children {
		ks = append(ks, cfgTree(k))
	}
	h := sx.T()
	if n.ErrorHandler != nil {
		h = sx.T(cfgTree(n.ErrorHandler))
	}
	return sx.T(sx.L(code(n.Name)), id, sx.L(int64(n.Workers)), sx.L(int64(n.BufferSize)), sx.B(n.Children != nil),
		sx.T(ks...), h, sx.L(0))
}

// hasEmptyID: some node or handler carries the explicit id code 48 (the empty string)
func hasEmptyID(nodes sx.Tree) (found bool) {
	defer func() {
		if r := recover(); r != nil {
			found = true // not a node list at all
		}
	}()
	var rec func(n sx.Tree) bool
	rec = func(n sx.Tree) bool {
		if n.At(1).Len() > 0 && n.At(1).At(0).Int() == 48 {
			return true
		}
		for _, k := range n.At(5).Kids {
			if rec(k) {
				return true
			}
		}
		return n.At(6).Len() > 0 && rec(n.At(6).At(0))
	}
	for _, n := range nodes.Kids {
		if rec(n) {
			return true
		}
	}
	return false
}

// Run executes one case against the real code.
func Run(in sx.Tree) (obs sx.Tree) {
	register()
	refuse := sx.T(sx.L(-2), sx.T())
	if in.Len() != 7 || in.At(1).String() != paletteStr {
		return refuse // the case names a registry other than the one registered in this process
	}
	if hasEmptyID(in.At(5)) {
		return refuse // an explicit id "" is the same file as an absent id: not a distinct input
	}
	text, env := func() (t string, e map[string]string) {
		defer func() {
			if r := recover(); r != nil {
				t, e = "", nil
			}
		}()
		return Render(in)
	}()
	if env == nil {
		return refuse
	}
	file := filepath.Join(os.TempDir(), fmt.Sprintf("fbverif-e6-%d.yaml", os.Getpid()))
	if err := os.WriteFile(file, []byte(text), 0o600); err != nil {
		return refuse
	}
	for k, v := range env {
		os.Setenv(k, v)
	}
	os.Unsetenv("E6_UNSET_VARIABLE")
	defer func() {
		for k := range env {
			os.Unsetenv(k)
		}
		os.Remove(file)
	}()
	defer func() {
		if r := recover(); r != nil {
			obs = sx.T(sx.L(2), sx.T())
		}
	}()
	c, err := config.Read(file)
	if err != nil {
		return sx.T(sx.L(1), sx.T())
	}
	src := sx.T()
	if c.Source != nil {
		src = sx.T(sx.L(code(c.Source.Name)))
	}
	idata := sx.T()
	if c.InternalData != nil {
		idata = sx.T(sx.L(trCode(c.InternalData.Transport)))
	}
	ns := []sx.Tree{}
	for _, n := range c.Nodes {
		ns = append(ns, cfgTree(n))
	}
	return sx.T(sx.L(0), sx.T(sx.T(src, idata, sx.L(int64(c.ShutdownTimeOut)), sx.T(ns...))))
}
