// Package fake: scripted stand-ins for the Kafka client and the firebolt context.
package fake

import (
	"errors"
	"sync"

	"github.com/confluentinc/confluent-kafka-go/kafka"

	"github.com/digitalocean/firebolt/fbcontext"
)

// Consumer is a scripted kafka MessageConsumer that records Assign/Unassign calls.
type Consumer struct {
	mu sync.Mutex

	CommittedErr bool
	CommittedRes []kafka.TopicPartition
	// per-call scripts (by call order); when exhausted the plain fields above apply
	CommittedScript []CommittedAnswer
	AssignErrScript []bool
	CommittedCalls  int
	// Watermarks answers QueryWatermarkOffsets in call order; WmByPartition (if non-nil) answers by partition instead.
	Watermarks    []Wm
	WmByPartition map[int32]Wm
	wmCalls       int
	AssignErr     bool

	Assigns   [][]kafka.TopicPartition // every Assign argument
	Unassigns int
	Calls     []string // "assign", "unassign" in order
	EventsCh  chan kafka.Event
	Meta      *kafka.Metadata
	MetaErr   bool
	Closed    bool
}

// CommittedAnswer is one scripted answer of Committed().
type CommittedAnswer struct {
	Err bool
	Res []kafka.TopicPartition
}

// Wm is one watermark answer.
type Wm struct {
	Err       bool
	Low, High int64
}

func NewConsumer() *Consumer { return &Consumer{EventsCh: make(chan kafka.Event, 16)} }

func (c *Consumer) Subscribe(string, kafka.RebalanceCb) error { return nil }
func (c *Consumer) Events() chan kafka.Event                  { return c.EventsCh }
func (c *Consumer) Assign(partitions []kafka.TopicPartition) error {
	c.mu.Lock()
	defer c.mu.Unlock()
	cp := make([]kafka.TopicPartition, len(partitions))
	copy(cp, partitions)
	c.Assigns = append(c.Assigns, cp)
	c.Calls = append(c.Calls, "assign")
	if n := len(c.Assigns); n <= len(c.AssignErrScript) && len(c.AssignErrScript) > 0 {
		if c.AssignErrScript[n-1] {
			return errors.New("scripted assign error")
		}
		return nil
	}
	if c.AssignErr {
		return errors.New("scripted assign error")
	}
	return nil
}
func (c *Consumer) Unassign() error {
	c.mu.Lock()
	defer c.mu.Unlock()
	c.Unassigns++
	c.Calls = append(c.Calls, "unassign")
	return nil
}
func (c *Consumer) Committed(partitions []kafka.TopicPartition, timeoutMs int) ([]kafka.TopicPartition, error) {
	c.mu.Lock()
	i := c.CommittedCalls
	c.CommittedCalls++
	c.mu.Unlock()
	if i < len(c.CommittedScript) {
		if c.CommittedScript[i].Err {
			return nil, errors.New("scripted committed error")
		}
		return c.CommittedScript[i].Res, nil
	}
	if c.CommittedErr {
		return nil, errors.New("scripted committed error")
	}
	return c.CommittedRes, nil
}
func (c *Consumer) QueryWatermarkOffsets(topic string, partition int32, timeoutMs int) (int64, int64, error) {
	c.mu.Lock()
	defer c.mu.Unlock()
	if c.WmByPartition != nil {
		w, ok := c.WmByPartition[partition]
		if !ok || w.Err {
			return 0, 0, errors.New("scripted watermark error")
		}
		return w.Low, w.High, nil
	}
	i := c.wmCalls
	c.wmCalls++
	if i >= len(c.Watermarks) || c.Watermarks[i].Err {
		return 0, 0, errors.New("scripted watermark error")
	}
	return c.Watermarks[i].Low, c.Watermarks[i].High, nil
}
func (c *Consumer) GetMetadata(topic *string, allTopics bool, timeoutMs int) (*kafka.Metadata, error) {
	if c.MetaErr {
		return nil, errors.New("scripted metadata error")
	}
	return c.Meta, nil
}
func (c *Consumer) Close() error { c.Closed = true; return nil }

// Ctx is a recording FBContext.
type Ctx struct {
	mu      sync.Mutex
	Sent    []fbcontext.Message
	Acked   []fbcontext.Message
	SendErr bool
	OnSend  func(fbcontext.Message)
}

func (c *Ctx) ConfigureMessaging(send fbcontext.MessageFunc, ack fbcontext.MessageFunc) {}
func (c *Ctx) ConfigureLeader(leader func() bool)                                       {}
func (c *Ctx) SendMessage(msg fbcontext.Message) error {
	c.mu.Lock()
	cp := msg
	cp.Payload = append([]byte(nil), msg.Payload...)
	c.Sent = append(c.Sent, cp)
	f := c.OnSend
	c.mu.Unlock()
	if f != nil {
		f(cp)
	}
	if c.SendErr {
		return errors.New("scripted send error")
	}
	return nil
}
func (c *Ctx) AckMessage(msg fbcontext.Message) error {
	c.mu.Lock()
	defer c.mu.Unlock()
	c.Acked = append(c.Acked, msg)
	return nil
}
func (c *Ctx) IsLeader() bool     { return false }
func (c *Ctx) InstanceID() string { return "verif" }

// TakeSent returns and clears the recorded messages.
func (c *Ctx) TakeSent() []fbcontext.Message {
	c.mu.Lock()
	defer c.mu.Unlock()
	s := c.Sent
	c.Sent = nil
	return s
}
