package fake

// SentCount returns the number of recorded, not yet taken messages (safe to call while another goroutine sends).
func (c *Ctx) SentCount() int {
	c.mu.Lock()
	defer c.mu.Unlock()
	return len(c.Sent)
}
