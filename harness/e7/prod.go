package e7

import (
	"bytes"
	"encoding/json"
	"errors"
	"fmt"
	"math"
	"math/big"
	"sort"
	"strings"
	"sync"
	"time"
	"unicode/utf8"

	"github.com/confluentinc/confluent-kafka-go/kafka"

	"github.com/digitalocean/firebolt"
	"github.com/digitalocean/firebolt/node/kafkaproducer"

	"fbverif/sx"
)

// producer case := (1 cfg_topic preq) | (2 cfg_topic ereq) | (3 cfg_topic ((1 preq) | (2 ereq) ...)) a sequence on one instance
//   preq := (0 topic msg) *SimpleProduceRequest | (1 topic msg) other ProduceRequest implementation | (2 k) wrong type
//   ereq := (0 form recovery payload errk) | (1 k) wrong type
//   payload := (0 json) | (1 0 [v]) unsupported type | (1 1 str) unsupported value | (1 2 [v]) failing Marshaler
//              v: which Go value (0 chan in a map, 1 func, 2 anonymous struct with tagged chan field; Marshaler error text 0 plain, 1 needing escapes)
//   errk := (0 text) | (1 ctx errk) | (2 code msg info) | (3 code msg) | (4)      info := () | ((0 json)) | ((1))
//   json := (0) | (1 b) | (2 n) | (3 (bytes)) | (4 (items)) | (5 (((key) v)...)) | (6) time | (7) invalid
// obs := (-1) panic | (result_nil err ((topic value)...))   value := (bytes) for produce, json for reports

// ---------- scripted producer ----------
type scriptedProducer struct{ ch chan *kafka.Message }

func (m *scriptedProducer) ProduceChannel() chan *kafka.Message { return m.ch }
func (m *scriptedProducer) Events() chan kafka.Event            { return nil }
func (m *scriptedProducer) Flush(int) int                       { return 0 }
func (m *scriptedProducer) Close()                              {}

type customReq struct {
	t string
	m []byte
}

func (c customReq) Topic() string   { return c.t }
func (c customReq) Message() []byte { return c.m }

type badMarshaler struct{}

func (badMarshaler) MarshalJSON() ([]byte, error) { return nil, errors.New("scripted marshal failure") }

// loudMarshaler fails with a text that needs escaping wherever it is put into JSON.
type loudMarshaler struct{}

func (loudMarshaler) MarshalJSON() ([]byte, error) {
	return nil, errors.New("bad \"value\" at c:\\tmp\\x\nline 2\ttab \x01 {}")
}

// ---------- generator ----------
var topicNames = []string{"t", "errors", "logs-1", "a.b_c", "T"}

func genTopic(r *sx.Rng, emptyPct int) sx.Tree {
	if r.Chance(emptyPct) {
		return sx.T()
	}
	return sx.Str(sx.Pick(r, topicNames...))
}

func genBytes(r *sx.Rng) sx.Tree {
	var n int
	switch r.Intn(10) {
	case 0:
		n = 0
	case 1:
		n = 1
	case 2:
		n = int(r.Range(1000, 20000)) // large
	default:
		n = int(r.Range(1, 40))
	}
	b := make([]byte, n)
	mode := r.Intn(3)
	for i := range b {
		switch mode {
		case 0:
			b[i] = byte(r.Intn(256)) // binary
		case 1:
			b[i] = byte(32 + r.Intn(95))
		default:
			b[i] = sx.Pick(r, byte(0), byte(255), byte('{'), byte('"'), byte('\n'), byte(0x80))
		}
	}
	return sx.Bytes(b)
}

var strAtoms = []string{"a", "b", "Z", "0", " ", "\"", "\\", "<", ">", "&", "\n", "\t", "é", " ", "日", "{", "}", ":", "/", "\x01"}

func genText(r *sx.Rng, maxAtoms int) string {
	n := r.Intn(maxAtoms + 1)
	var sb strings.Builder
	for i := 0; i < n; i++ {
		sb.WriteString(sx.Pick(r, strAtoms...))
	}
	return sb.String()
}

// genJSON returns a canonical JSON tree (object members sorted by key, keys unique).
func genJSON(r *sx.Rng, depth int) sx.Tree {
	k := r.Intn(7)
	if depth <= 0 && k >= 5 {
		k = r.Intn(5)
	}
	switch k {
	case 0:
		return sx.T(sx.L(0))
	case 1:
		return sx.T(sx.L(1), sx.B(r.Bool()))
	case 2:
		return sx.T(sx.L(2), sx.L(sx.Pick(r, int64(0), int64(-1), int64(1)<<53, -(int64(1)<<62), r.Range(-1000, 1000))))
	case 3, 4:
		return sx.T(sx.L(3), sx.Str(genText(r, 6)))
	case 5:
		n := r.Intn(4)
		items := []sx.Tree{}
		for i := 0; i < n; i++ {
			items = append(items, genJSON(r, depth-1))
		}
		return sx.T(sx.L(4), sx.T(items...))
	default:
		n := r.Intn(4)
		keys := map[string]bool{}
		for i := 0; i < n; i++ {
			keys[genText(r, 3)] = true
		}
		ks := []string{}
		for k := range keys {
			ks = append(ks, k)
		}
		sort.Strings(ks)
		mem := []sx.Tree{}
		for _, k := range ks {
			mem = append(mem, sx.T(sx.Str(k), genJSON(r, depth-1)))
		}
		return sx.T(sx.L(5), sx.T(mem...))
	}
}

func genErrk(r *sx.Rng, depth int) sx.Tree {
	k := r.Intn(12)
	switch {
	case k <= 2:
		return sx.T(sx.L(0), sx.Str(genText(r, 8)))
	case k <= 4 && depth > 0:
		return sx.T(sx.L(1), sx.Str(genText(r, 4)), genErrk(r, depth-1))
	case k <= 9:
		info := sx.T()
		switch r.Intn(8) {
		case 0, 1, 2, 3:
			info = sx.T(sx.T(sx.L(0), genJSON(r, 2)))
		case 4:
			info = sx.T(sx.T(sx.L(0), sx.T(sx.L(3), sx.Str("")))) // errorinfo "" is kept (omitempty on an interface omits only nil)
		case 5:
			if r.Chance(30) {
				info = sx.T(sx.T(sx.L(1)))
			}
		}
		return sx.T(sx.L(2), sx.Str(sx.Pick(r, "ES_INDEX_ERROR", "E1", "", "ERR_UNKNOWN")), sx.Str(genText(r, 6)), info)
	case k == 10:
		return sx.T(sx.L(3), sx.Str("E2"), sx.Str(genText(r, 4)))
	default:
		if r.Chance(25) && depth == 2 { // nil error: top level only
			return sx.T(sx.L(4))
		}
		return sx.T(sx.L(0), sx.Str("plain"))
	}
}

// GenProd generates one producer / error-report case: a single call or a sequence of calls on one instance.
func GenProd(r *sx.Rng, idx int) sx.Tree {
	if r.Chance(55) {
		n := int(r.Range(1, 6))
		ct := genTopic(r, 6)
		calls := []sx.Tree{}
		reportsOnly := r.Chance(35)
		for i := 0; i < n; i++ {
			one := genProdOne(r)
			if reportsOnly && one.At(0).Int() == 1 {
				i--
				continue
			}
			calls = append(calls, sx.T(one.At(0), one.At(2)))
		}
		if r.Chance(30) {
			return sx.T(sx.L(3), ct, sx.T(calls...), sx.Ints(r.Range(1, 3)))
		}
		return sx.T(sx.L(3), ct, sx.T(calls...))
	}
	return genProdOne(r)
}

func genProdOne(r *sx.Rng) sx.Tree {
	if r.Chance(45) {
		ct := genTopic(r, 25)
		switch r.Intn(10) {
		case 0:
			return sx.T(sx.L(1), ct, sx.T(sx.L(2), sx.L(int64(r.Intn(6)))))
		case 1, 2:
			return sx.T(sx.L(1), ct, sx.T(sx.L(1), genTopic(r, 50), genBytes(r)))
		default:
			return sx.T(sx.L(1), ct, sx.T(sx.L(0), genTopic(r, 50), genBytes(r)))
		}
	}
	ct := genTopic(r, 8)
	if r.Chance(8) {
		return sx.T(sx.L(2), ct, sx.T(sx.L(1), sx.L(int64(r.Intn(6)))))
	}
	var payload sx.Tree
	switch r.Intn(10) {
	case 0:
		payload = sx.T(sx.L(1), sx.L(0), sx.L(int64(r.Intn(3))))
	case 1:
		payload = sx.T(sx.L(1), sx.L(1), sx.Str(sx.Pick(r, "NaN", "+Inf", "-Inf")))
	case 2:
		payload = sx.T(sx.L(1), sx.L(2), sx.L(int64(r.Intn(2))))
	default:
		payload = sx.T(sx.L(0), genJSON(r, 3))
	}
	return sx.T(sx.L(2), ct, sx.T(sx.L(0), sx.B(r.Chance(60)), sx.B(r.Bool()), payload, genErrk(r, 2)))
}

// ---------- JSON trees <-> Go values ----------
func jsonValue(t sx.Tree) interface{} {
	switch t.At(0).Int() {
	case 0:
		return nil
	case 1:
		return t.At(1).Bool()
	case 2:
		return t.At(1).Int()
	case 3:
		return string(t.At(1).ByteSlice())
	case 4:
		l := []interface{}{}
		for _, k := range t.At(1).Kids {
			l = append(l, jsonValue(k))
		}
		return l
	case 5:
		m := map[string]interface{}{}
		for _, kv := range t.At(1).Kids {
			m[string(kv.At(0).ByteSlice())] = jsonValue(kv.At(1))
		}
		return m
	}
	panic("bad json tree")
}

func canon(v interface{}) sx.Tree {
	switch x := v.(type) {
	case nil:
		return sx.T(sx.L(0))
	case bool:
		return sx.T(sx.L(1), sx.B(x))
	case int64:
		return sx.T(sx.L(2), sx.L(x))
	case json.Number:
		if z, ok := new(big.Int).SetString(string(x), 10); ok {
			return sx.T(sx.L(2), sx.LB(z))
		}
		return sx.T(sx.L(8), sx.Str(string(x)))
	case string:
		return sx.T(sx.L(3), sx.Str(x))
	case []interface{}:
		l := []sx.Tree{}
		for _, e := range x {
			l = append(l, canon(e))
		}
		return sx.T(sx.L(4), sx.T(l...))
	case map[string]interface{}:
		ks := []string{}
		for k := range x {
			ks = append(ks, k)
		}
		sort.Strings(ks)
		mem := []sx.Tree{}
		for _, k := range ks {
			mem = append(mem, sx.T(sx.Str(k), canon(x[k])))
		}
		return sx.T(sx.L(5), sx.T(mem...))
	}
	return sx.T(sx.L(7))
}

func isTime(v interface{}) bool {
	s, ok := v.(string)
	if !ok {
		return false
	}
	_, err := time.Parse(time.RFC3339Nano, s)
	return err == nil
}

var timeMarker = struct{ marker int }{6}

// parseReport parses produced bytes into the canonical tree; "timestamp" (and "event.created" in the executor's
// report form) are reduced to "is a time".
func parseReport(b []byte, form bool) sx.Tree {
	dec := json.NewDecoder(bytes.NewReader(b))
	dec.UseNumber()
	var v interface{}
	if err := dec.Decode(&v); err != nil {
		return sx.T(sx.L(7))
	}
	if dec.More() {
		return sx.T(sx.L(7))
	}
	t := canon(v)
	top, ok := v.(map[string]interface{})
	if !ok {
		return t
	}
	mark := func(obj sx.Tree, m map[string]interface{}, key string) {
		if !isTime(m[key]) {
			return
		}
		for i, kv := range obj.At(1).Kids {
			if string(kv.At(0).ByteSlice()) == key {
				obj.At(1).Kids[i] = sx.T(kv.At(0), sx.T(sx.L(6)))
			}
		}
	}
	mark(t, top, "timestamp")
	if ev, ok := top["event"].(map[string]interface{}); ok && form {
		for _, kv := range t.At(1).Kids {
			if string(kv.At(0).ByteSlice()) == "event" {
				mark(kv.At(1), ev, "created")
			}
		}
	}
	return t
}

func errEnum(err error) int64 {
	switch {
	case err == nil:
		return 0
	case strings.Contains(err.Error(), "type assertion"):
		return 1
	case strings.Contains(err.Error(), "missing topic"):
		return 2
	}
	return 3
}

func buildErr(t sx.Tree) error {
	switch t.At(0).Int() {
	case 0:
		return errors.New(string(t.At(1).ByteSlice()))
	case 1:
		return fmt.Errorf("%s: %w", string(t.At(1).ByteSlice()), buildErr(t.At(2)))
	case 2:
		opts := []firebolt.FBErrorOpt{}
		if t.At(3).Len() == 1 {
			i := t.At(3).At(0)
			if i.At(0).Int() == 0 {
				opts = append(opts, firebolt.WithInfo(jsonValue(i.At(1))))
			} else {
				opts = append(opts, firebolt.WithInfo(make(chan int)))
			}
		}
		return firebolt.NewFBError(string(t.At(1).ByteSlice()), string(t.At(2).ByteSlice()), opts...)
	case 3:
		e := firebolt.NewFBError(string(t.At(1).ByteSlice()), string(t.At(2).ByteSlice()))
		return &e
	}
	return nil
}

func buildPayload(t sx.Tree) interface{} {
	if t.At(0).Int() == 0 {
		return jsonValue(t.At(1))
	}
	variant := int64(0)
	if t.At(1).Int() != 1 && t.Len() == 3 {
		variant = t.At(2).Int()
	}
	switch t.At(1).Int() {
	case 0:
		switch variant {
		case 1:
			return func() {}
		case 2: // an anonymous struct type: %T of it contains quotes and backslashes
			return struct {
				C chan int `json:"c"`
				S string   `json:"s,omitempty"`
			}{C: make(chan int), S: "x"}
		}
		return map[string]interface{}{"c": make(chan int)}
	case 1:
		f := math.NaN()
		switch string(t.At(2).ByteSlice()) {
		case "+Inf":
			f = math.Inf(1)
		case "-Inf":
			f = math.Inf(-1)
		}
		return []interface{}{1, f}
	}
	if variant == 1 {
		return loudMarshaler{}
	}
	return badMarshaler{}
}

func producePayload(body sx.Tree) interface{} {
	switch body.At(0).Int() {
	case 0:
		return &firebolt.SimpleProduceRequest{TargetTopic: string(body.At(1).ByteSlice()), MessageBytes: body.At(2).ByteSlice()}
	case 1:
		return customReq{t: string(body.At(1).ByteSlice()), m: body.At(2).ByteSlice()}
	}
	switch body.At(1).Int() {
	case 0:
		return "not a produce request"
	case 1:
		return nil
	case 2:
		return firebolt.SimpleProduceRequest{TargetTopic: "t", MessageBytes: []byte("x")}
	case 3:
		return []byte("raw")
	case 4:
		return firebolt.EventError{Err: errors.New("e")}
	}
	return 42
}

// reportPayload returns the payload of an error-report call and whether it has the executor's form.
func reportPayload(body sx.Tree) (interface{}, bool) {
	if body.At(0).Int() == 0 {
		form := body.At(1).Bool()
		p := buildPayload(body.At(3))
		e := buildErr(body.At(4))
		if form {
			return firebolt.EventError{Event: &firebolt.Event{Payload: p, Created: time.Now(), Recovery: body.At(2).Bool()}, Err: e}, true
		}
		return firebolt.NewEventError(&firebolt.Event{Payload: p, Created: time.Now(), Recovery: body.At(2).Bool()}, e), false
	}
	switch body.At(1).Int() {
	case 0:
		return &firebolt.EventError{Err: errors.New("e")}, false
	case 1:
		return "not an EventError", false
	case 2:
		return nil, false
	case 3:
		return &firebolt.SimpleProduceRequest{TargetTopic: "t", MessageBytes: []byte("x")}, false
	case 4:
		return errors.New("bare error"), false
	}
	return firebolt.NewFBError("E", "m"), false
}

func recordTree(m *kafka.Message, report, form bool) sx.Tree {
	topic := sx.T()
	if m.TopicPartition.Topic != nil {
		topic = sx.Str(*m.TopicPartition.Topic)
	}
	if report {
		return sx.T(topic, parseReport(m.Value, form))
	}
	return sx.T(topic, sx.Bytes(m.Value))
}

// Inputs outside the wire format's canonical form (reachable only by the shrinker: JSON trees that are not what
// the canonicaliser would produce, texts that are not valid UTF-8 and would be altered by encoding/json) are
// rejected as malformed, so that a minimised replay is always a genuine witness.
func validText(t sx.Tree) bool {
	for _, k := range t.Kids {
		if !k.IsLeaf || !k.Z.IsInt64() || k.Int() < 0 || k.Int() > 255 {
			return false
		}
	}
	return !t.IsLeaf && utf8.Valid(t.ByteSlice())
}

func validJSONTree(t sx.Tree) (ok bool) {
	defer func() {
		if recover() != nil {
			ok = false
		}
	}()
	var chk func(t sx.Tree) bool
	chk = func(t sx.Tree) bool {
		switch t.At(0).Int() {
		case 3:
			return validText(t.At(1))
		case 4:
			for _, k := range t.At(1).Kids {
				if !chk(k) {
					return false
				}
			}
		case 5:
			for _, kv := range t.At(1).Kids {
				if !validText(kv.At(0)) || !chk(kv.At(1)) {
					return false
				}
			}
		}
		return true
	}
	return chk(t) && canon(jsonValue(t)).String() == t.String()
}

func validErrk(t sx.Tree) bool {
	switch t.At(0).Int() {
	case 0:
		return validText(t.At(1))
	case 1:
		return validText(t.At(1)) && validErrk(t.At(2))
	case 2:
		if !validText(t.At(1)) || !validText(t.At(2)) {
			return false
		}
		if t.At(3).Len() == 1 && t.At(3).At(0).At(0).Int() == 0 {
			return validJSONTree(t.At(3).At(0).At(1))
		}
	case 3:
		return validText(t.At(1)) && validText(t.At(2))
	}
	return true
}

func validEreq(b sx.Tree) (ok bool) {
	defer func() {
		if recover() != nil {
			ok = false
		}
	}()
	if b.At(0).Int() != 0 {
		return true
	}
	if p := b.At(3); p.At(0).Int() == 0 && !validJSONTree(p.At(1)) {
		return false
	}
	return validErrk(b.At(4))
}

func validProdInput(in sx.Tree) (ok bool) {
	defer func() {
		if recover() != nil {
			ok = false
		}
	}()
	switch in.At(0).Int() {
	case 2:
		return validEreq(in.At(2))
	case 3:
		for _, c := range in.At(2).Kids {
			if c.At(0).Int() == 2 && !validEreq(c.At(1)) {
				return false
			}
		}
	}
	return true
}

// RunProd executes one producer / error-report case.
func RunProd(in sx.Tree) sx.Tree {
	if !validProdInput(in) {
		return sx.T(sx.L(-2)) // malformed for the judge
	}
	if in.At(0).Int() == 3 {
		return runProdSeq(in)
	}
	sp := &scriptedProducer{ch: make(chan *kafka.Message, 16)}
	cfgTopic := string(in.At(1).ByteSlice())
	body := in.At(2)
	var err error
	var res *firebolt.Event
	report := in.At(0).Int() == 2
	form := false
	if !report {
		kp := kafkaproducer.NewKafkaProducerV(sp, cfgTopic)
		res, err = kp.Process(&firebolt.Event{Payload: producePayload(body), Created: time.Now()})
	} else {
		ep := kafkaproducer.NewErrorProducerV(sp, cfgTopic)
		var payload interface{}
		payload, form = reportPayload(body)
		res, err = ep.Process(&firebolt.Event{Payload: payload, Created: time.Now()})
	}
	recs := []sx.Tree{}
	for len(sp.ch) > 0 {
		recs = append(recs, recordTree(<-sp.ch, report, form))
	}
	return sx.T(sx.B(res == nil), sx.L(errEnum(err)), sx.T(recs...))
}

// sequence case := (3 cfg_topic ((1 preq) | (2 ereq) ...)): the calls go, in order, to ONE errorkafkaproducer instance
// (produce requests to its embedded KafkaProducer), and the records are read from the channel only after the last
// call.  obs := (3 (obs_1 ... obs_n)), obs_i as for a single case; record k belongs to the k-th call that returned no
// error (records left over are attributed to the last call).
func runProdSeq(in sx.Tree) sx.Tree {
	calls := in.At(2).Kids
	sp := &scriptedProducer{ch: make(chan *kafka.Message, len(calls)+8)}
	// optional 4th component (cap): the client's queue holds only cap records and is drained slowly by a concurrent
	// reader (a broker that is slow to keep up): calls must wait for room, nothing may be lost or reordered
	var drained []*kafka.Message
	var dmu sync.Mutex
	stop := make(chan struct{})
	readerDone := make(chan struct{})
	slow := in.Len() >= 4 && in.At(3).Len() >= 1 && in.At(3).At(0).Int() >= 1
	if slow {
		sp = &scriptedProducer{ch: make(chan *kafka.Message, int(in.At(3).At(0).Int()))}
		go func() {
			defer close(readerDone)
			time.Sleep(2 * time.Millisecond)
			for {
				select {
				case m := <-sp.ch:
					dmu.Lock()
					drained = append(drained, m)
					dmu.Unlock()
					time.Sleep(150 * time.Microsecond)
				case <-stop:
					return
				}
			}
		}()
	}
	ep := kafkaproducer.NewErrorProducerV(sp, string(in.At(1).ByteSlice()))
	type callRes struct {
		panicked, resNil, report, form bool
		err                            int64
		recs                           []sx.Tree
	}
	rs := make([]callRes, len(calls))
	for i, c := range calls {
		r := &rs[i]
		r.report = c.At(0).Int() == 2
		func() {
			defer func() {
				if recover() != nil {
					r.panicked = true
				}
			}()
			var res *firebolt.Event
			var err error
			if r.report {
				var payload interface{}
				payload, r.form = reportPayload(c.At(1))
				res, err = ep.Process(&firebolt.Event{Payload: payload, Created: time.Now()})
			} else {
				res, err = ep.KafkaProducer.Process(&firebolt.Event{Payload: producePayload(c.At(1)), Created: time.Now()})
			}
			r.resNil, r.err = res == nil, errEnum(err)
		}()
	}
	if slow {
		// every call has returned: let the reader take what is still queued, then stop it
		for i := 0; i < 2000 && len(sp.ch) > 0; i++ {
			time.Sleep(100 * time.Microsecond)
		}
		time.Sleep(time.Millisecond)
		close(stop)
		<-readerDone
	}
	queue := drained
	for len(sp.ch) > 0 {
		queue = append(queue, <-sp.ch)
	}
	k := 0
	for _, m := range queue {
		for k < len(rs) && (rs[k].panicked || rs[k].err != 0) {
			k++
		}
		if k < len(rs) {
			rs[k].recs = append(rs[k].recs, recordTree(m, rs[k].report, rs[k].form))
			k++
		} else if len(rs) > 0 {
			l := &rs[len(rs)-1]
			l.recs = append(l.recs, recordTree(m, l.report, l.form))
		}
	}
	out := []sx.Tree{}
	for _, r := range rs {
		if r.panicked {
			out = append(out, sx.T(sx.L(-1)))
		} else {
			out = append(out, sx.T(sx.B(r.resNil), sx.L(r.err), sx.T(r.recs...)))
		}
	}
	return sx.T(sx.L(3), sx.T(out...))
}
