// Package e7 drives the sinks: the elasticsearch node over a scripted bulk service (C14, selector 14)
// and KafkaProducer / ErrorProducer over a scripted MessageProducer (C15, selector 15).
package e7

import "fbverif/sx"

// input := (14 <es scenario>) | (15 <producer case>)

// Gen generates one case; focus C14 / C15 selects the kind (anything else: a mix).
func Gen(r *sx.Rng, idx int, focus string) sx.Tree {
	switch focus {
	case "C14":
		return sx.T(sx.L(14), GenEs(r, idx))
	case "C15":
		return sx.T(sx.L(15), GenProd(r, idx))
	}
	if idx%4 == 0 {
		return sx.T(sx.L(14), GenEs(r, idx))
	}
	return sx.T(sx.L(15), GenProd(r, idx))
}

// Run executes one case against the real code.
func Run(in sx.Tree) sx.Tree {
	switch in.At(0).Int() {
	case 14:
		return RunEs(in.At(1))
	case 15:
		return RunProd(in.At(1))
	}
	return sx.T(sx.L(-2))
}
