package e7

import (
	"context"
	"encoding/json"
	"errors"
	"fmt"
	"sort"
	"strconv"
	"strings"
	"sync"
	"time"

	elastic "github.com/olivere/elastic/v7"

	"github.com/digitalocean/firebolt"
	"github.com/digitalocean/firebolt/node/elasticsearch"

	"fbverif/sx"
)

// es scenario := (cfg ops script end)
//   cfg    := (batchSize maxRetries workers wait_ms)
//   ops    := ((0 id idx hasDocID body) accepted index request | (1 id) wrong-typed payload | (2) arrivals pause ...)
//   script := ((id (o ...)) ...)   outcome of document id on its k-th send (default 0):
//             0 2xx, 1 retryable error, 2 mapping error, 3 non-2xx without error field, 4 the whole request fails;
//             +10: the response of the request holding it arrives after the client-side deadline
//   end    := 0 arrivals pause, then Shutdown | 1 Shutdown right after the last op | 2 like 1, and the scripted
//             Elasticsearch holds every bulk request until Shutdown has returned (requests in flight; no pauses in ops)
//             | 3 every bulk request is HELD while the ops run (a pause of arrivals lasts until the timer-flushed batch
//             has reached the scripted service, not until it is answered), then arrivals pause, all requests are
//             released, quiescence, Shutdown.  For the model this is a clean end (0): its batches are values.
// obs := ((unreliable timeout) answers calls highwater answered_at_shutdown)
//   answered_at_shutdown := end 2: ids (op order) of the events that had an answer when Shutdown returned; else ()
//   answers := ((id (code ...)) ...) per op, codes sorted;  code := (0) success, same event | (1 send etype) ES_INDEX_ERROR
//              carrying the error details of that send (etype 1 retryable, 2 mapping, 3 synthesized: send -1) | (2) other
//              error | (3) filtered | (4) ES_INDEX_ERROR without matching details | (5) success with another event
//   calls   := sorted list of bulk requests, each ((id idx hasDocID body) ...) as decoded from the request source lines

const (
	oOK = iota
	oRetry
	oMapping
	oNoErr
	oWhole
)

type esDoc struct{ id, idx, hasID, body int64 }

func (d esDoc) tree() sx.Tree { return sx.Ints(d.id, d.idx, d.hasID, d.body) }

type esWorld struct {
	mu       sync.Mutex
	script   map[int64][]int64
	sends    map[int64]int64
	calls    [][]esDoc
	inflight int
	high     int
	answers  map[int64][]sx.Tree
	gate     chan struct{} // non-nil: bulk requests are held until it is closed
}

type esFactory struct{ w *esWorld }

func (f *esFactory) BulkService() elasticsearch.BulkServiceV { return &esBulk{w: f.w} }

type esBulk struct {
	w    *esWorld
	reqs []elastic.BulkableRequest
}

func (b *esBulk) Timeout(string) *elastic.BulkService { return nil }
func (b *esBulk) Add(reqs ...elastic.BulkableRequest) *elastic.BulkService {
	b.reqs = append(b.reqs, reqs...)
	return nil
}
func (b *esBulk) NumberOfActions() int { return len(b.reqs) }

func decodeReq(r elastic.BulkableRequest) esDoc {
	bad := esDoc{-1, -1, -1, -1}
	lines, err := r.Source()
	if err != nil || len(lines) != 2 {
		return bad
	}
	var act map[string]struct {
		Index string `json:"_index"`
		ID    string `json:"_id"`
		Type  string `json:"_type"`
	}
	var doc struct {
		N *int64 `json:"n"`
		V *int64 `json:"v"`
	}
	if json.Unmarshal([]byte(lines[0]), &act) != nil || json.Unmarshal([]byte(lines[1]), &doc) != nil {
		return bad
	}
	a, ok := act["index"]
	if !ok || len(act) != 1 || doc.N == nil || doc.V == nil || a.Type != "" {
		return bad
	}
	d := esDoc{id: *doc.N, body: *doc.V, idx: -1}
	if strings.HasPrefix(a.Index, "idx") {
		if k, err := strconv.ParseInt(a.Index[3:], 10, 64); err == nil {
			d.idx = k
		}
	}
	switch a.ID {
	case "":
		d.hasID = 0
	case "d" + strconv.FormatInt(d.id, 10):
		d.hasID = 1
	default:
		d.hasID = -1
	}
	return d
}

func (b *esBulk) Do(ctx context.Context) (*elastic.BulkResponse, error) {
	w := b.w
	docs := make([]esDoc, len(b.reqs))
	outs := make([]int64, len(b.reqs))
	sends := make([]int64, len(b.reqs))
	whole, late := false, false
	w.mu.Lock()
	for i, r := range b.reqs {
		d := decodeReq(r)
		docs[i] = d
		k := w.sends[d.id]
		w.sends[d.id] = k + 1
		sends[i] = k
		o := int64(0)
		if s := w.script[d.id]; int(k) < len(s) {
			o = s[k]
		}
		if o >= 10 {
			late = true
			o -= 10
		}
		if o == oWhole {
			whole = true
		}
		outs[i] = o
	}
	w.calls = append(w.calls, docs)
	w.inflight++
	if w.inflight > w.high {
		w.high = w.inflight
	}
	w.mu.Unlock()

	time.Sleep(500 * time.Microsecond) // let bulk requests overlap
	if w.gate != nil {
		<-w.gate
	}
	if late {
		<-ctx.Done()
	}
	w.mu.Lock()
	w.inflight--
	w.mu.Unlock()
	if whole {
		return nil, errors.New("scripted whole-request error")
	}
	res := &elastic.BulkResponse{}
	for i := range docs {
		item := &elastic.BulkResponseItem{Status: 201}
		reason := fmt.Sprintf("r-%d-%d", docs[i].id, sends[i])
		switch outs[i] {
		case oRetry:
			item.Status = 429
			item.Error = &elastic.ErrorDetails{Type: "es_rejected_execution_exception", Reason: reason}
		case oMapping:
			item.Status = 400
			item.Error = &elastic.ErrorDetails{Type: "mapper_parsing_exception", Reason: reason}
		case oNoErr:
			item.Status = 500
		}
		if item.Status != 201 {
			res.Errors = true
		}
		res.Items = append(res.Items, map[string]*elastic.BulkResponseItem{"index": item})
	}
	return res, nil
}

func classify(id int64, err error) sx.Tree {
	fb, ok := err.(firebolt.FBError)
	if !ok {
		return sx.Ints(2)
	}
	if fb.Code != "ES_INDEX_ERROR" {
		return sx.Ints(2)
	}
	det, ok := fb.ErrorInfo.(*elastic.ErrorDetails)
	if !ok || det == nil {
		return sx.Ints(4)
	}
	var et int64 = 3
	switch det.Type {
	case "es_rejected_execution_exception":
		et = 1
	case "mapper_parsing_exception":
		et = 2
	}
	if et == 3 {
		return sx.Ints(1, -1, 3)
	}
	var rid, rs int64
	if n, _ := fmt.Sscanf(det.Reason, "r-%d-%d", &rid, &rs); n != 2 || rid != id {
		return sx.Ints(4)
	}
	return sx.Ints(1, rs, et)
}

type esRun struct {
	unreliable, timeout bool
	obs                 sx.Tree
}

func runEsOnce(in sx.Tree) esRun {
	cfg := in.At(0)
	batchSize, maxRetries, workers, waitMs := cfg.At(0).Int(), cfg.At(1).Int(), cfg.At(2).Int(), cfg.At(3).Int()
	W := time.Duration(waitMs) * time.Millisecond
	w := &esWorld{script: map[int64][]int64{}, sends: map[int64]int64{}, answers: map[int64][]sx.Tree{}}
	end := in.At(3).Int()
	if end == 2 || end == 3 {
		w.gate = make(chan struct{})
	}
	lates, wholes := 0, 0
	for _, s := range in.At(2).Kids {
		l := []int64{}
		for _, o := range s.At(1).Kids {
			v := o.Int()
			if v >= 10 {
				lates++
			}
			if v%10 == oWhole {
				wholes++
			}
			l = append(l, v)
		}
		if _, dup := w.script[s.At(0).Int()]; !dup { // the first entry for an id counts (as in the model's lookup)
			w.script[s.At(0).Int()] = l
		}
	}
	if end == 3 {
		// a held scenario needs a worker for every batch (a pause waits until the flushed batch has REACHED the scripted
		// service); with fewer workers (only the shrinker gets there) the scenario is skipped like an unreliable run
		batches, pend := int64(0), int64(0)
		for _, op := range in.At(1).Kids {
			switch op.At(0).Int() {
			case 0:
				pend++
				if pend == batchSize {
					batches, pend = batches+1, 0
				}
			case 2:
				if pend > 0 {
					batches, pend = batches+1, 0
				}
			}
		}
		if pend > 0 {
			batches++
		}
		if batches > workers {
			return esRun{obs: sx.T(sx.T(sx.B(true), sx.B(false)), sx.T(), sx.T(), sx.L(0), sx.T())}
		}
	}
	e := &elasticsearch.Elasticsearch{}
	e.SetBulkServiceFactoryV(&esFactory{w: w})
	err := e.Setup(map[string]string{
		"elastic-addr":               "scripted",
		"batch-size":                 strconv.FormatInt(batchSize, 10),
		"batch-max-wait-ms":          strconv.FormatInt(waitMs, 10),
		"bulk-index-max-retries":     strconv.FormatInt(maxRetries, 10),
		"index-workers":              strconv.FormatInt(workers, 10),
		"bulk-index-timeout-seconds": "1",
	})
	if err != nil {
		return esRun{obs: sx.T(sx.L(-3))}
	}
	res := esRun{}
	accepted := []int64{}
	// quiescence: every accepted document has an answer and no bulk request is in flight
	budget := 1200*time.Millisecond + W + time.Duration(lates)*1200*time.Millisecond
	if wholes > 0 {
		backoff := time.Duration(0)
		for i := 0; i < wholes; i++ {
			backoff += (5 * time.Second) << uint(i)
		}
		budget += backoff + time.Second
	}
	pause := func() {
		deadline := time.Now().Add(budget)
		for {
			w.mu.Lock()
			done := w.inflight == 0
			for _, id := range accepted {
				if len(w.answers[id]) == 0 {
					done = false
					break
				}
			}
			w.mu.Unlock()
			if done {
				return
			}
			if time.Now().After(deadline) {
				res.timeout = true
				return
			}
			time.Sleep(200 * time.Microsecond)
		}
	}
	// held scenarios: a pause of arrivals waits until every batch flushed so far has reached the scripted service
	expectedCalls := 0
	heldPause := func() {
		deadline := time.Now().Add(budget)
		for {
			w.mu.Lock()
			n := len(w.calls)
			w.mu.Unlock()
			if n >= expectedCalls {
				return
			}
			if time.Now().After(deadline) {
				res.timeout = true
				return
			}
			time.Sleep(200 * time.Microsecond)
		}
	}
	order := []int64{}
	var prevCall time.Time
	pending := 0
	for _, op := range in.At(1).Kids {
		switch op.At(0).Int() {
		case 0, 1:
			id := op.At(1).Int()
			order = append(order, id)
			var payload interface{} = "not an IndexRequest"
			if op.At(0).Int() == 0 {
				ir := elasticsearch.IndexRequest{
					Index: "idx" + strconv.FormatInt(op.At(2).Int(), 10),
					Doc:   fmt.Sprintf(`{"n":%d,"v":%d}`, id, op.At(4).Int()),
				}
				if op.At(3).Bool() {
					ir.DocID = "d" + strconv.FormatInt(id, 10)
				}
				payload = ir
			}
			ev := &firebolt.AsyncEvent{Event: &firebolt.Event{Payload: payload, Created: time.Now()}}
			ev.ReturnError = func(err error) {
				c := classify(id, err)
				w.mu.Lock()
				w.answers[id] = append(w.answers[id], c)
				w.mu.Unlock()
			}
			ev.ReturnEvent = func(got *firebolt.AsyncEvent) {
				c := sx.Ints(0)
				if got != ev {
					c = sx.Ints(5)
				}
				w.mu.Lock()
				w.answers[id] = append(w.answers[id], c)
				w.mu.Unlock()
			}
			ev.ReturnFiltered = func() {
				w.mu.Lock()
				w.answers[id] = append(w.answers[id], sx.Ints(3))
				w.mu.Unlock()
			}
			tCall := time.Now()
			e.ProcessAsync(ev)
			if op.At(0).Int() == 0 {
				// the idle timer is re-armed by every arrival: two arrivals of one batch closer than batch-max-wait
				// cannot be separated by it.  A stall of this goroutine longer than half of it makes the run unreliable.
				if pending > 0 && time.Since(prevCall) > W/2 {
					res.unreliable = true
				}
				prevCall = tCall
				accepted = append(accepted, id)
				pending++
				if int64(pending) == batchSize {
					pending = 0
					expectedCalls++
				}
			}
		case 2:
			if pending > 0 {
				expectedCalls++
			}
			if end == 3 {
				heldPause()
			} else if end != 2 {
				pause()
			}
			pending = 0
		}
	}
	atShutdown := []sx.Tree{}
	if end == 3 {
		if pending > 0 {
			expectedCalls++
		}
		heldPause()
		close(w.gate) // release every held request
	}
	if end == 0 || end == 3 {
		pause()
		_ = e.Shutdown()
	} else {
		_ = e.Shutdown()
		if pending > 0 && time.Since(prevCall) > W/2 {
			res.unreliable = true
		}
		if end == 2 {
			w.mu.Lock()
			for _, id := range order {
				if len(w.answers[id]) > 0 {
					atShutdown = append(atShutdown, sx.L(id))
				}
			}
			w.mu.Unlock()
			close(w.gate)
		}
		// requests already handed to a bulk goroutine are still completed by it (nothing awaits them, but the
		// process lives on): wait for those; the ones in the pending batch are judged as they are
		accepted = accepted[:len(accepted)-pending]
		pause()
	}
	settle := 30 * time.Millisecond // duplicates show up here
	if lates > 0 {
		// a request-level error after a handled response would re-send the batch after the first back-off (5 s)
		settle = 5600 * time.Millisecond
	}
	time.Sleep(settle)
	w.mu.Lock()
	defer w.mu.Unlock()
	ans := []sx.Tree{}
	for _, id := range order {
		codes := append([]sx.Tree{}, w.answers[id]...)
		sort.Slice(codes, func(i, j int) bool { return codes[i].String() < codes[j].String() })
		ans = append(ans, sx.T(sx.L(id), sx.T(codes...)))
	}
	calls := []sx.Tree{}
	for _, c := range w.calls {
		ds := []sx.Tree{}
		for _, d := range c {
			ds = append(ds, d.tree())
		}
		calls = append(calls, sx.T(ds...))
	}
	sort.Slice(calls, func(i, j int) bool { return calls[i].String() < calls[j].String() })
	res.obs = sx.T(sx.T(sx.B(res.unreliable), sx.B(res.timeout)), sx.T(ans...), sx.T(calls...), sx.L(int64(w.high)), sx.T(atShutdown...))
	return res
}

// RunEs executes one elasticsearch scenario; a run disturbed by a scheduling stall is repeated.
func RunEs(in sx.Tree) sx.Tree {
	var r esRun
	for try := 0; try < 3; try++ {
		r = runEsOnce(in)
		if !r.unreliable {
			break
		}
	}
	return r.obs
}

// GenEs generates one elasticsearch scenario.
func GenEs(r *sx.Rng, idx int) sx.Tree {
	batchSize := r.Range(1, 5)
	maxRetries := r.Range(1, 3)
	workers := r.Range(1, 3)
	end := int64(0)
	wait := int64(40)
	if r.Chance(14) {
		end = 1
		wait = 300
		if r.Chance(40) {
			end = 2
		}
	}
	if idx%11 == 4 {
		return genHeld(r)
	}
	if idx%307 == 5 {
		return genWholeOnce(r) // a few per quick run (period coprime to the shard count): one 5 s back-off each, overlapped across shards
	}
	nops := int(r.Range(0, 12))
	if r.Chance(10) {
		nops = int(r.Range(12, 24))
	}
	ops := []sx.Tree{}
	script := []sx.Tree{}
	wantLate := idx%89 == 7 // period coprime to the shard count: late cases (6.6 s each) spread over the shards
	wantWhole := idx >= 1000 && idx%50 == 3
	pauses := 0
	for i := 0; i < nops; i++ {
		id := int64(i)
		k := r.Intn(100)
		switch {
		case k < 8:
			ops = append(ops, sx.Ints(1, id))
		case k < 20 && end == 0 && pauses < 2:
			ops = append(ops, sx.Ints(2))
			pauses++
		default:
			ops = append(ops, sx.Ints(0, id, r.Range(0, 2), int64(r.Intn(2)), r.Range(0, 99)))
			n := r.Intn(int(maxRetries) + 3)
			if r.Chance(35) {
				n = 0
			}
			outs := []int64{}
			for j := 0; j < n; j++ {
				o := int64(oOK)
				switch q := r.Intn(100); {
				case q < 55:
					o = oRetry
				case q < 67:
					o = oMapping
				case q < 75:
					o = oNoErr
				}
				if wantLate && r.Chance(50) {
					o += 10
					wantLate = false
				}
				if wantWhole && r.Chance(50) {
					o = oWhole
					wantWhole = false
				}
				outs = append(outs, o)
			}
			if len(outs) > 0 {
				script = append(script, sx.T(sx.L(id), sx.Ints(outs...)))
			}
		}
	}
	return sx.T(sx.Ints(batchSize, maxRetries, workers, wait), sx.T(ops...), sx.T(script...), sx.L(end))
}

// genHeld: timer flushes of partial batches while the responses of earlier bulk requests are held, more arrivals
// meanwhile, then release.  Enough workers for every batch to reach the scripted service at once.
func genHeld(r *sx.Rng) sx.Tree {
	batchSize := r.Range(2, 5)
	maxRetries := r.Range(1, 2)
	ops := []sx.Tree{}
	script := []sx.Tree{}
	id := int64(0)
	rounds := int(r.Range(2, 4))
	for k := 0; k < rounds; k++ {
		n := int(r.Range(1, batchSize-1)) // a partial batch
		if r.Chance(20) {
			n = int(r.Range(batchSize, batchSize+2)) // a size flush, possibly with a partial remainder
		}
		for j := 0; j < n; j++ {
			ops = append(ops, sx.Ints(0, id, r.Range(0, 2), int64(r.Intn(2)), r.Range(0, 99)))
			if r.Chance(30) {
				script = append(script, sx.T(sx.L(id), sx.Ints(sx.Pick(r, int64(oRetry), int64(oMapping)))))
			}
			id++
		}
		if k < rounds-1 {
			ops = append(ops, sx.Ints(2))
		}
	}
	return sx.T(sx.Ints(batchSize, maxRetries, 8, 40), sx.T(ops...), sx.T(script...), sx.L(3))
}

// genWholeOnce: ONE whole-request error (one 5 s back-off) followed by retryable per-document failures with
// bulk-index-max-retries 1, so that it matters whether the whole-request failure used up a retry.
func genWholeOnce(r *sx.Rng) sx.Tree {
	batchSize := r.Range(1, 3)
	n := int(r.Range(1, batchSize)) // one batch, full or flushed by the timer
	ops := []sx.Tree{}
	script := []sx.Tree{}
	victim := r.Intn(n)
	for i := 0; i < n; i++ {
		ops = append(ops, sx.Ints(0, int64(i), r.Range(0, 2), int64(r.Intn(2)), r.Range(0, 99)))
		if i == victim {
			script = append(script, sx.T(sx.L(int64(i)), sx.Ints(oWhole, oRetry, sx.Pick(r, int64(oRetry), int64(oOK), int64(oNoErr)), sx.Pick(r, int64(oOK), int64(oRetry)))))
		} else {
			outs := []int64{sx.Pick(r, int64(oOK), int64(oRetry), int64(oMapping))}
			for j := 0; j < 3; j++ {
				outs = append(outs, sx.Pick(r, int64(oOK), int64(oRetry), int64(oRetry), int64(oMapping)))
			}
			script = append(script, sx.T(sx.L(int64(i)), sx.Ints(outs...)))
		}
	}
	return sx.T(sx.Ints(batchSize, 1, r.Range(1, 2), 40), sx.T(ops...), sx.T(script...), sx.L(0))
}
