package e7

import "fbverif/sx"

// GenEs generates one elasticsearch scenario (stub).
func GenEs(r *sx.Rng, idx int) sx.Tree { return sx.T() }

// RunEs executes one elasticsearch scenario (stub).
func RunEs(in sx.Tree) sx.Tree { return sx.T() }
