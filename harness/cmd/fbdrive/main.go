// fbdrive: generator and driver of the correspondence checks.
//
//	fbdrive <engine> gen -seed S -n N [-focus Cxx]     prints one case input per line
//	fbdrive <engine> run                               reads inputs on stdin, prints "(input obs)" per line
package main

import (
	"bufio"
	"flag"
	"fmt"
	"io"
	"os"
	"strings"
	"time"

	log "github.com/sirupsen/logrus"

	"github.com/digitalocean/firebolt/metrics"

	"fbverif/sx"
)

type engine struct {
	gen func(r *sx.Rng, idx int, focus string) sx.Tree
	run func(in sx.Tree) sx.Tree
}

// engines is filled by the reg_<engine>.go files of this package
var engines = map[string]engine{}

func main() {
	if len(os.Args) < 3 {
		fmt.Fprintln(os.Stderr, "usage: fbdrive <engine> gen|run [flags]")
		os.Exit(2)
	}
	eng, ok := engines[os.Args[1]]
	if !ok {
		fmt.Fprintln(os.Stderr, "unknown engine", os.Args[1])
		os.Exit(2)
	}
	log.SetOutput(io.Discard)
	log.SetLevel(log.PanicLevel)
	metrics.Init("verif")
	fs := flag.NewFlagSet("fbdrive", flag.ExitOnError)
	seed := fs.Uint64("seed", 1, "seed")
	n := fs.Int("n", 100, "number of cases")
	focus := fs.String("focus", "", "property the generator should aim at")
	_ = fs.Parse(os.Args[3:])
	w := bufio.NewWriterSize(os.Stdout, 1<<20)
	defer w.Flush()
	switch os.Args[2] {
	case "gen":
		root := sx.NewRng(*seed)
		for i := 0; i < *n; i++ {
			fmt.Fprintln(w, eng.gen(root.Fork(), i, *focus).String())
		}
	case "run":
		limit := 60 * time.Second
		if os.Args[1] == "e1" {
			limit = 150 * time.Second // scenarios with supervisor pauses (10 s each) and shutdown timeouts
		}
		hangs := 0
		err := sx.ReadLines(bufio.NewReader(os.Stdin), func(line string) error {
			in, err := sx.Parse(line)
			if err != nil {
				return err
			}
			obs, hung := runWatched(eng, in, limit)
			if !hung && obs.IsLeaf == false && len(obs.Kids) == 2 && obs.Kids[0].IsLeaf && obs.Kids[0].Int() == -1 && !obs.Kids[1].IsLeaf {
				// the code under test (or the harness) panicked outside anything the engine catches itself
				if judgesPanics[os.Args[1]] {
					obs = sx.T(sx.L(-1)) // these engines' models say when a call panics: an observation like any other
				} else {
					fmt.Fprintf(w, "CRASH panic: %s\n", string(obs.Kids[1].ByteSlice()))
					return nil
				}
			}
			if hung {
				// the code under test never came back (deadlock, lost wake-up): reported like a crash of this case; the
				// goroutine is abandoned.  After three of them the shard stops: the remaining cases are not run.
				fmt.Fprintf(w, "CRASH hang: the case did not finish within %v\n", limit)
				hangs++
				if hangs >= 3 {
					w.Flush()
					os.Exit(0)
				}
				return nil
			}
			fmt.Fprintln(w, sx.T(in, obs).String())
			return nil
		})
		if err != nil {
			fmt.Fprintln(os.Stderr, "fbdrive:", err)
			os.Exit(2)
		}
	default:
		fmt.Fprintln(os.Stderr, "unknown command", os.Args[2])
		os.Exit(2)
	}
}

// a panic in the code under test is an observation: (-1)
// engines whose judge decides panics itself (observation (-1)); for the others a panic is a crash of the case
var judgesPanics = map[string]bool{"e3": true, "e7": true, "e8": true}

// runWatched runs one case with a watchdog.
func runWatched(eng engine, in sx.Tree, limit time.Duration) (sx.Tree, bool) {
	ch := make(chan sx.Tree, 1)
	go func() { ch <- runProtected(eng, in) }()
	select {
	case obs := <-ch:
		return obs, false
	case <-time.After(limit):
		return sx.Tree{}, true
	}
}

func runProtected(eng engine, in sx.Tree) (obs sx.Tree) {
	defer func() {
		if r := recover(); r != nil {
			msg := strings.Map(func(c rune) rune {
				if c < 32 || c > 126 {
					return ' '
				}
				return c
			}, fmt.Sprint(r))
			if len(msg) > 300 {
				msg = msg[:300]
			}
			obs = sx.T(sx.L(-1), sx.Str(msg))
		}
	}()
	return eng.run(in)
}
