package main

import "fbverif/e1"

func init() { engines["e1"] = engine{e1.Gen, e1.Run} }
