package main

import "fbverif/e8"

func init() { engines["e8"] = engine{e8.Gen, e8.Run} }
