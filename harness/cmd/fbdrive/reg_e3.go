package main

import "fbverif/e3"

func init() { engines["e3"] = engine{e3.Gen, e3.Run} }
