package main

import "fbverif/e6"

func init() { engines["e6"] = engine{e6.Gen, e6.Run} }
