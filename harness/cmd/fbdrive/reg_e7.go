package main

import "fbverif/e7"

func init() { engines["e7"] = engine{e7.Gen, e7.Run} }
