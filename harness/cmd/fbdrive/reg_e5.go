package main

import "fbverif/e5"

func init() { engines["e5"] = engine{e5.Gen, e5.Run} }
