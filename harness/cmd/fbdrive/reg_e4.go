package main

import "fbverif/e4"

func init() { engines["e4"] = engine{e4.Gen, e4.Run} }
