package main

import "fbverif/e2"

func init() { engines["e2"] = engine{e2.Gen, e2.Run} }
