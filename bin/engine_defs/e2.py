"""E2: start offsets (C06)"""

ENGINES = {
    'e2': dict(
        model='coq/Model/Offsets.v (+ Model/Tracker.v)',
        rule='cases from harness/e2 Gen (boundary-biased: lag == maxlag +-2, skipped == maxrec +-1, absent/invalid/beyond-head '
             'committed offsets, offsets up to 2^62, maxlag 0..2^63-1, faults on either query); a case is non-trivial when the '
             'model run hit a branch tag >= 10 (a partition kept / capped / request filed / trimmed); distinct = distinct input trees',
        tags={'1': 'Committed() error', '2': 'watermark error', '3': 'Assign error', '10': 'some partition keeps committed offset',
              '11': 'some partition capped', '12': 'request filed', '13': 'request trimmed to maxrec', '14': 'outside C06 domain (duplicates/negatives)'},
        trusted_base=['hand-written model of calculateAssignmentOffsets/offsetForPartition/RequestRecovery/assignPartitions (Model/Offsets.v) '
                      'tied to the code only by this correspondence run',
                      'verif hook node/kafkaconsumer/verif_hooks.go (constructor without goroutines, AssignPartitionsV)'],
        assumptions=['broker answers are oracles supplied by the case; Go int64 arithmetic equals Z on the quantified ranges (theorem C06_no_overflow)'],
    ),
}

PROPS = {
    'C06': dict(engine='e2', n=dict(quick=3000, thorough=60000)),
}
