"""E1: the executor network (C01 C02 C03 C04 C05 C16 C17 C18)"""

_TB = ['hand-written scheduled small-step model of node.Context/executor.Execute/runNode (coq/Model/Exec.v) and of the quiescent-state '
       'semantics (Model/Settle.v, Model/Play.v), tied to the code by this correspondence run only',
       'Go semantics of channels, select-with-default, sync.WaitGroup, sync.Once as encoded in Exec.v',
       'harness-owned source and node types (harness/e1): gates, trace stamping under one mutex, contract of async nodes '
       '(Shutdown waits for outstanding callbacks)',
       'confluence of settle outside the flagged ambiguous situations is NOT proved; a violation of it would show up as a disagreement']

ENGINES = {
    'e1': dict(
        model='coq/Model/Exec.v + Settle.v + Play.v (+ TraceSpec.v)',
        predict='e1p',
        shards=16,
        timing_sensitive=True,
        timing_props=[17],
        rule='random configuration trees (1-2 roots, depth <= 3, <= 10 nodes, sync/fanout/async, workers 1-3, buffers 1-3, disabled and '
             'discarding nodes, sync/async error handlers) driven (a) in lockstep through gated scenarios of 5-45 generator intents '
             '(emit / release k-th waiting call with outcome / complete async / end source / fail source / wait) resolved by the model, '
             'snapshot compared after every command, and (b) free-running with scripted outcomes and latencies, whole trace judged by '
             'trace_ok/terminal_ok; non-trivial = the case executed at least one emit and one release (tags 10 and 11-15) or is a clean '
             'free run (30); distinct = distinct input trees',
        tags={'5': 'scenario truncated at an ambiguous situation', '6': 'model out of fuel/panic (harness error)', '10': 'emit',
              '11': 'release pass', '12': 'release filter', '13': 'release fail', '14': 'release fanout', '15': 'release later (async)',
              '16': 'async completion', '17': 'source ended', '18': 'source failed+restarted', '19': 'waited for Execute',
              '20': 'net has a discarding node', '21': 'net has an error handler', '22': 'net has a multi-worker node',
              '23': 'net has an async node', '24': 'source failure in free run', '30': 'free run ended clean', '31': 'free run did not end clean'},
        trusted_base=_TB,
        assumptions=['user nodes honour the node contract: sync/fanout Process returns; an async node calls back exactly once per event and its '
                     'Shutdown returns only after all callbacks returned',
                     'events carry unique ids within a case'],
    ),
}

def _p(n_quick, n_thorough, comps=None, **kw):
    d = dict(engine='e1', n=dict(quick=n_quick, thorough=n_thorough), search_s=45, shrink_batch=64, shrink_s=60)
    if comps is not None:
        d['components'] = comps
    d.update(kw)
    return d

# observable components (Judge/E1.v): 1 context tree, 2 channel lengths, 3 calls at the gate, 4 recv/proc/filt/fail counters,
# 5 discarded counter, 6 Shutdown begun/ended, 7 Execute returned, 8 source state, 9 async in flight, 10 shape
PROPS = {
    'C01': _p(160, 4000, [1, 2, 3, 9, 10]),
    'C02': _p(160, 4000, [1, 2, 3, 9, 10]),
    'C03': _p(160, 4000, [2, 3, 6, 7, 9, 10]),
    'C04': _p(160, 4000, [2, 3, 5, 10]),
    'C05': _p(160, 4000, [1, 3, 10]),
    'C16': _p(160, 4000, [4, 5, 10]),
    'C17': _p(64, 1500, [7, 10]),
    'C18': _p(96, 1500, [8, 10]),
}
