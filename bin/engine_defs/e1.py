"""E1: the executor network (C01 C02 C03 C04 C05 C16 C17 C18)"""

_TB = ['hand-written scheduled small-step model of node.Context/executor.Execute/runNode (coq/Model/Exec.v) and of the quiescent-state '
       'semantics (Model/Settle.v, Model/Play.v), tied to the code by this correspondence run only',
       'Go semantics of channels, select-with-default, sync.WaitGroup, sync.Once as encoded in Exec.v',
       'harness-owned source and node types (harness/e1): gates, trace stamping under one mutex, contract of async nodes '
       '(Shutdown waits for outstanding callbacks)',
       'confluence of settle outside the flagged ambiguous situations is NOT proved; a violation of it would show up as a disagreement']

ENGINES = {
    'e1': dict(
        model='coq/Model/Exec.v + Settle.v + Play.v (+ TraceSpec.v)',
        predict='e1p',
        shards=16,
        timing_sensitive=True,
        tier_in_focus=True,
        timing_props=[17],
        timing_clauses=[[3, 8], [18, 9], [17, 3]],   # 'must end clean': a clean end that is merely late (machine load) is re-run alone
        rule='random configuration trees (1-2 roots, depth <= 3, <= 10 nodes; thorough: <= 3 roots, depth <= 4, <= 17 nodes; sync/fanout/async kinds, workers 1-3, '
             'buffers 1-3, disabled and discarding nodes incl. roots, sync/async error handlers with 1-3 workers) driven (a) in lockstep through gated '
             'scenarios of 5-45 (thorough 20-110) generator intents (emit / release the k-th waiting call with outcome pass-same-event, transform, '
             'filter, fail, fanout 0-3, defer / complete an async event / end the source by script or through Executor.Shutdown() / fail the source / '
             'wait for Execute) resolved by the model, with drain, stall-all-but-one and stall phases; the snapshot (channel lengths, calls at the '
             'gate, events in flight, counters, Shutdown flags, Execute returned) is compared after every command; and (b) free-running with '
             'scripted outcomes and latencies, slow or stalled discarding consumers ("comb" trees with a multi-worker root), slow error handlers '
             'with many failures, failing sources; the whole trace is judged by trace_ok/terminal_ok plus the stall/bufferfull/clean-end clauses; '
             'non-trivial = at least one branch tag >= 10 (the case executed a command / ended); distinct = distinct input trees',
        tags={'5': 'scenario truncated at an ambiguous situation', '6': 'model out of fuel/panic (harness error)', '10': 'emit',
              '11': 'release pass', '12': 'release filter', '13': 'release fail', '14': 'release fanout', '15': 'release later (async)',
              '16': 'async completion', '17': 'source ended', '18': 'source failed+restarted', '19': 'waited for Execute',
              '20': 'net has a discarding node', '21': 'net has an error handler', '22': 'net has a multi-worker node',
              '23': 'net has an async node', '24': 'source failure in free run', '25': 'ended by a real SIGTERM (possibly pending while the main loop is blocked)', '26': 'Setup of a replacement source fails (child process)', '27': 'the child process ended with status 1', '30': 'free run ended clean', '31': 'free run did not end clean'},
        trusted_base=_TB,
        assumptions=['user nodes honour the node contract: sync/fanout Process returns; an async node calls back exactly once per event and its '
                     'Shutdown returns only after all callbacks returned',
                     'events carry unique ids within a case'],
    ),
}

def _p(n_quick, n_thorough, comps=None, **kw):
    d = dict(engine='e1', n=dict(quick=n_quick, thorough=n_thorough), search_s=45, shrink_batch=64, shrink_s=60)
    if comps is not None:
        d['components'] = comps
    d.update(kw)
    return d


_TECH = 'machine-checked proof in Coq (invariants by induction over all schedules of a small-step model) + lockstep/free-running correspondence with the real executor'
_NOTE = ('Proved (no axioms; Print Assumptions closed): the stated theorems about coq/Model/Exec.v for every network table / every schedule. '
         'Tied by the differential run only (generator-bounded: <= 10 nodes, depth <= 3, workers <= 3, buffers <= 3, <= 45 scenario steps, <= 40 events): that Exec.v/Settle.v '
         'are the Go code (channels, select-default, WaitGroup, Once as encoded); that flatten yields a wf_net is checked per case, not proved. '
         'Harness nodes honour the node contract (async Shutdown waits for callbacks).')

def _m(text, note=_NOTE, ref='DESIGN.md section 0 and section 8 (E1)'):
    return dict(level_text=text, level_note=note, technique=_TECH, design_ref=ref)

_MAN = {
 'C01': _m('Coq theorems (Props/C01.v): a global conservation law per channel and item for EVERY schedule (produced by the feeder = enqueued + discarded + pending; enqueued = buffered + handed over), '
           'its channel-by-channel reading in well-formed networks (source->roots, results->children once per child and result, failures->own handler), nothing invented (entered <= supply), '
           'no loss without discard flag, exactness at a clean end; spec_sound: the trace decision procedure used on the implementation accepts every model run. Tied to the code by lockstep gated '
           'scenarios (model-predicted quiescent snapshot after every command: channel lengths, calls at the gate, counters) and free-running traces judged by trace_ok/terminal_ok; pruning of disabled '
           'subtrees compared structurally on every case (model flatten vs real context tree).'),
 'C02': _m('Coq theorems (Props/C02.v): a failure is delivered to the node\'s own handler only, as (original event, that error); none without handler; successes/filters produce no report; '
           'report conservation for every schedule incl. async error callbacks; at most once always, exactly once (minus counted discards) at a clean end. Real code: harness handler nodes check pointer '
           'identity of the event and identity of the error value; handler kind (sync/async) compared with Context.NodeType.'),
 'C03': _m('Coq theorems (Props/C03.v): no schedule panics (no send on closed channel, no double close); Shutdown entered at most once, only after all processing calls returned, no event afterwards; '
           'children/handler open until Shutdown returned so every pending delivery (incl. async callbacks fired inside Shutdown) targets an open channel; a clean return of Execute implies everything drained; '
           'ordering clauses of the trace spec sound; the end-of-run clauses of the lockstep judge (every root received or counted as discarded what the source emitted, every handler its node\'s failures) '
           'never fire on a clean end (C03_final_clauses_sound). Liveness: deadlock freedom and bounded termination of the shutdown cascade in live networks (C03_can_always_finish, '
           'C03_every_run_ends_clean, C03_maximal_run_is_clean; every started table is live); fairness of the Go scheduler is outside the model. Scenarios end by script, Executor.Shutdown() or a real SIGTERM '
           '(pending while the main loop is blocked).'),
 'C04': _m('Coq theorems (Props/C04.v): no drop without the flag in any reachable state; full non-discarding buffer blocks the sender; a drop only at a full discarding buffer, losing exactly that event and '
           'counted; delivery to an open discarding node is enabled in every state (never blocks); exact accounting at a clean end. "Never makes parent/siblings/source wait" on the real code is what the '
           'lockstep correspondence observes with stalled discarding subtrees (roots, children, handlers).'),
 'C05': _m('PARTIAL. Coq theorems (Props/C05.v): calls in progress <= workers in every reachable state and equal to entered-minus-returned calls of the trace; every table node set up exactly once, nothing else, '
           'before the source starts; trace clauses sound. Data-race freedom of the Go code is NOT provable in this family: supporting runs only (free-running driver under -race in the thorough tier).'),
 'C16': _m('Coq theorems (Props/C16.v): each counter equals the number of the corresponding observable events in every reachable state (fanout counts once; discarded = drops at that node); accounting identity '
           'received = processed + filtered + failed + in-progress + in-flight always; terminal counter clauses sound. Real counters read through the Prometheus client per unique node id and compared after every '
           'lockstep command and at the end of free runs.'),
 'C17': _m('PARTIAL. Coq theorems (Props/C17.v): once in waitTimeout the main goroutine needs only T ticks and its own timeout step whatever other goroutines do; prompt return when all workers returned; timeout never '
           'early. The full statement is REFUTED on the faithful model (main blocked copying into a full root when the source stops: known finding F9, witness + proof that no schedule with the node stalled returns). '
           'Wall-clock bound measured by the harness (elapsed <= T*1000+1500 ms).'),
 'C18': _m('Coq theorems (Props/C18.v): for every schedule the source events of the trace are exactly Prep0 Start0 End0err Prep1 Start1 ... PrepK StartK [EndK nil]: prepared before started, started once, restart only after an '
           'error, nil return final; events only from a running incarnation; or ending, after an error return, with the failed Setup of the replacement (action SrcSetupFail, state SDead: the real executor '
           'exits there) and nothing after it (C18_start_needs_prep, C18_nothing_after_failed_setup, C18_failed_setup_is_final). Real code: scripted failing sources (hard-wired 10 s pause), same channel/params '
           'observed by the harness; the Setup-failure scenario runs in a child process and its trace prefix is judged by trace_ok.'),
}
# observable components (Judge/E1.v): 1 context tree, 2 channel lengths, 3 calls at the gate, 4 recv/proc/filt/fail counters,
# 5 discarded counter, 6 Shutdown begun/ended, 7 Execute returned, 8 source state, 9 async in flight, 10 shape
PROPS = {
    'C01': _p(240, 4000, [1, 2, 3, 9, 10]),
    'C02': _p(240, 4000, [1, 2, 3, 9, 10]),
    'C03': _p(240, 4000, [2, 3, 6, 7, 9, 10]),
    'C04': _p(240, 1200, [2, 3, 5, 10]),
    'C05': _p(240, 4000, [1, 3, 10], race=True, race_n=600),
    'C16': _p(240, 4000, [4, 5, 10]),
    'C17': _p(64, 1500, [7, 10]),
    'C18': _p(96, 1500, [8, 10]),
}

for _k in PROPS:
    PROPS[_k]['manifest'] = _MAN[_k]
