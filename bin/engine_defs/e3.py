"""E3: recovery tracker (C08)"""

ENGINES = {
    'e3': dict(
        model='coq/Model/Tracker.v + Model/TrackerWire.v (+ Model/TrackerGhost.v for the ghost history)',
        rule='histories from harness/e3 Gen (1-60 operations over 1-4 partitions; new ranges drawn relative to the ranges already '
             'tracked: overlapping either end, touching at from==to, adjacent integers, nested, enclosing, equal to, identical, '
             'bridging two requests, disjoint, empty, a few inverted; updates/completions naming the head, a non-head request, '
             'to+-1, a from value, a partition without requests; cancel-all anywhere; received snapshots incl. odd keys and '
             'undecodable payloads; offsets shifted by 0..2^62); a case is non-trivial when the model run hit a branch tag >= 10; '
             'distinct = distinct input trees',
        tags={'1': 'filed into an empty list', '2': 'unknown message type', '3': 'undecodable payload',
              '10': 'merge (overlap found)', '11': 'merge widened >= 2 requests', '12': 'appended behind existing requests',
              '13': 'merge by touching only', '14': 'update accepted', '15': 'update refused', '16': 'update lowered from',
              '17': 'completion removed one request', '18': 'completion removed several', '19': 'completion refused',
              '20': 'cancel-all over a non-empty list', '21': 'snapshot received over a non-empty list',
              '22': 'snapshot under an odd key (non-numeric / sign / overflow)', '23': 'empty or inverted range filed'},
        trusted_base=['hand-written model of recoverytracker.go and KafkaConsumer.Receive (Model/Tracker.v, Model/TrackerWire.v) '
                      'tied to the code only by this correspondence run',
                      'verif hook node/kafkaconsumer/verif_hooks.go (constructors without goroutines, SnapshotV, TrackerV)',
                      'encoding/json round trip of the (from,to) lists and strconv.Itoa/Atoi round trip of the key: exercised by '
                      'the two real replica instances on every case, not modelled'],
        assumptions=['FBContext.SendMessage / AckMessage succeed (the recording context never fails); a failing send leaves the '
                     'mutation in place and returns the error - outside the model',
                     'one goroutine at a time (the RWMutex discipline of the tracker is not modelled)'],
    ),
}

PROPS = {
    'C08': dict(engine='e3', n=dict(quick=3000, thorough=60000), shards=4, search_s=40,
                manifest=dict(
                    level_text='Coq theorems (coq/Props/C08.v) over an executable model of RecoveryTracker and KafkaConsumer.Receive, all quantifiers '
                               'unbounded (every state, range, history): exact cover on filing for both readings [from,to) and (from,to] although '
                               'every overlapped request is widened in place; update rewrites only the head and only when to matches; completion removes '
                               'exactly the requests ending at to; refused calls change and broadcast nothing; other partitions untouched; every '
                               'broadcast is the complete list of its key and every unbroadcast key is unchanged; ghost-state history theorems: '
                               'ghost run erases to the plain run, nothing filed is lost until a completion naming its request, a cancel-all or a '
                               'received snapshot (all histories), nothing is invented (histories whose updates do not lower from), every piece was '
                               'filed, the head is the oldest by birth index; snapshot-replica theorem for replicas fed all messages or only the '
                               'last per key from any start state; soundness of the decision procedure spec_c08.  Model tied to the code on every run '
                               'by a correspondence check on generated histories against the real tracker plus two real replica instances.',
                    level_note='Proved: everything above, about the hand-written model (Model/Tracker.v, TrackerWire.v, TrackerGhost.v).  Tied by the '
                               'differential run only (generator-bounded: <=60 operations, <=4 partitions, offsets up to 2^62): that the model is the Go code, '
                               'including the JSON round trip of the (from,to) lists, the Itoa/Atoi round trip of the key and Go map iteration in cancelAll '
                               '(compared as maps).  Hypothesis of the nothing-invented half: accepted updates never lower from (boolean mono_hist; '
                               'witness that it is needed in Props/C08.v).  Not modelled: failing SendMessage/AckMessage, concurrency (RWMutex), timestamps, '
                               'the PartitionID field inside a payload.  Touching ranges not being merged, or only the first overlapped request being widened, '
                               'would keep every clause of the statement true and is reported only as a model/code disagreement (no-failing-input-found).',
                    technique='machine-checked proof in Coq over hand-written model + model/implementation correspondence check',
                    design_ref='DESIGN.md section 8, E3')),
}
