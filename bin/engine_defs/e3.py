"""E3: recovery tracker (C08)"""

ENGINES = {
    'e3': dict(
        model='coq/Model/Tracker.v + Model/TrackerWire.v (+ Model/TrackerGhost.v for the ghost history)',
        rule='histories from harness/e3 Gen (1-60 operations over 1-4 partitions; new ranges drawn relative to the ranges already '
             'tracked: overlapping either end, touching at from==to, adjacent integers, nested, enclosing, equal to, identical, '
             'bridging two requests, disjoint, empty, a few inverted; updates/completions naming the head, a non-head request, '
             'to+-1, a from value, a partition without requests; cancel-all anywhere; received snapshots incl. odd keys and '
             'undecodable payloads; offsets shifted by 0..2^62); a case is non-trivial when the model run hit a branch tag >= 10; '
             'distinct = distinct input trees',
        tags={'1': 'filed into an empty list', '2': 'unknown message type', '3': 'undecodable payload',
              '10': 'merge (overlap found)', '11': 'merge widened >= 2 requests', '12': 'appended behind existing requests',
              '13': 'merge by touching only', '14': 'update accepted', '15': 'update refused', '16': 'update lowered from',
              '17': 'completion removed one request', '18': 'completion removed several', '19': 'completion refused',
              '20': 'cancel-all over a non-empty list', '21': 'snapshot received over a non-empty list',
              '22': 'snapshot under an odd key (non-numeric / sign / overflow)', '23': 'empty or inverted range filed'},
        trusted_base=['hand-written model of recoverytracker.go and KafkaConsumer.Receive (Model/Tracker.v, Model/TrackerWire.v) '
                      'tied to the code only by this correspondence run',
                      'verif hook node/kafkaconsumer/verif_hooks.go (constructors without goroutines, SnapshotV, TrackerV)',
                      'encoding/json round trip of the (from,to) lists and strconv.Itoa/Atoi round trip of the key: exercised by '
                      'the two real replica instances on every case, not modelled'],
        assumptions=['FBContext.SendMessage / AckMessage succeed (the recording context never fails); a failing send leaves the '
                     'mutation in place and returns the error - outside the model',
                     'one goroutine at a time (the RWMutex discipline of the tracker is not modelled)'],
    ),
}

PROPS = {
    'C08': dict(engine='e3', n=dict(quick=3000, thorough=60000), shards=4, search_s=40,
                manifest=dict(
                    level_text='TODO',
                    level_note='TODO',
                    technique='machine-checked proof in Coq over hand-written model + model/implementation correspondence check',
                    design_ref='DESIGN.md section 8, E3')),
}
