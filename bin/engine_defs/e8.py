"""E8: parameters (C20)"""

ENGINES = {
    'e8': dict(
        model='coq/Model/Params.v + coq/Model/Atoi.v + coq/Model/Literals.v',
        rule='one case = one call, from harness/e8 Gen: 40% buildConfigMap of one of the four clients (parameter maps <= 12 entries, '
             'keys/values <= 24 bytes (+ prefix) incl. empty, raw bytes, multi-byte UTF-8, dots; librdkafka.* overrides of defaulted and '
             'non-defaulted keys, un-prefixed look-alikes of client keys, the prefix alone, the nested prefix librdkafka.librdkafka.x, '
             '{topic}. redirects and near misses, direct default.topic.config override, bad/missing buffersize and brokers); '
             '20% KafkaConsumer.checkConfig (valid base with single-field damage; numeric strings with signs, spaces, underscores, leading '
             'zeros, 18/19/20-digit values around +-2^63 and 2^64, fullwidth/arabic digits; all twelve ParseBool spellings and near misses; '
             'empty vs absent); 15% IntConfig/IntConfigRequired (value and default at min, max, min-1, max+1, MinInt64/MaxInt64, min > max, '
             'min == max); 5% StringConfig/StringConfigRequired; 20% Float64Config/Float64ConfigRequired (value and default at the bounds, '
             'one ulp outside/inside, NaN, +-Inf, -0, 17-digit defaults, random bit patterns, hex floats, range errors, min > max). '
             'A case is non-trivial when the model run hit a branch tag >= 10; distinct = distinct input trees',
        tags={'1': 'buildConfigMap: no default table (buffersize unparsable / brokers empty) -> error expected',
              '2': 'buildConfigMap: outside the domain (librdkafka.default.topic.config together with librdkafka.{topic}.*; outcome depends on map order; not compared)',
              '3': 'int getter: default outside int64 (never generated)', '4': 'float getter: ParseFloat(FormatFloat(default)) != default (never observed)',
              '10': 'prefixed override of a defaulted key', '11': 'prefixed non-defaulted key', '12': '{topic}. redirect into default.topic.config',
              '13': 'un-prefixed parameters present (must not leak)', '14': 'empty remainder or nested prefix', '15': 'direct default.topic.config override',
              '16': 'client: Kafka source', '17': 'client: recovery consumer', '18': 'client: message receiver', '19': 'client: producer',
              '20': 'checkConfig accepts', '21': 'brokers/consumergroup/topic empty or absent', '22': 'buffersize non-numeric or < 1',
              '23': 'maxpartitionlag non-numeric or negative', '24': 'parallelrecoveryenabled not a boolean', '25': 'maxpartitionlag defaulted to MaxInt64',
              '30': 'int: present, parses, within bounds', '31': 'int: present, does not parse', '32': 'int: present, out of bounds',
              '33': 'int: absent, default within bounds', '34': 'int: absent, default out of bounds', '35': 'int: required and absent',
              '36': 'int: value == min or == max', '37': 'int: value == min-1 or == max+1',
              '40': 'string: present', '41': 'string: absent, default', '42': 'string: required and absent',
              '50': 'float: present, within bounds', '51': 'float: ParseFloat error', '52': 'float: out of bounds or NaN',
              '53': 'float: absent, default within bounds', '54': 'float: absent, default out of bounds / NaN', '55': 'float: required and absent',
              '56': 'float: value == min or == max', '57': 'float: value NaN'},
        trusted_base=['hand-written models of util.ApplyLibrdkafkaConf, confluent ConfigMap.SetKey, the four buildConfigMap default tables, '
                      'KafkaConsumer.checkConfig and the Nodeconfig getters (Model/Params.v), of strconv.Atoi/Itoa/ParseBool for 64-bit int '
                      '(Model/Atoi.v, read against $GOROOT/src/strconv) — tied to the code only by this correspondence run',
                      'strconv.ParseFloat / FormatFloat are NOT modelled: the Go driver derives what they answer for the texts of the case (oracle, reported in the observation, never read from the input), and their round trip on the '
                      'default is a guard evaluated on every case',
                      'the float order key (IEEE-754 bits -> order-preserving integer, +0/-0 identified) computed by the Go harness',
                      'verif hooks node/kafkaconsumer/verif_hooks.go (BuildConfigMapV, CheckConfigV), message/verif_hooks_e8.go, '
                      'node/kafkaproducer/verif_hooks_e8.go (thin wrappers over zero-value structs)'],
        assumptions=['Go int is 64 bit (GOARCH amd64)',
                     'a parameter map is a Go map: distinct keys; the nil map is not a case',
                     'domain of the overlay clauses: not both librdkafka.default.topic.config and a librdkafka.{topic}.* parameter '
                     '(confluent SetKey then panics or not depending on map iteration order)',
                     'strconv.ParseFloat(strconv.FormatFloat(d, \'g\', -1, 64), 64) == d (checked on every float case, never failed)'],
    ),
}

PROPS = {
    'C20': dict(engine='e8', n=dict(quick=20000, thorough=400000), shards=4,
                manifest=dict(
                    level_text='Coq theorems (coq/Props/C20.v) over executable models of ApplyLibrdkafkaConf + confluent SetKey, the four '
                               'buildConfigMap default tables, KafkaConsumer.checkConfig and the Nodeconfig getters, with strconv.Atoi/Itoa/ParseBool '
                               'modelled on byte strings: for ALL parameter maps (any keys/values, any iteration order) the resulting ConfigMap is '
                               'characterised key by key (prefixed parameter verbatim with the prefix removed once and winning over the default, every '
                               'other key exactly its default, hence no leak; {topic}. redirects go to the nested map); checkConfig accepts iff the six '
                               'conditions of the statement hold (Atoi/ParseBool exact, incl. int64 range); Int/String getters return value-or-default '
                               'iff it parses and is within bounds (Atoi(Itoa d) = d proved), Float getter proved over an abstract ParseFloat result '
                               'with NaN rejected; all mutations of the map stated. Model tied to the code on every run by a correspondence check '
                               '(real code through verif wrappers and public getters vs extracted model, 20000 boundary-biased cases).',
                    level_note='Proved: everything about the models, all quantifiers unbounded, no axioms. Tied by the differential run only '
                               '(generator-bounded: maps <= 12 entries, strings <= 35 bytes): that the models are the Go code, including the '
                               'transcribed default tables and the strconv models. Partial: float text parsing/formatting is strconv\'s (oracle + '
                               'round-trip guard per case); the combination librdkafka.default.topic.config + librdkafka.{topic}.* is excluded '
                               '(order-dependent panic inside confluent-kafka-go); what librdkafka itself does with the values is out of scope.',
                    technique='machine-checked proof in Coq over hand-written model + model/implementation correspondence check',
                    design_ref='DESIGN.md section 8, E8')),
}
