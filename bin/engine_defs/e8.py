"""E8: parameters (C20)"""

ENGINES = {
    'e8': dict(
        model='coq/Model/Params.v + coq/Model/Atoi.v',
        rule='placeholder',
        tags={},
        trusted_base=[],
        assumptions=[],
    ),
}

PROPS = {
    'C20': dict(engine='e8', n=dict(quick=6000, thorough=150000), shards=4),
}
