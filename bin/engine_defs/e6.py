"""E6: configuration (C13)"""

ENGINES = {
    'e6': dict(
        model='coq/Model/Config.v',
        rule='cases from harness/e6 Gen: YAML files rendered from generated configurations (0-4 roots, <=14 nodes, depth <=4, '
             'type-correct by construction, then 0-2 planted faults: duplicate ids at a chosen pair-of-positions class, '
             'unregistered names at nodes/handlers/source, consume/produce mismatches incl. nil types, illegal handler '
             'attachments, transports) plus a malformed stream; a case is non-trivial when the model run hit a branch tag >= 10; '
             'distinct = distinct input trees',
        tags={'1': 'file did not parse / null node entry (malformed stream)', '2': 'no source section',
              '10': 'model accepts', '11': 'model rejects', '12': 'model panics',
              '13': 'shape of finding F1: accepted with a duplicate id off the first-child chains',
              '14': 'duplicate on a first-child chain', '15': 'unregistered type', '16': 'consume/produce mismatch',
              '17': 'illegal error handler', '18': 'transport not kafka', '19': 'fully consistent',
              '20': 'equal ids: ancestor/descendant on a first-child chain', '21': 'equal ids: ancestor/descendant off chain',
              '22': 'equal ids: first and second sibling', '23': 'equal ids: second-or-later siblings',
              '24': 'equal ids: first and a later sibling', '25': 'equal ids: cousins',
              '26': 'equal ids: different roots, both on first-child chains', '27': 'equal ids: different roots, off chain',
              '30': 'some error handler', '31': 'some id defaulted', '32': 'some workers/buffersize defaulted',
              '33': 'timeout defaulted', '34': 'negative size or timeout', '35': 'no nodes', '36': 'more than one root'},
        trusted_base=['hand-written model of config.Read / setDefaults / validate* (Model/Config.v) tied to the code only by this '
                      'correspondence run; yaml.v2 parsing and os.ExpandEnv are exercised, not modelled (the model input is the '
                      'configuration after substitution and parsing)',
                      'harness/e6 YAML renderer and string interning (injective code <-> string tables)'],
        assumptions=['the registry is the fixed palette registered by harness/e6 (16 node types over 5 types incl. the nil type and '
                     '*firebolt.EventError, 5 source types); theorems quantify over all registries'],
    ),
}

PROPS = {
    'C13': dict(engine='e6', n=dict(quick=20000, thorough=400000), shards=4,
                manifest=dict(
                    level_text='Coq theorems (coq/Props/C13.v) over an executable model of config.Read / setDefaults / validate* '
                               '(Model/Config.v), for all registries and all configuration trees (rose-tree induction): the full '
                               'statement "accepted iff consistent" is REFUTED on the current code (C13_accept_iff_refuted: '
                               'validateUniqueID only walks first-child chains; open finding F1, not repairable without breaking the '
                               'pinned node tests whose testdata carries such duplicates); proved instead: accepted iff the five '
                               'clauses with uniqueness weakened to first-child chains (C13_accept_iff_partial), every fully '
                               'consistent configuration is accepted, every accepted configuration satisfies all clauses other '
                               'than full uniqueness, the gap is exactly off-chain duplicates (C13_gap_is_uniqueness), defaults of '
                               'id/workers/buffersize for every node and handler and the timeout default (C13_defaults, '
                               'C13_defaults_all_set), panic only with nil types or a missing source (C13_no_panic), and soundness '
                               'of the decision procedure evaluated on the implementation (C13_spec_sound). Model tied to the code '
                               'on every run by a correspondence check: generated YAML files (with ${VAR} references resolved from '
                               'the environment) through the real config.Read against a registry palette incl. nil types, '
                               'comparing accept/error/panic and every field of the returned node tree.',
                    level_note='Proved: everything about the model (no axioms). Tied by the differential run only: that Model/Config.v '
                               'is config.go (generator-bounded: <=14 nodes, depth <=4, <=4 roots, 16 node types / 5 source types). '
                               'Partial: YAML parsing and os.ExpandEnv are exercised, not modelled - the model input is the '
                               'configuration after substitution and parsing, so "${VAR} is replaced before parsing" is established '
                               'by the run (returned ids/names/sizes equal the environment values), not by a theorem. Domain of the '
                               'decision procedure: parsed file with a source section, non-negative sizes, no error handler with an '
                               'explicit empty `children: []` (the code rejects it; the property text does not settle it). '
                               'Trusted: Coq kernel, ExtrOcamlBasic extraction + ocaml/driver.ml, harness/e6 renderer and string '
                               'interning, bin/check.',
                    technique='machine-checked proof in Coq over hand-written model + model/implementation correspondence check',
                    design_ref='DESIGN.md section 8, E6')),
}
