"""E6: configuration (C13)"""

ENGINES = {
    'e6': dict(
        model='coq/Model/Config.v',
        rule='cases from harness/e6 Gen: YAML files rendered from generated configurations (0-4 roots, <=14 nodes, depth <=4, '
             'type-correct by construction, then 0-2 planted faults: duplicate ids at a chosen pair-of-positions class, '
             'unregistered names at nodes/handlers/source, consume/produce mismatches incl. nil types, illegal handler '
             'attachments, transports) plus a malformed stream; a case is non-trivial when the model run hit a branch tag >= 10; '
             'distinct = distinct input trees',
        tags={'1': 'file did not parse / null node entry (malformed stream)', '2': 'no source section',
              '10': 'model accepts', '11': 'model rejects', '12': 'model panics',
              '13': 'shape of finding F1: accepted with a duplicate id off the first-child chains',
              '14': 'duplicate on a first-child chain', '15': 'unregistered type', '16': 'consume/produce mismatch',
              '17': 'illegal error handler', '18': 'transport not kafka', '19': 'fully consistent',
              '20': 'equal ids: ancestor/descendant on a first-child chain', '21': 'equal ids: ancestor/descendant off chain',
              '22': 'equal ids: first and second sibling', '23': 'equal ids: second-or-later siblings',
              '24': 'equal ids: first and a later sibling', '25': 'equal ids: cousins',
              '26': 'equal ids: different roots, both on first-child chains', '27': 'equal ids: different roots, off chain',
              '30': 'some error handler', '31': 'some id defaulted', '32': 'some workers/buffersize defaulted',
              '33': 'timeout defaulted', '34': 'negative size or timeout', '35': 'no nodes', '36': 'more than one root'},
        trusted_base=['hand-written model of config.Read / setDefaults / validate* (Model/Config.v) tied to the code only by this '
                      'correspondence run; yaml.v2 parsing and os.ExpandEnv are exercised, not modelled (the model input is the '
                      'configuration after substitution and parsing)',
                      'harness/e6 YAML renderer and string interning (injective code <-> string tables)'],
        assumptions=['the registry is the fixed palette registered by harness/e6 (16 node types over 5 types incl. the nil type and '
                     '*firebolt.EventError, 5 source types); theorems quantify over all registries'],
    ),
}

PROPS = {
    'C13': dict(engine='e6', n=dict(quick=2500, thorough=60000), shards=4,
                manifest=dict(
                    level_text='',
                    level_note='',
                    technique='machine-checked proof in Coq over hand-written model + model/implementation correspondence check',
                    design_ref='DESIGN.md section 8, E6')),
}
