"""E4: recovery consumer (C07, C09, C19)"""

_TB = ['hand-written model of recoverSingleEvent/processError/RefreshAssignments/partitionAssignmentsChanged/RequestRecovery/'
       'SetAssignedPartitions and of revokePartitionAssignments/assignPartitions/Receive (Model/Recovery.v over Model/Tracker.v, '
       'Model/Offsets.v), tied to the code only by this correspondence run',
       'verif hooks node/kafkaconsumer/verif_hooks.go, verif_hooks_e4.go (constructors without goroutines, exported wrappers, '
       'context handed to rateLimiter.Wait replaced by a counting context)',
       'scripted recovery client of the harness (positions after Assign) - an oracle, mirrored by the cli field of the model',
       'golang.org/x/time/rate.Limiter taken to be an ideal token bucket (Model/Bucket.v); only measured (C19 timing cases)']

ENGINES = {
    'e4': dict(
        model='coq/Model/Recovery.v (+ Model/Tracker.v, Model/Offsets.v, Model/Bucket.v)',
        rule='cases from harness/e4 Gen: scenario cases (1-4 partitions, one request each: empty/single/small/large windows, from on/off the '
             'progress grid, maxrec trimming; requests before or after the assignment; fresh records pumped in interleaved chunks with '
             'stale records, refreshes, truncation errors with lows below/at/inside/at the end of/above the window, revocations and crashes '
             'at any point) and chaos cases (arbitrary op sequences incl. raw records, foreign snapshots, cancel-all, main assignments); '
             'a case is non-trivial when the model run hit a branch tag >= 10; distinct = distinct input trees',
        tags={'1': 'nothing recovered', '2': 'no watched request (coverage clauses vacuous)', '3': 'timing case',
              '10': 'recovery events emitted', '11': 'completion by a record', '12': 'truncation moved a from',
              '13': 'truncation closed a request', '14': 'crash while a request is outstanding',
              '15': 'coverage judged on a completed request', '16': 'coverage judged on an outstanding request that progressed',
              '17': 'a refresh re-assigned the client', '18': 'a record emitted twice', '19': 'timing case with n > burst',
              '20': 'several partitions active at once', '21': 'main and recovery events in one case'},
        trusted_base=_TB,
        assumptions=['the recovery client is an oracle: after Assign (p,a) it delivers a, a+1, ... in order; stale records carry offsets below its '
                     'position (Stale op); arbitrary records (RawRec) only in the safety clauses',
                     'updateRequestEvery (5*rate records) is overridden through SetUpdateEveryV so that progress broadcasts happen within small cases',
                     'processError: a failing watermark query is generated only as "every query of this call fails" (with several active partitions a '
                     'single failing query makes the processed subset depend on Go map order); map iterations are canonicalised by partition',
                     'a crash = the instance is discarded, a new one receives the last payload per key of all messages sent so far (compaction), '
                     'is told its partitions and refreshes; undecodable payloads are not kept on the topic',
                     'logic cases build the limiter with rate 1e9 so that Wait never sleeps; waits are counted through the context passed to Wait'],
        shards=8,
    ),
}

_M = 'machine-checked proof in Coq over hand-written model + model/implementation correspondence check'

PROPS = {
    'C07': dict(engine='e4', n=dict(quick=1200, thorough=30000), components=[1, 2, 3, 6, 8, 9, 11],
                manifest=dict(level_text='', level_note='', technique=_M, design_ref='DESIGN.md section 8, E4')),
    'C09': dict(engine='e4', n=dict(quick=1200, thorough=30000), components=[1, 2, 3, 4, 6, 7, 8, 9, 11],
                manifest=dict(level_text='', level_note='', technique=_M, design_ref='DESIGN.md section 8, E4')),
    'C19': dict(engine='e4', n=dict(quick=600, thorough=12000), components=[1, 5, 10, 11],
                manifest=dict(level_text='', level_note='', technique=_M + ' + wall-clock measurement (partial)', design_ref='DESIGN.md section 8, E4')),
}
