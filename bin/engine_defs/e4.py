"""E4: recovery consumer (C07, C09, C19)"""

_TB = ['hand-written model of recoverSingleEvent/processError/RefreshAssignments/partitionAssignmentsChanged/RequestRecovery/'
       'SetAssignedPartitions and of revokePartitionAssignments/assignPartitions/Receive (Model/Recovery.v over Model/Tracker.v, '
       'Model/Offsets.v), tied to the code only by this correspondence run',
       'verif hooks node/kafkaconsumer/verif_hooks.go, verif_hooks_e4.go (constructors without goroutines, exported wrappers, '
       'context handed to rateLimiter.Wait replaced by a counting context)',
       'scripted recovery client of the harness (positions after Assign) - an oracle, mirrored by the cli field of the model',
       'golang.org/x/time/rate.Limiter taken to be an ideal token bucket (Model/Bucket.v); only measured (C19 timing cases)']

ENGINES = {
    'e4': dict(
        model='coq/Model/Recovery.v (+ Model/Tracker.v, Model/Offsets.v, Model/Bucket.v)',
        rule='cases from harness/e4 Gen: scenario cases (1-4 partitions, one request each: empty/single/small/large windows, from on/off the '
             'progress grid, maxrec trimming; requests before or after the assignment; fresh records pumped in interleaved chunks with '
             'stale records below and stragglers ahead of the client position (also right after a refresh caused by a late request of another '
             'partition), refreshes, truncation errors with lows below/at/inside/at the end of/above the window, revocations and crashes '
             'at any point) and chaos cases (arbitrary op sequences incl. raw records, foreign snapshots, cancel-all, main assignments); '
             'a case is non-trivial when the model run hit a branch tag >= 10; distinct = distinct input trees',
        tags={'1': 'nothing recovered', '2': 'no watched request (coverage clauses vacuous)', '3': 'timing case',
              '10': 'recovery events emitted', '11': 'completion by a record', '12': 'truncation moved a from',
              '13': 'truncation closed a request', '14': 'crash while a request is outstanding',
              '15': 'coverage judged on a completed request', '16': 'coverage judged on an outstanding request that progressed',
              '17': 'a refresh re-assigned the client', '18': 'a record emitted twice', '19': 'timing case with n > burst',
              '20': 'several partitions active at once', '21': 'main and recovery events in one case', '22': 'straggler ahead of the client position emitted', '23': 'owner stopped while blocked on an emission', '24': 'unrestricted straggler on the grid / beyond to delivered (F11 exposure)'},
        trusted_base=_TB,
        assumptions=['the recovery client is an oracle: after Assign (p,a) it delivers a, a+1, ... in order; stale records are either below its '
                     'position (Stale op) or stragglers of the previous assignment AHEAD of it (Ahead op: inside the active window and not a multiple of '
                     'updateRequestEvery - a straggler on the broadcast grid or beyond to makes the current code broadcast progress / close the request '
                     'ahead of what was recovered); arbitrary records (RawRec) only in the safety clauses; unrestricted stragglers (Wild op, ~12% of scenario cases) are inside the '
                     'coverage guard but outside C07_cover_partial: losses confined to the offsets they put at risk are the open known finding F11 '
                     '(detail [4 ..]), any other loss is a violation',
                     'updateRequestEvery (5*rate records) is overridden through SetUpdateEveryV so that progress broadcasts happen within small cases',
                     'processError: a failing watermark query is generated only as "every query of this call fails" (with several active partitions a '
                     'single failing query makes the processed subset depend on Go map order); map iterations are canonicalised by partition',
                     'a crash = the instance is discarded, a new one receives the last payload per key of all messages sent so far (compaction), '
                     'is told its partitions and refreshes; undecodable payloads are not kept on the topic',
                     'RecCrash: the next record is delivered with the source channel full; the handler is taken to be blocked on the send once the limiter '
                     'was consulted and neither waits nor sent messages changed for 30 ms (a handler that neither returns nor reaches the send within 3 s is '
                     'reported as an error observation); the blocked goroutine is leaked and the instance abandoned like in a crash',
                     'logic cases build the limiter with rate 1e9 so that Wait never sleeps; waits are counted through the context passed to Wait '
                     '(WaitN polls ctx.Done() and then calls ctx.Deadline() once; a Deadline() call without preceding Done() means the limiter was given a '
                     'context DERIVED from the consumer context, recorded as a negative entry - depends on the call order inside x/time/rate and context)'],
        shards=8,
    ),
}

_M = 'machine-checked proof in Coq over hand-written model + model/implementation correspondence check'

PROPS = {
    'C07': dict(engine='e4', n=dict(quick=6000, thorough=150000), components=[1, 2, 3, 6, 8, 9, 11],
                manifest=dict(
                    level_text='Coq theorems (coq/Props/C07.v) over an executable model of recoverSingleEvent / processError / RefreshAssignments / '
                               'RequestRecovery and the tracker: window safety and Recovery flags for every record in every state (stale records '
                               'included) and every op of every history; completion (mark complete, broadcast, immediate refresh); truncation per '
                               'partition (close when low >= to, else from := low; other error codes ignored); coverage for ALL histories of fresh/stale '
                               'records, several partitions, refreshes, revocations, truncations and crashes: every retained record of (from, to] is '
                               'emitted once the request completes (C07_cover_partial).  With UNRESTRICTED stragglers of an earlier assignment (on the progress grid / beyond to) coverage fails inside the window '
                               '(C07_straggler_refuted, open known finding F11: failures confined to the offsets such a straggler put at risk).  '
                               'The full coverage clause [from, to) is REFUTED on the faithful '
                               'model (C07_cover_full_refuted: request (10,20) emits 11..20) - open known finding F6.  Model tied to the code on every run '
                               'by a correspondence check (real RecoveryConsumer/KafkaConsumer over scripted clients vs extracted model, per-op observables).',
                    level_note='Proved: the theorems above (closed under the global context).  Soundness of the decision procedure spec_c07 for the model (Proofs/RecoverySpecSound.v, C07_spec_sound_partial): PROVED for all '
                               'configurations and op lists for clauses 2 (flags and window), 3 (completion), 4 (truncation); ONLY EXERCISED (evaluated every run on '
                               'model-agreeing observations, no false alarm in >400k cases) for clause 1 (coverage through cover_fails/watched, incl. the F6/F11 '
                               'shape classification) and clause 5 (nothing outside the request window) - their content is proved on the model directly '
                               '(C07_cover_partial, C07_window) but not the link through cover_of: the guard does not yet formally imply the theorem hypothesis '
                               'fresh_request (ops before the Request leave the tracker entry of the partition empty; maxrec-trimmed requests), and Wild '
                               'stragglers are inside the guard but outside the theorem.  Tied by the differential run only (generator-bounded: <=4 recovering partitions, windows '
                               '<=200, <=~60 ops): that Model/Recovery.v is the Go code.  The recovery client is an oracle (fresh records in order after '
                               'Assign, stale records below its position, stragglers ahead of it inside the window and off the broadcast grid); spec guard '
                               '(watched) = hypothesis of C07_cover_partial (ok_op) from the op after the one Request of the partition onwards; coverage theorem excludes arbitrary records / second requests / cancel-all on '
                               'the watched partition.  processError with a watermark error on one of several partitions (Go map order) is not generated.',
                    technique=_M, design_ref='DESIGN.md section 8, E4')),
    'C09': dict(engine='e4', n=dict(quick=6000, thorough=150000), components=[1, 2, 3, 4, 6, 7, 8, 9, 11],
                manifest=dict(
                    level_text='Coq theorems (coq/Props/C09.v): RefreshAssignments establishes exactly owned x requested with from = max(request from, '
                               'from reached) and re-assigns the client (Unassign, Assign at the from offsets) iff the partition set or a to changed '
                               '(C09_refresh_exact, C09_unchanged_means_same); revocation clears owned and active and nothing is recovered until partitions are '
                               'assigned again, for all op sequences (C09_revoke_stops); hand-off: for every history with crashes/revocations at any point the '
                               'broadcast progress point never runs ahead of what was emitted, so old and new owner together emit every retained record of '
                               '(from, to] (C09_handoff_partial); the record AT from is never emitted (C09_handoff_full_refuted, known finding F6).  Model tied '
                               'to the code by the correspondence check incl. crash = new instance fed the last payload per key of all messages sent.',
                    level_note='Same trusted base and limits as C07.  A crash is modelled as replacement by an instance that has received the compacted '
                               'topic before it is told its partitions; two instances running concurrently are not modelled (a revoked instance emits '
                               'nothing by C09_revoke_stops).  The 10 s refresh ticker is not modelled: Refresh is an op that may occur anywhere.  spec_c09 '
                               'soundness for the model (C09_spec_sound_partial): PROVED for clauses 1 (refresh exactness incl. re-assignment iff changed), 4 (revoke '
                               'stops), 5 (owned set) and 6 (after a crash / hand-off the successor\'s tracker is the replay of everything broadcast or delivered so far: C09_successor_sound, '
                               'C09_successor_is_replay; the harness hands over both to a restarted instance reading the compacted topic and to a live peer that received every broadcast as sent); '
                               'ONLY EXERCISED for clauses 2/3 (hand-off / progress coverage through cover_fails).',
                    technique=_M, design_ref='DESIGN.md section 8, E4')),
    'C19': dict(engine='e4', n=dict(quick=3000, thorough=60000), components=[1, 5, 10, 11],
                manifest=dict(
                    level_text='PARTIAL.  Proved in Coq (coq/Props/C19.v): exactly one limiter wait per emitted recovery record, taken before the record is '
                               'emitted, none for any other op and none for main-consumer records, for all op sequences (C19_one_wait_per_emit, '
                               'C19_main_never_waits, C19_waits_equal_recovered, C19_spec_sound); window bound of an ideal token bucket: any admitted emission '
                               'times satisfy #[s, s+d] <= burst + rate*d (C19_bucket_bound); the limiter as a scheduler (one Wait per emission, Wait returns at the earliest tick with a token): '
                               'for EVERY list of availability times the emissions obey that bound (C19_rate_bound_however_fast), Wait is exact (C19_wait_exact), only delays '
                               '(C19_limit_only_delays) and does not delay the initial burst (C19_initial_burst_now).  Measured, not proved: the limiter of a consumer built by the REAL '
                               'constructor has (limit, burst) = (parallelrecoverymaxrate, 100); n recovery events take >= (n-100)/rate s (5 ms slack); '
                               'interleaved main-consumer events are not delayed.',
                    level_note='That golang.org/x/time/rate.Limiter is an ideal token bucket and wall-clock behaviour are outside any Gallina model: runtime '
                               'half is supporting measurement (rates 50-2000/s, 1-3 partitions, 6+2 timing cases per quick run, plus one case at rate 1, 2 or 3 '
                               'with n just above the burst - lower bound 1-2 s - rotating by seed; one more per 3500 cases in the thorough tier).  Waits are observed through '
                               'the context passed to rateLimiter.Wait (hook SetWaitCtxV); logic cases run the limiter at 1e9/s.',
                    technique=_M + ' + wall-clock measurement (partial)', design_ref='DESIGN.md section 8, E4')),
}
