"""E5: messaging (C10 receiver, C11 routing, C12 wire/sender)"""

ENGINES = {
    'e5': dict(
        model='coq/Model/Receiver.v, coq/Model/Route.v, coq/Model/Wire.v',
        rule='cases from harness/e5 Gen; distinct = distinct input trees; non-trivial = a branch tag >= 10',
        tags={},
        trusted_base=['hand-written models tied to the code only by this correspondence run'],
        assumptions=[],
    ),
}

PROPS = {
    'C10': dict(engine='e5', n=dict(quick=1500, thorough=30000), components=[1, 2, 3]),
    'C11': dict(engine='e5', n=dict(quick=1500, thorough=30000), components=[11, 12]),
    'C12': dict(engine='e5', n=dict(quick=1500, thorough=30000), components=[21, 22, 23, 24, 25]),
}
