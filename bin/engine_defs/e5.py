"""E5: messaging — C10 (receiver), C11 (routing), C12 (wire / sender / compaction)"""

ENGINES = {
    'e5': dict(
        model='coq/Model/Receiver.v, coq/Model/Route.v, coq/Model/Wire.v',
        shards=4,
        rule='cases from harness/e5 Gen, one kind per property (focus): '
             'C10 = receiver histories (1-3 partitions, ids 0.. or arbitrary; watermarks around the 50000 boundary, up to 2^40, failing queries; '
             '<= 80 events: sends / re-sends / acks over <= 6 (type,key) pairs incl. pairs whose type+"-"+key coincide, raw JSON in 4 spellings, '
             '14 kinds of undecodable or odd records, end-of-partition signals permuted and repeated, kafka.Error and foreign events, records '
             'while catching up and afterwards, failing notifier); '
             'C11 = executors built by executor.New(WithConfig) over harness source/node types (<= 3 roots, depth <= 4, <= 18 nodes, disabled subtrees, '
             'error handlers, 0-3 Subscribe calls per party, <= 5 types incl. unknown / empty / non-ASCII, failing recipients, 1-3 messages); '
             'C12 = 1-3 senders, <= 24 send/ack ops through Sender, fbcontext.Context and Executor.SendMessage, valid UTF-8 types (no "-") and keys '
             'covering every JSON escape class, pairs whose plain concatenations coincide, keys with "-", payloads nil / empty / binary <= 256 B; '
             'the first 240 cases and every fourth one are small. A case is non-trivial when the judge reports a branch tag >= 10; distinct = distinct input trees; '
             'hand-written boundary cases in corpus/e5 run first',
        tags={'2': 'outside C10 domain (duplicate partition ids / end-of-partition of a foreign partition)', '3': 'outside C11 domain (duplicate identities)',
              '4': 'outside C12 domain (type with "-" or non-UTF-8 string): nothing compared',
              '10': 'receiver initialised', '11': 'deliveries at initialisation', '12': 'live deliveries', '13': 'undecodable record',
              '14': 'end-of-partition repeated before initialisation', '15': 'a (type,key) written more than once before initialisation',
              '16': 'acknowledged message suppressed at initialisation', '17': 'several partitions', '18': 'start offset capped at high-50000',
              '20': 'a node below the roots received', '21': 'an error was reported', '22': 'the source received',
              '23': 'subscribed node inside a disabled subtree', '24': 'subscribed error handler (not visited)', '25': 're-subscription', '26': 'unsubscribed enabled node',
              '30': 'non-ASCII type or key', '31': "key containing '-'", '32': 'acknowledgement', '33': 'compaction dropped a record',
              '34': 'several senders', '35': 'empty payload'},
        trusted_base=['hand-written models of KafkaMessageReceiver (Model/Receiver.v), of the delivery walk and subscriptions (Model/Route.v) and of '
                      'uniqueKey / wireMessage / produceMessage / log compaction (Model/Wire.v), tied to the code only by this correspondence run',
                      'encoding/json (+ base64, time.Time) is NOT modelled: the decoding of every record value is an oracle computed on the Go side by '
                      'the hook message.DecodeWireV (json.Unmarshal into wireMessage, as processMessage does) and handed to the judge with the observation',
                      'verif hooks message/verif_hooks.go, executor/verif_hooks.go, node/kafkaproducer/verif_hooks_e5.go (constructors without goroutines, thin wrappers)',
                      'harness/e5: scripted consumer / producer, recording source and node types, Kafka log compaction simulated as "last record per record key"'],
        assumptions=['the Kafka client, notifier and recipients are oracles supplied by the case (watermark answers, event order, failing Receive / notifier calls)'],
    ),
}

_TECH = 'machine-checked proof in Coq over hand-written model + model/implementation correspondence check'

PROPS = {
    'C10': dict(engine='e5', n=dict(quick=4000, thorough=80000), components=[1, 2, 3],
                assumptions=['C10 domain: >= 1 partitions with distinct ids; end-of-partition signals only of the topic\'s partitions; start offsets are '
                             'stated for answered watermark queries; Go int64 arithmetic = Z on the generated ranges (|offsets| <= 2^41)',
                             'the client delivers each partition contiguously from the assigned offset and signals end-of-partition when it has (librdkafka, not modelled)'],
                manifest=dict(
                    level_text='Coq theorems (coq/Props/C10.v) over an executable model of buildPartitionAssignments / processEvent / processMessage / '
                               'processInitBuffer: closed form and bounds of every start offset; for ALL histories (any records, garbage, repeated and permuted '
                               'end-of-partition signals, any number of partitions) the model equals, event by event, a reference receiver that is the statement '
                               '(nothing and Initialized()=false until every partition reported; at that event exactly the latest-unacked messages once each; '
                               'afterwards unacked records in arrival order, acks/garbage nothing); the code\'s counting test is proved equal to "every partition '
                               'reported". Model tied to the code on every run by a correspondence check (real receiver over a scripted consumer vs extracted model).',
                    level_note='Proved: all of the above about the model, unbounded. Tied by the differential run only: that the Go code is the model (generator-bounded: '
                               '<= 3 partitions, <= 80 events, <= 6 keys). Oracle, not modelled: encoding/json decoding of record values (computed by the real '
                               'json.Unmarshal into wireMessage through a hook and compared end-to-end), librdkafka behaviour, Executor.StartMessaging\'s 60 s wait '
                               '(wall clock). Init-time deliveries are compared as a multiset (Go map order). A defect found by this check was fixed in the tree '
                               '(init buffer keyed by the ambiguous type-key concatenation).',
                    technique=_TECH, design_ref='DESIGN.md section 8, E5 / C10')),
    'C11': dict(engine='e5', n=dict(quick=8000, thorough=160000), components=[11, 12],
                assumptions=['C11 domain: source / node / handler identities distinct; "the processing tree" = enabled nodes linked by Children '
                             '(error handlers are not visited by the code: observation, not a finding)'],
                manifest=dict(
                    level_text='Coq theorems (coq/Props/C11.v) over an executable model of InitNodeContextHierarchy pruning + deliverMessage / '
                               'deliverMessageToNode + Subscribe / AcceptsMessage, by rose-tree induction for ALL trees, depths, subscription sequences, types and '
                               'failing subsets: recipients = source (if subscribed) ++ pre-order of the enabled subscribed nodes; membership characterised '
                               '(a party receives iff it is the subscribed source or a subscribed node reachable through Children of enabled nodes); each once; '
                               'message unchanged; errors = exactly the failing recipients, in order, and failures do not change who is visited; re-subscription '
                               'replaces. Model tied to the code by a correspondence check on real executors built with executor.New(WithConfig).',
                    level_note='Proved: the statements about the model, unbounded. Tied by the differential run only: that the Go walk is the model (generator-bounded: '
                               '<= 18 nodes, depth <= 4, <= 3 Subscribe calls). Error handlers are outside the walk (modelled as such, covered by cases with '
                               'subscribed handlers). Subscriptions are made in Setup; re-subscription between two deliveries is not generated.',
                    technique=_TECH, design_ref='DESIGN.md section 8, E5 / C11')),
    'C12': dict(engine='e5', n=dict(quick=6000, thorough=120000), components=[21, 22, 23, 24, 25],
                assumptions=['C12 domain: types valid UTF-8 without "-", keys valid UTF-8 (Go replaces invalid UTF-8 by U+FFFD in json.Marshal and the metrics '
                             'label of an invalid-UTF-8 type panics: outside the property\'s quantifier, generator stays inside except for a few marked cases)',
                             'Kafka log compaction keeps exactly the last record of every record key (simulated by the harness and by Model/Wire.v compact)'],
                manifest=dict(
                    level_text='Coq theorems (coq/Props/C12.v): byte-level injectivity of uniqueKey = type ++ "-" ++ key for types without "-" (keys may contain it) '
                               'and the collision witness with "-"; one Send/Ack = exactly one record on the sender\'s topic keyed by uniqueKey; the wire record as a '
                               'JSON tree decodes to the identical type, key, payload, flag; compaction by record key keeps exactly the latest record per (type,key); '
                               'for ALL histories a receiver fed the whole log or only the compacted log delivers exactly what C10 prescribes. Tied to the code by a '
                               'correspondence check: real senders (Sender, fbcontext.Context, Executor.SendMessage paths) -> scripted producer -> real receivers '
                               '(live, whole log, compacted log).',
                    level_note='Proved: the statements about the model, unbounded. NOT modelled: the text level of the wire format (encoding/json string escaping, base64, '
                               'time.Time) — it is exercised dynamically only (every escape class, nil/empty/binary payloads <= 256 B) with the decode done by the real '
                               'json.Unmarshal. The kafkaproducer/librdkafka delivery of the record is not covered (scripted producer captures kafka.Message).',
                    technique=_TECH, design_ref='DESIGN.md section 8, E5 / C12')),
}
