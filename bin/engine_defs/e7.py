"""E7: sinks — elasticsearch node (C14) and kafkaproducer / errorkafkaproducer (C15)"""

ENGINES = {
    'e7': dict(
        model='coq/Model/EsClient.v (C14), coq/Model/Producer.v (C15)',
        rule='cases from harness/e7 Gen; focus C14: elasticsearch scenarios (selector 14: batch-size 1..5, max retries 1..3, index-workers 1..3, '
             'up to 24 ops = index requests / wrong-typed payloads / pauses of arrivals, per-document per-attempt scripts 2xx / retryable / mapping / '
             'non-2xx-without-error, late responses in a few cases, a few single whole-request errors (max retries 1, retryable failures after it) in the quick tier and more in the thorough tier, clean Shutdown (optionally with every bulk request HELD by the harness while the ops run - timer flushes of partial batches and '
             'further arrivals happen while earlier requests are outstanding - and released before the end), Shutdown '
             'right after the last arrival, or the latter with all bulk requests held in flight until Shutdown has returned), run against the real Elasticsearch node (Setup, ProcessAsync, Shutdown) over a scripted bulk-service '
             'factory; focus C15: produce requests and error '
             'reports (selector 15: empty / binary / large payloads, topic override present or absent, configured topic present or '
             'absent, plain / wrapped / structured / pointer errors, marshalable and unmarshalable event payloads (chan in a map, func, anonymous struct type with tags, NaN/Inf, Marshalers failing with plain texts and with texts that need JSON escaping), both report '
             'forms; single calls and sequences of 1..6 calls of both kinds on ONE errorkafkaproducer instance whose records are read from the '
             'channel only after the last call, record k judged against call k); a case is non-trivial when the model run hit a branch tag >= 10; distinct = distinct input trees',
        tags={'1': 'wrong-typed payload', '2': 'no topic from either place', '3': 'outside the C15 quantifier (nil error / unmarshalable errorinfo)',
              '10': 'record on the request topic', '11': 'record on the configured topic', '12': 'structured error with errorinfo',
              '13': 'structured error without errorinfo', '14': 'plain error', '15': 'wrapped error', '16': 'unmarshalable event payload',
              '17': 'empty message', '18': 'pointer to FBError', '19': "executor's report form (Event = *firebolt.Event)", '40': 'C15: sequence of >= 2 calls on one producer instance, records read after the last call',
              '41': 'C15: sequence with >= 2 error reports',
              '4': 'C14: outside the quantifier (duplicate ids / zero sizes)', '5': 'C14: skipped, the harness saw a scheduling stall longer than batch-max-wait/2 '
              'between two arrivals of one batch (batch composition would be timing-dependent); re-run up to 3 times first',
              '20': 'a document was re-sent', '21': 'retries exhausted -> ES_INDEX_ERROR', '22': 'mapping error answered at once',
              '23': 'non-2xx without error field at the last attempt', '24': 'partial batch sent by the idle timer', '25': 'full batch',
              '26': 'wrong-typed payload', '27': 'Shutdown with a pending batch (known finding F7)', '28': 'late 2xx response (after the client-side deadline)',
              '29': 'whole-request error (5 s back-off each: a few single ones in the quick tier, the rest thorough only)', '30': 'several bulk requests with more than one worker',
              '31': 'success after a retry', '32': 'Shutdown while bulk requests are held in flight (known finding F7, in-flight half)'},
        trusted_base=['hand-written models Model/Producer.v (KafkaProducer.Process, ErrorProducer.Process, EventError.MarshalJSON, FBError) and '
                      'Model/EsClient.v tied to the code only by this correspondence run',
                      'encoding/json behaviour as modelled (struct tags, omitempty on an interface, rendering of *json.MarshalerError); '
                      'the harness canonicaliser (parse with encoding/json, sort members, timestamps reduced to "is an RFC 3339 time")',
                      'verif hooks node/kafkaproducer/verif_hooks.go (constructors without librdkafka / goroutines), '
                      'node/elasticsearch/verif_hooks.go (aliases of the bulk-service interfaces, setter of the factory)'],
        assumptions=['the scripted MessageProducer channel has room (Produce blocks on a full channel, as librdkafka does)',
                     'C14: Elasticsearch answers one item per document, in order, with the "errors" flag set iff some item is non-2xx; action is always "index"',
                     'C14: batch-max-wait-ms is exercised as a logical timer (the harness pauses arrivals until quiescence); wall-clock accuracy of the '
                     'timer is only bounded coarsely (quiescence within batch-max-wait + 1.2 s, else clause 5 fails)'],
    ),
}

PROPS = {
    'C14': dict(engine='e7', n=dict(quick=900, thorough=12000), shards=12, components=[11, 12, 13, 14], search_mult=3, search_s=60,
                manifest=dict(
                    level_text='Coq theorems (coq/Props/C14.v) over an executable model of ProcessAsync, the batcher, retryBulkIndex/doBulkIndex/'
                               'handleErrorResponses and the token pool: for every batch, configuration and per-document outcome script without '
                               'whole-request errors each document gets exactly one answer - success iff its last attempt was 2xx, mapping errors at once, '
                               'other failures re-sent until attempt bulk-index-max-retries then ES_INDEX_ERROR with that attempt\'s error - and is sent '
                               'exactly as often as that closed form says (induction on remaining retries); every bulk request is a non-empty sub-list of one '
                               'batch, at most batch-size long, documents untouched; in_flight + tokens = index-workers over every interleaving of the pool '
                               'machine; a pause of arrivals flushes the pending batch and an arrival never sends a partial one. Refuted part, with witness: '
                               'Shutdown with a non-empty pending batch leaves those requests unanswered (open known finding F7). The model is tied to the code '
                               'on every run by a correspondence check: the real node over a scripted bulk service, compared per event (answers) and per bulk '
                               'request (multiset of documents), plus spec_c14 evaluated on the implementation\'s observation.',
                    level_note='PARTIAL: (1) batch-max-wait-ms as wall-clock time is only measured coarsely by the harness; the theorems use a logical timer. '
                               '(2) Whole-request errors: the closed form of WHICH answer and HOW MANY sends is proved for every script, whole-request errors included '
                               '(C14_answered_once_whole, batch-level closed form bfate: a whole-request failure answers nobody and uses up no retry; equal to the '
                               'per-document fate without whole errors, C14_bfate_is_fate); the decision procedure applies it to the implementation\'s observation '
                               'with the batch of a document taken as the longest observed bulk request holding it; a few single-back-off scenarios run in the quick '
                               'tier, the rest in the thorough tier. (3) Interleavings: the scheduled '
                               'machine (arrivals, timer, Shutdown, acquire/respond/release) is proved to reach the multiset of answers and bulk requests of the '
                               'schedule-free semantics es_run on every complete schedule (C14_schedule_independent); that the Go runtime realises that machine is '
                               'modelled, not verified. (4) Shutdown: both halves of F7 are observed - requests in the pending batch are never answered; requests held in flight by the scripted '
                               'service have no answer when Shutdown returns (they are answered later only because the harness process lives on). '
                               'PROVED for the model: C14_spec_model - on '
                               'every scenario of the quantifier the decision procedure fails, on the model\'s own observation, exactly clause 6/detail 1 once per '
                               'request pending at Shutdown and, in held-in-flight scenarios, clause 6/detail 2 once per request already sent. Trusted: Coq kernel, extraction, harness incl. scripted bulk service and its decoding of request '
                               'source lines, verif hook (type aliases + setter).',
                    technique='machine-checked proof in Coq over hand-written model + model/implementation correspondence check',
                              design_ref='DESIGN.md section 8, E7 (C14)')),
    'C15': dict(engine='e7', n=dict(quick=3000, thorough=60000), shards=4,
                manifest=dict(
                    level_text='Coq theorems (coq/Props/C15.v) over an executable model of KafkaProducer.Process/Produce, ErrorProducer.Process and '
                               'EventError.MarshalJSON/FBError: exactly one record with the request bytes on the request topic else the configured '
                               'one, nothing to children, error and no record for wrong type / no topic; every error report (plain, wrapped, '
                               'structured, pointer; marshalable or unmarshalable payload; both report forms) becomes one record holding the object '
                               '{error,event,timestamp} with error preserved for FBError values and ERR_UNKNOWN + text otherwise; spec_c15 sound for '
                               'every input. The model is tied to the code on every run by a correspondence check (real nodes over a scripted '
                               'MessageProducer, produced bytes parsed by encoding/json into a canonical tree).',
                    level_note='Proved: all statements about the model, for all inputs. Tied by the differential run only: that the model is the code '
                               '(generator-bounded: payloads up to 20 kB, JSON depth 3, error nesting 2). Modelled, not verified: encoding/json. '
                               'Timestamps are compared only as "present and an RFC 3339 time". Message texts are valid UTF-8 (invalid bytes would be '
                               'replaced by U+FFFD by encoding/json). For an unmarshalable event payload the CONTENT of the event member is not part of the '
                               'statement (the spec demands the member and valid JSON); the model nevertheless mirrors the dump encoding/json makes of the marshal '
                               'error per kind (unsupported type / unsupported value NaN,+Inf,-Inf / failing Marshaler), and the decoder maps every other value text '
                               'to NaN, the float the harness then builds, so that every decodable input denotes what the harness really passes.',
                    technique='machine-checked proof in Coq over hand-written model + model/implementation correspondence check',
                    design_ref='DESIGN.md section 8, E7 (C15)')),
}
