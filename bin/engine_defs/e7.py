"""E7: sinks — elasticsearch node (C14) and kafkaproducer / errorkafkaproducer (C15)"""

ENGINES = {
    'e7': dict(
        model='coq/Model/EsClient.v (C14), coq/Model/Producer.v (C15)',
        rule='cases from harness/e7 Gen; focus C14: elasticsearch scenarios (selector 14), focus C15: produce requests and error '
             'reports (selector 15: empty / binary / large payloads, topic override present or absent, configured topic present or '
             'absent, plain / wrapped / structured / pointer errors, marshalable and unmarshalable event payloads, both report '
             'forms); a case is non-trivial when the model run hit a branch tag >= 10; distinct = distinct input trees',
        tags={'1': 'wrong-typed payload', '2': 'no topic from either place', '3': 'outside the C15 quantifier (nil error / unmarshalable errorinfo)',
              '10': 'record on the request topic', '11': 'record on the configured topic', '12': 'structured error with errorinfo',
              '13': 'structured error without errorinfo', '14': 'plain error', '15': 'wrapped error', '16': 'unmarshalable event payload',
              '17': 'empty message', '18': 'pointer to FBError', '19': "executor's report form (Event = *firebolt.Event)"},
        trusted_base=['hand-written models Model/Producer.v (KafkaProducer.Process, ErrorProducer.Process, EventError.MarshalJSON, FBError) and '
                      'Model/EsClient.v tied to the code only by this correspondence run',
                      'encoding/json behaviour as modelled (struct tags, omitempty on an interface, rendering of *json.MarshalerError); '
                      'the harness canonicaliser (parse with encoding/json, sort members, timestamps reduced to "is an RFC 3339 time")',
                      'verif hooks node/kafkaproducer/verif_hooks.go (constructors without librdkafka / goroutines), '
                      'node/elasticsearch/verif_hooks.go (aliases of the bulk-service interfaces, setter of the factory)'],
        assumptions=['the scripted MessageProducer channel has room (Produce blocks on a full channel, as librdkafka does)'],
    ),
}

PROPS = {
    'C14': dict(engine='e7', n=dict(quick=480, thorough=6000), shards=12, components=[11, 12, 13], search_mult=3, search_s=60,
                manifest=dict(level_text='TODO', level_note='TODO',
                              technique='machine-checked proof in Coq over hand-written model + model/implementation correspondence check',
                              design_ref='DESIGN.md section 8, E7 (C14)')),
    'C15': dict(engine='e7', n=dict(quick=3000, thorough=60000), shards=4,
                manifest=dict(
                    level_text='Coq theorems (coq/Props/C15.v) over an executable model of KafkaProducer.Process/Produce, ErrorProducer.Process and '
                               'EventError.MarshalJSON/FBError: exactly one record with the request bytes on the request topic else the configured '
                               'one, nothing to children, error and no record for wrong type / no topic; every error report (plain, wrapped, '
                               'structured, pointer; marshalable or unmarshalable payload; both report forms) becomes one record holding the object '
                               '{error,event,timestamp} with error preserved for FBError values and ERR_UNKNOWN + text otherwise; spec_c15 sound for '
                               'every input. The model is tied to the code on every run by a correspondence check (real nodes over a scripted '
                               'MessageProducer, produced bytes parsed by encoding/json into a canonical tree).',
                    level_note='Proved: all statements about the model, for all inputs. Tied by the differential run only: that the model is the code '
                               '(generator-bounded: payloads up to 20 kB, JSON depth 3, error nesting 2). Modelled, not verified: encoding/json. '
                               'Timestamps are compared only as "present and an RFC 3339 time". Message texts are valid UTF-8 (invalid bytes would be '
                               'replaced by U+FFFD by encoding/json).',
                    technique='machine-checked proof in Coq over hand-written model + model/implementation correspondence check',
                    design_ref='DESIGN.md section 8, E7 (C15)')),
}
