"""tables used by bin/check, assembled from bin/engine_defs/*.py (one file per engine, each defining
ENGINES = {name: {...}} and PROPS = {property id: {...}})"""
import glob, os, importlib.util
ENGINES, PROPS = {}, {}
for _f in sorted(glob.glob(os.path.join(os.path.dirname(os.path.abspath(__file__)), 'engine_defs', '*.py'))):
    _spec = importlib.util.spec_from_file_location('engine_defs_' + os.path.basename(_f)[:-3], _f)
    _m = importlib.util.module_from_spec(_spec)
    _spec.loader.exec_module(_m)
    ENGINES.update(_m.ENGINES)
    PROPS.update(_m.PROPS)
