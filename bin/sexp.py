"""s-expressions of integers <-> nested python lists of ints"""
def parse(s):
    pos = 0
    n = len(s)
    def skip():
        nonlocal pos
        while pos < n and s[pos] in ' \t\r\n':
            pos += 1
    def item():
        nonlocal pos
        skip()
        if pos >= n:
            raise ValueError('unexpected end')
        if s[pos] == '(':
            pos += 1
            acc = []
            while True:
                skip()
                if pos >= n:
                    raise ValueError('unclosed paren')
                if s[pos] == ')':
                    pos += 1
                    return acc
                acc.append(item())
        st = pos
        while pos < n and s[pos] not in ' ()\t\r\n':
            pos += 1
        return int(s[st:pos])
    t = item()
    skip()
    if pos != n:
        raise ValueError('trailing input: ' + s[pos:pos + 30])
    return t

def dumps(t):
    if isinstance(t, list):
        return '(' + ' '.join(dumps(x) for x in t) + ')'
    return str(t)
