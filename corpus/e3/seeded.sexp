; minimised failing inputs found against the independent seeded changes (seeded/*): run first on every check
(() ((1 1 0 1) (1 1 3 1) (1 1 1 4)))
(() ((4 0 () (0 ((1 1)))) (1 0 2 141) (3 0 141)))
