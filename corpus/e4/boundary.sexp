; F6 witness: request (10,20) pumped to completion emits 11..20
(0 (1000 5 0) ((9 1 10 20) (7 (1)) (6) (1 1 12)))
; crash after the progress broadcast at 15, successor resumes from 15
(0 (1000 5 0) ((9 1 10 20) (7 (1)) (6) (1 1 7) (12) (7 (1)) (6) (1 1 8)))
; truncation inside the window: from := 15, restart at 15
(0 (1000 5 0) ((7 (1)) (9 1 10 20) (6) (1 1 3) (5 2 0 ((1 15))) (6) (1 1 8)))
; truncation at / beyond the end closes the request
(0 (1000 5 0) ((7 (1)) (9 1 10 20) (6) (1 1 3) (5 1 0 ((1 20))) (6) (1 1 3)))
; revoked in the middle, records keep arriving, re-assigned later
(0 (1000 5 0) ((7 (1)) (9 1 10 20) (6) (1 1 3) (8) (1 1 3) (7 (1)) (6) (1 1 12)))
; empty and single-record windows, two partitions interleaved, stale records
(0 (1000 1 0) ((9 0 5 5) (9 1 7 8) (7 (0 1)) (6) (1 0 1) (1 1 1) (2 1 0) (1 0 1) (1 1 2)))
; trimming by parallelrecoverymaxrecords
(0 (4 5 0) ((9 2 10 20) (7 (2)) (6) (1 2 8)))
; a late request of partition 5 re-assigns the client; a straggler of the previous assignment of partition 3 (ahead of the new position) arrives, then the fresh records
(0 (1000000 50 0) ((7 (3 5)) (9 3 100 200) (6) (1 3 11) (9 5 40 60) (6) (13 3 2) (1 3 105) (1 5 25)))
; straggler without any refresh in between
(0 (1000 7 0) ((9 1 10 20) (7 (1)) (6) (1 1 3) (13 1 1) (1 1 12)))
; the owner stops while blocked on the emission of record 15 (on the progress grid): 15 must not have been broadcast as progress
(0 (1000 5 0) ((9 1 10 20) (7 (1)) (6) (1 1 5) (14 1) (7 (1)) (6) (1 1 12)))
; the owner stops while handling the completing record
(0 (1000 5 0) ((9 1 10 12) (7 (1)) (6) (1 1 3) (14 1) (7 (1)) (6) (1 1 3)))
; F11: straggler on the broadcast grid, then a refresh caused by another partition: 13..19 lost
(0 (1000 5 0) ((9 1 10 30) (7 (1 2)) (6) (1 1 3) (15 1 6) (9 2 0 5) (6) (1 1 15)))
; F11: straggler beyond to closes the request: 13..20 lost
(0 (1000 5 0) ((9 1 10 20) (7 (1)) (6) (1 1 3) (15 1 7) (1 1 12)))
