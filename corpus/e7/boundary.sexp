; C14: retry that succeeds, mapping error, retry exhaustion (maxRetries 1), partial batch by timer
(14 ((2 1 1 40) ((0 0 1 1 5) (0 1 1 0 6) (0 2 0 1 7)) ((0 (1 1)) (1 (2))) 0))
; C14: non-2xx without error field, retried then answered (fixed defect)
(14 ((2 2 1 40) ((0 0 1 1 5) (0 1 1 0 6)) ((0 (3 3 3))) 0))
; C14: late 2xx response: answered once (fixed defect F8)
(14 ((2 1 2 40) ((0 0 1 1 5) (1 9) (0 1 1 0 6)) ((0 (10))) 0))
; C14: Shutdown with a pending batch (known finding F7)
(14 ((3 1 1 300) ((0 0 1 1 5) (0 1 1 0 6) (0 2 1 0 6) (0 3 1 0 6)) () 1))
; C14: retry count boundary: retryable at attempts 0..maxRetries-1, 2xx at attempt maxRetries
(14 ((1 3 1 40) ((0 0 0 0 1)) ((0 (1 1 1 0))) 0))
(14 ((1 3 1 40) ((0 0 0 0 1)) ((0 (1 1 1 1 0))) 0))
; C14: only wrong-typed payloads
(14 ((1 1 1 40) ((1 0) (1 1)) () 0))
; C15: override topic, no topic at all, wrong type, empty message
(15 (1 (116) (0 (120) (0 255))))
(15 (1 () (0 () (1))))
(15 (1 (116) (2 2)))
(15 (1 (116) (1 () ())))
; C15: wrapped FBError with unmarshalable payload; FBError with errorinfo null and ""; pointer; nil error; bad errorinfo
(15 (2 (116) (0 1 1 (1 1 (78 97 78)) (1 (99) (2 (69) (109) ((0 (0))))))))
(15 (2 (116) (0 0 0 (0 (0)) (2 (69) (109) ((0 (3 ())))))))
(15 (2 (116) (0 1 0 (1 2) (3 (69) (109)))))
(15 (2 (116) (0 1 0 (0 (0)) (4))))
(15 (2 (116) (0 1 0 (0 (0)) (2 (69) (109) ((1))))))
(15 (2 () (0 1 0 (0 (0)) (0 (98)))))
; C14: two pauses (timer must re-arm); mapping-only failure then another request with one worker (empty retry request returns its token)
(14 ((2 1 1 40) ((0 0 1 1 5) (2) (0 1 1 0 6)) () 0))
(14 ((1 1 1 40) ((0 0 0 0 1) (0 1 0 0 1)) ((0 (2))) 0))
; C14: Shutdown with a bulk request in flight and one request pending (known findings F7, both halves)
(14 ((3 1 1 300) ((0 0 1 1 5) (0 1 1 0 6) (0 2 1 0 6) (0 3 1 0 6) (1 7)) () 2))
; C14: timer flush of a partial batch whose response is held while more requests arrive, then release
(14 ((4 1 8 40) ((0 0 1 1 5) (0 1 1 0 6) (2) (0 2 1 0 7) (0 3 1 1 8)) () 3))
; C15: two error reports then a produce request on one instance, records read at the end
(15 (3 (116) ((2 (0 1 0 (0 (3 (97 97 97 97 97 97 97 97))) (0 (98 111 111 109)))) (2 (0 0 1 (0 (2 7)) (2 (69) (109) ()))) (1 (0 () (1 2 3))))))
; C15: unmarshalable payloads whose marshal error text / type name would need JSON escaping
(15 (2 (116) (0 1 0 (1 2 1) (0 (98 111 111 109)))))
(15 (2 (116) (0 0 1 (1 0 2) (2 (69) (109) ()))))
