(* Hand-written glue around the extracted judges: read one s-expression of integers per
   line, apply the engine's [judge : tree -> tree], print the resulting tree on one line.
   Integers go through Coq's own Decimal.int <-> Z conversions (extracted Z.of_int /
   Z.to_int), never through OCaml's int. *)
open Fbcore

let rec uint_of_digits (s : string) (i : int) (j : int) : uint =
  if i >= j then Nil
  else
    let r = uint_of_digits s (i + 1) j in
    match s.[i] with
    | '0' -> D0 r | '1' -> D1 r | '2' -> D2 r | '3' -> D3 r | '4' -> D4 r
    | '5' -> D5 r | '6' -> D6 r | '7' -> D7 r | '8' -> D8 r | '9' -> D9 r
    | c -> failwith (Printf.sprintf "bad digit %c" c)

let z_of_token (s : string) : z =
  let n = String.length s in
  if n > 0 && s.[0] = '-' then z_of_int (Neg (uint_of_digits s 1 n))
  else z_of_int (Pos (uint_of_digits s 0 n))

let rec string_of_uint (b : Buffer.t) (u : uint) : unit =
  match u with
  | Nil -> ()
  | D0 r -> Buffer.add_char b '0'; string_of_uint b r
  | D1 r -> Buffer.add_char b '1'; string_of_uint b r
  | D2 r -> Buffer.add_char b '2'; string_of_uint b r
  | D3 r -> Buffer.add_char b '3'; string_of_uint b r
  | D4 r -> Buffer.add_char b '4'; string_of_uint b r
  | D5 r -> Buffer.add_char b '5'; string_of_uint b r
  | D6 r -> Buffer.add_char b '6'; string_of_uint b r
  | D7 r -> Buffer.add_char b '7'; string_of_uint b r
  | D8 r -> Buffer.add_char b '8'; string_of_uint b r
  | D9 r -> Buffer.add_char b '9'; string_of_uint b r

let add_z (b : Buffer.t) (z : z) : unit =
  let put u = (match u with Nil -> Buffer.add_char b '0' | _ -> string_of_uint b u) in
  match z_to_int z with
  | Pos u -> put u
  | Neg u -> Buffer.add_char b '-'; put u

(* parser: returns tree and next position *)
let parse (s : string) : tree =
  let n = String.length s in
  let pos = ref 0 in
  let skip () = while !pos < n && (s.[!pos] = ' ' || s.[!pos] = '\t' || s.[!pos] = '\r') do incr pos done in
  let rec item () : tree =
    skip ();
    if !pos >= n then failwith "unexpected end";
    if s.[!pos] = '(' then begin
      incr pos;
      let acc = ref [] in
      let fin = ref false in
      while not !fin do
        skip ();
        if !pos >= n then failwith "unclosed paren";
        if s.[!pos] = ')' then (incr pos; fin := true)
        else acc := item () :: !acc
      done;
      T (Stdlib.List.rev !acc)
    end else begin
      let st = !pos in
      while !pos < n && s.[!pos] <> ' ' && s.[!pos] <> '(' && s.[!pos] <> ')' do incr pos done;
      L (z_of_token (String.sub s st (!pos - st)))
    end
  in
  let t = item () in
  skip ();
  if !pos <> n then failwith "trailing input";
  t

let rec print (b : Buffer.t) (t : tree) : unit =
  match t with
  | L z -> add_z b z
  | T ts ->
      Buffer.add_char b '(';
      Stdlib.List.iteri (fun i x -> if i > 0 then Buffer.add_char b ' '; print b x) ts;
      Buffer.add_char b ')'

let () =
  let eng = Sys.argv.(1) in
  let judge =
    try Stdlib.List.assoc eng Judges.judges
    with Not_found -> (prerr_endline ("unknown engine " ^ eng); exit 2) in
  (try
     while true do
       let line = input_line stdin in
       if String.length line > 0 then begin
         let b = Buffer.create 256 in
         (try print b (judge (parse line))
          with Failure m -> Buffer.add_string b ("(2 () () ()) ; parse error: " ^ m));
         print_endline (Buffer.contents b)
       end
     done
   with End_of_file -> ())
