(* C05 — Per-node concurrency bound, setup-before-use, and race-free framework state.
   PARTIAL: freedom from data races in the Go memory model cannot be expressed in an executable Gallina model.
   What is proved: the concurrency bound and setup-before-use for every schedule; every shared location of the
   model is a channel, a wait-group/once state or a counter touched only by the action modelling the Go
   primitive (a property of how Model/Exec.v is written).  Supporting evidence only (not proof): the thorough
   tier runs the free-running driver built with -race. *)
From Coq Require Import List ZArith Bool Arith.
From FB Require Import Model.Exec Model.TraceSpec Model.ExecInv.
From FB Require Proofs.ExecCount Proofs.ExecLink Proofs.ExecSpec.
Import ListNotations.

(* never more processing calls in progress than configured workers, in any reachable state *)
Theorem C05_calls_bounded : forall nt T s n, reachable nt T s -> n < length nt ->
  length (filter (fun w => match w with WProc _ => true | _ => false end) (ws (node s n))) <= nworkers (info nt n).
Proof. exact ExecCount.calls_bounded. Qed.

(* the calls in progress are exactly the entered-and-not-yet-returned calls of the observable trace *)
Theorem C05_open_calls_are_workers : forall nt T s n, wf_net nt = true -> reachable nt T s -> n < length nt ->
  open_calls n (tr s) = length (filter ExecCount.is_wproc (ws (node s n))).
Proof. intros nt T s n Hwf Hr. exact (ExecLink.k_calls nt s (ExecLink.link_reachable nt T s Hwf Hr) n). Qed.

(* every node of the pruned table is initialised and set up exactly once, nothing else is, and all of it before
   the source is started (hence before any event) *)
Theorem C05_setup_exactly_once : forall nt T s n, wf_net nt = true -> reachable nt T s -> n < length nt ->
  is_setup n (tr s) = true /\ ExecLink.cnt_setup n (tr s) = 1.
Proof. intros nt T s n Hwf Hr. exact (ExecLink.k_setup nt s (ExecLink.link_reachable nt T s Hwf Hr) n). Qed.
Theorem C05_nothing_else_set_up : forall nt T s m, wf_net nt = true -> reachable nt T s -> length nt <= m ->
  is_setup m (tr s) = false.
Proof. intros nt T s m Hwf Hr. exact (ExecLink.k_setup_range nt s (ExecLink.link_reachable nt T s Hwf Hr) m). Qed.

(* the clauses evaluated on the implementation's traces ((5,1) set up before any event, (5,2) exactly once,
   (5,3) before the source starts, (5,4) at most N calls in progress) hold of every run of the model *)
Theorem C05_spec_sound : forall nt T s, wf_net nt = true -> forallb (fun x => Nat.ltb 0 (nworkers x)) nt = true ->
  reachable nt T s -> trace_ok nt (tr s) = [].
Proof. exact ExecSpec.trace_ok_reachable. Qed.

Print Assumptions C05_calls_bounded.
Print Assumptions C05_open_calls_are_workers.
Print Assumptions C05_setup_exactly_once.
Print Assumptions C05_nothing_else_set_up.
Print Assumptions C05_spec_sound.
