(* C12 — message wire fidelity and compaction-safe record keys.
   Only statements, each closed by [exact lemma], Examples, and [Print Assumptions].
   Model: Model/Wire.v (uniqueKey at byte level, the wire record as a JSON tree, produceMessage, log
   compaction), Model/Receiver.v; statement as a decision procedure: Judge/E5.v [spec_c12].
   The JSON/base64 TEXT level is encoding/json's and is not modelled: it is exercised by the correspondence run
   (real sender -> scripted producer -> real receiver) only. *)
From Coq Require Import List ZArith Bool Lia.
From FB Require Import Lib.Eqb Model.Wire Model.Receiver Judge.E5
  Proofs.WireProofs Proofs.ReceiverProofs Proofs.SenderProofs.
Import ListNotations.
Open Scope Z_scope.

(* record keys: type ++ "-" ++ key determines the pair when the types contain no '-' (keys may) *)
Theorem C12_key_injective : forall t1 t2 k1 k2 : bytes,
  no_dash t1 = true -> no_dash t2 = true ->
  t1 ++ dash :: k1 = t2 ++ dash :: k2 -> t1 = t2 /\ k1 = k2.
Proof. exact unique_key_inj_bytes. Qed.

(* same (type,key) <-> same record key, whatever the payloads *)
Theorem C12_same_pair_iff_same_key : forall a b,
  no_dash (m_type a) = true -> no_dash (m_type b) = true ->
  bytes_eqb (unique_key a) (unique_key b) = same_id a b.
Proof. exact unique_key_inj. Qed.

(* the restriction on types is needed: "a-b"+"c" and "a"+"b-c" *)
Theorem C12_dash_in_type_collides : exists a b, same_id a b = false /\ unique_key a = unique_key b.
Proof. exact unique_key_collision. Qed.

(* the wire record, as a JSON tree, decodes to the identical type, key, payload, flag *)
Theorem C12_wire_round_trip : forall now w, decode (encode now w) = Some w.
Proof. exact decode_encode. Qed.

(* one Send / Ack = exactly one record, on the sender's topic, any partition, keyed by uniqueKey, carrying the flag *)
Theorem C12_one_record : forall topic m ack,
  produce topic m ack = [ {| r_topic := topic; r_partition := -1; r_key := unique_key m;
                             r_value := {| w_msg := m; w_ack := ack |} |} ].
Proof. exact produce_one. Qed.

(* compaction by record key keeps exactly the latest record of every (type,key) *)
Theorem C12_compaction_keeps_latest : forall ws,
  forallb (fun w => no_dash (m_type (w_msg w))) ws = true ->
  map snd (compact (keyed ws)) = latest ws.
Proof. exact compact_keyed. Qed.

(* a fresh receiver fed the compacted log, or the whole log, and then the end of the partition performs exactly
   the deliveries C10 prescribes for the whole history *)
Theorem C12_compaction_then_receive : forall ws,
  forallb (fun w => no_dash (m_type (w_msg w))) ws = true ->
  deliveries (map rec_some (map snd (compact (keyed ws))) ++ [Eof 0]) = latest_unacked ws
  /\ deliveries (map rec_some ws ++ [Eof 0]) = latest_unacked ws.
Proof. exact compaction_then_receive. Qed.

(* with '-' in a type compaction can drop the only record of a message *)
Theorem C12_compaction_with_dash_loses : exists ws, map snd (compact (keyed ws)) <> latest ws.
Proof. exact compact_dash_loses. Qed.

(* a receiver that is already running delivers the unacknowledged records as they are written *)
Theorem C12_live_receiver : forall ws, deliveries (Eof 0 :: map rec_some ws) = unacked ws.
Proof. exact deliveries_live. Qed.

(* the decision procedure used on the implementation's observations accepts the model on EVERY input *)
Theorem C12_spec_sound : forall i, spec_c12 i (model_obs12 i) = [].
Proof. exact spec_c12_sound. Qed.

(* non-vacuity: two senders of one topic; pairs ("ab","c") / ("a","bc"); a key containing '-';
   a re-send, an acknowledgement, an empty payload, a 2-byte UTF-8 type *)
Example C12_inhabited :
  let M t k p := {| m_type := t; m_key := k; m_payload := p |} in
  let i := {| i_topics := [1; 1];
              i_sops := [ {| so_sender := 0; so_ack := false; so_msg := M [97;98] [99] [1] |};
                          {| so_sender := 1; so_ack := false; so_msg := M [97] [98;99] [] |};
                          {| so_sender := 0; so_ack := false; so_msg := M [195;169] [120;45;121] [0;255] |};
                          {| so_sender := 1; so_ack := true;  so_msg := M [97;98] [99] [] |};
                          {| so_sender := 0; so_ack := false; so_msg := M [97] [98;99] [7] |} ] |} in
  dom12 i = true
  /\ o_live (model_obs12 i) = [M [97;98] [99] [1]; M [97] [98;99] []; M [195;169] [120;45;121] [0;255]; M [97] [98;99] [7]]
  /\ o_full (model_obs12 i) = [M [195;169] [120;45;121] [0;255]; M [97] [98;99] [7]]
  /\ o_comp (model_obs12 i) = o_full (model_obs12 i).
Proof. vm_compute. repeat split; reflexivity. Qed.

Print Assumptions C12_key_injective.
Print Assumptions C12_same_pair_iff_same_key.
Print Assumptions C12_dash_in_type_collides.
Print Assumptions C12_wire_round_trip.
Print Assumptions C12_one_record.
Print Assumptions C12_compaction_keeps_latest.
Print Assumptions C12_compaction_then_receive.
Print Assumptions C12_compaction_with_dash_loses.
Print Assumptions C12_live_receiver.
Print Assumptions C12_spec_sound.
Print Assumptions C12_inhabited.
