From Coq Require Import List ZArith Bool.
From FB Require Import Judge.E5.
Example C12_stub : True. Proof. exact I. Qed.
Print Assumptions C12_stub.
