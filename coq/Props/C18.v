(* C18 — A failed source is re-created and restarted; a finished source ends the run.
   Model: Model/Exec.v (source supervisor: SRunning k / SSleeping k / SClosed; trace events
   TPrep k = new instance created + Init + Setup, TStart k, TEnd k ok).  Proofs in Proofs/ExecMain.v.
   That the same parameters and the same output channel are used every time is part of the harness
   observation (harness/e1: every incarnation's Setup receives the case's channel), not of the model. *)
From Coq Require Import List ZArith Arith Bool.
From FB Require Import Model.Exec Model.ExecInv Proofs.ExecMain.
Import ListNotations.

(* For EVERY schedule: the source events of the trace are exactly, oldest first,
     Prep 0, Start 0, End 0 err, Prep 1, Start 1, End 1 err, ..., Prep k, Start k [, End k nil]
   — every incarnation is prepared (created, Init, Setup) before it is started, started exactly once,
   a new one exists only after the previous one returned an error, and a nil return is the last event. *)
Theorem C18_source_history : forall nt T s, reachable nt T s ->
  match src s with
  | SRunning k => src_evs (tr s) = TStart k :: TPrep k :: failed k
  | SSleeping k => src_evs (tr s) = failed (S k)
  | SClosed => exists k, src_evs (tr s) = TEnd k true :: TStart k :: TPrep k :: failed k
  end.
Proof. exact source_history_reachable. Qed.

(* a nil return ends the run: no restart, no further emission, in any schedule *)
Theorem C18_nil_is_final : forall nt T s a,
  src s = SClosed -> src_action a = true \/ (exists e, a = SrcEmit e) -> step nt T s a = NotEnabled.
Proof. exact source_closed_is_final. Qed.

(* events enter the pipeline only from an incarnation that is inside Start() *)
Theorem C18_emit_needs_running : forall nt T s e s',
  step nt T s (SrcEmit e) = Ok s' -> exists k, src s = SRunning k /\ src s' = SRunning k.
Proof. exact emit_needs_running. Qed.

(* the stream is the union over incarnations: the conservation laws of C01-C03 (Props/C01.v ...) are
   stated over the whole trace and never mention incarnations. *)

Example C18_two_failures_then_nil :
  exists s, run [] 1 (init []) [SrcReturnErr; SrcRestart; SrcReturnErr; SrcRestart; SrcReturnNil] = Ok s
            /\ src_evs (tr s) = TEnd 2 true :: TStart 2 :: TPrep 2 :: failed 2.
Proof. eexists. split; [vm_compute; reflexivity|reflexivity]. Qed.

Print Assumptions C18_source_history.
Print Assumptions C18_nil_is_final.
Print Assumptions C18_emit_needs_running.
