(* C18 — A failed source is re-created and restarted; a finished source ends the run.
   Model: Model/Exec.v (source supervisor: SRunning k / SSleeping k / SClosed / SDead; trace events
   TPrep k = new instance created + Init + Setup, TStart k, TEnd k ok, TPrepFail k = Setup of the new
   instance returned an error: prepareSource ends the process with os.Exit(1)).  Proofs in Proofs/ExecMain.v.
   That the same parameters and the same output channel are used every time is part of the harness
   observation (harness/e1: every incarnation's Setup receives the case's channel), not of the model. *)
From Coq Require Import List ZArith Arith Bool.
From FB Require Import Model.Exec Model.TraceSpec Model.ExecInv Proofs.ExecMain.
From FB Require Lib.Sexp Model.Settle Proofs.ExecReturn.
Import ListNotations.

(* For EVERY schedule: the source events of the trace are exactly, oldest first,
     Prep 0, Start 0, End 0 err, Prep 1, Start 1, End 1 err, ..., Prep k, Start k
       [, End k nil  |  , End k err [, PrepFail (k+1)]]
   — every incarnation is prepared (created, Init, Setup) before it is started, started exactly once,
   a new one exists only after the previous one returned an error, a nil return is the last event, and so
   is a failed Setup of a replacement (the process exits: that incarnation is never started). *)
Theorem C18_source_history : forall nt T s, reachable nt T s ->
  match src s with
  | SRunning k => src_evs (tr s) = TStart k :: TPrep k :: failed k
  | SSleeping k => src_evs (tr s) = failed (S k)
  | SClosed => exists k, src_evs (tr s) = TEnd k true :: TStart k :: TPrep k :: failed k
  | SDead => exists k, src_evs (tr s) = TPrepFail (S k) :: failed (S k)
  end.
Proof. exact source_history_reachable. Qed.

(* no incarnation is started unless it was prepared before (traces are newest first: [b] is the past) ... *)
Theorem C18_start_needs_prep : forall nt T s, reachable nt T s ->
  forall a k b, tr s = a ++ TStart k :: b -> In (TPrep k) b.
Proof. exact start_needs_prep. Qed.

(* ... and after a failed Setup nothing comes from the source any more: no Prep, Start, End, Emit, PrepFail *)
Theorem C18_nothing_after_failed_setup : forall nt T s, reachable nt T s ->
  forall a k b e, tr s = a ++ TPrepFail k :: b -> In e a ->
    match e with TPrep _ | TStart _ | TEnd _ _ | TEmit _ | TPrepFail _ => False | _ => True end.
Proof.
  intros nt T s HR a k b e Ht Hin. pose proof (nothing_after_prepfail nt T s HR a k b e Ht Hin) as H.
  destruct e; try discriminate H; exact I.
Qed.

(* a failed Setup ends the supervisor: no restart, no return, no emission is enabled, in any schedule *)
Theorem C18_failed_setup_is_final : forall nt T s a,
  src s = SDead -> src_action a = true \/ (exists e, a = SrcEmit e) -> step nt T s a = NotEnabled.
Proof. exact source_dead_is_final. Qed.

(* a nil return ends the run: no restart, no further emission, in any schedule *)
Theorem C18_nil_is_final : forall nt T s a,
  src s = SClosed -> src_action a = true \/ (exists e, a = SrcEmit e) -> step nt T s a = NotEnabled.
Proof. exact source_closed_is_final. Qed.

(* events enter the pipeline only from an incarnation that is inside Start() *)
Theorem C18_emit_needs_running : forall nt T s e s',
  step nt T s (SrcEmit e) = Ok s' -> exists k, src s = SRunning k /\ src s' = SRunning k.
Proof. exact emit_needs_running. Qed.

(* the stream is the union over incarnations: the conservation laws of C01-C03 (Props/C01.v ...) are
   stated over the whole trace and never mention incarnations. *)

Example C18_two_failures_then_nil :
  exists s, run [] 1 (init []) [SrcReturnErr; SrcRestart; SrcReturnErr; SrcRestart; SrcReturnNil] = Ok s
            /\ src_evs (tr s) = TEnd 2 true :: TStart 2 :: TPrep 2 :: failed 2.
Proof. eexists. split; [vm_compute; reflexivity|reflexivity]. Qed.

(* non-vacuity of the failed Setup: the run emit, error return, failed Setup reaches SDead with a trace the
   specification accepts; starting the incarnation whose Setup failed is rejected (clauses 18.3 and 18.7) *)
Example C18_setup_fail_run :
  exists s, run sf_net 1 (init sf_net) [SrcEmit 1%Z; MainSend; SrcReturnErr; SrcSetupFail] = Ok s /\ src s = SDead
            /\ tr s = [TPrepFail 1; TEnd 0 false; TEmit 1%Z; TStart 0; TSetup 0; TPrep 0]
            /\ trace_ok sf_net (tr s) = [].
Proof. exact setup_fail_run. Qed.
Example C18_start_after_failed_setup_rejected :
  trace_ok sf_net [TStart 1; TPrepFail 1; TEnd 0 false; TEmit 1%Z; TStart 0; TSetup 0; TPrep 0]
  = [(18, 3); (18, 7)].
Proof. exact start_after_prepfail_rejected. Qed.

(* "as often as needed": the run never just ends after an error return.  Execute returns only after some incarnation
   returned nil from Start (clause 18.8 of the judge: on the trace, and on the snapshots of the lockstep driver). *)
Theorem C18_returned_needs_nil_end : forall nt tmo s, reachable nt tmo s ->
  (match mn s with MCloseRoots | MWait | MDone => src s = SClosed | _ => True end)
  /\ (forall c, In (TDone c) (tr s) -> mn s = MDone)
  /\ (src s = SClosed -> any_nil_end (tr s) = true).
Proof. exact ExecReturn.returned_needs_nil_end. Qed.
Theorem C18_returned_snapshot_src_closed : forall nt tmo s, reachable nt tmo s ->
  Settle.main_code s <> 0%Z -> Settle.src_code s = Sexp.T [Sexp.L 2; Sexp.L 0]%Z.
Proof. exact ExecReturn.returned_snapshot_src_closed. Qed.

Print Assumptions C18_source_history.
Print Assumptions C18_start_needs_prep.
Print Assumptions C18_nothing_after_failed_setup.
Print Assumptions C18_failed_setup_is_final.
Print Assumptions C18_nil_is_final.
Print Assumptions C18_emit_needs_running.
Print Assumptions C18_returned_needs_nil_end.
Print Assumptions C18_returned_snapshot_src_closed.
Print Assumptions C18_two_failures_then_nil.
Print Assumptions C18_setup_fail_run.
Print Assumptions C18_start_after_failed_setup_rejected.
