(* C15 — Kafka producer sink and error reports: one faithful record per event.
   Only statements, each closed by [exact lemma], Examples and Print Assumptions.
   Model: Model/Producer.v; statement as a decision procedure: Judge/E7.v [spec_c15]. *)
From Coq Require Import List ZArith Bool Lia.
From FB Require Import Lib.Sexp Lib.Eqb Lib.E7Lib Model.Producer Judge.E7 Proofs.ProducerProofs.
Import ListNotations.
Open Scope Z_scope.

(* every produce request (either implementation of ProduceRequest, every byte string incl. empty) with a topic from
   at least one place: exactly one record, value = the request's bytes, no error, nothing for children *)
Theorem C15_one_record : forall ct p topic msg,
  p = PSimple topic msg \/ p = PCustom topic msg ->
  dest_topic ct topic <> [] ->
  produce ct p = {| p_result_nil := true; p_err := e_none; p_records := [(dest_topic ct topic, msg)] |}.
Proof. exact produce_one_record. Qed.

(* the topic is the request's if it names one, else the configured one *)
Theorem C15_topic_choice : forall ct t, dest_topic ct t = match t with [] => ct | _ => t end.
Proof. exact dest_topic_choice. Qed.

(* a payload of the wrong type: an error and no record *)
Theorem C15_wrong_type_no_record : forall ct k,
  produce ct (PWrong k) = {| p_result_nil := true; p_err := e_type; p_records := [] |}.
Proof. exact produce_wrong_type. Qed.

(* no topic from either place: an error and no record *)
Theorem C15_no_topic_no_record : forall ct p topic msg,
  p = PSimple topic msg \/ p = PCustom topic msg -> ct = [] -> topic = [] ->
  produce ct p = {| p_result_nil := true; p_err := e_topic; p_records := [] |}.
Proof. exact produce_no_topic. Qed.

(* in every case: nothing is passed to children, at most one record, and a record iff no error *)
Theorem C15_sink : forall ct p,
  p_result_nil (produce ct p) = true /\ (length (p_records (produce ct p)) <= 1)%nat.
Proof. intros ct p; split; [exact (produce_nothing_for_children ct p) | exact (produce_at_most_one ct p)]. Qed.

Theorem C15_record_iff_no_error : forall ct p,
  p_err (produce ct p) = e_none <-> length (p_records (produce ct p)) = 1%nat.
Proof. exact produce_record_iff_no_error. Qed.

(* every error report (non-nil error; errorinfo, if present, JSON data) over plain, wrapped, structured errors and
   marshalable or unmarshalable event payloads, with a configured topic: exactly one record on that topic holding the
   object {error, event, timestamp}; error is [exp_error]; event is the failed event when it marshals, else the
   rendering of the marshal error *)
Theorem C15_report_shape : forall ct r,
  report_in_domain r = true -> ct <> [] ->
  exists ev,
    error_report ct (RReport r)
    = {| x_panic := false; x_result_nil := true; x_err := e_none;
         x_records := [(ct, report_obj ev (exp_error (r_err r)))] |}
    /\ ev = match r_payload r with
            | PJson j => event_json (r_form r) (r_recovery r) j
            | PUn u => merr_json u
            end.
Proof. exact report_one_record. Qed.

(* error = {code, message[, errorinfo]} preserved for FBError values ... *)
Theorem C15_report_error_structured : forall c m i,
  exp_error (EFB c m i)
  = match i with
    | Some (IJson j) => if is_jnull j then jobj [(k_code, jstr c); (k_message, jstr m)]
                        else jobj [(k_code, jstr c); (k_errorinfo, j); (k_message, jstr m)]
    | _ => jobj [(k_code, jstr c); (k_message, jstr m)]
    end.
Proof. exact exp_error_structured. Qed.

(* ... ERR_UNKNOWN plus the error text for everything else (plain, wrapped - even when an FBError is inside -, and
   pointers to FBError: error.go:31 is a type assertion, not errors.As) *)
Theorem C15_report_error_unknown : forall e,
  (forall c m i, e <> EFB c m i) ->
  exp_error e = jobj [(k_code, jstr s_err_unknown); (k_message, jstr (err_text e))].
Proof. exact exp_error_unknown. Qed.

Theorem C15_report_wrong_type_no_record : forall ct k,
  error_report ct (RWrong k) = {| x_panic := false; x_result_nil := true; x_err := e_type; x_records := [] |}.
Proof. exact report_wrong_type. Qed.

Theorem C15_report_no_topic_no_record : forall r,
  report_in_domain r = true ->
  error_report [] (RReport r) = {| x_panic := false; x_result_nil := true; x_err := e_topic; x_records := [] |}.
Proof. exact report_no_topic. Qed.

(* the decision procedure used on the implementation's observations accepts the model on EVERY input *)
Theorem C15_spec_sound : forall i, spec_c15 i (model_pobs i) = [].
Proof. exact spec_c15_sound. Qed.

(* sequences of calls on one producer instance, records read after the last call: every call of every sequence is
   judged by the single-call statement, and the model (the single-call model, call by call) passes *)
Theorem C15_seq_spec_sound : forall is k, spec_c15_seq k is (model_pseq is) = [].
Proof. exact spec_c15_seq_sound. Qed.

(* non-vacuity / witnesses *)
Example C15_override_example :
  produce [116] (PSimple [120; 121] [0; 255]) = {| p_result_nil := true; p_err := e_none; p_records := [([120; 121], [0; 255])] |}
  /\ produce [116] (PCustom [] []) = {| p_result_nil := true; p_err := e_none; p_records := [([116], [])] |}.
Proof. vm_compute. split; reflexivity. Qed.

(* a wrapped structured error with an unmarshalable payload, executor's report form: in the domain, one record *)
Example C15_report_example :
  let r := {| r_form := true; r_recovery := true; r_payload := PUn (UValue [78; 97; 78]);
              r_err := EWrap [99] (EFB [69] [109] (Some (IJson jnull))) |} in
  report_in_domain r = true
  /\ x_records (error_report [116] (RReport r))
     = [([116], report_obj (merr_json (UValue [78; 97; 78]))
                  (jobj [(k_code, jstr s_err_unknown); (k_message, jstr [99; 58; 32; 69; 58; 32; 109])]))].
Proof. vm_compute. split; reflexivity. Qed.

(* outside the quantifier: a nil error panics (error.go:35), an unmarshalable errorinfo yields a record with no bytes *)
Example C15_outside_domain :
  x_panic (error_report [116] (RReport {| r_form := true; r_recovery := false; r_payload := PJson jnull; r_err := ENil |})) = true
  /\ x_records (error_report [116] (RReport {| r_form := true; r_recovery := false; r_payload := PJson jnull;
                                                r_err := EFB [69] [] (Some IBad) |})) = [([116], jbad)].
Proof. vm_compute. split; reflexivity. Qed.

Print Assumptions C15_one_record.
Print Assumptions C15_topic_choice.
Print Assumptions C15_wrong_type_no_record.
Print Assumptions C15_no_topic_no_record.
Print Assumptions C15_sink.
Print Assumptions C15_record_iff_no_error.
Print Assumptions C15_report_shape.
Print Assumptions C15_report_error_structured.
Print Assumptions C15_report_error_unknown.
Print Assumptions C15_report_wrong_type_no_record.
Print Assumptions C15_report_no_topic_no_record.
Print Assumptions C15_spec_sound.
Print Assumptions C15_seq_spec_sound.
Print Assumptions C15_override_example.
Print Assumptions C15_report_example.
Print Assumptions C15_outside_domain.
