(* C10 — message receiver: catch up first, then deliver exactly the unacked messages.
   Only statements, each closed by [exact lemma], Examples, and [Print Assumptions].
   Model: Model/Receiver.v (buildPartitionAssignments, processEvent, processMessage, processInitBuffer);
   statement as a decision procedure and the reference receiver [sstep]/[srun]: Judge/E5.v.
   The decoding of a record value (encoding/json) is an oracle: a record is [Rec (Some wire)] or [Rec None]. *)
From Coq Require Import List ZArith Bool Lia.
From FB Require Import Lib.Eqb Model.Wire Model.Receiver Judge.E5 Proofs.WireProofs Proofs.ReceiverProofs.
Import ListNotations.
Open Scope Z_scope.

(* one assignment per partition, in the order of the metadata, each starting at the oldest retained
   record or 50,000 records before the end, whichever is later (all watermark queries answered) *)
Theorem C10_start_offsets : forall pids wms lh,
  wms_ok (firstn (length pids) wms) = Some lh -> length lh = length pids ->
  build_assignments pids wms
  = combine pids (map (fun lh => let '(low, high) := lh in if high - low <=? 50000 then low else high - 50000) lh).
Proof. exact build_assignments_closed. Qed.

Theorem C10_start_bounds : forall low high, low <= high ->
  let s := start_of (WOk low high) in low <= s <= high /\ high - s <= 50000 /\ (s = low \/ s = high - 50000).
Proof. exact start_of_bounds. Qed.

Theorem C10_one_assignment_per_partition : forall pids wms, map fst (build_assignments pids wms) = pids.
Proof. exact build_assignments_parts. Qed.

(* the test the code makes (number of distinct partitions that reported end-of-partition >= partition count)
   is "every partition has reported", for reports of the topic's own partitions *)
Theorem C10_count_test_is_caught_up : forall pids e seen,
  NoDup pids -> NoDup e -> incl e pids -> (forall x, In x e <-> In x seen) ->
  (length pids <=? length e)%nat = caught_up pids seen.
Proof. exact count_test_is_caught_up. Qed.

(* for every history of C10's domain the model produces, event by event, exactly the Initialized() value and
   the deliveries of the reference receiver *)
Theorem C10_refines_reference : forall i, dom10 i = true ->
  rrun (rinit (length (i_pids i))) (i_ops i) = map proj (srun (i_pids i) sinit (i_ops i)).
Proof. exact model_refines_reference. Qed.

(* while some partition has not reported its end: nothing delivered, not initialised — whatever records,
   garbage, repeated end-of-partition signals arrive *)
Theorem C10_silent_until_caught_up : forall pids pre,
  NoDup pids -> Forall (op_ok pids) pre -> caught_up pids (eofs_of pre) = false ->
  rrun (rinit (length pids)) pre = map (fun _ => (false, [])) pre.
Proof. exact silent_until_caught_up. Qed.

(* the end-of-partition signal that completes the catch-up delivers exactly the messages whose latest record
   is not an acknowledgement (latest payload, once each); afterwards every unacknowledged record is delivered
   on arrival, in order, and acknowledgements, undecodable records and other events deliver nothing *)
Theorem C10_catch_up_then_live : forall pids pre p rest,
  NoDup pids -> Forall (op_ok pids) (pre ++ Eof p :: rest) ->
  caught_up pids (eofs_of pre) = false -> caught_up pids (p :: eofs_of pre) = true ->
  rrun (rinit (length pids)) (pre ++ Eof p :: rest)
  = map (fun _ => (false, [])) pre
    ++ (true, latest_unacked (recs_of pre)) :: map (fun o => (true, live_out o)) rest.
Proof. exact catch_up_then_live. Qed.

(* these two shapes are all histories (topic with at least one partition) *)
Theorem C10_history_shape : forall pids, pids <> [] -> forall ops,
  caught_up pids (eofs_of ops) = false
  \/ exists pre p rest, ops = pre ++ Eof p :: rest
       /\ caught_up pids (eofs_of pre) = false /\ caught_up pids (p :: eofs_of pre) = true.
Proof. exact history_shape. Qed.

(* [latest_unacked]: no identity twice, and only records of the history *)
Theorem C10_latest_once_each : forall rs, distinct_ids (latest rs).
Proof. exact latest_distinct. Qed.

(* the decision procedure used on the implementation's observations accepts the model on EVERY input *)
Theorem C10_spec_sound : forall i, spec_c10 i (model_obs10 i) = [].
Proof. exact spec_c10_sound. Qed.

(* non-vacuity: two partitions; partition 0 reports twice before partition 1 does; a re-sent message, an
   acknowledged one, a garbage record, types with '-' whose concatenations with the key coincide *)
Example C10_domain_inhabited :
  let m t k p := {| m_type := t; m_key := k; m_payload := p |} in
  let i := {| i_pids := [0; 1]; i_wms := [WOk 0 10; WOk 5 60005];
              i_ops := [ Rec (Some {| w_msg := m [97;45;98] [99] [1]; w_ack := false |});
                         Eof 0;
                         Rec (Some {| w_msg := m [97] [98;45;99] [2]; w_ack := false |});
                         Rec None;
                         Eof 0;
                         Rec (Some {| w_msg := m [120] [121] [3]; w_ack := false |});
                         Rec (Some {| w_msg := m [97;45;98] [99] [4]; w_ack := false |});
                         Rec (Some {| w_msg := m [120] [121] []; w_ack := true |});
                         Eof 1;
                         Rec (Some {| w_msg := m [120] [121] [5]; w_ack := false |});
                         Rec (Some {| w_msg := m [120] [121] []; w_ack := true |}) ] |} in
  dom10 i = true
  /\ model_obs10 i
     = {| o_assign := [(0, 0); (1, 10005)];
          o_steps := [ (false, []); (false, []); (false, []); (false, []); (false, []); (false, []); (false, []);
                       (false, []);
                       (true, [m [97] [98;45;99] [2]; m [97;45;98] [99] [4]]);
                       (true, [m [120] [121] [5]]); (true, []) ] |}.
Proof. vm_compute. split; reflexivity. Qed.

Example C10_catch_up_hypotheses_satisfiable :
  let pre := [Eof 0; Rec None; Eof 0] in
  NoDup [0; 1] /\ Forall (op_ok [0; 1]) (pre ++ Eof 1 :: []) /\
  caught_up [0; 1] (eofs_of pre) = false /\ caught_up [0; 1] (1 :: eofs_of pre) = true.
Proof.
  split; [apply nodupb_NoDup; reflexivity|]. split; [|split; reflexivity].
  apply dom10_ops_ok. reflexivity.
Qed.

Print Assumptions C10_start_offsets.
Print Assumptions C10_start_bounds.
Print Assumptions C10_one_assignment_per_partition.
Print Assumptions C10_count_test_is_caught_up.
Print Assumptions C10_refines_reference.
Print Assumptions C10_silent_until_caught_up.
Print Assumptions C10_catch_up_then_live.
Print Assumptions C10_history_shape.
Print Assumptions C10_latest_once_each.
Print Assumptions C10_spec_sound.
Print Assumptions C10_domain_inhabited.
Print Assumptions C10_catch_up_hypotheses_satisfiable.
