(* C04 — Backpressure never loses events; discard drops are counted and never block.
   [try_send] is one delivery attempt into a node's channel (deliverToChild for one event; since the repairs
   recorded in known_findings.json also the delivery to an error handler and the main loop's copy to a root).
   "Never makes its parent, siblings or the source wait" is the statement that the delivery step is enabled in
   every state; that the REAL code does not wait is what the lockstep correspondence observes (a stalled
   discarding subtree must leave every other observable as the model predicts). *)
From Coq Require Import List ZArith Bool Arith.
From FB Require Import Model.Exec Model.TraceSpec Model.ExecInv.
From FB Require Proofs.ExecCount Proofs.ExecProps.
Import ListNotations.

(* a node without the flag never loses anything, in any reachable state, however slow it is: its producer
   waits instead (the send is simply not enabled while the buffer is full) *)
Theorem C04_no_loss_without_flag : forall nt T s, reachable nt T s ->
  forall c, ndisc (info nt c) = false -> dropped (node s c) = [].
Proof. intros nt T s H. exact (proj1 (proj2 (proj2 (proj2 (ExecCount.count_inv_reachable nt T s H))))). Qed.
Theorem C04_full_nondiscarding_blocks : forall nt s c it,
  ndisc (info nt c) = false -> closed (node s c) = false -> length (q (node s c)) >= ncap (info nt c) ->
  try_send nt s c it = Blocked.
Proof. exact ExecCount.full_nondiscard_blocks. Qed.

(* a drop happens only at a full buffer of a node marked discard_on_full_buffer, loses exactly that event,
   and is counted in discarded_events_total of that node *)
Theorem C04_drop_only_when_full_and_counted : forall nt s c it s',
  try_send nt s c it = Sent s' -> dropped (node s' c) <> dropped (node s c) ->
  ndisc (info nt c) = true /\ length (q (node s c)) >= ncap (info nt c)
  /\ dropped (node s' c) = it :: dropped (node s c) /\ c_disc (node s' c) = S (c_disc (node s c))
  /\ q (node s' c) = q (node s c).
Proof. exact ExecCount.drop_only_when_full. Qed.
Theorem C04_discards_counted : forall nt T s n, reachable nt T s -> n < length nt ->
  c_disc (node s n) = length (dropped (node s n)).
Proof. intros nt T s n H Hn. exact (proj2 (proj2 (proj2 (proj2 (ExecProps.counters_meaning nt T s n H Hn))))). Qed.

(* a delivery to an open discarding node is enabled in EVERY state: it never makes the sender wait *)
Theorem C04_discarding_never_blocks : forall nt s c it,
  ndisc (info nt c) = true -> closed (node s c) = false -> exists s', try_send nt s c it = Sent s'.
Proof. exact ExecCount.discard_never_blocks. Qed.

(* losses are exactly accounted: produced = handed over + discarded, at a clean end *)
Theorem C04_clean_end_exact : forall nt T s c x,
  ExecProps.good_net nt -> reachable nt T s -> mn s = MDone -> timedout s = false -> c < length nt ->
  count_item x (supply nt c (tr s)) = count_item x (entered c (tr s)) + count_item x (dropped (node s c))
  /\ q (node s c) = [] /\ pending c x s = 0.
Proof. exact ExecProps.clean_end_exact. Qed.

Print Assumptions C04_no_loss_without_flag.
Print Assumptions C04_full_nondiscarding_blocks.
Print Assumptions C04_drop_only_when_full_and_counted.
Print Assumptions C04_discards_counted.
Print Assumptions C04_discarding_never_blocks.
Print Assumptions C04_clean_end_exact.
