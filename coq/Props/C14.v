(* C14 — Elasticsearch sink answers every index request exactly once, within its bounds.
   Only statements, each closed by [exact lemma], Examples / witnesses and Print Assumptions.
   Model: Model/EsClient.v (retry machine [handle]/[lineage], batcher [bstep], token pool machine [mstep]);
   statement as a decision procedure on observations: Judge/E7.v [spec_c14] with the closed form [fate]. *)
From Coq Require Import List ZArith Bool Arith Lia.
From FB Require Import Lib.Sexp Lib.Eqb Lib.E7Lib Model.EsClient Judge.E7 Proofs.EsProofs Proofs.EsSpecProofs Proofs.EsSchedProofs.
Import ListNotations.
Open Scope Z_scope.

(* Every batch (distinct documents), every configuration, every script of per-document outcomes without
   whole-request errors (late responses allowed: the repaired code ignores lateness, C14_late_harmless): each document
   of the batch gets exactly ONE answer, namely [fate]'s, and is sent exactly as often as [fate] says; nobody else
   is answered or sent; the model's fuel suffices.  By induction on the remaining retries. *)
Theorem C14_answered_once : forall cfg sc b,
  no_whole sc = true -> NoDup (map d_id b) ->
  let tr := lineage (fuel_for cfg sc) cfg sc (fresh b) in
  tr_fuel_out tr = false
  /\ (forall d, In d b ->
        answers_of (d_id d) (tr_answers tr) = [fst (fate (max_retries cfg) 0 (outcome_at sc (d_id d)))]
        /\ (count_calls (d_id d) (tr_calls tr) + 0 = snd (fate (max_retries cfg) 0 (outcome_at sc (d_id d))))%nat)
  /\ (forall id, ~ In id (map d_id b) -> answers_of id (tr_answers tr) = [] /\ count_calls id (tr_calls tr) = 0%nat).
Proof. exact batch_answered_once. Qed.

(* the same for a request in the middle of its life: retryCount n, sent n times before *)
Theorem C14_answered_once_from : forall cfg sc, no_whole sc = true -> forall rem fuel t,
  (t_n t + rem = max_retries cfg)%nat -> t_send t = t_n t -> (rem < fuel)%nat -> NoDup (map d_id (t_docs t)) ->
  fate_ok cfg sc rem t (lineage fuel cfg sc t).
Proof. exact lineage_fate. Qed.

(* ... where [fate] is: sent k - n times, k - n <= remaining retries + 1; every attempt before the last failed
   retryably; the answer is success iff the last attempt was 2xx; a mapping error is answered with that attempt's
   error (at whatever attempt it occurs: never re-sent); any other failure at the last attempt means the retries are
   exhausted (attempt number = bulk-index-max-retries) and the answer carries that attempt's error *)
Theorem C14_fate_meaning : forall sc, (forall k, is_whole (sc k) = false) -> forall rem n,
  let a := fst (fate rem n sc) in
  let k := snd (fate rem n sc) in
  (n < k <= n + rem + 1)%nat
  /\ (forall j, (n <= j < k - 1)%nat -> is_retryable (sc j) = true)
  /\ match sc (k - 1)%nat with
     | OOk => a = ASuccess
     | OMapping => a = AIndexErr (Z.of_nat (k - 1)) 2
     | ORetry => a = AIndexErr (Z.of_nat (k - 1)) 1 /\ (k - 1 = n + rem)%nat
     | ONoErr => a = AIndexErr (-1) 3 /\ (k - 1 = n + rem)%nat
     | OWhole => False
     end.
Proof. exact fate_spec. Qed.

(* EVERY script, whole-request errors included: each document of a batch gets exactly the answer of the batch-level
   closed form [bfate] (Judge/E7.v) and is sent exactly as often as it says.  [bfate] is the statement itself: a request
   that fails as a whole answers nobody, is sent again unchanged and does not use up a retry; otherwise success on 2xx,
   a mapping conflict fails at once, any other failure fails for good at retry count = bulk-index-max-retries, else the
   document goes into the next request together with the other retryable failures. *)
Theorem C14_answered_once_whole : forall cfg sc b,
  NoDup (map d_id b) ->
  let tr := lineage (fuel_for cfg sc) cfg sc (fresh b) in
  tr_fuel_out tr = false
  /\ (forall d, In d b ->
        answers_of (d_id d) (tr_answers tr) = [fst (bfate (fuel_for cfg sc) (max_retries cfg) sc b 0 0 d)]
        /\ (count_calls (d_id d) (tr_calls tr) + 0 = snd (bfate (fuel_for cfg sc) (max_retries cfg) sc b 0 0 d))%nat)
  /\ (forall id, ~ In id (map d_id b) -> answers_of id (tr_answers tr) = [] /\ count_calls id (tr_calls tr) = 0%nat).
Proof. exact batch_bfate. Qed.

(* a whole-request failure: nobody is answered now, the same documents go out again, the retry count stays *)
Theorem C14_whole_error_uses_no_retry : forall f maxr sc live n s d,
  existsb (fun d' => is_whole (outcome_at sc (d_id d') s)) live = true ->
  bfate (S f) maxr sc live n s d = bfate f maxr sc live n (S s) d.
Proof. intros f maxr sc live n s d H. rewrite bfate_S, H. reflexivity. Qed.

(* without whole-request errors the batch-level closed form is the per-document [fate] of C14_fate_meaning *)
Theorem C14_bfate_is_fate : forall sc, no_whole sc = true -> forall f rem live s d,
  (rem < f)%nat -> bfate f (s + rem) sc live s s d = fate rem s (outcome_at sc (d_id d)).
Proof. exact bfate_is_fate. Qed.

Theorem C14_late_harmless : forall cfg sc sc' t,
  (forall id k, outcome_at sc id k = outcome_at sc' id k) -> handle cfg sc t = handle cfg sc' t.
Proof. exact handle_ignores_late. Qed.

(* every bulk request of every scenario (whole-request errors included) is a sub-list of ONE batch — elements
   (index, id, body) untouched, order kept —, non-empty and at most batch-size long *)
Theorem C14_batch_shape : forall cfg sc ops clean c,
  (1 <= batch_size cfg)%nat ->
  In c (e_calls (es_run cfg sc ops clean)) ->
  exists b p, In b (b_batches (bfinish cfg clean (brun cfg ops))) /\ c = filter p b /\ c <> []
              /\ (length c <= batch_size cfg)%nat.
Proof. exact run_calls_shape. Qed.

(* token pool, over EVERY interleaving of arrivals, timer, shutdown, acquire / respond / release steps *)
Theorem C14_pool : forall cfg sc sch s,
  mrun cfg sc (m_init cfg) sch = Some s ->
  (in_flight s + m_tokens s = workers cfg)%nat /\ (in_flight s <= workers cfg)%nat.
Proof. exact pool_bound. Qed.

(* EVERY complete schedule of the machine - any interleaving of arrivals, timer firings, Shutdown, token
   acquisitions, responses and token releases after which no goroutine waits or runs - yields, as multisets (counted
   under every predicate), exactly the answers and the bulk requests of the schedule-free semantics [es_run] on the
   arrivals of that schedule.  So C14_answered_once / C14_batch_shape / C14_spec_model, stated for [es_run], hold for
   every interleaving. *)
Theorem C14_schedule_independent : forall cfg sc sch s,
  mrun cfg sc (m_init cfg) sch = Some s -> quiescent s = true ->
  let r := es_run cfg sc (sched_ops sch) false in
  (forall pa, length (filter pa (m_answers s)) = length (filter pa (e_answers r)))
  /\ (forall pc, length (filter pc (m_calls s)) = length (filter pc (e_calls r))).
Proof. exact schedule_independent. Qed.

(* logical timer: when arrivals pause the pending batch is sent as one batch and nothing stays pending; an arrival
   never sends a partial batch (the timer is re-armed by every arrival), it sends exactly when the batch is full *)
Theorem C14_idle_flush : forall cfg s,
  b_pending (bstep cfg s OpPause) = [] /\ b_batches (bstep cfg s OpPause) = b_batches s ++ [b_pending s].
Proof. exact pause_flushes. Qed.

Theorem C14_arrival : forall cfg s d,
  (b_batches (bstep cfg s (OpDoc d)) = b_batches s /\ b_pending (bstep cfg s (OpDoc d)) = b_pending s ++ [d]
   /\ length (b_pending s ++ [d]) <> batch_size cfg)
  \/ (b_batches (bstep cfg s (OpDoc d)) = b_batches s ++ [b_pending s ++ [d]] /\ b_pending (bstep cfg s (OpDoc d)) = []
      /\ length (b_pending s ++ [d]) = batch_size cfg).
Proof. exact arrival_batches. Qed.

(* a wrong-typed payload is answered at once with an error and never enqueued *)
Theorem C14_wrong_type : forall cfg s id,
  b_batches (bstep cfg s (OpBad id)) = b_batches s /\ b_pending (bstep cfg s (OpBad id)) = b_pending s
  /\ b_direct (bstep cfg s (OpBad id)) = b_direct s ++ [(id, AOther)].
Proof. exact bad_not_enqueued. Qed.

(* EVERY script - whole-request errors (finitely many, then retried for ever by the code) and late responses
   included -: each document of a batch gets exactly one answer, nobody else gets any, the model's fuel suffices *)
Theorem C14_answered_once_any_script : forall cfg sc b,
  NoDup (map d_id b) ->
  let tr := lineage (fuel_for cfg sc) cfg sc (fresh b) in
  tr_fuel_out tr = false
  /\ (forall d, In d b -> length (answers_of (d_id d) (tr_answers tr)) = 1%nat)
  /\ (forall id, ~ In id (map d_id b) -> answers_of id (tr_answers tr) = [] /\ count_calls id (tr_calls tr) = 0%nat).
Proof. exact batch_once. Qed.

(* The decision procedure that is evaluated on the implementation's observations, evaluated on the model's own
   observation, for EVERY scenario of the quantifier (any ops, sizes >= 1, distinct events, any script incl. whole-request
   errors and late responses, clean or abrupt Shutdown, requests held in flight or not): the ONLY failing clauses are
   clause 6 / detail 1, one per request that was still in the pending batch when Shutdown ran, and - when the scenario
   holds the bulk requests in flight until Shutdown has returned - clause 6 / detail 2, one per request already handed
   to a bulk goroutine.  Hence a failing clause 1-5, 7 on the implementation is a violation of the property by the
   implementation and never an artefact of the model. *)
Theorem C14_spec_model : forall i,
  in_domain14 i = true ->
  spec_c14 i (model_eobs i)
  = map (fun d => clause 14 6 [L 1; L (d_id d)]) (e_dropped (es_run (ei_cfg i) (ei_script i) (ei_ops i) (ei_clean i)))
    ++ (if ei_gate i
        then map (fun d => clause 14 6 [L 2; L (d_id d)])
                 (concat (b_batches (bfinish (ei_cfg i) (ei_clean i) (brun (ei_cfg i) (ei_ops i)))))
        else []).
Proof. exact spec_c14_model. Qed.

(* with a clean Shutdown (arrivals paused first) every clause holds *)
Theorem C14_spec_sound_clean : forall i,
  in_domain14 i = true -> ei_clean i = true -> ei_gate i = false -> spec_c14 i (model_eobs i) = [].
Proof. exact spec_c14_sound_clean. Qed.

(* the closed form the decision procedure uses for "still pending at Shutdown" is the batcher's pending batch *)
Theorem C14_pending_closed_form : forall cfg ops,
  (1 <= batch_size cfg)%nat -> b_pending (brun cfg ops) = pending_at_end cfg ops.
Proof. exact pending_closed. Qed.

(* ---------- the part of the statement that is FALSE of the current code ---------- *)
(* the full statement, as the judge evaluates it: on every scenario of the quantifier the model's observation
   passes every clause *)
Definition C14_full_statement : Prop :=
  forall i, in_domain14 i = true -> spec_c14 i (model_eobs i) = [].

Definition shutdown_witness : einput :=
  {| ei_cfg := {| batch_size := 3; max_retries := 1; workers := 1 |};
     ei_ops := map (fun k => OpDoc {| d_id := k; d_idx := 0; d_hasid := 1; d_body := k |}) [0; 1; 2; 3];
     ei_script := []; ei_clean := false; ei_gate := false |}.

(* the same arrivals, Elasticsearch slow: Shutdown returns while the first bulk request is in flight *)
Definition inflight_witness : einput :=
  {| ei_cfg := ei_cfg shutdown_witness; ei_ops := ei_ops shutdown_witness; ei_script := []; ei_clean := false; ei_gate := true |}.

(* Shutdown with a pending batch: request 3 is never sent and never answered (clause 6, detail 1) *)
Theorem C14_shutdown_refuted :
  in_domain14 shutdown_witness = true
  /\ spec_c14 shutdown_witness (model_eobs shutdown_witness) = [clause 14 6 [L 1; L 3]]
  /\ e_dropped (es_run (ei_cfg shutdown_witness) [] (ei_ops shutdown_witness) false)
     = [{| d_id := 3; d_idx := 0; d_hasid := 1; d_body := 3 |}].
Proof. vm_compute. repeat split; reflexivity. Qed.

(* Shutdown with a bulk request in flight: requests 0,1,2 have no answer when Shutdown returns (clause 6, detail 2);
   they are answered later only if the process happens to live on *)
Theorem C14_shutdown_inflight_refuted :
  in_domain14 inflight_witness = true
  /\ spec_c14 inflight_witness (model_eobs inflight_witness)
     = [clause 14 6 [L 1; L 3]; clause 14 6 [L 2; L 0]; clause 14 6 [L 2; L 1]; clause 14 6 [L 2; L 2]]
  /\ eo_at_shutdown (model_eobs inflight_witness) = [].
Proof. vm_compute. repeat split; reflexivity. Qed.

Theorem C14_full_statement_refuted : ~ C14_full_statement.
Proof.
  intros H. specialize (H shutdown_witness). destruct C14_shutdown_refuted as [D [S _]].
  rewrite S in H. specialize (H D). discriminate.
Qed.

(* the part of the full statement that does hold: every scenario that ends with a clean Shutdown *)
Theorem C14_full_statement_partial : forall i,
  in_domain14 i = true -> ei_clean i = true -> ei_gate i = false -> spec_c14 i (model_eobs i) = [].
Proof. exact spec_c14_sound_clean. Qed.

(* non-vacuity: a scenario with a retry that succeeds, a mapping error, retry exhaustion, a partial batch flushed by
   the timer and a wrong-typed payload; clean Shutdown: every clause holds *)
Example C14_scenario_example :
  let d k := {| d_id := k; d_idx := 1; d_hasid := 0; d_body := 7 |} in
  let i := {| ei_cfg := {| batch_size := 2; max_retries := 1; workers := 2 |};
              ei_ops := [OpDoc (d 0); OpDoc (d 1); OpBad 9; OpDoc (d 2); OpPause; OpDoc (d 3)];
              ei_script := [(0, [(ORetry, false); (OOk, true)]); (1, [(OMapping, false)]);
                            (2, [(ORetry, false); (ONoErr, false)])];
              ei_clean := true; ei_gate := false |} in
  in_domain14 i = true /\ no_whole (ei_script i) = true /\ spec_c14 i (model_eobs i) = []
  /\ map (fun id => answers_of id (e_answers (es_run (ei_cfg i) (ei_script i) (ei_ops i) true))) [0; 1; 9; 2; 3]
     = [[ASuccess]; [AIndexErr 0 2]; [AOther]; [AIndexErr (-1) 3]; [ASuccess]]
  /\ e_calls (es_run (ei_cfg i) (ei_script i) (ei_ops i) true) = [[d 0; d 1]; [d 0]; [d 2]; [d 2]; [d 3]].
Proof. vm_compute. repeat split; reflexivity. Qed.

(* a schedule of the pool machine that fills the pool: with 1 worker the second request cannot start *)
Example C14_pool_example :
  let cfg := {| batch_size := 1; max_retries := 1; workers := 1 |} in
  let d k := {| d_id := k; d_idx := 0; d_hasid := 0; d_body := 0 |} in
  (exists s, mrun cfg [] (m_init cfg) [AOp (OpDoc (d 0)); AOp (OpDoc (d 1)); AAcquire 0] = Some s
             /\ in_flight s = 1%nat /\ m_tokens s = 0%nat /\ length (m_waiting s) = 1%nat)
  /\ mrun cfg [] (m_init cfg) [AOp (OpDoc (d 0)); AOp (OpDoc (d 1)); AAcquire 0; AAcquire 0] = None.
Proof. vm_compute. split; [eexists; repeat split|reflexivity]. Qed.

(* a whole-request error before a retryable failure, max retries 1: the document is sent three times (whole, retryable
   with retry count 0, retryable with retry count 1) and then fails with the error of the third send; a budget that
   counted the whole-request error would have answered after the second send *)
Example C14_whole_example :
  let cfg := {| batch_size := 1; max_retries := 1; workers := 1 |} in
  let d := {| d_id := 0; d_idx := 0; d_hasid := 0; d_body := 0 |} in
  let sc := [(0, [(OWhole, false); (ORetry, false); (ORetry, false)])] in
  let r := es_run cfg sc [OpDoc d] true in
  e_answers r = [(0, AIndexErr 2 1)] /\ e_calls r = [[d]; [d]; [d]]
  /\ bfate (fuel_for cfg sc) 1 sc [d] 0 0 d = (AIndexErr 2 1, 3%nat).
Proof. vm_compute. repeat split; reflexivity. Qed.

(* a complete schedule: two batches of one document with one worker; the first is retried once *)
Example C14_schedule_example :
  let cfg := {| batch_size := 1; max_retries := 1; workers := 1 |} in
  let d k := {| d_id := k; d_idx := 0; d_hasid := 0; d_body := 0 |} in
  let sc := [(0, [(ORetry, false)])] in
  exists s, mrun cfg sc (m_init cfg)
              [AOp (OpDoc (d 0)); AOp (OpDoc (d 1)); AAcquire 1; ARespond 0; ARelease 0; AAcquire 0; ARespond 0; AShutdown;
               ARelease 0; AAcquire 0; ARespond 0; ARelease 0] = Some s
            /\ quiescent s = true /\ m_answers s = [(1, ASuccess); (0, ASuccess)]
            /\ m_calls s = [[d 1]; [d 0]; [d 0]].
Proof. vm_compute. eexists; repeat split. Qed.

Print Assumptions C14_answered_once.
Print Assumptions C14_schedule_independent.
Print Assumptions C14_answered_once_from.
Print Assumptions C14_fate_meaning.
Print Assumptions C14_answered_once_whole.
Print Assumptions C14_whole_error_uses_no_retry.
Print Assumptions C14_bfate_is_fate.
Print Assumptions C14_late_harmless.
Print Assumptions C14_batch_shape.
Print Assumptions C14_pool.
Print Assumptions C14_idle_flush.
Print Assumptions C14_arrival.
Print Assumptions C14_wrong_type.
Print Assumptions C14_answered_once_any_script.
Print Assumptions C14_spec_model.
Print Assumptions C14_spec_sound_clean.
Print Assumptions C14_pending_closed_form.
Print Assumptions C14_shutdown_refuted.
Print Assumptions C14_shutdown_inflight_refuted.
Print Assumptions C14_full_statement_refuted.
Print Assumptions C14_full_statement_partial.
Print Assumptions C14_scenario_example.
Print Assumptions C14_pool_example.
Print Assumptions C14_whole_example.
Print Assumptions C14_schedule_example.
