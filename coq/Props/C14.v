(* C14 — placeholder, replaced below in this session *)
From Coq Require Import List ZArith Bool.
From FB Require Import Lib.Sexp Model.EsClient Judge.E7.
Import ListNotations.
Example C14_placeholder : True. Proof. exact I. Qed.
