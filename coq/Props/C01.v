(* C01 — placeholder while the invariants are being proved (see Proofs/ExecProofs.v). *)
From Coq Require Import List.
From FB Require Import Model.Exec.
Example C01_model_runs : exists nt s, run nt 1 (init nt) nil = Ok s.
Proof. exists nil, (init nil). reflexivity. Qed.
Print Assumptions C01_model_runs.
