(* C01 — Event flow conservation through the node tree.
   Model: Model/Exec.v (scheduled small-step model of node.Context / executor.Execute / runNode), network =
   the pruned context table produced by Model/Settle.flatten (compared with the real context tree on every
   case).  [reachable nt T s] = s is reached from [init nt] by SOME schedule; every theorem below is for ALL
   schedules, all node outcomes (pass / transform / filter / error / fanout / async completion in any order).
   Only statements here; proofs in Proofs/Exec*.v. *)
From Coq Require Import List ZArith Bool Arith.
From FB Require Import Model.Exec Model.TraceSpec Model.ExecInv.
From FB Require Import Model.Settle.
From FB Require Import Model.Play.
From FB Require Proofs.ExecCount Proofs.ExecProps Proofs.ExecSpec Proofs.ExecTerminal Proofs.FlattenProofs Proofs.PlayProofs.
Import ListNotations.

(* the global conservation law (no hypothesis on the network): for every channel c and item x, what the
   observable trace entitles c to = enqueued + discarded at c's full buffer + still pending in some sender *)
Theorem C01_conservation_law : forall nt T s, reachable nt T s ->
  forall c x, produced nt c x (tr s)
              = count_item x (offered (node s c)) + count_item x (dropped (node s c)) + pending c x s.
Proof. intros nt T s H. exact (proj1 (ExecCount.count_inv_reachable nt T s H)). Qed.

(* channel by channel in a well-formed network: [supply] is the source's emissions for a root, the parent's
   results (each element of a fanout result, the single result of a sync/async node) for a child, the
   parent's failure reports for an error handler *)
Theorem C01_channel_conservation : forall nt T s c x,
  wf_net nt = true -> reachable nt T s -> c < length nt ->
  count_item x (supply nt c (tr s))
  = count_item x (offered (node s c)) + count_item x (dropped (node s c)) + pending c x s.
Proof. exact ExecProps.channel_conservation. Qed.

Theorem C01_offered_is_buffered_or_handed_over : forall nt T s c x, reachable nt T s ->
  count_item x (offered (node s c)) = count_item x (q (node s c)) + count_item x (entered c (tr s)).
Proof. exact ExecProps.offered_split. Qed.

(* nothing invented, nothing duplicated: a node never sees more copies of an item than its feeder produced *)
Theorem C01_nothing_invented : forall nt T s c x,
  wf_net nt = true -> reachable nt T s -> c < length nt ->
  count_item x (entered c (tr s)) <= count_item x (supply nt c (tr s)).
Proof. exact ExecProps.entered_le_supply. Qed.

(* nothing lost without discard_on_full_buffer *)
Theorem C01_no_loss_without_discard : forall nt T s c x,
  wf_net nt = true -> reachable nt T s -> c < length nt -> ndisc (info nt c) = false ->
  dropped (node s c) = []
  /\ count_item x (supply nt c (tr s))
     = count_item x (q (node s c)) + count_item x (entered c (tr s)) + pending c x s.
Proof. exact ExecProps.no_loss_without_discard. Qed.

(* each result is decided for each child exactly once; filtered / failed / deferred events for no child *)
Theorem C01_each_child_each_result_once : forall nt n it es c x,
  cnt_pair c x (deliveries nt n it (ORes es))
  = cnt_nat c (nkids (info nt n)) * count_item x (map (fun e => (e, 0%Z)) es).
Proof. exact ExecProps.each_child_each_result_once. Qed.
Theorem C01_filtered_offers_nothing : forall nt n it, deliveries nt n it (ORes []) = [].
Proof. exact ExecProps.filtered_offers_nothing. Qed.
Theorem C01_failure_goes_to_own_handler_only : forall nt n it err d,
  In d (deliveries nt n it (OFail err)) -> nhandler (info nt n) = Some (fst d) /\ snd d = (fst it, err).
Proof. exact ExecProps.failure_goes_to_own_handler. Qed.

(* at the end of a clean run the law is exact: every channel is empty, nothing is pending, and what a node was
   handed plus what was discarded at its buffer is exactly what its feeder produced *)
Theorem C01_clean_end_exact : forall nt T s c x,
  ExecProps.good_net nt -> reachable nt T s -> mn s = MDone -> timedout s = false -> c < length nt ->
  count_item x (supply nt c (tr s)) = count_item x (entered c (tr s)) + count_item x (dropped (node s c))
  /\ q (node s c) = [] /\ pending c x s = 0.
Proof. exact ExecProps.clean_end_exact. Qed.

(* the decision procedure applied to the implementation's traces (Model/TraceSpec.v: clauses (1,_) "nothing
   invented or duplicated", "offered exactly once / sub-multiset when discarding", "only nodes of the pruned
   table are set up") accepts every run of the model *)
Theorem C01_spec_sound : forall nt T s, wf_net nt = true -> forallb (fun x => Nat.ltb 0 (nworkers x)) nt = true ->
  reachable nt T s -> mn s = MDone -> timedout s = false ->
  trace_ok nt (tr s) = [] /\ terminal_ok nt (tr s) (map counters_of (nodes s)) = [].
Proof. exact ExecTerminal.spec_sound_clean_run. Qed.


(* ---- disabled nodes and all their descendants never exist at run time ----
   [flatten] is the model of InitNodeContextHierarchy / WithConfig (compared with the real context tree on every
   case).  Its rows are exactly the enabled nodes (no disabled ancestor-or-self), each once, in setup order (a
   node, its error handler, its enabled children's subtrees); the table is well-formed; only rows of the table
   are ever set up or handed an event (C05_nothing_else_set_up, and no action of the model names other nodes). *)
Theorem C01_disabled_never_exist : forall roots, map nid (flatten roots) = FlattenProofs.live_ids_all roots.
Proof. exact FlattenProofs.flatten_ids. Qed.
Theorem C01_table_well_formed : forall roots, wf_net (flatten roots) = true.
Proof. exact FlattenProofs.flatten_wf. Qed.
Theorem C01_roots_are_enabled_roots : forall roots,
  map (fun r => nid (info (flatten roots) r)) (Exec.roots (flatten roots)) = FlattenProofs.enabled_ids roots.
Proof. exact FlattenProofs.flatten_roots. Qed.


(* ---- the lockstep correspondence compares the implementation with REACHABLE, QUIESCENT states ----
   [play_from_init] (Model/Play.v) is what predicts, command by command, the snapshot the implementation must
   show; every state it passes through is reached by a schedule of the model (so every theorem for [reachable]
   applies to every predicted snapshot), and each is quiescent (no internal action enabled). *)
Theorem C01_predicted_states_reachable : forall nt T l,
  reachable nt T (st (fst (fst (play_from_init nt T l)))).
Proof. exact PlayProofs.play_from_init_reachable. Qed.
Theorem C01_predicted_states_quiescent : forall fuel nt T s s',
  settle fuel nt T s = SOk s' -> forall a, In a (candidates nt s') -> step nt T s' a = NotEnabled.
Proof. exact PlayProofs.settle_quiescent. Qed.

Print Assumptions C01_conservation_law.
Print Assumptions C01_channel_conservation.
Print Assumptions C01_offered_is_buffered_or_handed_over.
Print Assumptions C01_nothing_invented.
Print Assumptions C01_no_loss_without_discard.
Print Assumptions C01_each_child_each_result_once.
Print Assumptions C01_filtered_offers_nothing.
Print Assumptions C01_failure_goes_to_own_handler_only.
Print Assumptions C01_clean_end_exact.
Print Assumptions C01_spec_sound.
Print Assumptions C01_disabled_never_exist.
Print Assumptions C01_table_well_formed.
Print Assumptions C01_roots_are_enabled_roots.
Print Assumptions C01_predicted_states_reachable.
Print Assumptions C01_predicted_states_quiescent.
