(* C06 — Kafka source resumes within maxpartitionlag of head, files the skipped range.
   This file contains only statements, each closed by [exact lemma], and
   [Print Assumptions].  Model: Model/Offsets.v (+ Model/Tracker.v for the
   broadcasts); statement as a decision procedure: Judge/E2.v [spec_c06]. *)
From Coq Require Import List ZArith Bool Lia.
From FB Require Import Lib.Eqb Model.Tracker Model.Offsets Judge.E2 Proofs.OffsetsProofs.
Import ListNotations.
Open Scope Z_scope.

(* Whole-call characterisation on the property's domain ([in_domain]: 0 <= maxlag,
   1 <= maxrec, distinct partitions, committed offsets (absent/invalid -> 0) and high
   watermarks non-negative), every query answering: Assign is called with exactly the
   closed-form start offsets, exactly the trimmed skipped ranges are filed, the error
   result is that of Assign itself, and the recovery consumer learns the same list. *)
Theorem C06_assign_closed_form : forall cfg parts offs lh afail,
  in_domain cfg parts offs lh = true ->
  let pl := combine parts lh in
  let ea := exp_assign cfg offs pl in
  assign cfg parts (COk offs) (map wok lh) afail
  = {| a_err := afail; a_assign := Some ea; a_filed := exp_filed cfg offs pl;
       a_owned := if afail then None else if recov cfg then Some ea else None |}.
Proof. exact assign_in_domain. Qed.

(* the closed form itself: committed if within maxlag of head, else exactly maxlag behind;
   never before the committed offset, never negative *)
Theorem C06_start_bounds : forall cfg c high,
  0 <= c -> 0 <= high -> 0 <= maxlag cfg ->
  let s := fst (start_offset cfg c high) in
  c <= s /\ 0 <= s /\ (s = c \/ (s = high - maxlag cfg /\ high - c > maxlag cfg)) /\ high - s <= maxlag cfg.
Proof. exact start_bounds. Qed.

Theorem C06_start_closed : forall cfg c high,
  0 <= c -> 0 <= high -> 0 <= maxlag cfg ->
  fst (start_offset cfg c high) = if high - c <=? maxlag cfg then c else high - maxlag cfg.
Proof. exact start_offset_closed. Qed.

(* a request is filed iff recovery is on and something was skipped; it ends where the main
   consumer starts, begins at the committed offset or maxrec before the end, whichever is later *)
Theorem C06_request_shape : forall cfg c high f t,
  0 <= c -> 0 <= high -> 0 <= maxlag cfg -> 1 <= maxrec cfg ->
  expected_req cfg c high = Some (f, t) ->
  recov cfg = true /\ high - c > maxlag cfg /\ t = high - maxlag cfg /\ c <= f /\ f < t /\ t - f <= maxrec cfg
  /\ (f = c \/ f = t - maxrec cfg).
Proof. exact req_shape. Qed.

Theorem C06_no_request_iff : forall cfg c high,
  expected_req cfg c high = None <-> recov cfg = false \/ high - c <= maxlag cfg.
Proof. exact no_req_iff. Qed.

(* what is broadcast for those requests (fresh tracker, distinct partitions): one full
   snapshot per skipping partition holding exactly that range *)
Theorem C06_broadcasts : forall cfg parts offs lh,
  in_domain cfg parts offs lh = true ->
  snd (file_all [] (exp_filed cfg offs (combine parts lh))) = exp_sent cfg offs (combine parts lh).
Proof. exact sent_in_domain. Qed.

(* a failing Committed() or any failing QueryWatermarkOffsets() among those asked: the
   failure is reported, Assign is not called, the recovery consumer's owned set is untouched *)
Theorem C06_error_aborts : forall cfg parts com wms afail,
  com = CErr \/ In WErr (firstn (length parts) wms) ->
  let r := assign cfg parts com wms afail in
  a_err r = true /\ a_assign r = None /\ a_owned r = None.
Proof. exact assign_error_aborts. Qed.

(* the unbounded-Z model is the int64 code on the quantified ranges *)
Theorem C06_no_overflow : forall cfg c high,
  0 <= c <= 2 ^ 62 -> 0 <= high <= 2 ^ 62 -> 0 <= maxlag cfg < 2 ^ 63 -> 1 <= maxrec cfg < 2 ^ 63 ->
  Forall int64 (intermediates cfg c high).
Proof. exact offsets_no_overflow. Qed.

(* the decision procedure used on the implementation's observations accepts the model on EVERY input *)
Theorem C06_spec_sound : forall i, spec_c06 i (model_obs i) = [].
Proof. exact spec_c06_sound. Qed.

(* non-vacuity: a concrete in-domain input that caps one partition, trims the request, keeps another *)
Example C06_domain_inhabited :
  let cfg := {| maxlag := 100; recov := true; maxrec := 50 |} in
  in_domain cfg [0; 1] [(0, 10); (1, 950)] [(0, 1000); (5, 1000)] = true
  /\ assign cfg [0; 1] (COk [(0, 10); (1, 950)]) [WOk 0 1000; WOk 5 1000] false
     = {| a_err := false; a_assign := Some [(0, 900); (1, 950)]; a_filed := [(0, 850, 900)];
          a_owned := Some [(0, 900); (1, 950)] |}.
Proof. vm_compute. split; reflexivity. Qed.


(* ---- "... the failure is reported so the assignment is retried" ----
   [retry] models retryAssignPartitions: one attempt per ticker tick until success or revocation.  For every
   sequence of broker behaviours: exactly the prescribed number of attempts is made (one more after every
   failure, none after a success or after the revocation); every attempt but the last failed and handed nothing
   to the recovery consumer; the decision procedure for retry scenarios accepts the model on every input. *)
Theorem C06_retried_until_success_or_revocation : forall cfg parts atts cancel,
  length (retry cfg parts atts cancel) = expected_attempts parts atts cancel.
Proof. exact retry_length. Qed.
Theorem C06_attempt_fails_iff_broker_fails : forall cfg parts a,
  a_err (assign cfg parts (at_com a) (at_wms a) (at_fail a)) = attempt_fails parts a.
Proof. exact assign_err_iff_fails. Qed.
Theorem C06_only_last_attempt_can_succeed : forall cfg parts atts cancel pre r post,
  retry cfg parts atts cancel = pre ++ r :: post -> post <> [] -> a_err r = true /\ a_owned r = None.
Proof. exact retry_only_last_succeeds. Qed.
Theorem C06_retry_spec_sound : forall i, spec_c06_retry i (model_robs i) = [].
Proof. exact spec_c06_retry_sound. Qed.
Theorem C06_retry_record_sound : forall i, spec_c06_retry_record i (model_robs i) = [].
Proof. exact spec_c06_retry_record_sound. Qed.
Example C06_retry_example :
  let cfg := {| maxlag := 100; recov := true; maxrec := 50 |} in
  map a_err (retry cfg [0] [ {| at_com := CErr; at_wms := []; at_fail := false |};
                             {| at_com := COk [(0, 10)]; at_wms := [WErr]; at_fail := false |};
                             {| at_com := COk [(0, 10)]; at_wms := [WOk 0 1000]; at_fail := false |};
                             {| at_com := CErr; at_wms := []; at_fail := false |} ] 9)
  = [true; true; false].
Proof. vm_compute. reflexivity. Qed.

Print Assumptions C06_assign_closed_form.
Print Assumptions C06_start_bounds.
Print Assumptions C06_start_closed.
Print Assumptions C06_request_shape.
Print Assumptions C06_no_request_iff.
Print Assumptions C06_broadcasts.
Print Assumptions C06_error_aborts.
Print Assumptions C06_no_overflow.
Print Assumptions C06_spec_sound.
Print Assumptions C06_retried_until_success_or_revocation.
Print Assumptions C06_attempt_fails_iff_broker_fails.
Print Assumptions C06_only_last_attempt_can_succeed.
Print Assumptions C06_retry_spec_sound.
Print Assumptions C06_domain_inhabited.
Print Assumptions C06_retry_example.
Print Assumptions C06_retry_record_sound.
