(* C13 — configuration is accepted exactly when it is consistent, and defaults are filled.
   This file contains only statements, each closed by [exact lemma], Examples and
   [Print Assumptions].  Model: Model/Config.v ([read] = config.Read after ${VAR} substitution
   and YAML parsing; the declarative clauses [unique registered typed handlers_ok transport_ok]
   are defined there over the flat list of nodes of the processing tree).  Statement as a
   decision procedure on observations: Judge/E6.v [spec_c13].

   The full statement is FALSE of the current code (finding F1): validateUniqueID
   (config/config.go:142-152) returns from inside its loop over the children, so it only ever
   walks the first-child chain of every root.  [C13_accept_iff_refuted] is the witness,
   [C13_accept_iff_partial] the exact characterisation of what the code accepts, and
   [C13_consistent_accepted] / [C13_accepted_others] the two full-strength halves that do hold. *)
From Coq Require Import List ZArith Bool Lia.
From FB Require Import Lib.Eqb Model.Config Judge.E6 Proofs.ConfigProofs.
Import ListNotations.
Open Scope Z_scope.

(* the statement of the property's first sentence, for every registry and every configuration *)
Definition C13_full_statement : Prop :=
  forall rg c, accepted rg c <-> consistent rg c.

(* REFUTED on the current code: root (id 50) with two children that both carry id 51 is accepted *)
Theorem C13_accept_iff_refuted : exists rg c, accepted rg c /\ ~ consistent rg c.
Proof. exact accept_iff_refuted. Qed.

Theorem C13_full_statement_false : ~ C13_full_statement.
Proof. exact full_statement_false. Qed.

(* PARTIAL: config.Read accepts exactly the configurations that satisfy the five clauses with
   uniqueness weakened to the ids met on the first-child chains of the roots ([chain_ids]) *)
Theorem C13_accept_iff_partial : forall rg c, accepted rg c <-> consistent' rg c.
Proof. exact accept_iff_partial. Qed.

(* full strength, "if": every consistent configuration (ids unique in the whole tree) is accepted *)
Theorem C13_consistent_accepted : forall rg c, consistent rg c -> accepted rg c.
Proof. exact consistent_accepted. Qed.

(* full strength, "only if", for every clause other than uniqueness: an accepted configuration has
   all types registered, consume/produce types fitting on every edge, lawful error handlers and a
   kafka transport — and no duplicate id along any first-child chain *)
Theorem C13_accepted_others : forall rg c, accepted rg c -> unique' c /\ others rg c.
Proof. exact accepted_others. Qed.

(* the gap is exactly the defect: accepted-but-inconsistent configurations are those whose only
   flaw is a duplicate id off the first-child chains *)
Theorem C13_gap_is_uniqueness : forall rg c,
  accepted rg c /\ ~ consistent rg c <-> others rg c /\ unique' c /\ ~ unique c.
Proof. exact accepted_gap. Qed.

(* uniqueness in the whole tree implies uniqueness on the chains (so [consistent'] is weaker) *)
Theorem C13_unique_implies_chain_unique : forall c, unique c -> unique' c.
Proof. exact unique_unique'. Qed.

(* "not accepted" is an error or a panic, never a Config; and a panic needs a nil reflect.Type in
   the registry or a missing source section *)
Theorem C13_not_accepted_outcome : forall rg pre c,
  ~ (exists c', read rg pre c = Accept c') -> read rg pre c = Reject \/ read rg pre c = Panic.
Proof. exact not_accepted_outcome. Qed.

Theorem C13_no_panic : forall rg c,
  no_nil_types rg -> c_src c <> None -> read rg PreOk c <> Panic.
Proof. exact no_panic. Qed.

(* defaults, for all trees: in an accepted configuration every node and every error handler keeps
   its name, has id = the given id or else the name, workers and buffersize = the given value or
   1 when 0/absent, the shape of the tree is unchanged ([filled], Model/Config.v); the shutdown
   timeout is the given one when positive and 10 otherwise; source and transport are as written *)
Theorem C13_defaults : forall rg c c',
  read rg PreOk c = Accept c' ->
  filled_list (c_nodes c) (c_nodes c')
  /\ c_timeout c' = (if 0 <? c_timeout c then c_timeout c else 10)
  /\ c_src c' = c_src c /\ c_idata c' = c_idata c.
Proof. exact read_defaults. Qed.

(* flat reading: every node and handler of the result has an id and non-zero workers/buffersize *)
Theorem C13_defaults_all_set : forall rg c c',
  read rg PreOk c = Accept c' ->
  Forall attrs_set (flat_map everything (c_nodes c')) /\ 0 < c_timeout c'.
Proof. exact read_all_set. Qed.

(* the boolean decisions used on the implementation's observations are the declarative clauses *)
Theorem C13_decisions_reflect : forall rg c,
  (consistentb rg c = true <-> consistent rg c) /\ (consistent'b rg c = true <-> consistent' rg c).
Proof. exact decisions_reflect. Qed.

(* the decision procedure evaluated on the MODEL's own observation fails nowhere except clause 1
   with detail [1] on exactly the inputs of finding F1's shape *)
Theorem C13_spec_sound : forall i,
  spec_c13 i (model_obs i) = if f1_shape i then [(1, [1])] else [].
Proof. exact spec_c13_sound. Qed.

(* ---------- non-vacuity (the example terms ex_regs, ex_node, ex_cfg, ex_dup are defined in Proofs/ConfigProofs.v) ---------- *)
(* a consistent configuration exists, is accepted, and its defaults are as stated *)
Example C13_consistent_inhabited :
  consistentb ex_regs ex_cfg = true
  /\ read ex_regs PreOk ex_cfg
     = Accept {| c_src := Some 0; c_idata := Some tr_kafka; c_timeout := 10;
                 c_nodes := [Cfg {| a_name := 0; a_id := Some 0; a_workers := 4; a_bufsz := 1; a_kidskey := true |}
                                 [Cfg {| a_name := 1; a_id := Some 1; a_workers := 1; a_bufsz := 1; a_kidskey := false |} [] None;
                                  Cfg {| a_name := 1; a_id := Some 77; a_workers := 1; a_bufsz := 1; a_kidskey := false |} [] None]
                                 (Some (Cfg {| a_name := 6; a_id := Some 6; a_workers := 1; a_bufsz := 1; a_kidskey := false |} [] None))] |}.
Proof. vm_compute. split; reflexivity. Qed.

(* [ex_dup]: the same tree with both children defaulted (ids = type name 1, second sibling): accepted, not consistent *)
Example C13_gap_inhabited :
  consistentb ex_regs ex_dup = false /\ consistent'b ex_regs ex_dup = true
  /\ f1_shape {| i_pre := PreOk; i_regs := ex_regs; i_cfg := ex_dup |} = true.
Proof. vm_compute. repeat split; reflexivity. Qed.

(* a duplicate ON a first-child chain (parent and first child share an id) is rejected *)
Example C13_chain_dup_rejected :
  read ex_regs PreOk
       {| c_src := Some 0; c_idata := None; c_timeout := 5;
          c_nodes := [ex_node 0 (Some 9) 0 [ex_node 1 (Some 9) 0 [] None] None] |} = Reject.
Proof. vm_compute. reflexivity. Qed.

(* a consume/produce mismatch below a node whose Produces is nil panics (observation of DESIGN.md section 9) *)
Example C13_nil_produces_panics :
  read ex_regs PreOk
       {| c_src := Some 0; c_idata := None; c_timeout := 5;
          c_nodes := [ex_node 0 None 0 [ex_node 1 None 0 [ex_node 0 (Some 8) 0 [] None] None] None] |} = Panic.
Proof. vm_compute. reflexivity. Qed.

(* [no_nil_types] is satisfiable *)
Example C13_no_nil_types_inhabited :
  no_nil_types {| nreg := [(0, {| r_cons := Some 2; r_prod := Some 2 |})]; sreg := [(0, Some 2)] |}.
Proof. split; repeat constructor; discriminate. Qed.

Print Assumptions C13_accept_iff_refuted.
Print Assumptions C13_full_statement_false.
Print Assumptions C13_accept_iff_partial.
Print Assumptions C13_consistent_accepted.
Print Assumptions C13_accepted_others.
Print Assumptions C13_gap_is_uniqueness.
Print Assumptions C13_unique_implies_chain_unique.
Print Assumptions C13_not_accepted_outcome.
Print Assumptions C13_no_panic.
Print Assumptions C13_defaults.
Print Assumptions C13_defaults_all_set.
Print Assumptions C13_decisions_reflect.
Print Assumptions C13_spec_sound.
Print Assumptions C13_consistent_inhabited.
Print Assumptions C13_gap_inhabited.
Print Assumptions C13_chain_dup_rejected.
Print Assumptions C13_nil_produces_panics.
Print Assumptions C13_no_nil_types_inhabited.
