(* C13 — placeholder while the pipeline is brought up *)
From Coq Require Import List ZArith Bool.
From FB Require Import Lib.Eqb Model.Config Judge.E6.
Import ListNotations.
Open Scope Z_scope.
Example C13_placeholder : True. Proof. exact I. Qed.
