(* C16 — Per-node metrics account for every event exactly once.
   Counters are per table row; the property's domain is configurations in which node AND handler ids are
   distinct (counters are keyed by id).  Proofs in Proofs/ExecCount*.v. *)
From Coq Require Import List ZArith Bool Arith.
From FB Require Import Model.Exec Model.TraceSpec Model.ExecInv.
From FB Require Import Model.Settle Judge.E1.
From FB Require Proofs.ExecCount Proofs.ExecProps Proofs.ExecTerminal Proofs.ExecLock.
Import ListNotations.

(* each counter is exactly the number of the corresponding observable events, in every reachable state:
   received = calls entered; processed = completed outcomes with a non-empty result (a fanout of k counts once);
   filtered = completed outcomes with nil / empty result; failed = completed outcomes with an error;
   discarded = events dropped at this node's full buffer *)
Theorem C16_counters_meaning : forall nt T s n, reachable nt T s -> n < length nt ->
  c_recv (node s n) = length (entered n (tr s)) /\ c_proc (node s n) = n_proc n (tr s)
  /\ c_filt (node s n) = n_filt n (tr s) /\ c_fail (node s n) = n_fail n (tr s)
  /\ c_disc (node s n) = length (dropped (node s n)).
Proof. exact ExecProps.counters_meaning. Qed.

(* the accounting identity in EVERY reachable state: received = processed + filtered + failed + calls in
   progress + async events in flight; at quiescence the last two vanish *)
Theorem C16_accounting_identity : forall nt T s n, reachable nt T s -> n < length nt ->
  c_recv (node s n) = c_proc (node s n) + c_filt (node s n) + c_fail (node s n)
    + length (filter (fun w => match w with WProc _ => true | _ => false end) (ws (node s n)))
    + length (inflight (node s n)).
Proof. exact ExecCount.accounting_identity. Qed.

(* at the end of a clean run the decision procedure on the implementation's counters ((16,1)..(16,5)) accepts
   every run of the model *)
Theorem C16_spec_sound : forall nt T s, wf_net nt = true -> forallb (fun x => Nat.ltb 0 (nworkers x)) nt = true ->
  reachable nt T s -> mn s = MDone -> timedout s = false ->
  terminal_ok nt (tr s) (map counters_of (nodes s)) = [].
Proof. exact ExecTerminal.terminal_ok_clean_end. Qed.

(* the clause evaluated on every lockstep snapshot of the implementation (Judge/E1.lock_clauses_node) holds of the
   snapshot of every node in every reachable state of the model *)
Theorem C16_lockstep_clause_sound : forall nt T s n, reachable nt T s -> n < length nt ->
  lock_clauses_node (snap_node (node s n)) = [].
Proof. exact ExecLock.lock_clause_sound. Qed.

Print Assumptions C16_counters_meaning.
Print Assumptions C16_accounting_identity.
Print Assumptions C16_spec_sound.
Print Assumptions C16_lockstep_clause_sound.
