(* C19 — parallel recovery never exceeds its configured rate.   PARTIAL: Coq carries (a) the logical half — exactly one
   limiter wait per emitted recovery record, taken before the record is emitted, none for anything else and in
   particular none for main-consumer records — over the model Model/Recovery.v, for all op sequences; and (b) the
   window bound of an ideal token bucket (Model/Bucket.v).  That golang.org/x/time/rate.Limiter IS such a bucket and
   that the real constructor configures it with (parallelrecoverymaxrate, 100) is third-party / runtime behaviour:
   the harness reads the parameters of a consumer built by the real constructor and measures the wall-clock lower
   bound (Judge/E4.v spec_c19_timing). *)
From Coq Require Import List ZArith Bool Lia.
From FB Require Import Model.Tracker Model.Recovery Model.Bucket Judge.E4 Proofs.RecoveryProofs Proofs.BucketProofs Proofs.BucketSched.
Import ListNotations.
Open Scope Z_scope.

(* every op other than a main-consumer record: all emitted events are recovery-flagged and the k-th limiter wait of
   the op happened when k-1 events had been emitted, one wait per event *)
Theorem C19_one_wait_per_emit : forall cfg s op,
  is_main op = false -> is_reccrash op = false ->
  (forall e, In e (o_emits (snd (rstep cfg s op))) -> snd e = true)
  /\ o_waits (snd (rstep cfg s op)) = zrange 0 (length (o_emits (snd (rstep cfg s op)))).
Proof. exact rstep_flags_waits. Qed.

(* a main-consumer record is passed on at once: no wait, state untouched *)
Theorem C19_main_never_waits : forall cfg s p o,
  rstep cfg s (MainRec p o) =
  (s, {| o_emits := [(p, o, false)]; o_calls := []; o_sent := []; o_err := false; o_acks := 0; o_waits := [] |}).
Proof. exact mainrec_out. Qed.

(* an owner that dies while handling a record emits nothing; at most the wait of the record it was about to emit
   (it is blocked on the send) has been taken *)
Theorem C19_stop_while_blocked : forall cfg s p,
  o_emits (snd (rec_crash cfg s p)) = [] /\ (o_waits (snd (rec_crash cfg s p)) = [] \/ o_waits (snd (rec_crash cfg s p)) = [0]).
Proof. exact rec_crash_out. Qed.

(* over any history without such a stop: as many waits as recovered events; in general at most one more per stop *)
Theorem C19_waits_equal_recovered : forall cfg ops s,
  forallb (fun op => negb (is_reccrash op)) ops = true ->
  total_waits (rrun cfg s ops) = total_recovered (rrun cfg s ops).
Proof. exact run_waits. Qed.

Theorem C19_waits_bounds : forall cfg ops s,
  (total_recovered (rrun cfg s ops) <= total_waits (rrun cfg s ops)
   <= total_recovered (rrun cfg s ops) + length (filter is_reccrash ops))%nat.
Proof. exact run_waits_bounds. Qed.

(* ideal token bucket (rate r per den ticks, burst b, starting full): in ANY window [s, s+d] at most b + r*d/den
   emissions are admitted, whatever the emission times *)
Theorem C19_bucket_bound : forall b t0 ts s d,
  0 <= b_rate b -> 0 < b_den b -> 0 <= b_burst b -> 0 <= d ->
  admitted b t0 ts = true ->
  b_den b * count_in s (s + d) ts <= b_den b * b_burst b + b_rate b * d.
Proof. exact bucket_window_bound. Qed.

(* the limiter as a scheduler (Model/Bucket.v [schedule]: one Wait before each emission, Wait returns at the earliest
   tick with a whole token).  HOWEVER FAST records become available (any list [arr] of availability times, e.g. a
   backlog of a million records all available at t0), in any window [s, s+d] at most burst + rate*d/den are emitted *)
Theorem C19_rate_bound_however_fast : forall b t0 arr s d,
  0 < b_rate b -> 0 < b_den b -> 1 <= b_burst b -> 0 <= d ->
  b_den b * count_in s (s + d) (schedule b (cap b) t0 arr) <= b_den b * b_burst b + b_rate b * d.
Proof. exact schedule_window_bound. Qed.

(* the limit only delays: every record is emitted (as many emissions as records), none before it was available *)
Theorem C19_limit_only_delays : forall b arr lvl t0,
  0 < b_rate b -> 0 < b_den b ->
  length (schedule b lvl t0 arr) = length arr
  /\ Forall2 (fun a t => a <= t /\ t0 <= t) arr (schedule b lvl t0 arr).
Proof. exact schedule_only_delays. Qed.

(* Wait is exact: it returns at once when a token is there, and otherwise at the first tick that has one *)
Theorem C19_wait_exact : forall b lvl t0 t,
  0 < b_rate b -> 0 < b_den b -> 1 <= b_burst b -> lvl <= cap b -> t0 <= t ->
  b_den b <= level_at b lvl t0 (wait_until b lvl t0 t)
  /\ (forall u, t <= u < wait_until b lvl t0 t -> level_at b lvl t0 u < b_den b).
Proof. exact wait_exact. Qed.

(* the initial burst is not delayed: of a backlog available at the start the first [burst] records go out at once *)
Theorem C19_initial_burst_now : forall b t0 n,
  0 < b_rate b -> 0 < b_den b -> 0 <= b_burst b -> Z.of_nat n <= b_burst b ->
  schedule b (cap b) t0 (repeat t0 n) = repeat t0 n.
Proof. exact initial_burst_now. Qed.

(* non-vacuity: rate 2/s (ticks are ms), burst 3, backlog of five records at 0 and one at 10 s *)
Example C19_schedule_inhabited :
  schedule {| b_rate := 2; b_den := 1000; b_burst := 3 |} 3000 0 [0; 0; 0; 0; 0; 10000] = [0; 0; 0; 500; 1000; 10000].
Proof. vm_compute. reflexivity. Qed.

(* the decision procedure used on the implementation's per-op observations accepts the model on every input *)
Theorem C19_spec_sound : forall cfg ops,
  spec_c19_logic ops (map (fun so => mk_opobs (fst so) (snd so)) (rrun cfg init_state ops)) = [].
Proof. exact spec_c19_logic_sound. Qed.

(* non-vacuity of the bucket hypothesis: burst 3 at once, then one per tick; a fourth at once is refused *)
Example C19_bucket_inhabited :
  admitted {| b_rate := 1; b_den := 1; b_burst := 3 |} 0 [0; 0; 0; 1; 2; 3] = true
  /\ admitted {| b_rate := 1; b_den := 1; b_burst := 3 |} 0 [0; 0; 0; 0] = false.
Proof. vm_compute. split; reflexivity. Qed.

(* a run that recovers: request (10,14) on an owned partition, pumped: 11..14 emitted with one wait each *)
Example C19_run_inhabited :
  let cfg := {| c_maxrec := 100; c_every := 5; c_maxlag := 0 |} in
  let r := rrun cfg init_state [Request 1 10 14; SetOwned [1]; Refresh; MainRec 1 99; Pump 1 6] in
  total_recovered r = 4%nat /\ total_waits r = 4%nat.
Proof. vm_compute. split; reflexivity. Qed.

Print Assumptions C19_one_wait_per_emit.
Print Assumptions C19_main_never_waits.
Print Assumptions C19_stop_while_blocked.
Print Assumptions C19_waits_equal_recovered.
Print Assumptions C19_waits_bounds.
Print Assumptions C19_bucket_bound.
Print Assumptions C19_spec_sound.
Print Assumptions C19_rate_bound_however_fast.
Print Assumptions C19_limit_only_delays.
Print Assumptions C19_wait_exact.
Print Assumptions C19_initial_burst_now.
Print Assumptions C19_schedule_inhabited.
Print Assumptions C19_bucket_inhabited.
Print Assumptions C19_run_inhabited.
