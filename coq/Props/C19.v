(* C19 — parallel recovery never exceeds its configured rate.   PARTIAL: Coq carries (a) the logical half — exactly one
   limiter wait per emitted recovery record, taken before the record is emitted, none for anything else and in
   particular none for main-consumer records — over the model Model/Recovery.v, for all op sequences; and (b) the
   window bound of an ideal token bucket (Model/Bucket.v).  That golang.org/x/time/rate.Limiter IS such a bucket and
   that the real constructor configures it with (parallelrecoverymaxrate, 100) is third-party / runtime behaviour:
   the harness reads the parameters of a consumer built by the real constructor and measures the wall-clock lower
   bound (Judge/E4.v spec_c19_timing). *)
From Coq Require Import List ZArith Bool.
From FB Require Import Model.Tracker Model.Recovery Model.Bucket Judge.E4 Proofs.RecoveryProofs Proofs.BucketProofs.
Import ListNotations.
Open Scope Z_scope.

(* every op other than a main-consumer record: all emitted events are recovery-flagged and the k-th limiter wait of
   the op happened when k-1 events had been emitted, one wait per event *)
Theorem C19_one_wait_per_emit : forall cfg s op,
  is_main op = false -> is_reccrash op = false ->
  (forall e, In e (o_emits (snd (rstep cfg s op))) -> snd e = true)
  /\ o_waits (snd (rstep cfg s op)) = zrange 0 (length (o_emits (snd (rstep cfg s op)))).
Proof. exact rstep_flags_waits. Qed.

(* a main-consumer record is passed on at once: no wait, state untouched *)
Theorem C19_main_never_waits : forall cfg s p o,
  rstep cfg s (MainRec p o) =
  (s, {| o_emits := [(p, o, false)]; o_calls := []; o_sent := []; o_err := false; o_acks := 0; o_waits := [] |}).
Proof. exact mainrec_out. Qed.

(* an owner that dies while handling a record emits nothing; at most the wait of the record it was about to emit
   (it is blocked on the send) has been taken *)
Theorem C19_stop_while_blocked : forall cfg s p,
  o_emits (snd (rec_crash cfg s p)) = [] /\ (o_waits (snd (rec_crash cfg s p)) = [] \/ o_waits (snd (rec_crash cfg s p)) = [0]).
Proof. exact rec_crash_out. Qed.

(* over any history without such a stop: as many waits as recovered events; in general at most one more per stop *)
Theorem C19_waits_equal_recovered : forall cfg ops s,
  forallb (fun op => negb (is_reccrash op)) ops = true ->
  total_waits (rrun cfg s ops) = total_recovered (rrun cfg s ops).
Proof. exact run_waits. Qed.

Theorem C19_waits_bounds : forall cfg ops s,
  (total_recovered (rrun cfg s ops) <= total_waits (rrun cfg s ops)
   <= total_recovered (rrun cfg s ops) + length (filter is_reccrash ops))%nat.
Proof. exact run_waits_bounds. Qed.

(* ideal token bucket (rate r per den ticks, burst b, starting full): in ANY window [s, s+d] at most b + r*d/den
   emissions are admitted, whatever the emission times *)
Theorem C19_bucket_bound : forall b t0 ts s d,
  0 <= b_rate b -> 0 < b_den b -> 0 <= b_burst b -> 0 <= d ->
  admitted b t0 ts = true ->
  b_den b * count_in s (s + d) ts <= b_den b * b_burst b + b_rate b * d.
Proof. exact bucket_window_bound. Qed.

(* the decision procedure used on the implementation's per-op observations accepts the model on every input *)
Theorem C19_spec_sound : forall cfg ops,
  spec_c19_logic ops (map (fun so => mk_opobs (fst so) (snd so)) (rrun cfg init_state ops)) = [].
Proof. exact spec_c19_logic_sound. Qed.

(* non-vacuity of the bucket hypothesis: burst 3 at once, then one per tick; a fourth at once is refused *)
Example C19_bucket_inhabited :
  admitted {| b_rate := 1; b_den := 1; b_burst := 3 |} 0 [0; 0; 0; 1; 2; 3] = true
  /\ admitted {| b_rate := 1; b_den := 1; b_burst := 3 |} 0 [0; 0; 0; 0] = false.
Proof. vm_compute. split; reflexivity. Qed.

(* a run that recovers: request (10,14) on an owned partition, pumped: 11..14 emitted with one wait each *)
Example C19_run_inhabited :
  let cfg := {| c_maxrec := 100; c_every := 5; c_maxlag := 0 |} in
  let r := rrun cfg init_state [Request 1 10 14; SetOwned [1]; Refresh; MainRec 1 99; Pump 1 6] in
  total_recovered r = 4%nat /\ total_waits r = 4%nat.
Proof. vm_compute. split; reflexivity. Qed.

Print Assumptions C19_one_wait_per_emit.
Print Assumptions C19_main_never_waits.
Print Assumptions C19_stop_while_blocked.
Print Assumptions C19_waits_equal_recovered.
Print Assumptions C19_waits_bounds.
Print Assumptions C19_bucket_bound.
Print Assumptions C19_spec_sound.
Print Assumptions C19_bucket_inhabited.
Print Assumptions C19_run_inhabited.
