(* C20 — node and Kafka client parameters are validated and passed through faithfully.
   This file contains only statements, each closed by [exact lemma], Examples and [Print Assumptions].
   Models: Model/Params.v (ApplyLibrdkafkaConf + confluent's ConfigMap.SetKey, the four buildConfigMap
   default tables, KafkaConsumer.checkConfig, the Nodeconfig getters), Model/Atoi.v (strconv.Atoi / Itoa /
   ParseBool on byte strings), Model/Literals.v (the Go string literals as bytes).  The statement as a
   decision procedure on observations: Judge/E8.v [spec_c20].
   A Go map[string]string is an association list with distinct keys ([keys_nodup]); Go's random
   iteration order is the order of that list; every result below is stated through [lookup] only,
   hence does not depend on it. *)
From Coq Require Import List ZArith Bool Lia String Permutation.
From FB Require Import Lib.Eqb Model.Literals Model.Atoi Model.Params Judge.E8 Proofs.AtoiProofs Proofs.ParamsProofs.
Import ListNotations.
Open Scope Z_scope.

(* ---------- part 1: the librdkafka.* overlay, for each of the four clients ---------- *)

(* [defaults_of w p] is the default table of client w (0 Kafka source, 1 recovery consumer, 2 message
   receiver, 3 producer) for parameters p; [conflict p] (outside the domain) = librdkafka.default.topic.config
   given together with some librdkafka.{topic}.* (confluent's SetKey then panics or not depending on map order).
   With cm the resulting ConfigMap:
   (1) every parameter librdkafka.K (K not starting with {topic}.) is there under K — prefix removed exactly
       once — verbatim as a string, whatever the default for K was;
   (2) every other key except default.topic.config has exactly its default (so nothing un-prefixed leaks in,
       and {topic}.-keys never appear at top level);
   (3) default.topic.config keeps its default when it is neither overridden nor redirected to;
   (4) librdkafka.{topic}.X parameters (confluent's redirect) are in the nested default.topic.config map under X,
       verbatim, over the nested defaults. *)
Theorem C20_overlay : forall w p d,
  keys_nodup p = true -> conflict p = false -> defaults_of w p = Some d ->
  exists cm, build_config_map w p = BOk cm /\
    (forall k v, has_prefix tp k = false -> lookup (lp ++ k) p = Some v -> lookup k cm = Some (VS (SStr v)))
    /\ (forall k, k <> dtc -> has_prefix tp k = true \/ lookup (lp ++ k) p = None -> lookup k cm = lookup k d)
    /\ (lookup (lp ++ dtc) p = None -> has_topic p = false -> lookup dtc cm = lookup dtc d)
    /\ (has_topic p = true ->
        exists sub, lookup dtc cm = Some (VMap sub) /\
          forall x, lookup x sub = match lookup (lp ++ tp ++ x) p with
                                   | Some v => Some (SStr v)
                                   | None => lookup x (nested d)
                                   end).
Proof. exact build_overlay. Qed.

(* the one-line form: resulting lookup K = params["librdkafka."++K] if present else default K *)
Theorem C20_overlay_plain : forall w p d cm k,
  keys_nodup p = true -> conflict p = false -> defaults_of w p = Some d -> build_config_map w p = BOk cm ->
  has_prefix tp k = false -> k <> dtc ->
  lookup k cm = match lookup (lp ++ k) p with Some v => Some (VS (SStr v)) | None => lookup k d end.
Proof. exact build_overlay_plain. Qed.

(* no other parameter leaks into the client configuration *)
Theorem C20_no_leak : forall w p d cm k cv,
  keys_nodup p = true -> conflict p = false -> defaults_of w p = Some d -> build_config_map w p = BOk cm ->
  lookup k cm = Some cv ->
  lookup k d <> None \/ lookup (lp ++ k) p <> None \/ (k = dtc /\ has_topic p = true).
Proof. exact build_no_leak. Qed.

(* the same for the overlay function itself over ANY starting map (ApplyLibrdkafkaConf + SetKey) *)
Theorem C20_apply_conf : forall (ps : pmap) (m : cmap),
  keys_nodup ps = true ->
  (has_topic ps = true -> dtc_ok m /\ lookup (lp ++ dtc) ps = None) ->
  exists cm, apply_conf ps m = Some cm /\ overlay_char ps m cm.
Proof. exact apply_conf_char. Qed.

(* Go iterates the parameter map in random order: any two orders give the same ConfigMap as a finite map
   ([same_cval]: equal entries; the nested default.topic.config map compared by lookups) *)
Theorem C20_overlay_order_irrelevant : forall (ps ps' : pmap) (m : cmap),
  Permutation ps ps' -> keys_nodup ps = true ->
  (has_topic ps = true -> dtc_ok m /\ lookup (lp ++ dtc) ps = None) ->
  exists cm cm', apply_conf ps m = Some cm /\ apply_conf ps' m = Some cm'
                 /\ forall k, same_cval (lookup k cm) (lookup k cm').
Proof. exact apply_conf_order. Qed.

(* when there is no default table the call fails, and that happens exactly for an unparsable buffersize
   (the two consumers) or empty brokers (the producer) *)
Theorem C20_build_error : forall w p, defaults_of w p = None -> build_config_map w p = BErr.
Proof. exact build_err. Qed.
Theorem C20_build_error_iff : forall w p,
  defaults_of w p = None <->
  ((w = 0 \/ w = 1) /\ atoi (pget s_buffersize p) = None)
  \/ (w <> 0 /\ w <> 1 /\ w <> 2 /\ pget s_brokers p = []).
Proof. exact defaults_none_iff. Qed.

(* witnesses: override of a default, a new key, the prefix removed once, the empty remainder, an
   un-prefixed look-alike that does not leak, and the {topic}. redirect — on the message receiver *)
Example C20_overlay_example :
  let p := [ (bs "brokers", bs "b:9092");
             (bs "librdkafka.session.timeout.ms", bs "7");
             (bs "librdkafka.librdkafka.x", bs "once");
             (bs "librdkafka.", bs "empty");
             (bs "session.timeout.ms", bs "leak?");
             (bs "fetch.min.bytes", bs "leak?");
             (bs "librdkafka.{topic}.auto.offset.reset", bs "latest") ] in
  keys_nodup p = true /\ conflict p = false /\
  exists cm, build_config_map 2 p = BOk cm
    /\ lookup (bs "session.timeout.ms") cm = Some (VS (SStr (bs "7")))
    /\ lookup (bs "librdkafka.x") cm = Some (VS (SStr (bs "once")))
    /\ lookup (bs "x") cm = None
    /\ lookup [] cm = Some (VS (SStr (bs "empty")))
    /\ lookup (bs "fetch.min.bytes") cm = None
    /\ lookup (bs "bootstrap.servers") cm = Some (VS (SStr (bs "b:9092")))
    /\ lookup (bs "go.events.channel.size") cm = Some (VS (SInt 100))
    /\ lookup (bs "{topic}.auto.offset.reset") cm = None
    /\ lookup (bs "default.topic.config") cm = Some (VMap [(bs "auto.offset.reset", SStr (bs "latest"))]).
Proof. vm_compute. repeat split; try reflexivity. eexists. repeat split; reflexivity. Qed.

(* the excluded combination is real: the model (one iteration order) reaches the failing type assertion *)
Example C20_conflict_example :
  let p := [ (bs "librdkafka.default.topic.config", bs "s"); (bs "librdkafka.{topic}.x", bs "v") ] in
  conflict p = true /\ build_config_map 2 p = BPanic /\ exists cm, build_config_map 2 (rev p) = BOk cm.
Proof. vm_compute. repeat split; try reflexivity. eexists. reflexivity. Qed.

(* ---------- part 2: KafkaConsumer.checkConfig ---------- *)
Theorem C20_checkconfig_iff : forall p,
  fst (check_config p) = true <->
  pget k_brokers p <> [] /\ pget k_group p <> [] /\ pget k_topic p <> []
  /\ (exists b, atoi (pget k_bufsize p) = Some b /\ 1 <= b)
  /\ (pget k_maxlag p = [] \/ exists l, atoi (pget k_maxlag p) = Some l /\ 0 <= l)
  /\ (pget k_par p = [] \/ parse_bool (pget k_par p) <> None).
Proof. exact check_config_iff. Qed.

(* its only side effect: an absent/empty maxpartitionlag becomes "9223372036854775807" once the earlier checks passed *)
Theorem C20_checkconfig_mutation : forall p,
  snd (check_config p) = if maxlag_defaulted p then set k_maxlag (itoa max_int64) p else p.
Proof. exact check_config_snd. Qed.
Theorem C20_maxint_text : itoa max_int64 = bs "9223372036854775807".
Proof. exact itoa_max. Qed.

Example C20_checkconfig_example :
  let ok := [ (bs "brokers", bs "b"); (bs "consumergroup", bs "g"); (bs "topic", bs "t"); (bs "buffersize", bs "+1");
              (bs "parallelrecoveryenabled", bs "TRUE") ] in
  fst (check_config ok) = true
  /\ lookup (bs "maxpartitionlag") (snd (check_config ok)) = Some (bs "9223372036854775807")
  /\ fst (check_config (set (bs "buffersize") (bs "0") ok)) = false
  /\ fst (check_config (set (bs "buffersize") (bs "1_0") ok)) = false
  /\ fst (check_config (set (bs "maxpartitionlag") (bs "-1") ok)) = false
  /\ fst (check_config (set (bs "maxpartitionlag") (bs "9223372036854775808") ok)) = false
  /\ fst (check_config (set (bs "maxpartitionlag") (bs "0") ok)) = true
  /\ fst (check_config (set (bs "parallelrecoveryenabled") (bs "tRUE") ok)) = false
  /\ fst (check_config (set (bs "topic") [] ok)) = false.
Proof. vm_compute. repeat split; reflexivity. Qed.

(* ---------- part 3: the typed getters ---------- *)
(* IntConfig (req = false) / IntConfigRequired (req = true): result and the map afterwards *)
Theorem C20_int_getter : forall req p name d mn mx, int64 d ->
  int_getter req p name d mn mx = (expected_int req p name d mn mx, with_default req name (itoa d) p).
Proof. exact int_getter_eq. Qed.
(* ... where the result is the configured value - or the default when absent (optional variant only) - exactly
   when that value parses and lies within the bounds; an error (None) otherwise *)
Theorem C20_int_getter_value : forall req p name d mn mx v,
  expected_int req p name d mn mx = Some v <->
  (exists t, lookup name p = Some t /\ atoi t = Some v /\ mn <= v <= mx)
  \/ (lookup name p = None /\ req = false /\ v = d /\ mn <= d <= mx).
Proof. exact expected_int_some. Qed.

Theorem C20_string_getter : forall req p name d,
  string_getter req p name d
  = (match lookup name p with Some t => Some t | None => if req then None else Some d end,
     with_default req name d p).
Proof. exact string_getter_eq. Qed.

(* Float64Config / Float64ConfigRequired over an abstract strconv.ParseFloat ([parse], an oracle of the case) and
   FormatFloat ([dtxt]); hypothesis (checked on every case, trusted of strconv): parse dtxt = the default *)
Theorem C20_float_getter : forall req p name d dtxt parse mn mx,
  float_roundtrip req p name d dtxt parse = true ->
  float_getter req p name dtxt parse mn mx = (expected_float req p name d parse mn mx, with_default req name dtxt p).
Proof. exact float_getter_eq. Qed.
Theorem C20_float_getter_value : forall req p name d parse mn mx v,
  expected_float req p name d parse mn mx = Some v <->
  (exists t, lookup name p = Some t /\ lookup t parse = Some (Some v) /\ fle mn v && fle v mx = true)
  \/ (lookup name p = None /\ req = false /\ v = d /\ fle mn d && fle d mx = true).
Proof. exact expected_float_some. Qed.
(* the bounds test accepts exactly ordered numbers min <= v <= max; NaN in any position is rejected *)
Theorem C20_float_bounds : forall mn v mx,
  fle mn v && fle v mx = true <-> exists a b c, mn = FNum a /\ v = FNum b /\ mx = FNum c /\ a <= b <= c.
Proof. exact float_bounds. Qed.

Example C20_getter_examples :
  int_getter false [] (bs "n") 5 5 5 = (Some 5, [(bs "n", bs "5")])
  /\ fst (int_getter false [] (bs "n") 6 0 5) = None                         (* default outside the bounds *)
  /\ fst (int_getter false [(bs "n", bs "+5")] (bs "n") 0 0 5) = Some 5      (* value == max *)
  /\ fst (int_getter false [(bs "n", bs "6")] (bs "n") 0 0 5) = None
  /\ fst (int_getter false [(bs "n", bs "")] (bs "n") 3 0 5) = None          (* empty is not absent *)
  /\ fst (int_getter true [] (bs "n") 3 0 5) = None
  /\ float_roundtrip false [] (bs "r") (FNum 7) (bs "x") [(bs "x", Some (FNum 7))] = true
  /\ fst (float_getter false [] (bs "r") (bs "x") [(bs "x", Some (FNum 7))] (FNum 7) (FNum 7)) = Some (FNum 7)
  /\ fst (float_getter true [(bs "r", bs "NaN")] (bs "r") (bs "x") [(bs "NaN", Some FNaN)] (FNum (-9)) (FNum 9)) = None.
Proof. vm_compute. repeat split; reflexivity. Qed.

(* ---------- strconv ---------- *)
Theorem C20_atoi_itoa : forall z, int64 z -> atoi (itoa z) = Some z.
Proof. exact atoi_itoa. Qed.
Theorem C20_atoi_int64 : forall s z, atoi s = Some z -> int64 z.
Proof. exact atoi_int64. Qed.
Theorem C20_atoi_shape : forall s z, atoi s = Some z ->
  exists sign ds, s = sign ++ ds /\ (sign = [] \/ sign = [43] \/ sign = [45])
                  /\ ds <> [] /\ forallb is_digit ds = true
                  /\ z = (if bytes_eqb sign [45] then - dval 0 ds else dval 0 ds).
Proof. exact atoi_shape. Qed.
Theorem C20_atoi_complete : forall sign ds,
  sign = [] \/ sign = [43] \/ sign = [45] -> ds <> [] -> forallb is_digit ds = true ->
  let v := if bytes_eqb sign [45] then - dval 0 ds else dval 0 ds in
  atoi (sign ++ ds) = if int64b v then Some v else None.
Proof. exact atoi_complete. Qed.
Theorem C20_parse_bool_none : forall s,
  parse_bool s = None <->
  ~ In s (map bs ["1"; "t"; "T"; "true"; "TRUE"; "True"; "0"; "f"; "F"; "false"; "FALSE"; "False"]%string).
Proof. exact parse_bool_none. Qed.
Example C20_atoi_examples :
  atoi (bs "-9223372036854775808") = Some (- 2 ^ 63) /\ atoi (bs "9223372036854775808") = None
  /\ atoi (bs "+5") = Some 5 /\ atoi (bs "007") = Some 7 /\ atoi (bs "-0") = Some 0
  /\ atoi (bs "1_000") = None /\ atoi (bs " 5") = None /\ atoi (bs "+") = None /\ atoi [] = None
  /\ itoa (- 2 ^ 63) = bs "-9223372036854775808" /\ itoa 0 = bs "0".
Proof. vm_compute. repeat split; reflexivity. Qed.
(* every byte literal of the model is the Go literal it stands for *)
Theorem C20_literals_spelled :
  lp = bs "librdkafka." /\ tp = bs "{topic}." /\ dtc = bs "default.topic.config"
  /\ k_brokers = bs "brokers" /\ k_group = bs "consumergroup" /\ k_topic = bs "topic"
  /\ k_bufsize = bs "buffersize" /\ k_maxlag = bs "maxpartitionlag" /\ k_par = bs "parallelrecoveryenabled".
Proof. repeat split; reflexivity. Qed.

(* ---------- the decision procedure used on the implementation's observations accepts the model
   on EVERY well-formed input (distinct keys; float oracle covers the text looked at) ---------- *)
Theorem C20_spec_sound : forall i, well_formed i = true -> spec_c20 i (model_obs i) = [].
Proof. exact spec_c20_sound. Qed.

Print Assumptions C20_overlay.
Print Assumptions C20_overlay_plain.
Print Assumptions C20_no_leak.
Print Assumptions C20_apply_conf.
Print Assumptions C20_overlay_order_irrelevant.
Print Assumptions C20_build_error.
Print Assumptions C20_build_error_iff.
Print Assumptions C20_checkconfig_iff.
Print Assumptions C20_checkconfig_mutation.
Print Assumptions C20_maxint_text.
Print Assumptions C20_int_getter.
Print Assumptions C20_int_getter_value.
Print Assumptions C20_string_getter.
Print Assumptions C20_float_getter.
Print Assumptions C20_float_getter_value.
Print Assumptions C20_float_bounds.
Print Assumptions C20_atoi_itoa.
Print Assumptions C20_atoi_int64.
Print Assumptions C20_atoi_shape.
Print Assumptions C20_atoi_complete.
Print Assumptions C20_parse_bool_none.
Print Assumptions C20_literals_spelled.
Print Assumptions C20_spec_sound.
Print Assumptions C20_overlay_example.
Print Assumptions C20_conflict_example.
Print Assumptions C20_checkconfig_example.
Print Assumptions C20_getter_examples.
Print Assumptions C20_atoi_examples.
