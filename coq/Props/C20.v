(* C20 — placeholder while the pipeline is brought up *)
From Coq Require Import List ZArith Bool.
From FB Require Import Model.Literals Model.Atoi Model.Params Judge.E8.
