(* C03 — Clean shutdown drains the whole pipeline and orders node lifecycles.
   Proofs in Proofs/ExecLife.v (invariant over every schedule), ExecLink.v, ExecSpec.v, ExecTerminal.v.
   Liveness is proved as deadlock freedom and bounded termination of the shutdown cascade
   (Proofs/ExecProgress*.v): from every reachable state after the source stopped, every maximal run of framework
   steps in which the nodes return from their calls ends in the clean return of Execute, within M s steps. *)
From Coq Require Import List ZArith Bool Arith.
From FB Require Import Model.Exec Model.TraceSpec Model.ExecInv.
From FB Require Import Model.Settle.
From FB Require Proofs.ExecLife Proofs.ExecProps Proofs.ExecSpec Proofs.ExecTerminal Proofs.ExecProgress Proofs.ExecProgress2
                Proofs.ExecProgress3 Proofs.ExecProgressFlat2 Proofs.ExecFinal Proofs.ExecSetupFail.
From FB Require Lib.Sexp Judge.E1.
Import ListNotations.

(* no interleaving makes the framework panic: no send on a closed channel, no double close *)
Theorem C03_no_panic : forall nt T sch, wf_net nt = true -> run nt T (init nt) sch <> Panic.
Proof. exact ExecLife.run_no_panic. Qed.

(* Shutdown is entered at most once per node ... *)
Theorem C03_shutdown_at_most_once : forall nt T s n,
  once (node s n) <> ONone -> forall w, step nt T s (OnceEnter n w) = NotEnabled.
Proof. exact ExecLife.once_enter_once. Qed.

(* ... only after every processing call of the node has returned (no worker idle, in Process, or delivering),
   and no event is handed to the node in that or any later state *)
Theorem C03_shutdown_after_calls : forall nt T s n, wf_net nt = true -> reachable nt T s ->
  n < length nt -> once (node s n) <> ONone ->
  forallb wpast (ws (node s n)) = true /\ forall w, step nt T s (Deq n w) = NotEnabled.
Proof. exact ExecLife.shutdown_after_calls. Qed.
Theorem C03_no_event_after_shutdown_begins : forall nt T s n sch s', wf_net nt = true -> reachable nt T s ->
  n < length nt -> once (node s n) <> ONone -> run nt T s sch = Ok s' ->
  forall w, step nt T s' (Deq n w) = NotEnabled.
Proof. exact ExecLife.no_deq_after_shutdown_begins. Qed.

(* children and error handler stay open until the node's Shutdown has returned (the once completed) ... *)
Theorem C03_kids_open_until_shutdown_returns : forall nt T s n c, wf_net nt = true -> reachable nt T s ->
  n < length nt -> In c (targets (info nt n)) -> once (node s n) <> ODone -> closed (node s c) = false.
Proof. exact ExecLife.kids_open_until_shutdown_returns. Qed.
(* ... so whatever any goroutine still has to deliver (a worker, the main goroutine, an async callback fired
   from inside Shutdown) targets an open channel *)
Theorem C03_pending_targets_open : forall nt T s, wf_net nt = true -> reachable nt T s ->
  (forall cb d, In cb (cbs s) -> In d (snd cb) -> closed (node s (fst d)) = false)
  /\ (forall n w p d, n < length nt -> nth_error (ws (node s n)) w = Some (WSend p) -> In d p ->
        closed (node s (fst d)) = false)
  /\ (forall it rs r, mn s = MDeliver it rs -> In r rs -> closed (node s r) = false).
Proof. exact ExecLife.pending_targets_open. Qed.

(* Execute returns cleanly only when everything is drained: no callback thread, every worker returned, nothing
   in flight, every node's Shutdown completed, every channel closed and empty *)
Theorem C03_clean_end_is_drained : forall nt T s, wf_net nt = true -> reachable nt T s -> mn s = MDone -> timedout s = false ->
  cbs s = []
  /\ forall n, n < length nt ->
       forallb wexit (ws (node s n)) = true /\ inflight (node s n) = []
       /\ (0 < nworkers (info nt n) ->
             once (node s n) = ODone /\ q (node s n) = [] /\ closed (node s n) = true).
Proof. exact ExecLife.clean_done. Qed.

(* ... and every emitted event is then accounted for at every node it reaches (C01_clean_end_exact) *)
Theorem C03_clean_end_exact : forall nt T s c x,
  ExecProps.good_net nt -> reachable nt T s -> mn s = MDone -> timedout s = false -> c < length nt ->
  count_item x (supply nt c (tr s)) = count_item x (entered c (tr s)) + count_item x (dropped (node s c))
  /\ q (node s c) = [] /\ pending c x s = 0.
Proof. exact ExecProps.clean_end_exact. Qed.

(* the ordering clauses evaluated on the implementation's traces (TraceSpec: (3,1) Shutdown once, (3,2) after
   all calls returned, (3,3) only after the feeder's Shutdown returned / the source finished, (3,4) no event
   after Shutdown began, (3,6) everything shut down at a clean end, (3,7) everything handed over was processed)
   hold of every run of the model *)
Theorem C03_spec_sound : forall nt T s, wf_net nt = true -> forallb (fun x => Nat.ltb 0 (nworkers x)) nt = true ->
  reachable nt T s -> trace_ok nt (tr s) = [].
Proof. exact ExecSpec.trace_ok_reachable. Qed.


(* ---- liveness: the cascade cannot get stuck, and cannot run forever ----
   [finishing] actions = every framework step plus nodes returning from their current calls / calling back (with
   the 'filtered' outcome) and returning from Shutdown; no source activity, no clock.
   [live_net] = well-formed, every node >= 1 worker, children numbered after parents, every node fed by a root
   or a parent, every buffer >= 1 or discarding — proved of every [flatten] output with workers >= 1 and
   buffersize >= 1 (C03_every_started_table_is_live); each extra hypothesis is necessary (counterexamples
   fed_needed / topo_needed / buffered_needed in Proofs/ExecProgress2.v). *)
Theorem C03_can_always_finish : forall nt T s,
  ExecProgress.live_net nt -> reachable nt T s -> src s = SClosed -> timedout s = false ->
  exists sch s', forallb ExecProgress.finishing sch = true /\ run nt T s sch = Ok s' /\ mn s' = MDone /\ timedout s' = false.
Proof. exact ExecProgress2.can_always_finish. Qed.

(* whatever enabled framework step the scheduler picks: no finishing run is longer than the measure M s, and a
   finishing run that cannot be extended has reached the clean end (with C03_clean_end_is_drained: everything
   emitted was fully processed, nothing left in any buffer) *)
Theorem C03_every_run_ends_clean : forall nt T s sch s1,
  ExecProgress.live_net nt -> reachable nt T s -> src s = SClosed -> timedout s = false ->
  forallb ExecProgress.finishing sch = true -> run nt T s sch = Ok s1 ->
  length sch <= ExecProgress.M s
  /\ exists sch' s', forallb ExecProgress.finishing sch' = true /\ run nt T s (sch ++ sch') = Ok s'
                     /\ mn s' = MDone /\ timedout s' = false /\ length (sch ++ sch') <= ExecProgress.M s.
Proof. exact ExecProgress3.every_finishing_run_extends_to_clean_end. Qed.
Theorem C03_maximal_run_is_clean : forall nt T s sch s',
  ExecProgress.live_net nt -> reachable nt T s -> src s = SClosed -> timedout s = false ->
  forallb ExecProgress.finishing sch = true -> run nt T s sch = Ok s' ->
  (forall a s'', ExecProgress.finishing a = true -> step nt T s' a <> Ok s'') ->
  mn s' = MDone /\ timedout s' = false.
Proof. exact ExecProgress3.maximal_run_clean. Qed.

(* the source need not have stopped yet: unless the process has died in prepareSource (a failed Setup of a
   replacement source, [SDead]), the clean end is reachable from EVERY reachable state: the running incarnation
   returns nil (after the restart, if the supervisor is in its pause), then the cascade *)
Theorem C03_can_finish_unless_source_dead : forall nt T s,
  ExecProgress.live_net nt -> reachable nt T s -> src s <> SDead -> timedout s = false ->
  exists pre sch s',
    (pre = [] \/ pre = [SrcReturnNil] \/ pre = [SrcRestart; SrcReturnNil])
    /\ forallb ExecProgress.finishing sch = true /\ run nt T s (pre ++ sch) = Ok s' /\ mn s' = MDone /\ timedout s' = false.
Proof. exact ExecSetupFail.can_finish_unless_dead. Qed.
(* [src s <> SDead] is necessary: after the failed Setup no schedule at all lets Execute return (the real process
   has exited; in the model the main goroutine waits at its select for ever) *)
Theorem C03_dead_source_never_finishes : forall nt T s sch s', wf_net nt = true -> reachable nt T s -> src s = SDead ->
  run nt T s sch = Ok s' -> src s' = SDead /\ mn s' <> MDone /\ mn s' <> MWait /\ mn s' <> MCloseRoots.
Proof. exact ExecSetupFail.dead_never_done. Qed.

Theorem C03_every_started_table_is_live : forall cfgs,
  forallb (fun x => Nat.ltb 0 (nworkers x)) (flatten cfgs) = true ->
  ExecProgress.buffered_b (flatten cfgs) = true ->
  ExecProgress.live_net (flatten cfgs).
Proof. exact ExecProgressFlat2.flatten_live. Qed.

(* the end-of-run clauses (3,9)/(1,9)/(2,9) of the lockstep judge never fire on a clean end of the model: what the
   source emitted was received or counted as discarded at every root, every failure at the node's handler *)
Theorem C03_final_clauses_sound : forall nt tmo s,
  ExecProps.good_net nt -> reachable nt tmo s -> mn s = MDone -> timedout s = false ->
  E1.final_clauses nt (Sexp.T [Settle.snapshot s; Sexp.L (Z.of_nat (length (TraceSpec.emitted (tr s))))]) = [].
Proof. exact ExecFinal.final_clauses_sound. Qed.

Print Assumptions C03_no_panic.
Print Assumptions C03_shutdown_at_most_once.
Print Assumptions C03_shutdown_after_calls.
Print Assumptions C03_no_event_after_shutdown_begins.
Print Assumptions C03_kids_open_until_shutdown_returns.
Print Assumptions C03_pending_targets_open.
Print Assumptions C03_clean_end_is_drained.
Print Assumptions C03_clean_end_exact.
Print Assumptions C03_spec_sound.
Print Assumptions C03_can_always_finish.
Print Assumptions C03_every_run_ends_clean.
Print Assumptions C03_maximal_run_is_clean.
Print Assumptions C03_can_finish_unless_source_dead.
Print Assumptions C03_dead_source_never_finishes.
Print Assumptions C03_every_started_table_is_live.
Print Assumptions C03_final_clauses_sound.
