(* C02 — Failed events reach exactly the node's own error handler, once.
   An error report is the item (event id, error code) travelling in the handler's channel; the harness checks
   on the real code that the report carries the very event pointer and the very error value (Judge/E1.v,
   harness/e1: itemOf), the model carries them as the pair.  Proofs in Proofs/Exec*.v. *)
From Coq Require Import List ZArith Bool Arith.
From FB Require Import Model.Exec Model.TraceSpec Model.ExecInv.
From FB Require Proofs.ExecProps Proofs.ExecSupply Proofs.ExecSpec Proofs.ExecCount.
Import ListNotations.

(* a failure is delivered to the node's own handler and to nobody else, as (original event, that error) *)
Theorem C02_failure_goes_to_own_handler_only : forall nt n it err d,
  In d (deliveries nt n it (OFail err)) -> nhandler (info nt n) = Some (fst d) /\ snd d = (fst it, err).
Proof. exact ExecProps.failure_goes_to_own_handler. Qed.

(* a node without handler only counts the failure *)
Theorem C02_no_handler_counts_only : forall nt n it err,
  nhandler (info nt n) = None -> deliveries nt n it (OFail err) = [].
Proof. exact ExecProps.failure_without_handler_offers_nothing. Qed.

(* successes and filtered events produce no report: results go to children only *)
Theorem C02_success_produces_no_report : forall nt n it es d,
  In d (deliveries nt n it (ORes es)) -> In (fst d) (nkids (info nt n)) /\ exists e, In e es /\ snd d = (e, 0%Z).
Proof. exact ExecProps.results_go_to_children_only. Qed.

(* conservation for the handler channel h of node n, for every schedule: the failure reports of n (sync
   returns with an error and async error callbacks alike) = enqueued at h + discarded at h's full buffer (only
   if h is marked discard_on_full_buffer) + still pending.  No other node contributes to h. *)
Theorem C02_report_conservation : forall nt T s n h x,
  wf_net nt = true -> reachable nt T s -> ExecSupply.handler_is nt n h = true ->
  count_item x (failreps n (tr s))
  = count_item x (offered (node s h)) + count_item x (dropped (node s h)) + pending h x s.
Proof.
  intros nt T s n h x Hwf Hr Hh.
  rewrite <- (ExecSupply.produced_handler nt h x n (tr s) Hwf Hh).
  exact (proj1 (ExecCount.count_inv_reachable nt T s Hr) h x).
Qed.

(* hence, exactly once: a handler never sees more copies of a report than its own node produced *)
Theorem C02_at_most_once : forall nt T s c x,
  wf_net nt = true -> reachable nt T s -> c < length nt ->
  count_item x (entered c (tr s)) <= count_item x (supply nt c (tr s)).
Proof. exact ExecProps.entered_le_supply. Qed.

(* ... and at the end of a clean run exactly as many (minus counted discards): see C01_clean_end_exact. *)
Theorem C02_clean_end_exact : forall nt T s c x,
  ExecProps.good_net nt -> reachable nt T s -> mn s = MDone -> timedout s = false -> c < length nt ->
  count_item x (supply nt c (tr s)) = count_item x (entered c (tr s)) + count_item x (dropped (node s c))
  /\ q (node s c) = [] /\ pending c x s = 0.
Proof. exact ExecProps.clean_end_exact. Qed.

(* whether the handler is a sync or an async node: the handler is an ordinary row of the table with the kind
   of its processor (Model/Settle.flat), driven by the same Return / Callback actions; the judge compares that
   kind with Context.NodeType of the real handler context on every case (component 1). *)

Print Assumptions C02_failure_goes_to_own_handler_only.
Print Assumptions C02_no_handler_counts_only.
Print Assumptions C02_success_produces_no_report.
Print Assumptions C02_report_conservation.
Print Assumptions C02_at_most_once.
Print Assumptions C02_clean_end_exact.
