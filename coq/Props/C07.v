(* C07 — parallel recovery emits the whole requested window and nothing outside it.
   Model: Model/Recovery.v (over Model/Tracker.v).  Only statements here; proofs in Proofs/Recovery*.v.
   The faithful model of the CURRENT code violates the coverage clause for exactly one offset per window: the record
   AT from (recoveryconsumer.go:299, strict >) — C07_cover_full_refuted / C07_cover_partial; known finding F6. *)
From Coq Require Import List ZArith Bool.
From FB Require Import Model.Tracker Model.Recovery Judge.E4
  Proofs.RecoveryProofs Proofs.RecoveryOwnership Proofs.RecoveryTruncation Proofs.RecoveryCover Proofs.RecoveryCoverFinal
  Proofs.RecoverySpecSound.
Import ListNotations.
Open Scope Z_scope.

(* window safety and flags, one record, ANY state, ANY record (stale ones included): whatever is emitted is the record
   itself, flagged as recovery, strictly above the active from and at most the active to of its own partition *)
Theorem C07_window : forall cfg s p o e,
  In e (o_emits (snd (rec_step cfg s p o))) ->
  e = (p, o, true) /\ exists f t, pget p (active s) = Some (f, t) /\ f < o <= t.
Proof. exact rec_step_emits. Qed.

(* the same for every record of a pump of any length: each is judged against the window active when it is handled *)
Theorem C07_window_pump : forall cfg k s p, pump_windows cfg s p k.
Proof. exact pump_windows_hold. Qed.

(* flags over every op of every history: everything a non-main op emits is recovery-flagged; a main-consumer record is
   passed on once, unflagged, without touching the recovery state *)
Theorem C07_flags : forall cfg s op,
  is_main op = false -> forall e, In e (o_emits (snd (rstep cfg s op))) -> snd e = true.
Proof. exact rstep_flagged_all. Qed.

Theorem C07_main_never_flagged : forall cfg s p o,
  rstep cfg s (MainRec p o) =
  (s, {| o_emits := [(p, o, false)]; o_calls := []; o_sent := []; o_err := false; o_acks := 0; o_waits := [] |}).
Proof. exact mainrec_out. Qed.

(* completion: a record at or above from and above to marks (p,to) complete in the tracker, broadcasts exactly that
   snapshot, emits nothing, and refreshes the assignments at once *)
Theorem C07_complete : forall cfg s p o f t,
  pget p (active s) = Some (f, t) -> f <= o -> t < o ->
  let r := complete (trk s) p t in
  rec_step cfg s p o =
    (fst (refresh (with_trk s (ts r) (tout r))),
     {| o_emits := []; o_calls := snd (refresh (with_trk s (ts r) (tout r))); o_sent := tout r; o_err := false;
        o_acks := 0; o_waits := [] |}).
Proof. exact rec_step_complete. Qed.

(* truncation: offset-out-of-range / invalid-message with answering watermark queries pauses recovery (nothing active)
   and treats every formerly active partition on its own: from < low: request closed when low >= to, else its from
   becomes low; partitions that were not active keep their requests *)
Theorem C07_truncation : forall s code lows,
  code = 1 \/ code = 2 -> NoDup (keys (active s)) ->
  let s' := fst (kerr_step s code false lows) in
  active s' = [] /\ owned s' = owned s /\
  (forall p f to, In (p, (f, to)) (active s) ->
     lookup p (trk s') = lookup p (ts (trunc_one (trk s) p f to (low_of lows p)))) /\
  (forall q, ~ In q (keys (active s)) -> lookup q (trk s') = lookup q (trk s)).
Proof. exact kerr_truncation. Qed.

Theorem C07_truncation_closes : forall t p f to low rs,
  f < low -> to <= low -> lookup p t = Some rs -> existsb (fun r => snd r =? to) rs = true ->
  lookup p (ts (trunc_one t p f to low)) = Some (filter (fun r => negb (snd r =? to)) rs).
Proof. exact trunc_one_closed. Qed.

Theorem C07_truncation_moves : forall t p f to low f0 rest,
  f < low -> low < to -> lookup p t = Some ((f0, to) :: rest) ->
  lookup p (ts (trunc_one t p f to low)) = Some ((low, to) :: rest).
Proof. exact trunc_one_moved. Qed.

Theorem C07_other_errors_ignored : forall s code wm lows,
  code <> 1 -> code <> 2 -> kerr_step s code wm lows = (s, out_nil).
Proof. exact kerr_other_code. Qed.

(* COVERAGE.  The full statement (every record of [from,to) is emitted once the request is complete) is refuted by the
   faithful model: request (10,20) on an owned partition, pumped to completion, emits 11..20 and never 10. *)
Definition C07_full_statement : Prop := C07_cover_full_statement.

Theorem C07_cover_full_refuted : ~ C07_cover_full_statement.
Proof. exact cover_full_refuted. Qed.

Example C07_cover_full_witness :
  forallb (ok_op 1 (-1)) f6_ops = true
  /\ lookup 1 (trk (final_state f6_cfg init_state (Request 1 10 20 :: f6_ops))) = Some []
  /\ run_emits 1 (rrun f6_cfg init_state (Request 1 10 20 :: f6_ops)) = [11; 12; 13; 14; 15; 16; 17; 18; 19; 20].
Proof. exact f6_witness. Qed.

(* What does hold, for ALL histories: from the moment (from,to) is the one request of p, through any interleaving of
   fresh records (the client delivers a, a+1, ... after Assign (p,a)), stale records below the client's position,
   stragglers of an earlier assignment AHEAD of the position (inside the window, not a multiple of updateRequestEvery), records
   and requests of other partitions, refreshes, ownership changes, revocations, truncation errors with lows <= LB,
   ignored errors, foreign snapshots of other partitions and crashes - between records or while the owner is blocked on
   the emission of a record (RecCrash) - with hand-off to an instance that read the compacted topic: when the request is complete every retained (> LB) record of (from, to] has been emitted; while it
   is outstanding every retained record of (from, broadcast progress] has been emitted.  Excluded ([ok_op]): arbitrary
   records on p (in particular stragglers ON the broadcast grid or beyond to: on the current code they broadcast a
   progress point / close the request ahead of what was recovered and records ARE lost if a re-assignment follows), a second request / foreign snapshot for p, cancel-all, main-consumer assignments. *)
Theorem C07_cover_partial : forall cfg p f0 t LB s ops,
  fresh_request s p f0 t -> forallb (ok_op p LB) ops = true ->
  let s' := final_state cfg s ops in
  let em := run_emits p (rrun cfg s ops) in
  (lookup p (trk s') = Some [] -> forall o, f0 < o <= t -> LB < o -> In o em)
  /\ (forall rf, lookup p (trk s') = Some [(rf, t)] -> forall o, f0 < o <= rf -> o <= t -> LB < o -> In o em)
  /\ (lookup p (trk s') = Some [] \/ exists rf, lookup p (trk s') = Some [(rf, t)]).
Proof. exact cover_run. Qed.

(* F11 (open known finding): admit UNRESTRICTED stragglers of an earlier assignment (Wild: ahead of the client's
   position, possibly a multiple of updateRequestEvery or beyond to) and coverage fails strictly inside the window:
   a straggler on the broadcast grid followed by a re-assignment loses 13..19 of (10,30]; a straggler beyond to closes
   (10,20] after 11, 12.  C07_cover_partial above is the part that holds (stragglers restricted as in Ahead). *)
Definition C07_straggler_full_statement : Prop := C07_cover_straggler_statement.

Theorem C07_straggler_refuted : ~ C07_cover_straggler_statement.
Proof. exact cover_straggler_refuted. Qed.

Example C07_straggler_witness :
  (forallb (ok_op_wild 1 (-1)) f11_grid_ops = true
   /\ lookup 1 (trk (final_state f6_cfg init_state (Request 1 10 30 :: f11_grid_ops))) = Some []
   /\ run_emits 1 (rrun f6_cfg init_state (Request 1 10 30 :: f11_grid_ops)) = [11; 12; 20; 21; 22; 23; 24; 25; 26; 27; 28; 29; 30])
  /\ (forallb (ok_op_wild 1 (-1)) f11_beyond_ops = true
      /\ lookup 1 (trk (final_state f6_cfg init_state (Request 1 10 20 :: f11_beyond_ops))) = Some []
      /\ run_emits 1 (rrun f6_cfg init_state (Request 1 10 20 :: f11_beyond_ops)) = [11; 12]).
Proof. exact f11_witness. Qed.

(* its hypothesis is what RequestRecovery establishes, and is inhabited *)
Theorem C07_request_is_fresh : forall cfg s p f t,
  lookup p (trk s) = None -> lookup p (replay (mlog s)) = None -> active s = [] -> t - f <= c_maxrec cfg ->
  fresh_request (fst (rstep cfg s (Request p f t))) p f t.
Proof. exact request_is_fresh. Qed.

Example C07_fresh_request_inhabited : fresh_request (fst (rstep f6_cfg init_state (Request 1 10 20))) 1 10 20.
Proof. exact fresh_request_inhabited. Qed.

(* SOUNDNESS OF THE DECISION PROCEDURE spec_c07 (Judge/E4.v) FOR THE MODEL - partial: the per-op clauses 2 (flags and
   window), 3 (completion) and 4 (truncation), evaluated on the model's own observations, never fail, for EVERY
   configuration and EVERY op list (chaos included).  Not proved sound (only exercised by the runs): clause 1
   (coverage, cover_fails under the watched guard) and clause 5 (nothing outside the request window) - their content
   is proved on the model directly (C07_cover_partial, C07_window), the link through cover_of / watched is not. *)
Theorem C07_spec_sound_partial : forall cfg ops,
  let l := model_l cfg init_state ops in
  scan c07_flags ops obs0 l = [] /\ scan c07_complete ops obs0 l = [] /\ scan c07_trunc ops obs0 l = [].
Proof. exact spec_c07_clauses_234_sound. Qed.

Print Assumptions C07_window.
Print Assumptions C07_spec_sound_partial.
Print Assumptions C07_window_pump.
Print Assumptions C07_flags.
Print Assumptions C07_main_never_flagged.
Print Assumptions C07_complete.
Print Assumptions C07_truncation.
Print Assumptions C07_truncation_closes.
Print Assumptions C07_truncation_moves.
Print Assumptions C07_other_errors_ignored.
Print Assumptions C07_cover_full_refuted.
Print Assumptions C07_cover_partial.
Print Assumptions C07_straggler_refuted.
Print Assumptions C07_request_is_fresh.
Print Assumptions C07_cover_full_witness.
Print Assumptions C07_straggler_witness.
Print Assumptions C07_fresh_request_inhabited.
