From Coq Require Import List ZArith Bool.
From FB Require Import Model.Tracker Model.Recovery Proofs.RecoveryProofs.
Import ListNotations.
Open Scope Z_scope.
Theorem C07_main_never_flagged : forall cfg s p o,
  rstep cfg s (MainRec p o) = (s, {| o_emits := [(p, o, false)]; o_calls := []; o_sent := []; o_err := false; o_acks := 0; o_waits := [] |}).
Proof. exact mainrec_out. Qed.
Print Assumptions C07_main_never_flagged.
