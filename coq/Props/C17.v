(* C17 — Shutdown is bounded by the configured timeout even if nodes never finish.
   Model: Model/Exec.v (main goroutine: MSelect / MDeliver / MCloseRoots / MWait / MDone; logical clock,
   T = shutdown timeout in ticks).  Only statements here; proofs in Proofs/ExecMain.v.
   PARTIAL by nature: wall-clock time is not in the model; the harness measures it (Judge/E1.v, clause 17.1:
   Execute returned within T*1000+1500 ms of the source stopping). *)
From Coq Require Import List ZArith Arith Bool.
From FB Require Import Model.Exec Model.ExecInv Proofs.ExecMain.
Import ListNotations.

(* the full statement: whenever the source has stopped, Execute returns within T ticks whatever the nodes do *)
Definition C17_full_statement : Prop :=
  forall nt T s, reachable nt T s -> src s = SClosed ->
    exists sch s', run nt T s sch = Ok s' /\ mn s' = MDone /\ forallb stalled sch = true.

(* REFUTED on the faithful model of the current code (known finding F9): a root whose buffer is full and whose
   only worker never returns keeps the main goroutine inside its blocking copy to that root; when the source
   stops, no schedule in which the node keeps stalling ever lets Execute return, however many ticks pass. *)
Theorem C17_full_statement_refuted :
  exists s0, run f9_net 1 (init f9_net) f9_prefix = Ok s0 /\ src s0 = SClosed
    /\ forall sch s', forallb stalled sch = true -> run f9_net 1 s0 sch = Ok s' -> mn s' <> MDone.
Proof. exact shutdown_unbounded_when_main_blocked. Qed.

(* what does hold, for every network, every state (reachable or not) and whatever all other goroutines do:
   once the main goroutine is in waitTimeout, T ticks and its own timeout step suffice *)
Theorem C17_wait_bounded_partial : forall nt T s,
  mn s = MWait ->
  exists s', run nt T s (repeat Tick (wstart s + T - clock s) ++ [MainTimeout]) = Ok s'
             /\ mn s' = MDone /\ clock s' <= Nat.max (clock s) (wstart s + T).
Proof. exact wait_bounded. Qed.

(* prompt return: when every worker has returned Execute returns without waiting for a single tick *)
Theorem C17_prompt : forall nt T s,
  mn s = MWait -> all_exited s = true ->
  exists s', step nt T s MainWgDone = Ok s' /\ mn s' = MDone /\ timedout s' = timedout s /\ clock s' = clock s.
Proof. exact wait_prompt. Qed.

(* the timeout never fires early, and the clean exit is taken only when all workers returned *)
Theorem C17_timeout_not_early : forall nt T s s',
  step nt T s MainTimeout = Ok s' -> mn s = MWait /\ wstart s + T <= clock s /\ timedout s' = true.
Proof. exact timeout_not_early. Qed.
Theorem C17_clean_exit_needs_all : forall nt T s s',
  step nt T s MainWgDone = Ok s' -> mn s = MWait /\ all_exited s = true /\ timedout s' = timedout s.
Proof. exact clean_exit_needs_all. Qed.

(* non-vacuity: a state in waitTimeout with a stalled worker exists and leaves by the timeout *)
Example C17_wait_state_exists :
  exists s, run f9_net 1 (init f9_net) [SrcEmit 1%Z; MainSend; Deq 0 0; SrcReturnNil; MainSeeClosed; MainCloseRoots] = Ok s
            /\ mn s = MWait /\ all_exited s = false.
Proof. eexists. split; [vm_compute; reflexivity|]. split; reflexivity. Qed.

Print Assumptions C17_full_statement_refuted.
Print Assumptions C17_wait_bounded_partial.
Print Assumptions C17_prompt.
Print Assumptions C17_timeout_not_early.
Print Assumptions C17_clean_exit_needs_all.
Print Assumptions C17_wait_state_exists.
