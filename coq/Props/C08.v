(* C08 — Recovery requests are never lost by merging and replicate as full snapshots.
   This file contains only statements, each closed by [exact lemma], non-vacuity Examples and
   [Print Assumptions].  Models: Model/Tracker.v (the tracker), Model/TrackerWire.v (message
   entry points, replicas, compaction), Model/TrackerGhost.v (ghost history).  Statement as a
   decision procedure on observations: Judge/E3.v [spec_c08]. *)
From Coq Require Import List ZArith Bool Lia.
From FB Require Import Lib.Eqb Model.Tracker Model.TrackerWire Judge.E3
  Proofs.TrackerProofs Proofs.E3SpecProofs.
Import ListNotations.
Open Scope Z_scope.

(* ---------- filing a range ---------- *)
(* Exact cover, for every state (well-formed or not), every range, every offset: after
   AddRecoveryRequest the offsets wanted for p are those wanted before plus the filed range;
   nothing is lost by the hull-widening merge and nothing is invented by it, although EVERY
   overlapped request is widened in place with the ORIGINAL (f,t).  Reading [from,to): *)
Theorem C08_add_cover : forall s p f t x,
  covered (ts (add s p f t)) p x = covered s p x || in_req x (f, t).
Proof. exact add_cover. Qed.

(* ... and for the reading (from,to] that the recovery consumer uses *)
Theorem C08_add_cover_oc : forall s p f t x,
  covered_oc (ts (add s p f t)) p x = covered_oc s p x || in_req_oc x (f, t).
Proof. exact add_cover_oc. Qed.

(* filing never fails, touches no other partition, and broadcasts exactly the new list of p *)
Theorem C08_add_frame : forall s p f t,
  terr (add s p f t) = false
  /\ tout (add s p f t) = [(p, merged f t (lk p s))]
  /\ lookup p (ts (add s p f t)) = Some (merged f t (lk p s))
  /\ forall q, q <> p -> lookup q (ts (add s p f t)) = lookup q s.
Proof. exact add_frame_full. Qed.

(* birth order is kept: no overlap -> appended behind everything else; otherwise every request
   keeps its position and is widened to the hull exactly when it passes the overlap test *)
Theorem C08_add_order : forall s p f t,
  lookup p (ts (add s p f t)) = Some (merged f t (lk p s))
  /\ (existsb (overlaps f t) (lk p s) = false -> merged f t (lk p s) = lk p s ++ [(f, t)])
  /\ (existsb (overlaps f t) (lk p s) = true ->
      merged f t (lk p s)
      = map (fun r => if overlaps f t r then (Z.min f (fst r), Z.max t (snd r)) else r) (lk p s)).
Proof. exact add_order. Qed.

(* ---------- a progress update or completion affects only the request it names ---------- *)
(* the update is accepted exactly when the FIRST request of p ends at t; then only that request's
   from changes (to whatever f is: raising or lowering) and the new list is broadcast *)
Theorem C08_update_only_head : forall s p f t,
  (forall f0 rest, lookup p s = Some ((f0, t) :: rest) ->
     update s p f t = {| ts := set p ((f, t) :: rest) s; terr := false; tout := [(p, (f, t) :: rest)] |})
  /\ ((forall f0 rest, lookup p s <> Some ((f0, t) :: rest)) ->
     update s p f t = {| ts := s; terr := true; tout := [] |})
  /\ (terr (update s p f t) = false <-> exists f0 rest, lookup p s = Some ((f0, t) :: rest)).
Proof. exact update_only_head. Qed.

(* completion removes exactly the requests of p ending at t (ALL of them), keeps the order of the
   others, and is refused when there is none *)
Theorem C08_complete_only_named : forall s p t,
  (forall rs, lookup p s = Some rs -> existsb (ends_at t) rs = true ->
     complete s p t = {| ts := set p (filter (fun r => negb (ends_at t r)) rs) s; terr := false;
                         tout := [(p, filter (fun r => negb (ends_at t r)) rs)] |})
  /\ ((forall rs, lookup p s = Some rs -> existsb (ends_at t) rs = false) ->
     complete s p t = {| ts := s; terr := true; tout := [] |}).
Proof. exact complete_only_named. Qed.

(* every operation: a refused call changes nothing and broadcasts nothing *)
Theorem C08_errors_change_nothing : forall s o,
  terr (tstep s o) = true -> ts (tstep s o) = s /\ tout (tstep s o) = [].
Proof. exact tstep_err. Qed.

(* every operation that addresses a partition leaves all other partitions untouched *)
Theorem C08_other_partitions_untouched : forall s o p q,
  op_part o = Some p -> q <> p -> lookup q (ts (tstep s o)) = lookup q s.
Proof. exact tstep_frame. Qed.

(* ---------- every change is broadcast as a complete snapshot ---------- *)
(* whatever is broadcast under key k is the complete list now held for k ... *)
Theorem C08_broadcast_is_snapshot : forall s o k rs,
  In (k, rs) (tout (tstep s o)) -> lookup k (ts (tstep s o)) = Some rs.
Proof. exact tstep_out_snapshot. Qed.

(* ... and a key for which nothing is broadcast did not change (unless the call was the receipt
   of a snapshot for that key from another instance) *)
Theorem C08_change_is_broadcast : forall s o k,
  ~ In k (map fst (tout (tstep s o))) -> recv_part o <> Some k ->
  lookup k (ts (tstep s o)) = lookup k s.
Proof. exact tstep_quiet. Qed.

(* a replica applying messages in order holds, per key, the last list sent under that key;
   applying only the last message per key (log compaction) gives the same *)
Theorem C08_replica_holds_last : forall r msgs p,
  lookup p (apply_all r msgs) = match last_bcast p msgs with Some rs => Some rs | None => lookup p r end.
Proof. exact apply_all_lookup. Qed.

Theorem C08_compaction_equivalent : forall r msgs p,
  lookup p (apply_all r (compact msgs)) = lookup p (apply_all r msgs).
Proof. exact replica_all_or_last. Qed.

(* The snapshot-replica theorem, for every history h1 ++ h2 from every state, every replica start
   state r: if during h2 partition p is broadcast at least once and not overwritten by a snapshot
   received from elsewhere, then the replica fed every message and the replica fed only the last
   message per key both hold for p exactly the origin's list. *)
Theorem C08_snapshot_replica : forall h1 h2 s r p,
  no_recv_on p h2 = true ->
  In p (map fst (sent_of (snd (xrun (fst (xrun s h1)) h2)))) ->
  let origin := fst (xrun s (h1 ++ h2)) in
  let msgs := sent_of (snd (xrun s (h1 ++ h2))) in
  lookup p (apply_all r msgs) = lookup p origin
  /\ lookup p (apply_all r (compact msgs)) = lookup p origin
  /\ exists rs, lookup p origin = Some rs.
Proof. exact snapshot_replica. Qed.

(* hypotheses satisfiable: three-way merge, update, completion; partition 0 is broadcast in h2 *)
Example C08_snapshot_replica_inhabited :
  let h1 := [XAdd 0 0 5; XAdd 0 10 15; XAdd 1 7 9] in
  let h2 := [XAdd 0 4 15; XUpdate 0 2 15; XMsg 0 [49] (Some [(1, 2)])] in
  no_recv_on 0 h2 = true
  /\ In 0 (map fst (sent_of (snd (xrun (fst (xrun [] h1)) h2))))
  /\ lookup 0 (fst (xrun [] (h1 ++ h2))) = Some [(2, 15); (4, 15)].
Proof. vm_compute. repeat split. left. reflexivity. Qed.

(* the decision procedure evaluated on the implementation's observations accepts the model on
   EVERY history *)
Theorem C08_spec_sound : forall i, spec_c08 i (model_obs i) = [].
Proof. exact spec_c08_sound. Qed.

Print Assumptions C08_add_cover.
Print Assumptions C08_add_cover_oc.
Print Assumptions C08_add_frame.
Print Assumptions C08_add_order.
Print Assumptions C08_update_only_head.
Print Assumptions C08_complete_only_named.
Print Assumptions C08_errors_change_nothing.
Print Assumptions C08_other_partitions_untouched.
Print Assumptions C08_broadcast_is_snapshot.
Print Assumptions C08_change_is_broadcast.
Print Assumptions C08_replica_holds_last.
Print Assumptions C08_compaction_equivalent.
Print Assumptions C08_snapshot_replica.
Print Assumptions C08_spec_sound.
