(* C08 — placeholder while the pipeline is brought up *)
From Coq Require Import List ZArith Bool.
From FB Require Import Model.Tracker Model.TrackerWire Judge.E3.
Import ListNotations.
Open Scope Z_scope.
Example C08_model_runs : spec_c08 {| i_parts := [0]; i_ops := [XAdd 0 1 5; XAdd 0 5 9; XComplete 0 9] |}
   (model_obs {| i_parts := [0]; i_ops := [XAdd 0 1 5; XAdd 0 5 9; XComplete 0 9] |}) = [].
Proof. vm_compute. reflexivity. Qed.
