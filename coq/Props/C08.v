(* C08 — Recovery requests are never lost by merging and replicate as full snapshots.
   This file contains only statements, each closed by [exact lemma], non-vacuity Examples and
   [Print Assumptions].  Models: Model/Tracker.v (the tracker), Model/TrackerWire.v (message
   entry points, replicas, compaction), Model/TrackerGhost.v (ghost history).  Statement as a
   decision procedure on observations: Judge/E3.v [spec_c08]. *)
From Coq Require Import List ZArith Bool Lia.
From FB Require Import Lib.Eqb Model.Tracker Model.TrackerWire Model.TrackerGhost Judge.E3
  Proofs.TrackerProofs Proofs.E3SpecProofs Proofs.TrackerGhostProofs.
Import ListNotations.
Open Scope Z_scope.

(* ---------- filing a range ---------- *)
(* Exact cover, for every state (well-formed or not), every range, every offset: after
   AddRecoveryRequest the offsets wanted for p are those wanted before plus the filed range;
   nothing is lost by the hull-widening merge and nothing is invented by it, although EVERY
   overlapped request is widened in place with the ORIGINAL (f,t).  Reading [from,to): *)
Theorem C08_add_cover : forall s p f t x,
  covered (ts (add s p f t)) p x = covered s p x || in_req x (f, t).
Proof. exact add_cover. Qed.

(* ... and for the reading (from,to] that the recovery consumer uses *)
Theorem C08_add_cover_oc : forall s p f t x,
  covered_oc (ts (add s p f t)) p x = covered_oc s p x || in_req_oc x (f, t).
Proof. exact add_cover_oc. Qed.

(* filing never fails, touches no other partition, and broadcasts exactly the new list of p *)
Theorem C08_add_frame : forall s p f t,
  terr (add s p f t) = false
  /\ tout (add s p f t) = [(p, merged f t (lk p s))]
  /\ lookup p (ts (add s p f t)) = Some (merged f t (lk p s))
  /\ forall q, q <> p -> lookup q (ts (add s p f t)) = lookup q s.
Proof. exact add_frame_full. Qed.

(* birth order is kept: no overlap -> appended behind everything else; otherwise every request
   keeps its position and is widened to the hull exactly when it passes the overlap test *)
Theorem C08_add_order : forall s p f t,
  lookup p (ts (add s p f t)) = Some (merged f t (lk p s))
  /\ (existsb (overlaps f t) (lk p s) = false -> merged f t (lk p s) = lk p s ++ [(f, t)])
  /\ (existsb (overlaps f t) (lk p s) = true ->
      merged f t (lk p s)
      = map (fun r => if overlaps f t r then (Z.min f (fst r), Z.max t (snd r)) else r) (lk p s)).
Proof. exact add_order. Qed.

(* ---------- a progress update or completion affects only the request it names ---------- *)
(* the update is accepted exactly when the FIRST request of p ends at t; then only that request's
   from changes (to whatever f is: raising or lowering) and the new list is broadcast *)
Theorem C08_update_only_head : forall s p f t,
  (forall f0 rest, lookup p s = Some ((f0, t) :: rest) ->
     update s p f t = {| ts := set p ((f, t) :: rest) s; terr := false; tout := [(p, (f, t) :: rest)] |})
  /\ ((forall f0 rest, lookup p s <> Some ((f0, t) :: rest)) ->
     update s p f t = {| ts := s; terr := true; tout := [] |})
  /\ (terr (update s p f t) = false <-> exists f0 rest, lookup p s = Some ((f0, t) :: rest)).
Proof. exact update_only_head. Qed.

(* completion removes exactly the requests of p ending at t (ALL of them), keeps the order of the
   others, and is refused when there is none *)
Theorem C08_complete_only_named : forall s p t,
  (forall rs, lookup p s = Some rs -> existsb (ends_at t) rs = true ->
     complete s p t = {| ts := set p (filter (fun r => negb (ends_at t r)) rs) s; terr := false;
                         tout := [(p, filter (fun r => negb (ends_at t r)) rs)] |})
  /\ ((forall rs, lookup p s = Some rs -> existsb (ends_at t) rs = false) ->
     complete s p t = {| ts := s; terr := true; tout := [] |}).
Proof. exact complete_only_named. Qed.

(* every operation: a refused call changes nothing and broadcasts nothing *)
Theorem C08_errors_change_nothing : forall s o,
  terr (tstep s o) = true -> ts (tstep s o) = s /\ tout (tstep s o) = [].
Proof. exact tstep_err. Qed.

(* every operation that addresses a partition leaves all other partitions untouched *)
Theorem C08_other_partitions_untouched : forall s o p q,
  op_part o = Some p -> q <> p -> lookup q (ts (tstep s o)) = lookup q s.
Proof. exact tstep_frame. Qed.

(* ---------- every change is broadcast as a complete snapshot ---------- *)
(* whatever is broadcast under key k is the complete list now held for k ... *)
Theorem C08_broadcast_is_snapshot : forall s o k rs,
  In (k, rs) (tout (tstep s o)) -> lookup k (ts (tstep s o)) = Some rs.
Proof. exact tstep_out_snapshot. Qed.

(* ... and a key for which nothing is broadcast did not change (unless the call was the receipt
   of a snapshot for that key from another instance) *)
Theorem C08_change_is_broadcast : forall s o k,
  ~ In k (map fst (tout (tstep s o))) -> recv_part o <> Some k ->
  lookup k (ts (tstep s o)) = lookup k s.
Proof. exact tstep_quiet. Qed.

(* a replica applying messages in order holds, per key, the last list sent under that key;
   applying only the last message per key (log compaction) gives the same *)
Theorem C08_replica_holds_last : forall r msgs p,
  lookup p (apply_all r msgs) = match last_bcast p msgs with Some rs => Some rs | None => lookup p r end.
Proof. exact apply_all_lookup. Qed.

Theorem C08_compaction_equivalent : forall r msgs p,
  lookup p (apply_all r (compact msgs)) = lookup p (apply_all r msgs).
Proof. exact replica_all_or_last. Qed.

(* The snapshot-replica theorem, for every history h1 ++ h2 from every state, every replica start
   state r: if during h2 partition p is broadcast at least once and not overwritten by a snapshot
   received from elsewhere, then the replica fed every message and the replica fed only the last
   message per key both hold for p exactly the origin's list. *)
Theorem C08_snapshot_replica : forall h1 h2 s r p,
  no_recv_on p h2 = true ->
  In p (map fst (sent_of (snd (xrun (fst (xrun s h1)) h2)))) ->
  let origin := fst (xrun s (h1 ++ h2)) in
  let msgs := sent_of (snd (xrun s (h1 ++ h2))) in
  lookup p (apply_all r msgs) = lookup p origin
  /\ lookup p (apply_all r (compact msgs)) = lookup p origin
  /\ exists rs, lookup p origin = Some rs.
Proof. exact snapshot_replica. Qed.

(* hypotheses satisfiable: three-way merge, update, completion; partition 0 is broadcast in h2 *)
Example C08_snapshot_replica_inhabited :
  let h1 := [XAdd 0 0 5; XAdd 0 10 15; XAdd 1 7 9] in
  let h2 := [XAdd 0 4 15; XUpdate 0 2 15; XMsg 0 [49] (Some [(1, 2)])] in
  no_recv_on 0 h2 = true
  /\ In 0 (map fst (sent_of (snd (xrun (fst (xrun [] h1)) h2))))
  /\ lookup 0 (fst (xrun [] (h1 ++ h2))) = Some [(2, 15); (4, 15)].
Proof. vm_compute. repeat split. left. reflexivity. Qed.


(* ---------- the history theorems (ghost state: Model/TrackerGhost.v) ---------- *)
(* Every tracked request carries, as ghost fields, its birth index and the PIECES merged into it:
   each filed range (a,b) with its own recorded progress point c (a at filing, max c f after every
   accepted update f of that request).  [piece_rng pc] = (max a c, b) is what the piece still asks
   for.  The ghost fields are never read: the ghost run erases to the plain run. *)

(* C08_never_lost, for ALL histories (any mix of filings, updates raising or lowering from,
   completions, cancel-alls, received snapshots, refused calls), both readings of a range:
   (1) ghost run = plain run; (2) NOTHING IS LOST: every live piece, from its progress point
   onward, is covered by the tracked ranges; (3) every live piece was filed for that partition in
   this history (by AddRecoveryRequest or as an element of a received snapshot) and its progress
   point never precedes its from. *)
Theorem C08_never_lost : forall h,
  let g := grun ginit h in
  let s := fst (trun [] h) in
  erase g = s
  /\ (forall p x pc, In pc (pieces_of p g) ->
        (in_req x (piece_rng pc) = true -> covered s p x = true)
        /\ (in_req_oc x (piece_rng pc) = true -> covered_oc s p x = true))
  /\ (forall p pc, In pc (pieces_of p g) ->
        In (pc_from pc, pc_to pc) (filed_on p h) /\ pc_from pc <= pc_clip pc).
Proof. exact never_lost. Qed.

(* "... until completed or cancelled": through any single operation a live piece stays live (same
   filed range, same request by birth index, progress point not lowered) unless the operation is a
   cancel-all, a snapshot received for that partition, or a completion naming the to of the request
   holding it.  (A refused call, an update, a filing, anything on another partition: it stays.) *)
Theorem C08_live_until_completed_or_cancelled : forall g o p r pc,
  In r (glk p (g_ents g)) -> In pc (g_pieces r) ->
  survives (gstep g o) p r pc
  \/ o = CancelAll \/ (exists rs, o = Receive p rs) \/ o = Complete p (g_to r).
Proof. exact piece_until. Qed.

(* NOTHING IS INVENTED, for every history whose accepted updates never move from backwards
   ([mono_hist], evaluated along the run; the recovery consumer only issues such updates - E4):
   every covered offset lies in a live piece, from that piece's progress point onward.  Together
   with C08_never_lost: cover = union of live pieces from their progress points onward. *)
Theorem C08_nothing_invented : forall h,
  mono_hist [] h = true ->
  let g := grun ginit h in
  let s := fst (trun [] h) in
  forall p x,
    (covered s p x = true -> exists pc, In pc (pieces_of p g) /\ in_req x (piece_rng pc) = true)
    /\ (covered_oc s p x = true -> exists pc, In pc (pieces_of p g) /\ in_req_oc x (piece_rng pc) = true).
Proof. exact nothing_invented. Qed.

(* the hypothesis is satisfiable by a history with a three-way merge, a raising update, a refused
   update, a completion and a received snapshot ... *)
Example C08_mono_hist_inhabited :
  let h := [Add 0 0 5; Add 0 10 15; Add 0 4 12; Update 0 3 12; Update 0 9 99; Add 1 1 2;
            Receive 2 [(5, 6); (8, 9)]; Complete 0 12] in
  mono_hist [] h = true
  /\ fst (trun [] h) = [(0, [(4, 15)]); (1, [(1, 2)]); (2, [(5, 6); (8, 9)])]
  /\ map piece_rng (pieces_of 0 (grun ginit h)) = [(10, 15); (4, 12)].
Proof. vm_compute. repeat split. Qed.

(* ... and it is needed: an update that LOWERS from makes the tracker cover offsets nobody filed
   (UpdateRecoveryRequest stores whatever from it is given).  Not a defect with respect to C08,
   whose updates are PROGRESS updates; stated so that nobody mistakes the hypothesis for a gap. *)
Example C08_lowering_update_invents_cover :
  let h := [Add 0 10 20; Update 0 5 20] in
  mono_hist [] h = false
  /\ covered (fst (trun [] h)) 0 7 = true
  /\ forall pc, In pc (pieces_of 0 (grun ginit h)) -> in_req 7 (piece_rng pc) = false.
Proof. vm_compute. repeat split. intros pc [<-|[]]. reflexivity. Qed.

(* completion names requests by their to: after a three-way merge two requests can end at the same
   offset and one MarkRecoveryComplete removes both, including the part [0,4) of the second one
   that the head request (4,15) never covered (DESIGN.md section 9: an observation about the
   tracker's interface, relevant to C07/C09; C08's "affects only the request it names" holds with
   "names" = "ends at to"). *)
Example C08_completion_removes_every_request_ending_at_to :
  let h := [Add 0 10 15; Add 0 0 5; Add 0 4 15] in
  fst (trun [] h) = [(0, [(4, 15); (0, 15)])]
  /\ fst (trun [] (h ++ [Complete 0 15])) = [(0, [])].
Proof. vm_compute. split; reflexivity. Qed.

(* the oldest outstanding request is the one offered for work: GetRecoveryRequest returns the first
   request of the list, and in every reachable state the births increase strictly along every list *)
Theorem C08_head_is_oldest : forall h p,
  let g := grun ginit h in
  get (fst (trun [] h)) p = match glk p (g_ents g) with r :: _ => Some (erase_req r) | [] => None end
  /\ forall r rest, glk p (g_ents g) = r :: rest -> Forall (fun r' => (g_birth r < g_birth r')%nat) rest.
Proof. exact head_is_oldest. Qed.


(* non-vacuity of the hypotheses of the step theorems above, on a state reached by a three-way
   merge: an accepted and a refused update, a completion removing two requests, a refused
   completion, a refused call, a broadcast, an untouched partition, a live piece that survives an
   update with its progress point raised and one that is removed by the completion naming it *)
Example C08_step_hypotheses_inhabited :
  let s := fst (trun [] [Add 0 0 5; Add 0 10 15; Add 0 4 15; Add 1 7 9]) in
  let g := grun ginit [Add 0 0 5; Add 0 10 15; Add 0 4 15; Add 1 7 9] in
  s = [(0, [(0, 15); (4, 15)]); (1, [(7, 9)])]
  /\ lookup 0 s = Some ((0, 15) :: [(4, 15)])
  /\ terr (update s 0 3 15) = false /\ terr (update s 0 3 14) = true
  /\ existsb (ends_at 15) [(0, 15); (4, 15)] = true /\ existsb (ends_at 5) [(0, 15); (4, 15)] = false
  /\ terr (tstep s (Complete 0 5)) = true
  /\ In (0, [(3, 15); (4, 15)]) (tout (tstep s (Update 0 3 15)))
  /\ op_part (Update 0 3 15) = Some 0 /\ lookup 1 (ts (tstep s (Update 0 3 15))) = Some [(7, 9)]
  /\ ~ In 1 (map fst (tout (tstep s (Update 0 3 15))))
  /\ map piece_rng (pieces_of 0 g) = [(0, 5); (4, 15); (10, 15); (4, 15)]
  /\ map piece_rng (pieces_of 0 (gstep g (Update 0 3 15))) = [(3, 5); (4, 15); (10, 15); (4, 15)]
  /\ pieces_of 0 (gstep g (Complete 0 15)) = [].
Proof. vm_compute. repeat split; try reflexivity. - left. reflexivity. - intros [H|[]]. discriminate. Qed.

(* clause 1 of the decision procedure compares the covers before and after a filing only at the
   end points e and e+1 of the ranges involved; that decides equality at EVERY offset, for both
   readings: an implementation observation passing the test satisfies the statement of
   C08_add_cover itself *)
Theorem C08_cover_test_decides : forall old new f t,
  cover_add_ok old new f t = true ->
  forall x, cov new x = cov old x || in_req x (f, t)
            /\ cov_oc new x = cov_oc old x || in_req_oc x (f, t).
Proof. exact cover_add_ok_complete. Qed.

(* the decision procedure evaluated on the implementation's observations accepts the model on
   EVERY history *)
Theorem C08_spec_sound : forall i, spec_c08 i (model_obs i) = [].
Proof. exact spec_c08_sound. Qed.

Print Assumptions C08_add_cover.
Print Assumptions C08_add_cover_oc.
Print Assumptions C08_add_frame.
Print Assumptions C08_add_order.
Print Assumptions C08_update_only_head.
Print Assumptions C08_complete_only_named.
Print Assumptions C08_errors_change_nothing.
Print Assumptions C08_other_partitions_untouched.
Print Assumptions C08_broadcast_is_snapshot.
Print Assumptions C08_change_is_broadcast.
Print Assumptions C08_replica_holds_last.
Print Assumptions C08_compaction_equivalent.
Print Assumptions C08_snapshot_replica.
Print Assumptions C08_never_lost.
Print Assumptions C08_live_until_completed_or_cancelled.
Print Assumptions C08_nothing_invented.
Print Assumptions C08_head_is_oldest.
Print Assumptions C08_cover_test_decides.
Print Assumptions C08_spec_sound.
Print Assumptions C08_snapshot_replica_inhabited.
Print Assumptions C08_mono_hist_inhabited.
Print Assumptions C08_lowering_update_invents_cover.
Print Assumptions C08_completion_removes_every_request_ending_at_to.
Print Assumptions C08_step_hypotheses_inhabited.
