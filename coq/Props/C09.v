(* C09 — recovery follows partition ownership and survives restarts and rebalances.
   Model: Model/Recovery.v.  Only statements here; proofs in Proofs/Recovery*.v.  The hand-off clause inherits the
   known finding F6 (the record AT from is never emitted): C09_handoff_full_refuted / C09_handoff_partial. *)
From Coq Require Import List ZArith Bool.
From FB Require Import Model.Tracker Model.Recovery Judge.E4
  Proofs.RecoveryProofs Proofs.RecoveryOwnership Proofs.RecoveryTruncation Proofs.RecoveryCover Proofs.RecoveryCoverFinal
  Proofs.RecoverySpecSound.
Import ListNotations.
Open Scope Z_scope.

(* what a refresh establishes, from ANY state whose active map has distinct sorted keys (an invariant: the map is only
   ever empty or the result of a refresh): a partition is active afterwards iff it is owned and has an outstanding
   request; its to is the request's; its from is the larger of the request's from and the from it had reached when the
   client is re-assigned, and untouched otherwise; the client is re-assigned - Unassign, then Assign at exactly the
   from offsets - or not called at all, and in the latter case nothing changed *)
Theorem C09_refresh_exact : forall s s' calls,
  ssorted (keys (active s)) -> refresh s = (s', calls) ->
  owned s' = owned s /\ trk s' = trk s /\ ssorted (keys (active s')) /\
  (forall p, pget p (active s') <> None <-> (In p (owned s) /\ get (trk s) p <> None)) /\
  (forall p f t, pget p (active s') = Some (f, t) -> exists rf, get (trk s) p = Some (rf, t) /\
       ((calls <> [] /\ f = match pget p (active s) with Some (af, _) => Z.max rf af | None => rf end)
        \/ (calls = [] /\ pget p (active s) = Some (f, t)))) /\
  (calls = [] \/ (calls = [CUnassign; CAssign (assign_arg (active s'))] /\ cli s' = assign_arg (active s'))) /\
  (calls = [] -> s' = s).
Proof. exact refresh_exact. Qed.

(* re-assignment happens exactly when partitionAssignmentsChanged says so; unchanged means: same partitions, same to *)
Theorem C09_unchanged_means_same : forall cand act,
  ssorted (keys cand) -> ssorted (keys act) -> changed cand act = false ->
  forall p, (pget p cand <> None <-> pget p act <> None)
            /\ (forall f t af at', pget p cand = Some (f, t) -> pget p act = Some (af, at') -> t = at').
Proof. exact unchanged_same_keys. Qed.

(* revocation: nothing owned, nothing active, nothing emitted by the revocation itself ... *)
Theorem C09_revoke_clears : forall cfg s,
  let s' := fst (rstep cfg s Revoke) in owned s' = [] /\ active s' = [] /\ o_emits (snd (rstep cfg s Revoke)) = [].
Proof. exact revoke_clears. Qed.

(* ... and nothing is recovered afterwards, whatever records, errors, refreshes, requests or messages arrive, until
   partitions are assigned again *)
Theorem C09_revoke_stops : forall cfg ops s,
  owned s = [] -> active s = [] -> forallb (fun op => negb (assigns op)) ops = true ->
  forall so, In so (rrun cfg s ops) -> rec_emits (o_emits (snd so)) = [].
Proof. exact idle_run. Qed.

(* HAND-OFF.  C07_cover_partial quantifies over histories that contain Crash (the instance is replaced by one that
   has only read the compacted topic), RecCrash (the owner dies while blocked on the emission of a record: the limiter
   wait is taken, the record is not emitted, the progress broadcast that FOLLOWS the emission in recoverSingleEvent does
   not happen) and Revoke at any point - after any number of records, right after a progress
   broadcast, right before completion.  Restated here: old and new owner together emit every retained record of
   (from, to] once the request completes, and of (from, progress] while it is outstanding - so resuming from the
   broadcast progress point loses nothing.  The full statement (including the record AT from) is refuted. *)
Definition C09_full_statement : Prop := C07_cover_full_statement.

Theorem C09_handoff_full_refuted : ~ C07_cover_full_statement.
Proof. exact cover_full_refuted. Qed.

Theorem C09_handoff_partial : forall cfg p f0 t LB s ops,
  fresh_request s p f0 t -> forallb (ok_op p LB) ops = true ->
  let s' := final_state cfg s ops in
  let em := run_emits p (rrun cfg s ops) in
  (lookup p (trk s') = Some [] -> forall o, f0 < o <= t -> LB < o -> In o em)
  /\ (forall rf, lookup p (trk s') = Some [(rf, t)] -> forall o, f0 < o <= rf -> o <= t -> LB < o -> In o em)
  /\ (lookup p (trk s') = Some [] \/ exists rf, lookup p (trk s') = Some [(rf, t)]).
Proof. exact cover_run. Qed.

(* a crash in the middle of (10,20): the old owner emits 11..16 and broadcasts progress 15, the successor resumes
   from 15: together 11..20 (16 twice), never 10 *)
Example C09_handoff_witness :
  forallb (ok_op 1 (-1)) f6_handoff_ops = true
  /\ lookup 1 (trk (final_state f6_cfg init_state (Request 1 10 20 :: f6_handoff_ops))) = Some []
  /\ run_emits 1 (rrun f6_cfg init_state (Request 1 10 20 :: f6_handoff_ops))
     = [11; 12; 13; 14; 15; 16; 16; 17; 18; 19; 20].
Proof. exact f6_handoff_witness. Qed.

(* nothing outside the window is emitted by either owner: C07_window holds in every state of every instance *)
Theorem C09_nothing_outside : forall cfg s p o e,
  In e (o_emits (snd (rec_step cfg s p o))) ->
  e = (p, o, true) /\ exists f t, pget p (active s) = Some (f, t) /\ f < o <= t.
Proof. exact rec_step_emits. Qed.

(* SOUNDNESS OF THE DECISION PROCEDURE spec_c09 FOR THE MODEL - partial: clauses 1 (refresh exactness: the spec's closed
   form expected_active / re-assignment iff partitions or a to changed, decided after every Refresh, Revoke and
   single-record completion), 4 (nothing recovered between a revocation / stop and the next assignment), 5 (owned set
   follows assignment and revocation) and 6 (the successor of a stopped instance holds exactly what the broadcasts say,
   below) never fail on the model's own observations, for every configuration and op list.
   Not proved sound (only exercised): clauses 2/3 (hand-off and progress coverage through cover_fails under the watched
   guard - the model-level statement is C09_handoff_partial). *)
Theorem C09_spec_sound_partial : forall cfg ops,
  let l := model_l cfg init_state ops in
  scan c09_refresh ops obs0 l = [] /\ c09_revoked ops l false = [] /\ scan c09_owned ops obs0 l = []
  /\ c09_successor ops l [] = [].
Proof. exact spec_c09_clauses_1456_sound. Qed.

(* SUCCESSOR STATE (clause 6).  The instance that takes over after a stop (Crash: a new instance that read the compacted
   topic, or a live peer that received every broadcast in order; RecCrash: the owner died while handling a record) holds,
   for every partition, exactly the last snapshot broadcast or delivered for it so far.  The decision procedure rebuilds
   the message log from the OBSERVATIONS (broadcasts each op sent, snapshots delivered from other senders) and compares
   partition by partition, so the stable sort by partition of the observed broadcasts / tracker does not matter. *)
Theorem C09_successor_sound : forall cfg ops, c09_successor ops (model_l cfg init_state ops) [] = [].
Proof. exact c09_successor_sound. Qed.

(* the model-level fact behind it: every op appends to the message log exactly the snapshot it delivers and what it
   sends; a stop leaves a tracker that is the replay of that log; a replay holds for p the last log entry for p *)
Theorem C09_successor_is_replay : forall cfg s op,
  mlog (fst (rstep cfg s op)) = mlog s ++ delivered op ++ o_sent (snd (rstep cfg s op))
  /\ (match op with Crash | RecCrash _ => True | _ => False end ->
      trk (fst (rstep cfg s op)) = replay (mlog (fst (rstep cfg s op))))
  /\ (forall p log, lookup p (replay log) = last_for p log).
Proof.
  intros cfg s op. split; [apply rstep_mlog|]. split; [apply stop_trk_replay|]. intros p log. apply lookup_replay.
Qed.

(* a successor that still holds a request the broadcasts say is completed is flagged *)
Example C09_successor_witness :
  c09_successor succ_ops (model_l succ_cfg init_state succ_ops) [] = []
  /\ b_trk (last (model_l succ_cfg init_state succ_ops) obs0) = [(0, [])]
  /\ c09_successor succ_ops (doctor_last_trk [(0, [(0, 3)])] (model_l succ_cfg init_state succ_ops)) [] = [(6, [1])]
  /\ spec_c09 succ_cfg succ_ops (model_l succ_cfg init_state succ_ops) = [(2, [1])]
  /\ spec_c09 succ_cfg succ_ops (doctor_last_trk [(0, [(0, 3)])] (model_l succ_cfg init_state succ_ops)) = [(6, [1])].
Proof. exact c09_successor_example. Qed.

(* the whole of spec_c09 on the model's own observations reports nothing but coverage clauses (2 / 3, where the known
   findings F6 / F11 show) *)
Theorem C09_spec_model_only_coverage : forall cfg ops x,
  In x (spec_c09 cfg ops (model_l cfg init_state ops)) -> fst x = 2 \/ fst x = 3.
Proof. exact spec_c09_model_only_coverage. Qed.

Print Assumptions C09_refresh_exact.
Print Assumptions C09_spec_sound_partial.
Print Assumptions C09_successor_sound.
Print Assumptions C09_successor_is_replay.
Print Assumptions C09_successor_witness.
Print Assumptions C09_spec_model_only_coverage.
Print Assumptions C09_unchanged_means_same.
Print Assumptions C09_revoke_clears.
Print Assumptions C09_revoke_stops.
Print Assumptions C09_handoff_full_refuted.
Print Assumptions C09_handoff_partial.
Print Assumptions C09_nothing_outside.
Print Assumptions C09_handoff_witness.
