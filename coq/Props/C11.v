(* C11 — messages are routed to exactly the subscribed source and nodes.
   Only statements, each closed by [exact lemma], Examples, and [Print Assumptions].
   Model: Model/Route.v (InitNodeContextHierarchy pruning, deliverMessage / deliverMessageToNode,
   Subscribe / AcceptsMessage); statement as a decision procedure: Judge/E5.v [spec_c11].
   "The processing tree" is the tree of enabled nodes linked by Children ([reach]); error handlers hang off
   it through ErrorHandler and are not visited by the code (observation, DESIGN.md section 9). *)
From Coq Require Import List ZArith Bool Lia.
From FB Require Import Lib.Eqb Model.Wire Model.Route Judge.E5 Proofs.WireProofs Proofs.RouteProofs.
Import ListNotations.
Open Scope Z_scope.

(* the walk of the code = source (if subscribed) followed by the pre-order of the enabled, subscribed nodes;
   every one of them gets the message itself; the returned errors are those of the failing ones, in order *)
Theorem C11_route_exact : forall src roots m,
  route src roots m
  = (map (fun c => (fst c, m)) (expected11 src roots (m_type m)),
     map fst (filter snd (expected11 src roots (m_type m)))).
Proof. exact route_expected. Qed.

(* who receives: the source iff its current subscription lists the type, a node iff it is in the processing
   tree (any depth) and its current subscription lists the type — and nobody else *)
Theorem C11_recipient_iff : forall src roots m id,
  In id (map fst (fst (route src roots m)))
  <-> (subscribed (m_type m) src = true /\ p_id src = id)
      \/ exists q, reach_roots roots q /\ subscribed (m_type m) q = true /\ p_id q = id.
Proof. exact route_recipient_iff. Qed.

(* exactly once (identities distinct) *)
Theorem C11_each_once : forall src roots m,
  NoDup (p_id src :: ids_nodes roots) -> NoDup (map fst (fst (route src roots m))).
Proof. exact route_once. Qed.

(* type, key and payload unchanged *)
Theorem C11_message_unchanged : forall src roots m, Forall (fun r => snd r = m) (fst (route src roots m)).
Proof. exact route_unchanged. Qed.

(* all failures, and only those, are reported back; a failure does not change who is visited: the Receive calls
   are [calls] whatever the fail flags, the errors are the failing ones among them, in call order *)
Theorem C11_errors_iff : forall src roots m id,
  In id (snd (route src roots m))
  <-> (subscribed (m_type m) src = true /\ p_id src = id /\ p_fail src = true)
      \/ exists q, reach_roots roots q /\ subscribed (m_type m) q = true /\ p_id q = id /\ p_fail q = true.
Proof. exact route_errors_iff. Qed.

Theorem C11_errors_of_calls : forall src roots m,
  exists calls : list (Z * bool),
    fst (route src roots m) = map (fun c => (fst c, m)) calls /\ snd (route src roots m) = map fst (filter snd calls).
Proof. exact route_errors_of_calls. Qed.

(* the current subscription is the last Subscribe call's; no call = nothing accepted *)
Theorem C11_resubscription_replaces : forall id calls c f t,
  accepts {| p_id := id; p_subs := calls ++ [c]; p_fail := f |} t = existsb (bytes_eqb t) c.
Proof. exact resubscription_replaces. Qed.
Theorem C11_never_subscribed : forall id f t, accepts {| p_id := id; p_subs := []; p_fail := f |} t = false.
Proof. exact never_subscribed. Qed.

(* the decision procedure used on the implementation's observations accepts the model on EVERY input *)
Theorem C11_spec_sound : forall i, spec_c11 i (model_obs11 i) = [].
Proof. exact spec_c11_sound. Qed.

(* non-vacuity: source subscribed and failing; root 1 not subscribed with a subscribed grandchild 3 below an
   unsubscribed child 2; a disabled subtree 4 > 5; a subscribed error handler 6 (not visited); node 7 re-subscribed
   away from the type; failing node 8 *)
Example C11_inhabited :
  let t := [116] in let u := [117] in
  let P id subs f := {| p_id := id; p_subs := subs; p_fail := f |} in
  let i := {| i_src := P 0 [[t; u]] true;
              i_roots := [ RNode (P 1 [] false) false (Some (P 6 [[t]] false))
                             [ RNode (P 2 [[u]] false) false None [ RNode (P 3 [[u]; [t]] false) false None [] ];
                               RNode (P 4 [[t]] false) true None [ RNode (P 5 [[t]] false) false None [] ] ];
                           RNode (P 7 [[t]; [u]] false) false None [ RNode (P 8 [[t]] true) false None [] ] ];
              i_msgs := [ {| m_type := t; m_key := [107]; m_payload := [1; 2] |} ] |} in
  dom11 i = true
  /\ model_obs11 i = [ ([ (0, {| m_type := t; m_key := [107]; m_payload := [1; 2] |});
                          (3, {| m_type := t; m_key := [107]; m_payload := [1; 2] |});
                          (8, {| m_type := t; m_key := [107]; m_payload := [1; 2] |}) ], [0; 8]) ].
Proof. vm_compute. split; reflexivity. Qed.

Print Assumptions C11_route_exact.
Print Assumptions C11_recipient_iff.
Print Assumptions C11_each_once.
Print Assumptions C11_message_unchanged.
Print Assumptions C11_errors_iff.
Print Assumptions C11_errors_of_calls.
Print Assumptions C11_resubscription_replaces.
Print Assumptions C11_never_subscribed.
Print Assumptions C11_spec_sound.
Print Assumptions C11_inhabited.
