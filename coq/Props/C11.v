From Coq Require Import List ZArith Bool.
From FB Require Import Judge.E5.
Example C11_stub : True. Proof. exact I. Qed.
Print Assumptions C11_stub.
