(* Extraction of the judges to OCaml (one monolithic file).  ExtrOcamlBasic only: bool,
   option, unit, list, prod, sumbool, sumor become OCaml's; Z, N, positive, nat, Decimal.int
   stay the extracted inductives.  Run coqc on this file from the target directory. *)
From Coq Require Import Extraction ExtrOcamlBasic ZArith DecimalZ.
From FB Require Import Lib.Sexp.
From FB Require Judge.E2.
Extraction Language OCaml.
Definition z_of_int := Z.of_int.
Definition z_to_int := Z.to_int.
Definition judge_e2 := Judge.E2.judge.
Extraction "fbcore.ml" Sexp.tree z_of_int z_to_int judge_e2.
