(* E3 judge: decode a history, run the model (Model/Tracker.v through Model/TrackerWire.v),
   compare with what the real RecoveryTracker / KafkaConsumer.Receive did, and evaluate the
   clauses of C08 on the IMPLEMENTATION's observation.

   All comparisons of tracker states are comparisons of MAPS (same answer to [lookup] for
   every key present on either side): Go's map has no order, the harness sorts by partition,
   the model keeps first-touch order. *)
From Coq Require Import List ZArith Bool.
From FB Require Import Lib.Sexp Lib.Eqb Model.Tracker Model.TrackerWire.
Import ListNotations.
Open Scope Z_scope.

Record input := { i_parts : list Z; i_ops : list xop }.

(* what is observed after every operation *)
Record sobs := {
  so_err : bool;                    (* the call returned an error *)
  so_ack : bool;                    (* the message was acknowledged (FBContext.AckMessage) *)
  so_gets : list (option req);      (* GetRecoveryRequest for every partition of i_parts *)
  so_snap : tstate;                 (* SnapshotV: every entry of the tracker *)
  so_sent : list bcast;             (* messages passed to FBContext.SendMessage by this call, decoded *)
}.
(* ... and at the end of the history: two more real instances, fed every message in order /
   only the last message per key *)
Record obs := { o_steps : list sobs; o_all : tstate; o_last : tstate }.

Definition obs_of_step (parts : list Z) (r : xres) : sobs :=
  {| so_err := xerr r; so_ack := xack r; so_gets := map (get (xs r)) parts;
     so_snap := xs r; so_sent := xout r |}.

Definition model_obs (i : input) : obs :=
  let rs := snd (xrun [] (i_ops i)) in
  let sent := flat_map xout rs in
  {| o_steps := map (obs_of_step (i_parts i)) rs;
     o_all := apply_all [] sent; o_last := apply_all [] (compact sent) |}.

(* ---------- comparisons ---------- *)
Definition reqs_eqb : list req -> list req -> bool := list_eqb zz_eqb.
Definition oreqs_eqb : option (list req) -> option (list req) -> bool := opt_eqb reqs_eqb.
Definition keys (s : tstate) : list Z := map fst s.
Definition memz (x : Z) (l : list Z) : bool := existsb (Z.eqb x) l.
Definition same_at (a b : tstate) (q : Z) : bool := oreqs_eqb (lookup q a) (lookup q b).
(* equal as maps *)
Definition equiv (a b : tstate) : bool := forallb (same_at a b) (keys a ++ keys b).
(* equal as maps except possibly at p *)
Definition frame (p : Z) (a b : tstate) : bool :=
  forallb (fun q => (q =? p) || same_at a b q) (keys a ++ keys b).

(* ---------- the statement of C08, as a decision procedure on observations ---------- *)

(* "the ranges tracked cover exactly the union of the ranges filed": after filing [f,t) the
   cover is the old cover plus [f,t).  Both sides are finite unions of intervals, so their
   indicator functions are constant between consecutive endpoints: comparing them at every
   endpoint e and at e+1 decides equality for the reading [from,to) and for the reading
   (from,to] (the one the recovery consumer uses). *)
Definition cov (rs : list req) (x : Z) : bool := existsb (in_req x) rs.
Definition cov_oc (rs : list req) (x : Z) : bool := existsb (in_req_oc x) rs.
Definition endpoints (rs : list req) : list Z := flat_map (fun r => [fst r; snd r; fst r + 1; snd r + 1]) rs.
Definition cover_add_ok (old new : list req) (f t : Z) : bool :=
  forallb (fun x => Bool.eqb (cov new x) (cov old x || in_req x (f, t))
                    && Bool.eqb (cov_oc new x) (cov_oc old x || in_req_oc x (f, t)))
          (endpoints (old ++ new ++ [(f, t)])).

(* birth order is kept: either the new range is appended as the youngest request, or the
   list keeps its length and every request contains its former self *)
Definition contains (n o : req) : bool := (fst n <=? fst o) && (snd o <=? snd n).
Fixpoint forallb2 {A B} (f : A -> B -> bool) (a : list A) (b : list B) : bool :=
  match a, b with
  | [], [] => true
  | x :: a', y :: b' => f x y && forallb2 f a' b'
  | _, _ => false
  end.
Definition order_add_ok (old new : list req) (f t : Z) : bool :=
  reqs_eqb new (old ++ [(f, t)]) || forallb2 contains new old.

Definition chk (c : Z) (b : bool) : list Z := if b then [] else [c].

(* C08 quantifies over messages the trackers themselves send: the key is the decimal form of an
   int32 partition.  For any other key (not a number, out of range) clause 8 does not say which
   partition is addressed (the model still follows the code: tag 22, compared observables). *)
Definition key_in_domain (key : list Z) : bool :=
  match parse_int key with
  | Some v => (- 2 ^ 31 <=? v) && (v <? 2 ^ 31)
  | None => false
  end.

(* the call broadcast exactly one message: the complete list now held for p *)
Definition sent_is (sent : list bcast) (p : Z) (cur : tstate) : bool :=
  match sent, lookup p cur with
  | [(q, rs)], Some rs' => (q =? p) && reqs_eqb rs rs'
  | _, _ => false
  end.
Definition no_sent (sent : list bcast) : bool := match sent with [] => true | _ => false end.

Definition head_of (s : tstate) (p : Z) : option req :=
  match lookup p s with Some (r :: _) => Some r | _ => None end.
Definition gets_ok (parts : list Z) (gets : list (option req)) (cur : tstate) : bool :=
  list_eqb (opt_eqb zz_eqb) gets (map (head_of cur) parts).

(* an operation that is refused: error, nothing changes, nothing is broadcast *)
Definition refused (c : Z) (prev : tstate) (so : sobs) : list Z :=
  chk c (so_err so) ++ chk 5 (equiv prev (so_snap so)) ++ chk 7 (no_sent (so_sent so)).

(* Clauses (numbers reported as failing):
   1 filing a range: no error; cover grows by exactly that range; birth order kept
   2 progress update: rewrites only the FIRST request's from, and only when its to matches; else error
   3 completion: removes exactly the requests ending at the named to; error when there is none
   4 cancel-all: every entry emptied (entries kept), acknowledged
   5 frame: the other partitions are untouched; a refused operation changes nothing
   6 the request offered for work (GetRecoveryRequest) is the first = oldest of the list
   7 every change is broadcast as the complete list of that partition; nothing else is sent
   8 incoming messages: a snapshot replaces the addressed partition's list (key = decimal int32;
     other keys: no claim), an undecodable payload is ignored, an unknown type is an error;
     ack only for cancel-all
   9 replicas: an instance fed all messages, or only the last per key, holds for every key
     exactly the last broadcast list; and so does the origin for every key not overwritten since
   10 the observation has as many steps as the history; 11 the code panicked *)
Definition step_spec (parts : list Z) (prev : tstate) (o : xop) (so : sobs) : list Z :=
  let cur := so_snap so in
  chk 6 (gets_ok parts (so_gets so) cur) ++
  match o with
  | XAdd p f t =>
      chk 1 (negb (so_err so) &&
             match lookup p cur with
             | Some new => cover_add_ok (lk p prev) new f t && order_add_ok (lk p prev) new f t
             | None => false
             end)
      ++ chk 5 (frame p prev cur) ++ chk 7 (sent_is (so_sent so) p cur) ++ chk 8 (negb (so_ack so))
  | XUpdate p f t =>
      match lookup p prev with
      | Some ((f0, t0) :: rest) =>
          if t0 =? t then
            chk 2 (negb (so_err so) && oreqs_eqb (lookup p cur) (Some ((f, t0) :: rest)))
            ++ chk 5 (frame p prev cur) ++ chk 7 (sent_is (so_sent so) p cur)
          else refused 2 prev so
      | _ => refused 2 prev so
      end ++ chk 8 (negb (so_ack so))
  | XComplete p t =>
      match lookup p prev with
      | Some rs =>
          if existsb (fun r => snd r =? t) rs then
            chk 3 (negb (so_err so)
                   && oreqs_eqb (lookup p cur) (Some (filter (fun r => negb (snd r =? t)) rs)))
            ++ chk 5 (frame p prev cur) ++ chk 7 (sent_is (so_sent so) p cur)
          else refused 3 prev so
      | None => refused 3 prev so
      end ++ chk 8 (negb (so_ack so))
  | XMsg mt key pl =>
      if mt =? 1 then
        chk 4 (negb (so_err so) && so_ack so
               && forallb (fun k => memz k (keys prev)) (keys cur)
               && forallb (fun k => oreqs_eqb (lookup k cur) (Some [])) (keys prev))
        ++ chk 7 (forallb (fun b => memz (fst b) (keys prev) && reqs_eqb (snd b) []) (so_sent so)
                  && forallb (fun k => memz k (keys (so_sent so))) (keys prev)
                  && (length (so_sent so) =? length prev)%nat)
      else if mt =? 0 then
        match pl with
        | Some rs =>
            chk 8 (negb (so_err so) && negb (so_ack so)
                   && (negb (key_in_domain key)
                       || oreqs_eqb (lookup (atoi_key key) cur) (Some rs) && frame (atoi_key key) prev cur))
        | None => chk 8 (negb (so_err so) && negb (so_ack so) && equiv prev cur)
        end ++ chk 7 (no_sent (so_sent so))
      else chk 8 (so_err so && negb (so_ack so) && equiv prev cur) ++ chk 7 (no_sent (so_sent so))
  end.

(* failing clauses with the kind of the operation (1 file, 2 update, 3 complete, 4 message)
   and its index in the history *)
Definition op_kind (o : xop) : Z :=
  match o with XAdd _ _ _ => 1 | XUpdate _ _ _ => 2 | XComplete _ _ => 3 | XMsg _ _ _ => 4 end.
Fixpoint spec_steps (parts : list Z) (prev : tstate) (ops : list xop) (sos : list sobs) (idx : Z)
  : list (Z * (Z * Z)) :=
  match ops, sos with
  | [], [] => []
  | o :: ops', so :: sos' =>
      map (fun c => (c, (op_kind o, idx))) (step_spec parts prev o so)
      ++ spec_steps parts (so_snap so) ops' sos' (idx + 1)
  | _, _ => [(10, (0, idx))]
  end.

(* keys whose last event so far is a broadcast (not overwritten by a received snapshot since) *)
Fixpoint fresh_keys (acc : list Z) (ops : list xop) (sos : list sobs) : list Z :=
  match ops, sos with
  | o :: ops', so :: sos' =>
      let acc1 := match recv_key o with
                  | Some p => filter (fun k => negb (k =? p)) acc
                  | None => acc
                  end in
      fresh_keys (keys (so_sent so) ++ acc1) ops' sos'
  | _, _ => acc
  end.

Definition empty_sobs : sobs :=
  {| so_err := false; so_ack := false; so_gets := []; so_snap := []; so_sent := [] |}.
Definition final_snap (sos : list sobs) : tstate := so_snap (last sos empty_sobs).
Definition replica_ok (sent rep : tstate) : bool :=
  forallb (fun k => oreqs_eqb (lookup k rep) (last_bcast k sent)) (keys rep ++ keys sent).

(* detail: 0, then 1 = replica fed every message, 2 = replica fed the last per key, 3 = origin *)
Definition spec_replicas (i : input) (o : obs) : list (Z * (Z * Z)) :=
  let sent := flat_map so_sent (o_steps o) in
  map (fun c => (9, (0, c)))
      (chk 1 (replica_ok sent (o_all o)) ++ chk 2 (replica_ok sent (o_last o))
       ++ chk 3 (forallb (fun k => oreqs_eqb (lookup k (final_snap (o_steps o))) (last_bcast k sent))
                         (fresh_keys [] (i_ops i) (o_steps o)))).

Definition spec_c08_detail (i : input) (o : obs) : list (Z * (Z * Z)) :=
  spec_steps (i_parts i) [] (i_ops i) (o_steps o) 0 ++ spec_replicas i o.

Definition spec_c08 (i : input) (o : obs) : list Z := map fst (spec_c08_detail i o).

(* ---------- wire ---------- *)
Definition dec_pair (t : tree) : option (Z * Z) :=
  match t with T [L a; L b] => Some (a, b) | _ => None end.
(* payload := (0 ((from to)...)) marshalled from this list
            | (k): entry k of the harness's table of fixed byte strings; 1..5 do not decode,
              6.. decode to an empty list ("{}", "null", ...) *)
Definition dec_payload (t : tree) : option (option (list req)) :=
  match t with
  | T [L 0; rs] => bind (getList dec_pair rs) (fun rs => Some (Some rs))
  | T [L k] => if k <=? 0 then None else if k <=? 5 then Some None else Some (Some [])
  | _ => None
  end.
Definition dec_op (t : tree) : option xop :=
  match t with
  | T [L 1; L p; L f; L t'] => Some (XAdd p f t')
  | T [L 2; L p; L f; L t'] => Some (XUpdate p f t')
  | T [L 3; L p; L t'] => Some (XComplete p t')
  | T [L 4; L mt; key; pl] => key <- getZs key ;; pl <- dec_payload pl ;; Some (XMsg mt key pl)
  | _ => None
  end.
Definition dec_input (t : tree) : option input :=
  match t with
  | T [parts; ops] => parts <- getZs parts ;; ops <- getList dec_op ops ;;
                      Some {| i_parts := parts; i_ops := ops |}
  | _ => None
  end.
Definition dec_bcast (t : tree) : option bcast :=
  match t with T [L p; rs] => bind (getList dec_pair rs) (fun rs => Some (p, rs)) | _ => None end.
Definition dec_sobs (t : tree) : option sobs :=
  match t with
  | T [e; a; g; s; m] =>
      e <- getB e ;; a <- getB a ;; g <- getList (getOpt dec_pair) g ;;
      s <- getList dec_bcast s ;; m <- getList dec_bcast m ;;
      Some {| so_err := e; so_ack := a; so_gets := g; so_snap := s; so_sent := m |}
  | _ => None
  end.
Definition dec_obs (t : tree) : option obs :=
  match t with
  | T [st; a; l] =>
      st <- getList dec_sobs st ;; a <- getList dec_bcast a ;; l <- getList dec_bcast l ;;
      Some {| o_steps := st; o_all := a; o_last := l |}
  | _ => None
  end.

Definition enc_pair (p : Z * Z) : tree := T [L (fst p); L (snd p)].
Definition enc_bcast (b : bcast) : tree := T [L (fst b); ofList enc_pair (snd b)].
Definition enc_sobs (s : sobs) : tree :=
  T [ofB (so_err s); ofB (so_ack s); ofList (ofOpt enc_pair) (so_gets s);
     ofList enc_bcast (so_snap s); ofList enc_bcast (so_sent s)].
Definition enc_obs (o : obs) : tree :=
  T [ofList enc_sobs (o_steps o); ofList enc_bcast (o_all o); ofList enc_bcast (o_last o)].

(* observable components: 1 error results, 2 GetRecoveryRequest answers, 3 tracker contents,
   4 messages sent (as a map per call, with their number), 5 acknowledgements,
   6 replica fed every message, 7 replica fed the last message per key, 8 number of steps *)
Definition sent_same (a b : list bcast) : bool := (length a =? length b)%nat && equiv a b.
Definition obs_diffs (m o : obs) : list Z :=
  let sm := o_steps m in let so := o_steps o in
  diff_if (list_eqb Bool.eqb (map so_err sm) (map so_err so)) 1
  ++ diff_if (list_eqb (list_eqb (opt_eqb zz_eqb)) (map so_gets sm) (map so_gets so)) 2
  ++ diff_if (forallb2 equiv (map so_snap sm) (map so_snap so)) 3
  ++ diff_if (forallb2 sent_same (map so_sent sm) (map so_sent so)) 4
  ++ diff_if (list_eqb Bool.eqb (map so_ack sm) (map so_ack so)) 5
  ++ diff_if (equiv (o_all m) (o_all o)) 6
  ++ diff_if (equiv (o_last m) (o_last o)) 7
  ++ diff_if (length sm =? length so)%nat 8.

(* branch tags of the model hit by the history (for the input distribution; >= 10 = non-trivial):
   1 filed into an empty list, 2 unknown message type, 3 undecodable payload,
   10 merge (some overlap), 11 merge widened two or more requests, 12 appended behind others,
   13 merge by touching only (f = to or t = from of every overlapped request),
   14 update accepted, 15 update refused, 16 update lowered from,
   17 completion removed one, 18 completion removed several, 19 completion refused,
   20 cancel-all with a non-empty entry, 21 snapshot received over a non-empty list,
   22 snapshot received under a key that is not the decimal form of a tracked partition,
   23 an inverted or empty range was filed *)
Definition ovl (f t : Z) (rs : list req) : list req := filter (overlaps f t) rs.
Definition step_tags (s : tstate) (o : xop) : list Z :=
  match o with
  | XAdd p f t =>
      let rs := lk p s in
      (match rs with [] => [1] | _ => [] end)
      ++ (match ovl f t rs with
          | [] => match rs with [] => [] | _ => [12] end
          | [_] => [10]
          | _ => [10; 11]
          end)
      ++ (match ovl f t rs with
          | [] => []
          | l => if forallb (fun r => (f =? snd r) || (t =? fst r)) l then [13] else []
          end)
      ++ (if t <=? f then [23] else [])
  | XUpdate p f t =>
      match lookup p s with
      | Some ((f0, t0) :: _) => if t0 =? t then 14 :: (if f <? f0 then [16] else []) else [15]
      | _ => [15]
      end
  | XComplete p t =>
      match filter (fun r => snd r =? t) (lk p s) with
      | [] => [19]
      | [_] => [17]
      | _ => [18]
      end
  | XMsg mt key pl =>
      if mt =? 1 then (if existsb (fun e => match snd e with [] => false | _ => true end) s then [20] else [])
      else if mt =? 0 then
        match pl with
        | Some _ =>
            (match lk (atoi_key key) s with [] => [] | _ => [21] end)
            ++ (match digits_val 0 key with Some v => if v <? 2 ^ 31 then [] else [22] | None => [22] end)
        | None => [3]
        end
      else [2]
  end.
Fixpoint run_tags (s : tstate) (ops : list xop) : list Z :=
  match ops with
  | [] => []
  | o :: ops' => step_tags s o ++ run_tags (xs (xstep s o)) ops'
  end.
Fixpoint dedup (l : list Z) : list Z :=
  match l with
  | [] => []
  | x :: l' => if memz x l' then dedup l' else x :: dedup l'
  end.
Definition tags (i : input) : list Z := dedup (run_tags [] (i_ops i)).

Definition enc_fail (c : Z * (Z * Z)) : tree := clause 8 (fst c) [L (fst (snd c)); L (snd (snd c))].

(* case := T [input; impl_obs]; impl_obs = (-1) when the code under test panicked *)
Definition judge (t : tree) : tree :=
  match t with
  | T [ti; to] =>
      match dec_input ti with
      | Some i =>
          let m := model_obs i in
          match to with
          | T [L (-1)] => verdict [0] [clause 8 11 []] (enc_obs m) (tags i)
          | _ =>
              match dec_obs to with
              | Some o => verdict (obs_diffs m o) (map enc_fail (spec_c08_detail i o)) (enc_obs m) (tags i)
              | None => malformed
              end
          end
      | None => malformed
      end
  | _ => malformed
  end.
