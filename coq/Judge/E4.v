(* E4 judge: recovery consumer (C07, C09, C19).
   Two kinds of case:
     kind 0 (logic):  (0 (maxrec every maxlag) (op ...))   obs: one record per op
     kind 1 (timing): (1 rate n nparts nmain)              obs: (limit_milli burst every elapsed_us main_us emitted mainemitted)
   The specs below are computed from the INPUT and the IMPLEMENTATION's observation only. *)
From Coq Require Import List ZArith Bool.
From FB Require Import Lib.Sexp Lib.Eqb Model.Tracker Model.Offsets Model.Recovery.
Import ListNotations.
Open Scope Z_scope.

(* ---------------- observation records ---------------- *)
Record opobs := {
  b_emits : list (Z * Z * bool);
  b_calls : list ccall;
  b_sent : list bcast;          (* stably sorted by partition *)
  b_err : bool;
  b_acks : Z;
  b_waits : list Z;
  b_active : amap;              (* after the op, sorted by partition *)
  b_owned : list Z;             (* after the op, in order *)
  b_trk : tstate;               (* after the op, sorted by partition *)
  b_cli : pmap Z;               (* harness client positions after the op *)
}.

Record tobs := { t_limit_milli : Z; t_burst : Z; t_every : Z; t_elapsed_us : Z; t_main_us : Z; t_emitted : Z; t_mainemitted : Z }.

Inductive input :=
| ILogic (cfg : rcfg) (ops : list rop)
| ITiming (rate n nparts nmain : Z).

Inductive obs :=
| OLogic (l : list opobs)
| OTiming (t : tobs).

(* ---------------- canonical forms ---------------- *)
Fixpoint ins_key {A} (k : Z) (v : A) (l : list (Z * A)) : list (Z * A) :=
  match l with
  | [] => [(k, v)]
  | (k', v') :: r => if k <=? k' then (k, v) :: l else (k', v') :: ins_key k v r
  end.
Definition sort_key {A} (l : list (Z * A)) : list (Z * A) :=
  fold_right (fun x acc => ins_key (fst x) (snd x) acc) [] l.

Fixpoint ins_uniq (k : Z) (l : list Z) : list Z :=
  match l with
  | [] => [k]
  | k' :: r => if k <? k' then k :: l else if k =? k' then l else k' :: ins_uniq k r
  end.
Definition sort_uniq (l : list Z) : list Z := fold_right ins_uniq [] l.

Definition mk_opobs (s : rstate) (o : rout) : opobs :=
  {| b_emits := o_emits o; b_calls := o_calls o; b_sent := sort_key (o_sent o); b_err := o_err o;
     b_acks := o_acks o; b_waits := o_waits o; b_active := active s; b_owned := owned s;
     b_trk := sort_key (trk s); b_cli := cli s |}.

Definition timing_model (rate : Z) : tobs :=
  {| t_limit_milli := rate * 1000; t_burst := 100; t_every := 5 * rate; t_elapsed_us := 0; t_main_us := 0;
     t_emitted := 0; t_mainemitted := 0 |}.

Definition model_obs (i : input) : obs :=
  match i with
  | ILogic cfg ops => OLogic (map (fun so => mk_opobs (fst so) (snd so)) (rrun cfg init_state ops))
  | ITiming rate n np nm => OTiming (timing_model rate)
  end.

(* ---------------- small helpers for the specs ---------------- *)
Definition head_req (t : tstate) (p : Z) : option req := get t p.
Definition reqs_of (t : tstate) (p : Z) : list req := match lookup p t with Some rs => rs | None => [] end.
Definition memZ (x : Z) (l : list Z) : bool := existsb (Z.eqb x) l.
Definition is_rec_flag (e : Z * Z * bool) : bool := snd e.
Definition rec_emits (l : list (Z * Z * bool)) : list (Z * Z) :=
  flat_map (fun e : Z * Z * bool => if snd e then [fst e] else []) l.
Definition in_win (w : option (Z * Z)) (o : Z) : bool :=
  match w with Some (f, t) => (f <? o) && (o <=? t) | None => false end.
Definition call_eqb (a b : ccall) : bool :=
  match a, b with
  | CUnassign, CUnassign => true
  | CAssign x, CAssign y => list_eqb zz_eqb x y
  | _, _ => false
  end.
Definition req_list_eqb : list req -> list req -> bool := list_eqb zz_eqb.
Definition bcast_eqb : bcast -> bcast -> bool := pair_eqb Z.eqb req_list_eqb.
Definition amap_eqb : amap -> amap -> bool := list_eqb (pair_eqb Z.eqb zz_eqb).
Definition emit_eqb (a b : Z * Z * bool) : bool := zz_eqb (fst a) (fst b) && Bool.eqb (snd a) (snd b).

Fixpoint zrange (lo : Z) (n : nat) : list Z :=
  match n with O => [] | S n' => lo :: zrange (lo + 1) n' end.

(* state seen before an op = observation after the previous one *)
Definition obs0 : opobs :=
  {| b_emits := []; b_calls := []; b_sent := []; b_err := false; b_acks := 0; b_waits := [];
     b_active := []; b_owned := []; b_trk := []; b_cli := [] |}.

(* the record a single-record op delivers *)
Definition single_record (op : rop) (before : opobs) : option (Z * Z) :=
  match op with
  | Pump p 1%nat => match pget p (b_cli before) with Some n => Some (p, n) | None => None end
  | Stale p d => Some (p, match pget p (b_cli before) with Some n => n - 1 - Z.abs d | None => d end)
  | RawRec p o => Some (p, o)
  | _ => None
  end.
Definition rec_partition (op : rop) : option Z :=
  match op with Pump p _ | Stale p _ | RawRec p _ | Ahead p _ | Wild p _ => Some p | _ => None end.

(* fold over ops with the observation before and after each *)
Fixpoint scan {R} (f : rop -> opobs -> opobs -> list R) (ops : list rop) (before : opobs) (l : list opobs) : list R :=
  match ops, l with
  | op :: ops', a :: l' => f op before a ++ scan f ops' a l'
  | _, _ => []
  end.

(* failing clause: clause number and detail *)
Definition fail := (Z * list Z)%type.

(* ---------------- C07 ---------------- *)
(* clause 2: flags and window.  A record op emits only recovery-flagged events of its own partition, each inside
   the active window (from, to] seen before or after the op, or inside a request (from, to] the tracker held for that
   partition before the op (a Pump may complete one request and start and complete the next); a main-consumer record is passed on once, never flagged; nothing else emits. *)
Definition c07_flags (op : rop) (b a : opobs) : list fail :=
  match op with
  | MainRec p o => if list_eqb emit_eqb (b_emits a) [(p, o, false)] then [] else [(2, [1])]
  | Pump p _ | Stale p _ | RawRec p _ | Ahead p _ | Wild p _ =>
      if forallb (fun e => snd e && (fst (fst e) =? p)
                           && (in_win (pget p (b_active b)) (snd (fst e)) || in_win (pget p (b_active a)) (snd (fst e))
                               || existsb (fun r => in_win (Some r) (snd (fst e))) (reqs_of (b_trk b) p)))
                 (b_emits a)
      then [] else [(2, [2; p])]
  | _ => match b_emits a with [] => [] | _ => [(2, [3])] end
  end.

(* clause 3: completion.  A single record at or above the window's from and above its to: nothing is emitted, every
   request of the partition ending at to disappears from the tracker and exactly that snapshot is broadcast; afterwards
   the partition is not active with that to any more. *)
Definition c07_complete (op : rop) (b a : opobs) : list fail :=
  match single_record op b with
  | Some (p, o) =>
      match pget p (b_active b) with
      | Some (f, t) =>
          if (f <=? o) && (t <? o) then
            let rs := reqs_of (b_trk b) p in
            if existsb (fun r => snd r =? t) rs then
              let rs' := filter (fun r => negb (snd r =? t)) rs in
              (match b_emits a with [] => [] | _ => [(3, [1; p])] end)
              ++ (if list_eqb bcast_eqb (b_sent a) [(p, rs')] && req_list_eqb (reqs_of (b_trk a) p) rs'
                  then [] else [(3, [2; p])])
              ++ (match pget p (b_active a) with
                  | Some (_, t') => if t' =? t then [(3, [3; p])] else []
                  | None => []
                  end)
            else []
          else []
      | None => []
      end
  | None => []
  end.

(* clause 4: truncation.  An offset-out-of-range / invalid-message error whose watermark queries answer: recovery
   pauses (nothing active); for an active partition whose from is below the low watermark the request is closed
   when low >= to, else its from becomes low; other partitions' requests are untouched.  Any other error code
   changes nothing. *)
Definition c07_trunc (op : rop) (b a : opobs) : list fail :=
  match op with
  | KErr code wmerr lows =>
      if (code =? 1) || (code =? 2) then
        (match b_active a with [] => [] | _ => [(4, [1])] end)
        ++ (if wmerr then
              (if list_eqb bcast_eqb (b_trk a) (b_trk b) then [] else [(4, [2])])
            else
              flat_map (fun e =>
                let p := fst e in let f := fst (snd e) in let t := snd (snd e) in
                let low := low_of lows p in
                let rs := reqs_of (b_trk b) p in
                let want :=
                  if f <? low then
                    if low >=? t then filter (fun r => negb (snd r =? t)) rs
                    else match rs with (f0, t0) :: rest => if t0 =? t then (low, t0) :: rest else rs | [] => rs end
                  else rs in
                if req_list_eqb (reqs_of (b_trk a) p) want then [] else [(4, [3; p])]) (b_active b))
      else
        if amap_eqb (b_active a) (b_active b) && list_eqb bcast_eqb (b_trk a) (b_trk b) then [] else [(4, [4])]
  | _ => []
  end.

(* clause 1 / 5 and C09 clauses 2 / 3: coverage of one watched request *)
Definition mentions_req (p : Z) (op : rop) : bool :=
  match op with Request q _ _ => q =? p | _ => false end.
Definition disturbs (p : Z) (op : rop) : bool :=
  match op with
  | RawRec q _ => q =? p
  | Deliver (MReq q _) => q =? p
  | Deliver MCancel => true
  | MAssign _ _ => true
  | _ => false
  end.
Fixpoint split_at_req (p : Z) (ops : list rop) : option (Z * Z * list rop) :=
  match ops with
  | [] => None
  | Request q f t :: rest => if q =? p then Some (f, t, rest) else split_at_req p rest
  | _ :: rest => split_at_req p rest
  end.
Definition trunc_lows (p : Z) (ops : list rop) : list Z :=
  flat_map (fun op => match op with
                      | KErr code false lows => if (code =? 1) || (code =? 2) then [low_of lows p] else []
                      | _ => []
                      end) ops.

(* the one request ever filed for p in this case (after RequestRecovery's trimming), and the lows of later truncations *)
Definition watched (cfg : rcfg) (ops : list rop) (p : Z) : option (Z * Z * list Z) :=
  if (length (filter (mentions_req p) ops) =? 1)%nat && negb (existsb (disturbs p) ops) then
    match split_at_req p ops with
    | Some (f, t, rest) =>
        let f0 := if t - f >? c_maxrec cfg then t - c_maxrec cfg else f in
        Some (f0, t, trunc_lows p rest)
    | None => None
    end
  else None.

Definition max_window : Z := 5000.

Record cover := {
  cv_done : bool;           (* the request is no longer tracked at the end of the case *)
  cv_missing : list Z;      (* offsets of [max from lows, to) resp. [.., progress) that were never emitted *)
  cv_outside : list Z;      (* recovery events of p outside [from, to] *)
}.

Definition cover_of (cfg : rcfg) (ops : list rop) (l : list opobs) (p : Z) : option (cover * (Z * Z * list Z)) :=
  match watched cfg ops p with
  | Some (f0, t, lows) =>
      let emitted := flat_map (fun a => flat_map (fun e => if Z.eqb (fst e) p then [snd e] else []) (rec_emits (b_emits a))) l in
      let final := reqs_of (b_trk (last l obs0)) p in
      let done := negb (existsb (fun r => snd r =? t) final) in
      let hi := if done then t else match final with (rf, _) :: _ => rf | [] => t end in
      let lo := fold_left Z.max lows f0 in
      if hi - lo <=? max_window then
        let required := zrange lo (Z.to_nat (hi - lo)) in
        Some ({| cv_done := done;
                 cv_missing := filter (fun o => negb (memZ o emitted)) required;
                 cv_outside := filter (fun o => (o <? f0) || (t <? o)) emitted |}, (f0, t, lows))
      else None
  | None => None
  end.

Definition partitions : list Z := zrange 0 16.

(* offsets put at risk by unrestricted stragglers (known finding F11): a Wild record of p at offset o, delivered when the
   client's position was n and the window (f, t], that was a progress point (multiple of updateRequestEvery, o < t) or
   beyond t: the records n .. min(o-1, t) may never be emitted if a re-assignment / completion follows *)
Definition wild_risk (cfg : rcfg) (p : Z) (op : rop) (b a : opobs) : list Z :=
  match op with
  | Wild q d =>
      if q =? p then
        match pget p (b_cli b), pget p (b_active b) with
        | Some n, Some (f, t) =>
            let o := n + 1 + Z.abs d in
            if (f <=? o) && (((o mod c_every cfg =? 0) && (o <? t)) || (t <? o))
            then zrange n (Z.to_nat (Z.min o (t + 1) - n)) else []
        | _, _ => []
        end
      else []
  | _ => []
  end.

(* detail [1]: the only missing offsets are window starts (the request's from, or the low watermark a truncation
   restarted from) - the known defect F6; detail [4; p; o]: besides those only offsets put at risk by an unrestricted
   straggler are missing - known finding F11; detail [2; p; o]: some other offset o is missing *)
Definition cover_fails (cl : Z) (want_done : bool) (cfg : rcfg) (ops : list rop) (l : list opobs) : list fail :=
  flat_map (fun p =>
    match cover_of cfg ops l p with
    | Some (cv, (f0, t, lows)) =>
        if Bool.eqb (cv_done cv) want_done then
          let nonstart := filter (fun o => negb (memZ o (f0 :: lows))) (cv_missing cv) in
          let risk := scan (wild_risk cfg p) ops obs0 l in
          match filter (fun o => negb (memZ o risk)) nonstart with
          | o :: _ => [(cl, [2; p; o])]
          | [] =>
              match nonstart with
              | o :: _ => [(cl, [4; p; o])]
              | [] => match cv_missing cv with [] => [] | _ => [(cl, [1])] end
              end
          end
        else []
    | None => []
    end) partitions.

Definition outside_fails (cl : Z) (cfg : rcfg) (ops : list rop) (l : list opobs) : list fail :=
  flat_map (fun p =>
    match cover_of cfg ops l p with
    | Some (cv, _) => match cv_outside cv with o :: _ => [(cl, [3; p; o])] | [] => [] end
    | None => []
    end) partitions.

Definition dedup_fail (l : list fail) : list fail :=
  fold_right (fun x acc => if existsb (fun y => (fst x =? fst y) && list_eqb Z.eqb (snd x) (snd y)) acc then acc else x :: acc) [] l.

Definition spec_c07 (cfg : rcfg) (ops : list rop) (l : list opobs) : list fail :=
  if (length l =? length ops)%nat then
    dedup_fail (cover_fails 1 true cfg ops l ++ scan c07_flags ops obs0 l ++ scan c07_complete ops obs0 l
                ++ scan c07_trunc ops obs0 l ++ outside_fails 5 cfg ops l)
  else [(0, [])].

(* ---------------- C09 ---------------- *)
(* what RefreshAssignments must establish: owned partitions with an outstanding request; from = the request's from,
   or the from already reached if the partition was active *)
Definition expected_active (ow : list Z) (trkr : tstate) (act : amap) : amap :=
  flat_map (fun p => match head_req trkr p with
                     | Some (f, t) => [(p, (match pget p act with Some (af, _) => Z.max f af | None => f end, t))]
                     | None => []
                     end) (sort_uniq ow).
Definition keys_tos (m : amap) : list (Z * Z) := map (fun e => (fst e, snd (snd e))) m.

(* clause 1: after a refresh the consumer reads exactly the owned partitions with an outstanding request; the
   client is re-assigned (Unassign, Assign at the from offsets) iff the partition set or some to changed *)
Definition c09_refresh_after (trk_at_refresh : tstate) (ow : list Z) (act_before : amap) (calls : list ccall) (a : opobs) : list fail :=
  let want := expected_active ow trk_at_refresh act_before in
  if list_eqb zz_eqb (keys_tos want) (keys_tos act_before) then
    if amap_eqb (b_active a) act_before && match calls with [] => true | _ => false end then [] else [(1, [1])]
  else
    if amap_eqb (b_active a) want && list_eqb call_eqb calls [CUnassign; CAssign (assign_arg want)] then [] else [(1, [2])].

Definition c09_refresh (op : rop) (b a : opobs) : list fail :=
  match op with
  | Refresh => c09_refresh_after (b_trk b) (b_owned b) (b_active b) (b_calls a) a
  | Revoke =>
      (match b_owned a, b_active a with [], [] => [] | _, _ => [(1, [3])] end)
      ++ c09_refresh_after (b_trk b) [] (b_active b) (b_calls a) a
  | _ =>
      match single_record op b with
      | Some (p, o) =>
          match pget p (b_active b) with
          | Some (f, t) =>
              if (f <=? o) && (t <? o)
              then c09_refresh_after (b_trk a) (b_owned b) (b_active b) (b_calls a) a     (* completion refreshes at once *)
              else match b_calls a with [] => [] | _ => [(1, [4])] end
          | None => match b_calls a with [] => [] | _ => [(1, [4])] end
          end
      | None => []
      end
  end.

(* clause 4: nothing is recovered between a revocation and the next assignment *)
Fixpoint c09_revoked (ops : list rop) (l : list opobs) (revoked : bool) : list fail :=
  match ops, l with
  | op :: ops', a :: l' =>
      let r := match op with
               | Revoke | Crash | RecCrash _ => true
               | SetOwned _ | MAssign _ _ => false
               | _ => revoked
               end in
      (if revoked && match rec_emits (b_emits a) with [] => false | _ => true end then [(4, [1])] else [])
      ++ c09_revoked ops' l' r
  | _, _ => []
  end.

(* clause 5: the owned set follows assignment and revocation *)
Definition c09_owned (op : rop) (b a : opobs) : list fail :=
  let same := list_eqb Z.eqb (b_owned a) (b_owned b) in
  match op with
  | SetOwned ps => if list_eqb Z.eqb (b_owned a) ps then [] else [(5, [1])]
  | MAssign cerr pcs =>
      if b_err a then (if same then [] else [(5, [2])])
      else if list_eqb Z.eqb (b_owned a) (map fst pcs) then [] else [(5, [3])]
  | Revoke | Crash | RecCrash _ => match b_owned a with [] => [] | _ => [(5, [4])] end
  | _ => if same then [] else [(5, [5])]
  end.

(* clause 6: after the instance stopped (Crash / RecCrash), its successor's tracker holds, for every partition, exactly the
   last snapshot broadcast or delivered for it so far (nothing if none).  [log] is every recoveryrequest message put on
   the messaging topic so far, computed from the observations only: the snapshots delivered from other senders
   (Deliver (MReq ..)) and the broadcasts each op was observed to send.  The comparison is per partition, so it does not
   depend on the (stable) sort by partition of b_sent / b_trk: what a replay holds for p is the last entry of the log
   for p *)
Definition successor_ok (trk_after : tstate) (log : list bcast) : bool :=
  let want := replay log in
  forallb (fun p => req_list_eqb (reqs_of trk_after p) (reqs_of want p)) partitions.

Fixpoint c09_successor (ops : list rop) (l : list opobs) (log : list bcast) : list fail :=
  match ops, l with
  | op :: ops', a :: l' =>
      let log' := log ++ (match op with Deliver (MReq p rs) => [(p, rs)] | _ => [] end) ++ b_sent a in
      (match op with
       | Crash | RecCrash _ => if successor_ok (b_trk a) log' then [] else [(6, [1])]
       | _ => []
       end) ++ c09_successor ops' l' log'
  | _, _ => []
  end.

Definition has_handoff (ops : list rop) : bool :=
  existsb (fun op => match op with Crash | Revoke | RecCrash _ => true | _ => false end) ops.

Definition spec_c09 (cfg : rcfg) (ops : list rop) (l : list opobs) : list fail :=
  if (length l =? length ops)%nat then
    dedup_fail (scan c09_refresh ops obs0 l
                ++ (if has_handoff ops then cover_fails 2 true cfg ops l ++ outside_fails 2 cfg ops l else [])
                ++ cover_fails 3 false cfg ops l
                ++ c09_revoked ops l false ++ scan c09_owned ops obs0 l ++ c09_successor ops l [])
  else [(0, [])].

(* ---------------- C19 ---------------- *)
(* clause 1: exactly one limiter wait per emitted recovery event, taken BEFORE the event is emitted (the k-th wait of
   an op sees k-1 emitted events) and taken on the consumer's own context, never on a deadline-limited one; no wait for anything else, in particular none for main-consumer records *)
Definition c19_waits_core (op : rop) (b a : opobs) : list fail :=
  match op with
  | RecCrash _ =>
      (* the owner died while handling a record: nothing was emitted; at most the one wait of the record it was
         about to emit had been taken *)
      match b_emits a with
      | [] => if list_eqb Z.eqb (b_waits a) [] || list_eqb Z.eqb (b_waits a) [0] then [] else [(1, [3])]
      | _ => [(1, [3])]
      end
  | _ =>
      let n := length (rec_emits (b_emits a)) in
      if list_eqb Z.eqb (b_waits a) (zrange 0 n)
         && (length (b_emits a) =? match op with MainRec _ _ => 1 | _ => n end)%nat
      then [] else [(1, [match op with MainRec _ _ => 2 | _ => 1 end])]
  end.

(* detail [4]: a wait was taken on a context derived from the consumer's (negative entry): it could be abandoned by a
   deadline, i.e. the record emitted without its token *)
Definition c19_waits (op : rop) (b a : opobs) : list fail :=
  if existsb (fun w => w <? 0) (b_waits a) then [(1, [4])] else c19_waits_core op b a.

Definition spec_c19_logic (ops : list rop) (l : list opobs) : list fail :=
  if (length l =? length ops)%nat then dedup_fail (scan c19_waits ops obs0 l) else [(0, [])].

(* timing case: the limiter built by the REAL constructor has limit = parallelrecoverymaxrate and burst 100 (clause 2),
   n recovery events took at least (n-100)/rate seconds, less 5 ms of measuring slack (clause 3), all were emitted
   (clause 4), and the interleaved main-consumer records were passed on without waiting for tokens: together they took
   less than a quarter of what the same number of tokens would take, or 100 ms (clause 5) *)
Definition spec_c19_timing (rate n nmain : Z) (t : tobs) : list fail :=
  (if (t_limit_milli t =? rate * 1000) && (t_burst t =? 100) then [] else [(2, [])])
  ++ (if (n - 100) * 1000000 <=? (t_elapsed_us t + 5000) * rate then [] else [(3, [])])
  ++ (if (t_emitted t =? n) && (t_mainemitted t =? nmain) then [] else [(4, [])])
  ++ (if t_main_us t <=? Z.max 100000 (nmain * 250000 / rate) then [] else [(5, [])]).

(* ---------------- wire ---------------- *)
Definition dec_pair (t : tree) : option (Z * Z) :=
  match t with T [L a; L b] => Some (a, b) | _ => None end.
Definition dec_triple (t : tree) : option (Z * (Z * Z)) :=
  match t with T [L a; L b; L c] => Some (a, (b, c)) | _ => None end.
Definition okp (p : Z) : bool := (0 <=? p) && (p <? 16).
Definition dec_msg (t : tree) : option msg :=
  match t with
  | T [L 1; L p; rs] => if okp p then bind (getList dec_pair rs) (fun rs => Some (MReq p rs)) else None
  | T [L 2; L p] => if okp p then Some (MGarbage p) else None
  | T [L 3] => Some MCancel
  | T [L 4] => Some MUnknown
  | _ => None
  end.
Definition dec_op (t : tree) : option rop :=
  match t with
  | T [L 1; L p; L k] => if okp p && (0 <=? k) && (k <=? 2000) then Some (Pump p (Z.to_nat k)) else None
  | T [L 2; L p; L d] => if okp p then Some (Stale p d) else None
  | T [L 3; L p; L o] => if okp p then Some (RawRec p o) else None
  | T [L 4; L p; L o] => if okp p then Some (MainRec p o) else None
  | T [L 5; L c; w; lows] =>
      w <- getB w ;; lows <- getList dec_pair lows ;;
      if forallb (fun x => okp (fst x)) lows then Some (KErr c w lows) else None
  | T [L 6] => Some Refresh
  | T [L 7; ps] => ps <- getZs ps ;; if forallb okp ps then Some (SetOwned ps) else None
  | T [L 8] => Some Revoke
  | T [L 9; L p; L f; L t'] => if okp p then Some (Request p f t') else None
  | T [L 10; ce; pcs] =>
      ce <- getB ce ;; pcs <- getList dec_triple pcs ;;
      if forallb (fun x => okp (fst x)) pcs then Some (MAssign ce pcs) else None
  | T [L 11; m] => m <- dec_msg m ;; Some (Deliver m)
  | T [L 12] => Some Crash
  | T [L 16] => Some Crash     (* the successor is a live peer that received every broadcast in order: the same model step *)
  | T [L 13; L p; L d] => if okp p then Some (Ahead p d) else None
  | T [L 14; L p] => if okp p then Some (RecCrash p) else None
  | T [L 15; L p; L d] => if okp p then Some (Wild p d) else None
  | _ => None
  end.
Definition dec_input (t : tree) : option input :=
  match t with
  | T [L 0; T [L mr; L ev; L ml]; ops] =>
      ops <- getList dec_op ops ;;
      if (1 <=? ev) then Some (ILogic {| c_maxrec := mr; c_every := ev; c_maxlag := ml |} ops) else None
  | T (L 1 :: L rate :: L n :: L np :: L nm :: _) => if (1 <=? rate) then Some (ITiming rate n np nm) else None
  | _ => None
  end.

Definition dec_emit (t : tree) : option (Z * Z * bool) :=
  match t with T [L p; L o; b] => b <- getB b ;; Some (p, o, b) | _ => None end.
Definition dec_call (t : tree) : option ccall :=
  match t with
  | T [L 0] => Some CUnassign
  | T [L 1; l] => l <- getList dec_pair l ;; Some (CAssign l)
  | _ => None
  end.
Definition dec_bcast (t : tree) : option bcast :=
  match t with T [L p; rs] => bind (getList dec_pair rs) (fun rs => Some (p, rs)) | _ => None end.
Definition dec_opobs (t : tree) : option opobs :=
  match t with
  | T [em; ca; se; er; L ac; wa; act; ow; tr; cl] =>
      em <- getList dec_emit em ;; ca <- getList dec_call ca ;; se <- getList dec_bcast se ;; er <- getB er ;;
      wa <- getZs wa ;; act <- getList dec_triple act ;; ow <- getZs ow ;; tr <- getList dec_bcast tr ;;
      cl <- getList dec_pair cl ;;
      Some {| b_emits := em; b_calls := ca; b_sent := se; b_err := er; b_acks := ac; b_waits := wa;
              b_active := act; b_owned := ow; b_trk := tr; b_cli := cl |}
  | _ => None
  end.
Definition dec_obs (t : tree) : option obs :=
  match t with
  | T [L 0; l] => l <- getList dec_opobs l ;; Some (OLogic l)
  | T [L 1; L a; L b; L c; L d; L e; L f; L g] =>
      Some (OTiming {| t_limit_milli := a; t_burst := b; t_every := c; t_elapsed_us := d; t_main_us := e;
                       t_emitted := f; t_mainemitted := g |})
  | _ => None
  end.

Definition enc_pair (p : Z * Z) : tree := T [L (fst p); L (snd p)].
Definition enc_triple (p : Z * (Z * Z)) : tree := T [L (fst p); L (fst (snd p)); L (snd (snd p))].
Definition enc_bcast (b : bcast) : tree := T [L (fst b); ofList enc_pair (snd b)].
Definition enc_call (c : ccall) : tree :=
  match c with CUnassign => T [L 0] | CAssign l => T [L 1; ofList enc_pair l] end.
Definition enc_emit (e : Z * Z * bool) : tree := T [L (fst (fst e)); L (snd (fst e)); ofB (snd e)].
Definition enc_opobs (a : opobs) : tree :=
  T [ofList enc_emit (b_emits a); ofList enc_call (b_calls a); ofList enc_bcast (b_sent a); ofB (b_err a);
     L (b_acks a); ofZs (b_waits a); ofList enc_triple (b_active a); ofZs (b_owned a); ofList enc_bcast (b_trk a);
     ofList enc_pair (b_cli a)].
Definition enc_obs (o : obs) : tree :=
  match o with
  | OLogic l => T [L 0; ofList enc_opobs l]
  | OTiming t => T [L 1; L (t_limit_milli t); L (t_burst t); L (t_every t); L (t_elapsed_us t); L (t_main_us t);
                    L (t_emitted t); L (t_mainemitted t)]
  end.

(* ---------------- comparison ----------------
   observable components: 1 emitted events, 2 calls on the recovery client, 3 messages sent, 4 error result / acks,
   5 limiter waits, 6 active map, 7 owned partitions, 8 tracker contents, 9 positions of the scripted client,
   10 limiter parameters of the really constructed consumer (timing cases), 11 shape (number of ops observed) *)
Definition all_eq {A} (f : A -> A -> bool) (la lb : list A) : bool := list_eqb f la lb.
Definition obs_diffs (m o : obs) : list Z :=
  match m, o with
  | OLogic a, OLogic b =>
      diff_if (length a =? length b)%nat 11
      ++ diff_if (all_eq (fun x y => list_eqb emit_eqb (b_emits x) (b_emits y)) a b) 1
      ++ diff_if (all_eq (fun x y => list_eqb call_eqb (b_calls x) (b_calls y)) a b) 2
      ++ diff_if (all_eq (fun x y => list_eqb bcast_eqb (b_sent x) (b_sent y)) a b) 3
      ++ diff_if (all_eq (fun x y => Bool.eqb (b_err x) (b_err y) && (b_acks x =? b_acks y)) a b) 4
      ++ diff_if (all_eq (fun x y => list_eqb Z.eqb (b_waits x) (b_waits y)) a b) 5
      ++ diff_if (all_eq (fun x y => amap_eqb (b_active x) (b_active y)) a b) 6
      ++ diff_if (all_eq (fun x y => list_eqb Z.eqb (b_owned x) (b_owned y)) a b) 7
      ++ diff_if (all_eq (fun x y => list_eqb bcast_eqb (b_trk x) (b_trk y)) a b) 8
      ++ diff_if (all_eq (fun x y => list_eqb zz_eqb (b_cli x) (b_cli y)) a b) 9
  | OTiming a, OTiming b =>
      diff_if ((t_limit_milli a =? t_limit_milli b) && (t_burst a =? t_burst b) && (t_every a =? t_every b)) 10
  | _, _ => [11]
  end.

(* ---------------- tags ----------------
   1 nothing recovered, 2 no watched request (coverage clauses vacuous), 3 timing case,
   10 recovery events emitted, 11 completion by a record, 12 truncation moved a from, 13 truncation closed a request,
   14 crash while a request is outstanding, 15 coverage judged on a completed request, 16 coverage judged on an
   outstanding request that has progressed, 17 a refresh re-assigned the client, 18 a record was emitted twice,
   19 timing case with n > 100, 20 several partitions active at once, 21 main and recovery events in one case,
   22 a straggler ahead of the client's position was emitted, 23 the owner died blocked on the emission of a record,
   24 an unrestricted straggler on the progress grid / beyond to was delivered (F11 exposure) *)
Definition tag_if (b : bool) (t : Z) : list Z := if b then [t] else [].
Fixpoint has_dup (l : list (Z * Z)) : bool :=
  match l with [] => false | x :: r => existsb (zz_eqb x) r || has_dup r end.
Definition tags (i : input) : list Z :=
  match i with
  | ITiming rate n _ _ => 3 :: tag_if (100 <? n) 19
  | ILogic cfg ops =>
      let run := rrun cfg init_state ops in
      let l := map (fun so => mk_opobs (fst so) (snd so)) run in
      let ems := flat_map (fun a => rec_emits (b_emits a)) l in
      let covs := flat_map (fun p => match cover_of cfg ops l p with Some (cv, _) => [cv] | None => [] end) partitions in
      tag_if (match ems with [] => true | _ => false end) 1
      ++ tag_if (match covs with [] => true | _ => false end) 2
      ++ tag_if (match ems with [] => false | _ => true end) 10
      ++ tag_if (existsb (fun x => match x with (op, b, a) =>
                    match rec_partition op with
                    | Some p => negb (req_list_eqb (reqs_of (b_trk b) p) (reqs_of (b_trk a) p))
                                && (length (reqs_of (b_trk a) p) <? length (reqs_of (b_trk b) p))%nat
                    | None => false end end)
                  (combine (combine ops (obs0 :: l)) l)) 11
      ++ tag_if (existsb (fun x => match x with (op, b, a) =>
                    match op with KErr _ _ _ => negb (list_eqb bcast_eqb (b_trk b) (b_trk a))
                                               && (length (flat_map snd (b_trk a)) =? length (flat_map snd (b_trk b)))%nat
                    | _ => false end end) (combine (combine ops (obs0 :: l)) l)) 12
      ++ tag_if (existsb (fun x => match x with (op, b, a) =>
                    match op with KErr _ _ _ => (length (flat_map snd (b_trk a)) <? length (flat_map snd (b_trk b)))%nat
                    | _ => false end end) (combine (combine ops (obs0 :: l)) l)) 13
      ++ tag_if (existsb (fun x => match x with (op, b) =>
                    match op with Crash | RecCrash _ => negb (match flat_map snd (b_trk b) with [] => true | _ => false end) | _ => false end end)
                  (combine ops (obs0 :: l))) 14
      ++ tag_if (existsb (fun cv => cv_done cv) covs) 15
      ++ tag_if (existsb (fun cv => negb (cv_done cv) && negb (match cv_missing cv with [] => true | _ => false end)) covs
                 || existsb (fun cv => negb (cv_done cv)) covs && negb (match ems with [] => true | _ => false end)) 16
      ++ tag_if (existsb (fun a => match b_calls a with [] => false | _ => true end) l) 17
      ++ tag_if (has_dup ems) 18
      ++ tag_if (existsb (fun a => (2 <=? length (b_active a))%nat) l) 20
      ++ tag_if (negb (match ems with [] => true | _ => false end)
                 && existsb (fun op => match op with MainRec _ _ => true | _ => false end) ops) 21
      ++ tag_if (existsb (fun x => match x with (op, a) =>
                    match op with Ahead _ _ => negb (match b_emits a with [] => true | _ => false end) | _ => false end end)
                  (combine ops l)) 22
      ++ tag_if (existsb (fun x => match x with (op, a) =>
                    match op with RecCrash _ => negb (match b_waits a with [] => true | _ => false end) | _ => false end end)
                  (combine ops l)) 23
      ++ tag_if (existsb (fun p => negb (match scan (wild_risk cfg p) ops obs0 l with [] => true | _ => false end)) partitions) 24
  end.

Definition enc_fail (prop : Z) (f : fail) : tree := clause prop (fst f) (map L (snd f)).

Definition spec_all (i : input) (o : obs) : list tree :=
  match i, o with
  | ILogic cfg ops, OLogic l =>
      map (enc_fail 7) (spec_c07 cfg ops l) ++ map (enc_fail 9) (spec_c09 cfg ops l)
      ++ map (enc_fail 19) (spec_c19_logic ops l)
  | ITiming rate n np nm, OTiming t => map (enc_fail 19) (spec_c19_timing rate n nm t)
  | _, _ => [clause 7 0 []; clause 9 0 []; clause 19 0 []]
  end.

(* case := T [input; impl_obs] *)
Definition judge (t : tree) : tree :=
  match t with
  | T [ti; to] =>
      match dec_input ti, dec_obs to with
      | Some i, Some o =>
          let m := model_obs i in
          verdict (obs_diffs m o) (spec_all i o) (enc_obs m) (tags i)
      | _, _ => malformed
      end
  | _ => malformed
  end.
