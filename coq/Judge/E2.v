(* E2 judge: decode a case, run the model, compare with the implementation's
   observation, evaluate the C06 clauses on the implementation's observation. *)
From Coq Require Import List ZArith Bool.
From FB Require Import Lib.Sexp Lib.Eqb Model.Tracker Model.Offsets.
Import ListNotations.
Open Scope Z_scope.

Record input := { i_cfg : acfg; i_parts : list Z; i_com : cres; i_wms : list wres; i_afail : bool }.

Record obs := {
  o_err : bool;
  o_assign : option (list (Z * Z));
  o_sent : list bcast;
  o_owned : option (list (Z * Z));
}.

Definition model_obs (i : input) : obs :=
  let r := assign (i_cfg i) (i_parts i) (i_com i) (i_wms i) (i_afail i) in
  {| o_err := a_err r; o_assign := a_assign r;
     o_sent := snd (file_all [] (a_filed r)); o_owned := a_owned r |}.

(* ---------- the statement of C06, as a decision procedure on observations ---------- *)

(* closed forms from the property text *)
Definition expected_start (cfg : acfg) (c high : Z) : Z :=
  if high - c <=? maxlag cfg then c else high - maxlag cfg.
Definition expected_req (cfg : acfg) (c high : Z) : option (Z * Z) :=
  if recov cfg && (high - c >? maxlag cfg)
  then Some (Z.max c (high - maxlag cfg - maxrec cfg), high - maxlag cfg)
  else None.

Fixpoint all_ok (wms : list wres) : option (list (Z * Z)) :=
  match wms with
  | [] => Some []
  | WErr :: _ => None
  | WOk l h :: rest => match all_ok rest with Some r => Some ((l, h) :: r) | None => None end
  end.

(* the quantifier of C06 *)
Definition in_domain (cfg : acfg) (parts : list Z) (offs : list (Z * Z)) (lh : list (Z * Z)) : bool :=
  (0 <=? maxlag cfg) && (1 <=? maxrec cfg) && nodupb parts
  && (length parts =? length lh)%nat
  && forallb (fun p => 0 <=? committed_of p offs) parts
  && forallb (fun x => 0 <=? snd x) lh.

Definition exp_assign (cfg : acfg) (offs : list (Z * Z)) (pl : list (Z * (Z * Z))) : list (Z * Z) :=
  map (fun x => (fst x, expected_start cfg (committed_of (fst x) offs) (snd (snd x)))) pl.
Definition exp_sent (cfg : acfg) (offs : list (Z * Z)) (pl : list (Z * (Z * Z))) : list bcast :=
  flat_map (fun x => match expected_req cfg (committed_of (fst x) offs) (snd (snd x)) with
                     | Some ft => [(fst x, [ft])]
                     | None => []
                     end) pl.

Definition assign_eqb := opt_eqb (list_eqb zz_eqb).
Definition bcast_eqb : bcast -> bcast -> bool := pair_eqb Z.eqb (list_eqb zz_eqb).
Definition sent_eqb := list_eqb bcast_eqb.

Definition isSome {A} (o : option A) : bool := match o with Some _ => true | None => false end.

(* failing clause numbers: 1 start offsets, 2 recovery requests, 3 error reporting, 4 recovery consumer kept in sync *)
Definition spec_c06 (i : input) (o : obs) : list Z :=
  (* only the first |parts| watermark answers are ever asked for *)
  match i_com i, all_ok (firstn (length (i_parts i)) (i_wms i)) with
  | COk offs, Some lh =>
      if in_domain (i_cfg i) (i_parts i) offs lh then
        let pl := combine (i_parts i) lh in
        let ea := exp_assign (i_cfg i) offs pl in
        (if assign_eqb (o_assign o) (Some ea) then [] else [1])
        ++ (if sent_eqb (o_sent o) (exp_sent (i_cfg i) offs pl) then [] else [2])
        ++ (if Bool.eqb (o_err o) (i_afail i) then [] else [3])
        ++ (if assign_eqb (o_owned o)
                 (if i_afail i then None else if recov (i_cfg i) then Some ea else None)
            then [] else [4])
      else []
  | _, _ =>
      (* a query failed: the failure is reported, nothing is assigned *)
      if o_err o && negb (isSome (o_assign o)) && negb (isSome (o_owned o)) then [] else [3]
  end.

(* ---------- wire ---------- *)
Definition dec_pair (t : tree) : option (Z * Z) :=
  match t with T [L a; L b] => Some (a, b) | _ => None end.
Definition dec_wres (t : tree) : option wres :=
  match t with T [] => Some WErr | T [L l; L h] => Some (WOk l h) | _ => None end.
Definition dec_cres (t : tree) : option cres :=
  match t with
  | T [] => Some CErr
  | T [l] => bind (getList dec_pair l) (fun offs => Some (COk offs))
  | _ => None
  end.
Definition dec_input (t : tree) : option input :=
  match t with
  | T [T [L ml; rc; L mr]; parts; com; wms; af] =>
      rc <- getB rc ;; parts <- getZs parts ;; com <- dec_cres com ;;
      wms <- getList dec_wres wms ;; af <- getB af ;;
      (* the scripted client answers a query beyond its script with an error *)
      Some {| i_cfg := {| maxlag := ml; recov := rc; maxrec := mr |};
              i_parts := parts; i_com := com; i_wms := wms ++ repeat WErr (length parts - length wms); i_afail := af |}
  | _ => None
  end.
Definition dec_bcast (t : tree) : option bcast :=
  match t with T [L p; rs] => bind (getList dec_pair rs) (fun rs => Some (p, rs)) | _ => None end.
Definition dec_obs (t : tree) : option obs :=
  match t with
  | T [e; a; s; w] =>
      e <- getB e ;; a <- getOpt (getList dec_pair) a ;; s <- getList dec_bcast s ;;
      w <- getOpt (getList dec_pair) w ;;
      Some {| o_err := e; o_assign := a; o_sent := s; o_owned := w |}
  | _ => None
  end.

Definition enc_pair (p : Z * Z) : tree := T [L (fst p); L (snd p)].
Definition enc_bcast (b : bcast) : tree := T [L (fst b); ofList enc_pair (snd b)].
Definition enc_obs (o : obs) : tree :=
  T [ofB (o_err o); ofOpt (ofList enc_pair) (o_assign o); ofList enc_bcast (o_sent o);
     ofOpt (ofList enc_pair) (o_owned o)].

(* observable components: 1 error result, 2 Assign argument, 3 broadcasts, 4 SetAssignedPartitions argument *)
Definition obs_diffs (a b : obs) : list Z :=
  diff_if (Bool.eqb (o_err a) (o_err b)) 1 ++ diff_if (assign_eqb (o_assign a) (o_assign b)) 2
  ++ diff_if (sent_eqb (o_sent a) (o_sent b)) 3 ++ diff_if (assign_eqb (o_owned a) (o_owned b)) 4.

(* branch tags for the input distribution: 1 committed error, 2 watermark error, 3 assign error,
   10 some partition kept its committed offset, 11 some partition was capped,
   12 a request was filed, 13 a request was trimmed, 14 out of C06's domain *)
Definition tags (i : input) : list Z :=
  match i_com i with
  | CErr => [1]
  | COk offs =>
      match all_ok (firstn (length (i_parts i)) (i_wms i)) with
      | None => [2]
      | Some lh =>
          let pl := combine (i_parts i) lh in
          let cfg := i_cfg i in
          (if i_afail i then [3] else [])
          ++ (if existsb (fun x => snd (snd x) - committed_of (fst x) offs <=? maxlag cfg) pl then [10] else [])
          ++ (if existsb (fun x => snd (snd x) - committed_of (fst x) offs >? maxlag cfg) pl then [11] else [])
          ++ (if existsb (fun x => isSome (expected_req cfg (committed_of (fst x) offs) (snd (snd x)))) pl then [12] else [])
          ++ (if existsb (fun x => match expected_req cfg (committed_of (fst x) offs) (snd (snd x)) with
                                   | Some (f, _) => negb (f =? committed_of (fst x) offs) | None => false end) pl
              then [13] else [])
          ++ (if in_domain cfg (i_parts i) offs lh then [] else [14])
      end
  end.

(* ---------- retry scenarios: (7 cfg parts (attempt...) cancel), attempt = (committed wms assign_err) ----------
   observation = (number of Committed() calls, every Assign argument in order, every broadcast in order,
   the recovery consumer's owned list at the end) *)
Record rinput := { r_cfg : acfg; r_parts : list Z; r_atts : list attempt; r_cancel : nat }.
Record robs := { ro_calls : nat; ro_assigns : list (list (Z * Z)); ro_sent : list bcast; ro_owned : option (list (Z * Z)) }.

(* a loop that ends without success ended by the revocation, which also empties the recovery consumer's owned
   list (revokePartitionAssignments: SetAssignedPartitions([]) when parallel recovery is on) *)
Definition last_owned (rc : bool) (rs : list ares) : option (list (Z * Z)) :=
  match rev rs with
  | r :: _ => if a_err r then (if rc then Some [] else None) else a_owned r
  | [] => None
  end.
Fixpoint opt_list {A} (l : list (option A)) : list A :=
  match l with [] => [] | Some x :: r => x :: opt_list r | None :: r => opt_list r end.

Definition model_robs (i : rinput) : robs :=
  let rs := retry (r_cfg i) (r_parts i) (r_atts i) (r_cancel i) in
  {| ro_calls := length rs; ro_assigns := opt_list (map a_assign rs);
     ro_sent := snd (file_all [] (flat_map a_filed rs)); ro_owned := last_owned (recov (r_cfg i)) rs |}.

(* whether an attempt's broker answers make it fail (Committed error, a watermark error among those asked, Assign error) *)
Definition attempt_fails (parts : list Z) (a : attempt) : bool :=
  match at_com a with
  | CErr => true
  | COk _ => match all_ok (firstn (length parts) (at_wms a)) with None => true | Some _ => at_fail a end
  end.
(* number of attempts the property prescribes: keep trying after every failure until success or revocation *)
Fixpoint expected_attempts (parts : list Z) (atts : list attempt) (cancel : nat) : nat :=
  match atts with
  | [] => 0%nat
  | a :: rest => S (if attempt_fails parts a then match cancel with O => 0%nat | S c => expected_attempts parts rest c end else 0%nat)
  end.

(* clause 5: a failed assignment is retried (as many attempts as prescribed, no more);
   clause 6: the recovery consumer ends up owning exactly what the successful attempt assigned, or nothing new *)
Definition spec_c06_retry (i : rinput) (o : robs) : list Z :=
  (if Nat.eqb (ro_calls o) (expected_attempts (r_parts i) (r_atts i) (r_cancel i)) then [] else [5])
  ++ (match ro_owned o with
      | Some l => if (match l with [] => true | _ => existsb (fun a => list_eqb zz_eqb a l) (ro_assigns o) end) && recov (r_cfg i) then [] else [6]
      | None => []
      end).

(* clause 7: what is on record after the retries - for every partition the last snapshot broadcast - is what the
   attempts' assignments filed, request by request (an exact repeat of a snapshot changes nothing; a request that was
   not filed, or filed differently, does) *)
Definition last_snap (p : Z) (l : list bcast) : option (list (Z * Z)) :=
  fold_left (fun acc m => if fst m =? p then Some (snd m) else acc) l None.
Definition snap_eqb (a b : option (list (Z * Z))) : bool :=
  match a, b with
  | None, None => true
  | Some x, Some y => list_eqb zz_eqb x y
  | _, _ => false
  end.
Definition same_record (a b : list bcast) : bool :=
  forallb (fun p => snap_eqb (last_snap p a) (last_snap p b)) (map fst (a ++ b)).
Definition spec_c06_retry_record (i : rinput) (o : robs) : list Z :=
  if same_record (ro_sent (model_robs i)) (ro_sent o) then [] else [7].

Definition dec_attempt (t : tree) : option attempt :=
  match t with
  | T [com; wms; af] => com <- dec_cres com ;; wms <- getList dec_wres wms ;; af <- getB af ;;
      Some {| at_com := com; at_wms := wms; at_fail := af |}
  | _ => None
  end.
Definition dec_rinput (t : tree) : option rinput :=
  match t with
  | T [L 7; T [L ml; rc; L mr]; parts; atts; cancel] =>
      rc <- getB rc ;; parts <- getZs parts ;; atts <- getList dec_attempt atts ;; cancel <- getNat cancel ;;
      Some {| r_cfg := {| maxlag := ml; recov := rc; maxrec := mr |}; r_parts := parts;
              r_atts := map (fun a => {| at_com := at_com a; at_wms := at_wms a ++ repeat WErr (length parts - length (at_wms a));
                                         at_fail := at_fail a |}) atts;
              r_cancel := cancel |}
  | _ => None
  end.
Definition dec_robs (t : tree) : option robs :=
  match t with
  | T [n; assigns; sent; owned] =>
      n <- getNat n ;; assigns <- getList (getList dec_pair) assigns ;; sent <- getList dec_bcast sent ;;
      owned <- getOpt (getList dec_pair) owned ;;
      Some {| ro_calls := n; ro_assigns := assigns; ro_sent := sent; ro_owned := owned |}
  | _ => None
  end.
Definition enc_robs (o : robs) : tree :=
  T [ofNat (ro_calls o); ofList (ofList enc_pair) (ro_assigns o); ofList enc_bcast (ro_sent o);
     ofOpt (ofList enc_pair) (ro_owned o)].
(* components: 5 number of attempts, 2 Assign arguments, 3 broadcasts, 4 owned *)
Definition robs_diffs (a b : robs) : list Z :=
  diff_if (Nat.eqb (ro_calls a) (ro_calls b)) 5
  ++ diff_if (list_eqb (list_eqb zz_eqb) (ro_assigns a) (ro_assigns b)) 2
  ++ diff_if (sent_eqb (ro_sent a) (ro_sent b)) 3 ++ diff_if (assign_eqb (ro_owned a) (ro_owned b)) 4.

(* a retry scenario is well-formed when the loop ends within its script: by a successful attempt or by the revocation *)
Definition retry_ends (i : rinput) : bool :=
  let n := expected_attempts (r_parts i) (r_atts i) (r_cancel i) in
  match rev (firstn n (r_atts i)) with
  | a :: _ => negb (attempt_fails (r_parts i) a) || Nat.eqb n (S (r_cancel i))
  | [] => true
  end.

Definition judge_retry (ti tobs : tree) : tree :=
  match dec_rinput ti, dec_robs tobs with
  | Some i, Some o =>
      if negb (retry_ends i) then malformed else
      let m := model_robs i in
      verdict (robs_diffs m o) (map (fun c => clause 6 c []) (spec_c06_retry i o ++ spec_c06_retry_record i o)) (enc_robs m)
              ([20] ++ (if Nat.ltb 1 (ro_calls m) then [21] else []) ++ (if Nat.ltb (ro_calls m) (length (r_atts i)) then [22] else []))
  | _, _ => malformed
  end.

(* case := T [input; impl_obs] *)
Definition judge (t : tree) : tree :=
  match t with
  | T [(T (L 7 :: _)) as ti; to] => judge_retry ti to
  | T [ti; to] =>
      match dec_input ti, dec_obs to with
      | Some i, Some o =>
          let m := model_obs i in
          verdict (obs_diffs m o) (map (fun c => clause 6 c []) (spec_c06 i o)) (enc_obs m) (tags i)
      | _, _ => malformed
      end
  | _ => malformed
  end.
