(* E6 judge: decode a case (registry, configuration after ${VAR} substitution), run the model of
   config.Read, compare with what config.Read did on the generated YAML file, evaluate the C13
   clauses on the implementation's observation. *)
From Coq Require Import List ZArith Bool.
From FB Require Import Lib.Sexp Lib.Eqb Model.Config.
Import ListNotations.
Open Scope Z_scope.

Record input := { i_pre : preparse; i_regs : regs; i_cfg : config }.

(* o_out: 0 = config.Read returned a Config, 1 = it returned an error, 2 = it panicked.
   o_cfg: the returned Config (source name, transport, shutdown timeout, node tree), when there is one *)
Record obs := { o_out : Z; o_cfg : option config }.

Definition model_obs (i : input) : obs :=
  match read (i_regs i) (i_pre i) (i_cfg i) with
  | Accept c => {| o_out := 0; o_cfg := Some c |}
  | Reject => {| o_out := 1; o_cfg := None |}
  | Panic => {| o_out := 2; o_cfg := None |}
  end.

(* ---------- the five consistency clauses of C13 as decisions (reflect Model.Config's Props) ---------- *)
Definition isSome {A} (o : option A) : bool := match o with Some _ => true | None => false end.
Definition is_regb (rg : regs) (n : cfg) : bool := isSome (lookup (name_of n) (nreg rg)).
Definition consb (rg : regs) (n : cfg) (t : option Z) : bool :=
  match lookup (name_of n) (nreg rg) with Some r => opt_eqb Z.eqb (r_cons r) t | None => true end.

Definition uniqueb (c : config) : bool := nodupb (all_ids (c_nodes c)).
Definition unique'b (c : config) : bool := nodupb (chain_ids (c_nodes c)).
Definition registeredb (rg : regs) (c : config) : bool :=
  match c_src c with Some s => isSome (lookup s (sreg rg)) | None => false end
  && forallb (fun n => is_regb rg n && match handler_of n with Some h => is_regb rg h | None => true end)
             (all_nodes (c_nodes c)).
Definition typedb (rg : regs) (c : config) : bool :=
  match c_src c with
  | Some s => match lookup s (sreg rg) with
              | Some p => forallb (fun n => consb rg n p) (c_nodes c)
              | None => true
              end
  | None => true
  end
  && forallb (fun n => match lookup (name_of n) (nreg rg) with
                       | Some r => forallb (fun k => consb rg k (r_prod r)) (kids_of n)
                       | None => true
                       end) (all_nodes (c_nodes c)).
Definition handler_okb (rg : regs) (h : cfg) : bool :=
  negb (has_kids_section h) && negb (isSome (handler_of h)) && consb rg h (Some ty_error).
Definition handlersb (rg : regs) (c : config) : bool :=
  forallb (fun n => match handler_of n with Some h => handler_okb rg h | None => true end) (all_nodes (c_nodes c)).
Definition transportb (c : config) : bool :=
  match c_idata c with None => true | Some t => t =? tr_kafka end.
Definition othersb (rg : regs) (c : config) : bool :=
  registeredb rg c && typedb rg c && handlersb rg c && transportb c.
Definition consistentb (rg : regs) (c : config) : bool := uniqueb c && othersb rg c.
Definition consistent'b (rg : regs) (c : config) : bool := unique'b c && othersb rg c.

(* ---------- the defaults clause: what an accepted configuration must look like ---------- *)
Definition exp_attrs (a : attrs) : attrs :=
  {| a_name := a_name a;
     a_id := Some (match a_id a with Some i => i | None => a_name a end);
     a_workers := if a_workers a =? 0 then 1 else a_workers a;
     a_bufsz := if a_bufsz a =? 0 then 1 else a_bufsz a;
     a_kidskey := a_kidskey a |}.
Fixpoint exp_cfg (c : cfg) : cfg :=
  match c with
  | Cfg a kids h => Cfg (exp_attrs a) (map exp_cfg kids) (match h with Some x => Some (exp_cfg x) | None => None end)
  end.
Definition exp_timeout (t : Z) : Z := if 0 <? t then t else 10.

Definition attrs_eqb (a b : attrs) : bool :=
  (a_name a =? a_name b) && opt_eqb Z.eqb (a_id a) (a_id b) && (a_workers a =? a_workers b)
  && (a_bufsz a =? a_bufsz b) && Bool.eqb (a_kidskey a) (a_kidskey b).
Fixpoint cfg_eqb (x y : cfg) {struct x} : bool :=
  match x, y with
  | Cfg a ks h, Cfg a' ks' h' =>
      attrs_eqb a a'
      && (fix go (ks ks' : list cfg) {struct ks} : bool :=
            match ks, ks' with
            | [], [] => true
            | k :: ks1, k' :: ks1' => cfg_eqb k k' && go ks1 ks1'
            | _, _ => false
            end) ks ks'
      && match h, h' with
         | None, None => true
         | Some u, Some v => cfg_eqb u v
         | _, _ => false
         end
  end.
Fixpoint cfgs_eqb (ks ks' : list cfg) : bool :=
  match ks, ks' with
  | [], [] => true
  | k :: ks1, k' :: ks1' => cfg_eqb k k' && cfgs_eqb ks1 ks1'
  | _, _ => false
  end.

Fixpoint with_handlers (l : list cfg) : list cfg :=
  match l with
  | [] => []
  | n :: l' => n :: match handler_of n with Some h => [h] | None => [] end ++ with_handlers l'
  end.

(* the quantifier of C13: a structurally complete configuration file (it parsed, it has a source),
   non-negative sizes.  One more shape is left outside: an error handler written with an explicit
   EMPTY `children: []` sequence.  The code rejects it (n.Children != nil, config.go:193) and the
   model says so, but whether such a handler "has children" is not settled by the property text, so
   no clause is evaluated on it (model and code are still compared). *)
Definition sizes_ok (c : config) : bool :=
  (0 <=? c_timeout c)
  && forallb (fun n => (0 <=? a_workers (attrs_of n)) && (0 <=? a_bufsz (attrs_of n)))
             (with_handlers (all_nodes (c_nodes c))).
Definition empty_kids_section (h : cfg) : bool := a_kidskey (attrs_of h) && nilb (kids_of h).
Definition no_empty_handler_kids (c : config) : bool :=
  forallb (fun n => match handler_of n with Some h => negb (empty_kids_section h) | None => true end)
          (all_nodes (c_nodes c)).
Definition in_domain (i : input) : bool :=
  match i_pre i with
  | PreOk => isSome (c_src (i_cfg i)) && sizes_ok (i_cfg i) && no_empty_handler_kids (i_cfg i)
  | _ => false
  end.

(* failing clauses, with detail values:
   1 accepted => ids unique            detail [1]: every other clause holds and no duplicate lies on a
                                         first-child chain (the validateUniqueID defect, known finding F1);
                                       detail [0]: anything else
   2 accepted => all types registered      3 accepted => consume/produce types fit
   4 accepted => error handler rules       5 accepted => transport is kafka
   6 consistent => accepted            detail [outcome]
   7 accepted => id/workers/buffersize/timeout filled in, everything else as written (after ${VAR}
     substitution)                     detail [2] timeout, [3] node tree, [4] source / transport *)
Definition spec_c13 (i : input) (o : obs) : list (Z * list Z) :=
  if in_domain i then
    let rg := i_regs i in
    let c := i_cfg i in
    let acc := o_out o =? 0 in
    (if acc && negb (uniqueb c) then [(1, [if othersb rg c && unique'b c then 1 else 0])] else [])
    ++ (if acc && negb (registeredb rg c) then [(2, [])] else [])
    ++ (if acc && negb (typedb rg c) then [(3, [])] else [])
    ++ (if acc && negb (handlersb rg c) then [(4, [])] else [])
    ++ (if acc && negb (transportb c) then [(5, [])] else [])
    ++ (if negb acc && consistentb rg c then [(6, [o_out o])] else [])
    ++ (if acc then
          match o_cfg o with
          | None => [(7, [0])]
          | Some c' =>
              (if c_timeout c' =? exp_timeout (c_timeout c) then [] else [(7, [2])])
              ++ (if cfgs_eqb (c_nodes c') (map exp_cfg (c_nodes c)) then [] else [(7, [3])])
              ++ (if opt_eqb Z.eqb (c_src c') (c_src c) && opt_eqb Z.eqb (c_idata c') (c_idata c)
                  then [] else [(7, [4])])
          end
        else [])
  else [].

(* the inputs on which the current code is known to break clause 1 (finding F1) *)
Definition f1_shape (i : input) : bool :=
  in_domain i && negb (uniqueb (i_cfg i)) && othersb (i_regs i) (i_cfg i) && unique'b (i_cfg i).

(* ---------- wire ---------- *)
(* input := (pre (nodereg srcreg) src idata timeout (node...) style)
     pre: 0 parses | 1 yaml syntax error | 2 scalar of the wrong type | 3 null node entry
     nodereg := ((name cons prod)...)  srcreg := ((name prod)...)   types, src, idata: () | (code)
     node := (name id workers buffersize kidskey (node...) handler style)   id, handler: () | (x)
   obs := (out cfg)   cfg := () | ((src idata timeout (node...)))                                    *)
Definition dec_optZ (t : tree) : option (option Z) := getOpt getZ t.
Definition enc_optZ (o : option Z) : tree := ofOpt L o.

Fixpoint dec_cfg (t : tree) : option cfg :=
  match t with
  | T [L nm; idt; L w; L b; kk; T kids; ht; _] =>
      match dec_optZ idt, getB kk,
            (fix go (l : list tree) : option (list cfg) :=
               match l with
               | [] => Some []
               | x :: l' => match dec_cfg x, go l' with Some y, Some ys => Some (y :: ys) | _, _ => None end
               end) kids,
            match ht with
            | T [] => Some None
            | T [x] => match dec_cfg x with Some y => Some (Some y) | None => None end
            | _ => None
            end with
      | Some id, Some kk, Some ks, Some h =>
          Some (Cfg {| a_name := nm; a_id := id; a_workers := w; a_bufsz := b;
                       a_kidskey := kk || negb (nilb ks) |} ks h)
      | _, _, _, _ => None
      end
  | _ => None
  end.

Fixpoint enc_cfg (c : cfg) : tree :=
  match c with
  | Cfg a kids h =>
      T [L (a_name a); enc_optZ (a_id a); L (a_workers a); L (a_bufsz a); ofB (a_kidskey a);
         T (map enc_cfg kids); match h with Some x => T [enc_cfg x] | None => T [] end; L 0]
  end.

Definition dec_pre (t : tree) : option preparse :=
  match t with
  | L 0 => Some PreOk
  | L 1 => Some PreYamlErr
  | L 2 => Some PreYamlErr
  | L 3 => Some PreNilNode
  | _ => None
  end.
Definition dec_nreg (t : tree) : option (Z * reginfo) :=
  match t with
  | T [L n; c; p] => c <- dec_optZ c ;; p <- dec_optZ p ;; Some (n, {| r_cons := c; r_prod := p |})
  | _ => None
  end.
Definition dec_sreg (t : tree) : option (Z * option Z) :=
  match t with
  | T [L n; p] => p <- dec_optZ p ;; Some (n, p)
  | _ => None
  end.
Definition dec_config (src idata : tree) (tmo : Z) (nodes : tree) : option config :=
  src <- dec_optZ src ;; idata <- dec_optZ idata ;; nodes <- getList dec_cfg nodes ;;
  Some {| c_src := src; c_idata := idata; c_timeout := tmo; c_nodes := nodes |}.
Definition dec_input (t : tree) : option input :=
  match t with
  | T [pre; T [nr; sr]; src; idata; L tmo; nodes; _] =>
      pre <- dec_pre pre ;; nr <- getList dec_nreg nr ;; sr <- getList dec_sreg sr ;;
      c <- dec_config src idata tmo nodes ;;
      Some {| i_pre := pre; i_regs := {| nreg := nr; sreg := sr |}; i_cfg := c |}
  | _ => None
  end.
Definition dec_obs (t : tree) : option obs :=
  match t with
  | T [L out; T []] => if (0 <=? out) && (out <=? 2) then Some {| o_out := out; o_cfg := None |} else None
  | T [L 0; T [T [src; idata; L tmo; nodes]]] =>
      c <- dec_config src idata tmo nodes ;; Some {| o_out := 0; o_cfg := Some c |}
  | _ => None
  end.
Definition enc_obs (o : obs) : tree :=
  T [L (o_out o);
     match o_cfg o with
     | None => T []
     | Some c => T [T [enc_optZ (c_src c); enc_optZ (c_idata c); L (c_timeout c); T (map enc_cfg (c_nodes c))]]
     end].

(* observable components: 1 accepted or not, 2 shutdown timeout, 3 node tree (ids, names, workers,
   buffersizes, shape), 4 source name and transport, 5 error versus panic when not accepted *)
Definition obs_diffs (m o : obs) : list Z :=
  diff_if (Bool.eqb (o_out m =? 0) (o_out o =? 0)) 1
  ++ match o_cfg m, o_cfg o with
     | Some a, Some b =>
         diff_if (c_timeout a =? c_timeout b) 2 ++ diff_if (cfgs_eqb (c_nodes a) (c_nodes b)) 3
         ++ diff_if (opt_eqb Z.eqb (c_src a) (c_src b) && opt_eqb Z.eqb (c_idata a) (c_idata b)) 4
     | None, None => []
     | _, _ => [3]
     end
  ++ diff_if ((o_out m =? 0) || (o_out o =? 0) || (o_out m =? o_out o)) 5.

(* ---------- branch tags (input distribution) ---------- *)
(* positions: path = index of the root, then child indices *)
Fixpoint paths_of (rpre : list nat) (c : cfg) : list (list nat * Z) :=
  match c with
  | Cfg a kids _ =>
      (rev rpre, id_of a)
      :: (fix go (i : nat) (ks : list cfg) : list (list nat * Z) :=
            match ks with
            | [] => []
            | k :: ks' => paths_of (i :: rpre) k ++ go (S i) ks'
            end) 0%nat kids
  end.
Fixpoint root_paths (i : nat) (rs : list cfg) : list (list nat * Z) :=
  match rs with
  | [] => []
  | r :: rs' => paths_of [i] r ++ root_paths (S i) rs'
  end.
Definition nat_list_eqb := list_eqb Nat.eqb.
Fixpoint is_prefix (p q : list nat) : bool :=
  match p, q with
  | [], _ => true
  | x :: p', y :: q' => Nat.eqb x y && is_prefix p' q'
  | _, _ => false
  end.
Definition on_chain (p : list nat) : bool := forallb (Nat.eqb 0) (tl p).
(* class of a pair of positions carrying the same id, p before q in pre-order *)
Definition pair_class (p q : list nat) : Z :=
  if negb (Nat.eqb (hd 0%nat p) (hd 0%nat q)) then (if on_chain p && on_chain q then 26 else 27)
  else if is_prefix p q then (if on_chain q then 20 else 21)
  else if nat_list_eqb (removelast p) (removelast q) then
    (match last p 0%nat, last q 0%nat with
     | O, S O => 22
     | O, _ => 24
     | _, _ => 23
     end)
  else 25.
Fixpoint dup_classes (l : list (list nat * Z)) : list Z :=
  match l with
  | [] => []
  | (p, i) :: l' =>
      map (fun x => pair_class p (fst x)) (filter (fun x => snd x =? i) l') ++ dup_classes l'
  end.
Fixpoint dedup (l : list Z) : list Z :=
  match l with
  | [] => []
  | x :: l' => if existsb (Z.eqb x) l' then dedup l' else x :: dedup l'
  end.

(* 1 file did not parse / null node entry, 2 no source section,
   10 model accepts, 11 model rejects, 12 model panics, 13 shape of finding F1 (accepted with a
   duplicate id off the first-child chains), 14 duplicate on a first-child chain, 15 unregistered type,
   16 consume/produce mismatch, 17 illegal error handler, 18 transport not kafka, 19 fully consistent,
   20..27 position class of each pair of equal ids: 20 ancestor/descendant on a first-child chain,
   21 ancestor/descendant off chain, 22 first and second sibling, 23 second-or-later siblings,
   24 first and a later sibling, 25 cousins, 26 different roots both on chains, 27 different roots off chain,
   30 some error handler, 31 some id defaulted, 32 some workers/buffersize defaulted, 33 timeout defaulted,
   34 negative size or timeout (outside the domain), 35 no nodes, 36 more than one root,
   37 error handler with an explicit empty children sequence (outside the domain) *)
Definition tags (i : input) : list Z :=
  let rg := i_regs i in
  let c := i_cfg i in
  let ns := all_nodes (c_nodes c) in
  let nh := with_handlers ns in
  match i_pre i with
  | PreOk =>
      (if isSome (c_src c) then [] else [2])
      ++ (match o_out (model_obs i) with 0 => [10] | 1 => [11] | _ => [12] end)
      ++ (if f1_shape i then [13] else [])
      ++ (if unique'b c then [] else [14])
      ++ (if registeredb rg c then [] else [15])
      ++ (if typedb rg c then [] else [16])
      ++ (if handlersb rg c then [] else [17])
      ++ (if transportb c then [] else [18])
      ++ (if consistentb rg c then [19] else [])
      ++ dedup (dup_classes (root_paths 0 (c_nodes c)))
      ++ (if existsb (fun n => isSome (handler_of n)) ns then [30] else [])
      ++ (if existsb (fun n => negb (isSome (a_id (attrs_of n)))) nh then [31] else [])
      ++ (if existsb (fun n => (a_workers (attrs_of n) =? 0) || (a_bufsz (attrs_of n) =? 0)) nh then [32] else [])
      ++ (if c_timeout c <=? 0 then [33] else [])
      ++ (if sizes_ok c then [] else [34])
      ++ (if no_empty_handler_kids c then [] else [37])
      ++ (match c_nodes c with [] => [35] | [_] => [] | _ => [36] end)
  | _ => [1]
  end.

(* case := T [input; impl_obs] *)
Definition judge (t : tree) : tree :=
  match t with
  | T [ti; to] =>
      match dec_input ti, dec_obs to with
      | Some i, Some o =>
          let m := model_obs i in
          verdict (obs_diffs m o) (map (fun c => clause 13 (fst c) (map L (snd c))) (spec_c13 i o))
                  (enc_obs m) (tags i)
      | _, _ => malformed
      end
  | _ => malformed
  end.
