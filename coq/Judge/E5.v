(* E5 judge (messaging: C10 receiver, C11 routing, C12 wire/sender).  One case = (input obs);
   the first leaf of the input selects the kind: 10 receiver history, 11 routing, 12 sender round trip.
   The statements of C10/C11/C12 as decision procedures on the IMPLEMENTATION's observation are
   [spec_c10], [spec_c11], [spec_c12]; they use only the reference functions defined here
   ([latest_unacked], the reference receiver [sstep], [expected_node]) — never the model of the code. *)
From Coq Require Import List ZArith Bool.
From FB Require Import Lib.Sexp Lib.Eqb Model.Wire Model.Receiver Model.Route.
Import ListNotations.
Open Scope Z_scope.

(* ================= reference functions (the statements) ================= *)

(* the most recent record of every (type,key), in the order of those most recent records *)
Fixpoint latest (rs : list wire) : list wire :=
  match rs with
  | [] => []
  | w :: rest => if existsb (fun w' => same_id (w_msg w') (w_msg w)) rest then latest rest else w :: latest rest
  end.
(* "precisely those messages whose most recent record for their (type, key) is not an
   acknowledgement, with that most recent payload", once each *)
Definition latest_unacked (rs : list wire) : list msg :=
  map w_msg (filter (fun w => negb (w_ack w)) (latest rs)).

Definition mem (p : Z) (l : list Z) : bool := existsb (Z.eqb p) l.
(* every partition of the topic has reported end-of-partition *)
Definition caught_up (pids seen : list Z) : bool := forallb (fun p => mem p seen) pids.

(* multiset equality by counting *)
Definition count {A} (eqb : A -> A -> bool) (x : A) (l : list A) : nat := length (filter (eqb x) l).
Definition perm_eqb {A} (eqb : A -> A -> bool) (a b : list A) : bool :=
  (length a =? length b)%nat && forallb (fun x => (count eqb x a =? count eqb x b)%nat) a.

(* reference receiver: C10's statement as a tiny machine over the decoded history *)
Record sstate := { s_inited : bool; s_seen : list Z; s_log : list wire }.
Definition sinit : sstate := {| s_inited := false; s_seen := []; s_log := [] |}.
(* expected per event: Initialized() afterwards, the deliveries, and whether their order is free
   (the catch-up step) *)
Definition sstep (pids : list Z) (s : sstate) (o : rop) : sstate * (bool * list msg * bool) :=
  match o with
  | Rec None => (s, (s_inited s, [], false))
  | Rec (Some w) =>
      if s_inited s then (s, (true, if w_ack w then [] else [w_msg w], false))
      else ({| s_inited := false; s_seen := s_seen s; s_log := s_log s ++ [w] |}, (false, [], false))
  | Eof p =>
      let seen := p :: s_seen s in
      if negb (s_inited s) && caught_up pids seen
      then ({| s_inited := true; s_seen := seen; s_log := [] |}, (true, latest_unacked (s_log s), true))
      else ({| s_inited := s_inited s; s_seen := seen; s_log := s_log s |}, (s_inited s, [], false))
  | Other => (s, (s_inited s, [], false))
  end.
Fixpoint srun (pids : list Z) (s : sstate) (ops : list rop) : list (bool * list msg * bool) :=
  match ops with
  | [] => []
  | o :: rest => let '(s', e) := sstep pids s o in e :: srun pids s' rest
  end.

(* ================= kind 10: receiver history ================= *)
Record in10 := { i_pids : list Z; i_wms : list wres; i_ops : list rop }.
Record obs10 := { o_assign : list (Z * Z); o_steps : list (bool * list msg) }.

Definition model_obs10 (i : in10) : obs10 :=
  {| o_assign := build_assignments (i_pids i) (i_wms i);
     o_steps := rrun (rinit (length (i_pids i))) (i_ops i) |}.

Definition is_eof_outside (pids : list Z) (o : rop) : bool :=
  match o with Eof p => negb (mem p pids) | _ => false end.
(* C10's quantifier: a topic with >= 1 partitions (distinct ids), end-of-partition signals of those partitions *)
Definition dom10 (i : in10) : bool :=
  nodupb (i_pids i) && (1 <=? length (i_pids i))%nat && negb (existsb (is_eof_outside (i_pids i)) (i_ops i)).
(* start offsets are stated for answered watermark queries *)
Fixpoint wms_ok (wms : list wres) : option (list (Z * Z)) :=
  match wms with
  | [] => Some []
  | WErr _ _ :: _ => None
  | WOk l h :: rest => match wms_ok rest with Some r => Some ((l, h) :: r) | None => None end
  end.
Definition expected_start (lh : Z * Z) : Z :=
  let '(low, high) := lh in if high - low <=? 50000 then low else high - 50000.

Definition deliv_eqb (free : bool) (a b : list msg) : bool :=
  if free then perm_eqb msg_eqb a b else list_eqb msg_eqb a b.

(* per event: 0 ok, else the failing clause: 2 before catch-up, 3 the catch-up step, 4 afterwards *)
Fixpoint check_steps (exp : list (bool * list msg * bool)) (got : list (bool * list msg)) (inited : bool) : list Z :=
  match exp, got with
  | (ef, ed, free) :: exp', (gf, gd) :: got' =>
      (if Bool.eqb ef gf && deliv_eqb free ed gd then []
       else [if free then 3 else if inited then 4 else 2])
      ++ check_steps exp' got' ef
  | [], [] => []
  | _, _ => [5]
  end.

(* failing clauses of C10: 1 start offsets; 2 nothing delivered / not initialised before every partition
   has been read to its end; 3 at catch-up exactly the latest unacknowledged messages, once each;
   4 afterwards unacknowledged records in arrival order, acks and undecodable records nothing;
   5 observation shape *)
Definition spec_c10 (i : in10) (o : obs10) : list Z :=
  (match wms_ok (firstn (length (i_pids i)) (i_wms i)) with
   | Some lh =>
       if nodupb (i_pids i) && (length lh =? length (i_pids i))%nat then
         if list_eqb zz_eqb (o_assign o) (combine (i_pids i) (map expected_start lh)) then [] else [1]
       else []
   | None => []
   end)
  ++ (if dom10 i then nodup Z.eq_dec (check_steps (srun (i_pids i) sinit (i_ops i)) (o_steps o) false) else []).

(* ================= kind 11: routing ================= *)
Record in11 := { i_src : party; i_roots : list rnode; i_msgs : list msg }.
Definition obs11 := list (list (Z * msg) * list Z).

Definition model_obs11 (i : in11) : obs11 := map (route (i_src i) (i_roots i)) (i_msgs i).

(* the recipients the statement names: every enabled node of the tree (reached through Children) whose
   current subscription lists the type, each with whether it fails *)
Fixpoint expected_node (t : bytes) (n : rnode) : list (Z * bool) :=
  match n with
  | RNode p dis _ kids =>
      if dis then []
      else (if existsb (bytes_eqb t) (last (p_subs p) []) then [(p_id p, p_fail p)] else [])
           ++ (fix go (l : list rnode) : list (Z * bool) :=
                 match l with [] => [] | k :: l' => expected_node t k ++ go l' end) kids
  end.
Fixpoint expected_nodes (t : bytes) (l : list rnode) : list (Z * bool) :=
  match l with [] => [] | k :: l' => expected_node t k ++ expected_nodes t l' end.
Definition expected11 (src : party) (roots : list rnode) (t : bytes) : list (Z * bool) :=
  (if existsb (bytes_eqb t) (last (p_subs src) []) then [(p_id src, p_fail src)] else [])
  ++ expected_nodes t roots.

(* all identities (source, nodes incl. disabled ones, error handlers) *)
Fixpoint ids_node (n : rnode) : list Z :=
  match n with
  | RNode p _ h kids =>
      p_id p :: (match h with Some hp => [p_id hp] | None => [] end)
      ++ (fix go (l : list rnode) : list Z := match l with [] => [] | k :: l' => ids_node k ++ go l' end) kids
  end.
Fixpoint ids_nodes (l : list rnode) : list Z :=
  match l with [] => [] | k :: l' => ids_node k ++ ids_nodes l' end.
Definition dom11 (i : in11) : bool := nodupb (p_id (i_src i) :: ids_nodes (i_roots i)).

(* failing clauses of C11: 1 recipients = exactly the subscribed source/nodes, once each;
   2 type, key, payload unchanged; 3 the reported failures = those of the failing recipients; 5 shape *)
Definition spec_c11_one (src : party) (roots : list rnode) (m : msg) (o : list (Z * msg) * list Z) : list Z :=
  let exp := expected11 src roots (m_type m) in
  (if perm_eqb Z.eqb (map fst exp) (map fst (fst o)) then [] else [1])
  ++ (if forallb (fun r => msg_eqb (snd r) m) (fst o) then [] else [2])
  ++ (if perm_eqb Z.eqb (map fst (filter snd exp)) (snd o) then [] else [3]).
Fixpoint spec_c11_all (src : party) (roots : list rnode) (ms : list msg) (os : obs11) : list Z :=
  match ms, os with
  | m :: ms', o :: os' => spec_c11_one src roots m o ++ spec_c11_all src roots ms' os'
  | [], [] => []
  | _, _ => [5]
  end.
Definition spec_c11 (i : in11) (o : obs11) : list Z :=
  if dom11 i then nodup Z.eq_dec (spec_c11_all (i_src i) (i_roots i) (i_msgs i) o) else [].

(* ================= kind 12: sender -> topic -> receiver ================= *)
Record sop := { so_sender : nat; so_ack : bool; so_msg : msg }.
Record in12 := { i_topics : list Z; i_sops : list sop }.
Record orec := { or_topic : Z; or_partition : Z; or_key : bytes; or_value : option wire }.
Record obs12 := {
  o_utf8 : list (bool * bool);              (* per op: type / key valid UTF-8 (Go's utf8.Valid) *)
  o_prod : list (bool * list orec);         (* per op: error result, records handed to the producer *)
  o_live : list msg;                        (* deliveries of an initialised receiver fed every record as written *)
  o_full : list msg;                        (* deliveries of a fresh receiver fed the whole log, then EOF *)
  o_comp : list msg;                        (* deliveries of a fresh receiver fed the compacted log, then EOF *)
}.

Definition wire_of (s : sop) : wire := {| w_msg := so_msg s; w_ack := so_ack s |}.
Definition topic_of (topics : list Z) (s : sop) : Z := nth (so_sender s) topics (-1).
Definition orec_of (r : record) : orec :=
  {| or_topic := r_topic r; or_partition := r_partition r; or_key := r_key r; or_value := Some (r_value r) |}.
Definition deliveries (ops : list rop) : list msg := concat (map snd (rrun (rinit 1) ops)).

Definition model_obs12 (i : in12) : obs12 :=
  let recs := flat_map (fun s => produce (topic_of (i_topics i) s) (so_msg s) (so_ack s)) (i_sops i) in
  let log := map (fun r => (r_key r, r_value r)) recs in
  {| o_utf8 := map (fun s => (utf8_valid (m_type (so_msg s)), utf8_valid (m_key (so_msg s)))) (i_sops i);
     o_prod := map (fun s => (false, map orec_of (produce (topic_of (i_topics i) s) (so_msg s) (so_ack s)))) (i_sops i);
     o_live := deliveries (Eof 0 :: map (fun r => Rec (Some (snd r))) log);
     o_full := deliveries (map (fun r => Rec (Some (snd r))) log ++ [Eof 0]);
     o_comp := deliveries (map (fun r => Rec (Some (snd r))) (compact log) ++ [Eof 0]) |}.

(* C12's quantifier: UTF-8 types without '-', UTF-8 keys, existing sender *)
Definition dom12_op (ntopics : nat) (s : sop) : bool :=
  utf8_valid (m_type (so_msg s)) && no_dash (m_type (so_msg s)) && utf8_valid (m_key (so_msg s))
  && (so_sender s <? ntopics)%nat.
Definition dom12 (i : in12) : bool := forallb (dom12_op (length (i_topics i))) (i_sops i).

Definition one_record (topics : list Z) (s : sop) (p : bool * list orec) : bool :=
  negb (fst p) &&
  match snd p with
  | [r] => (or_topic r =? topic_of topics s) && (or_partition r =? -1)
  | _ => false
  end.
Definition decodes_back (s : sop) (p : bool * list orec) : bool :=
  match snd p with
  | [r] => opt_eqb wire_eqb (or_value r) (Some (wire_of s))
  | _ => true
  end.
Definition key_of (p : bool * list orec) : option bytes :=
  match snd p with [r] => Some (or_key r) | _ => None end.
(* same pair <-> same record key, over all pairs of written records *)
Definition keys_consistent (sp : list (sop * (bool * list orec))) : bool :=
  forallb (fun a => forallb (fun b =>
    match key_of (snd a), key_of (snd b) with
    | Some ka, Some kb => Bool.eqb (same_id (so_msg (fst a)) (so_msg (fst b))) (bytes_eqb ka kb)
    | _, _ => true
    end) sp) sp.

(* failing clauses of C12: 1 one record per send/ack on the configured topic, no error; 2 it decodes to the
   identical type, key, payload, flag; 3 same (type,key) <-> same record key; 4 a receiver fed the records
   (as written / whole log / compacted log) performs the deliveries C10 prescribes; 5 shape *)
Definition spec_c12 (i : in12) (o : obs12) : list Z :=
  if dom12 i then
    if (length (o_prod o) =? length (i_sops i))%nat then
      let sp := combine (i_sops i) (o_prod o) in
      let sent := map wire_of (i_sops i) in
      (if forallb (fun x => one_record (i_topics i) (fst x) (snd x)) sp then [] else [1])
      ++ (if forallb (fun x => decodes_back (fst x) (snd x)) sp then [] else [2])
      ++ (if keys_consistent sp then [] else [3])
      ++ (if list_eqb msg_eqb (o_live o) (map w_msg (filter (fun w => negb (w_ack w)) sent))
             && perm_eqb msg_eqb (latest_unacked sent) (o_full o)
             && perm_eqb msg_eqb (latest_unacked sent) (o_comp o) then [] else [4])
    else [5]
  else [].

(* ================= wire ================= *)
Definition dec_bytes (t : tree) : option bytes := getZs t.
Definition dec_msg (t : tree) : option msg :=
  match t with
  | T [a; b; c] => a <- dec_bytes a ;; b <- dec_bytes b ;; c <- dec_bytes c ;;
                   Some {| m_type := a; m_key := b; m_payload := c |}
  | _ => None
  end.
Definition dec_wire (t : tree) : option wire :=
  match t with
  | T [m; a] => m <- dec_msg m ;; a <- getB a ;; Some {| w_msg := m; w_ack := a |}
  | _ => None
  end.
Definition dec_wres (t : tree) : option wres :=
  match t with
  | T [L 1; L l; L h] => Some (WOk l h)
  | T [L 0; L l; L h] => Some (WErr l h)
  | _ => None
  end.
(* ops of the input, the decoded records (oracle computed by encoding/json on the Go side) taken in order *)
Fixpoint dec_ops (ops : list tree) (decoded : list tree) : option (list rop) :=
  match ops with
  | [] => match decoded with [] => Some [] | _ => None end
  | T [L 0; L _; _] :: rest =>
      match decoded with
      | d :: ds => w <- getOpt dec_wire d ;; r <- dec_ops rest ds ;; Some (Rec w :: r)
      | [] => None
      end
  | T [L 1; L p] :: rest => r <- dec_ops rest decoded ;; Some (Eof p :: r)
  | T [L 2] :: rest => r <- dec_ops rest decoded ;; Some (Other :: r)
  | T [L 3] :: rest => r <- dec_ops rest decoded ;; Some (Other :: r)
  | _ => None
  end.
Definition dec_pair (t : tree) : option (Z * Z) :=
  match t with T [L a; L b] => Some (a, b) | _ => None end.
Definition dec_step (t : tree) : option (bool * list msg) :=
  match t with T [f; d] => f <- getB f ;; d <- getList dec_msg d ;; Some (f, d) | _ => None end.

Definition dec_party (t : tree) : option party :=
  match t with
  | T [L id; subs; f] => subs <- getList (getList dec_bytes) subs ;; f <- getB f ;;
                         Some {| p_id := id; p_subs := subs; p_fail := f |}
  | _ => None
  end.
Fixpoint dec_rnode (t : tree) : option rnode :=
  match t with
  | T [pt; dt; ht; T ks] =>
      match dec_party pt, getB dt, getOpt dec_party ht,
            (fix go (l : list tree) : option (list rnode) :=
               match l with
               | [] => Some []
               | k :: l' => match dec_rnode k, go l' with Some x, Some xs => Some (x :: xs) | _, _ => None end
               end) ks with
      | Some p, Some d, Some h, Some kids => Some (RNode p d h kids)
      | _, _, _, _ => None
      end
  | _ => None
  end.
Definition dec_recv (t : tree) : option (Z * msg) :=
  match t with T [L id; m] => m <- dec_msg m ;; Some (id, m) | _ => None end.
Definition dec_obs11_one (t : tree) : option (list (Z * msg) * list Z) :=
  match t with T [r; e] => r <- getList dec_recv r ;; e <- getZs e ;; Some (r, e) | _ => None end.

Definition dec_sop (t : tree) : option sop :=
  match t with
  | T [s; L _; a; ty; k; p; L _] =>
      s <- getNat s ;; a <- getB a ;; ty <- dec_bytes ty ;; k <- dec_bytes k ;; p <- dec_bytes p ;;
      Some {| so_sender := s; so_ack := a; so_msg := {| m_type := ty; m_key := k; m_payload := p |} |}
  | _ => None
  end.
Definition dec_orec (t : tree) : option orec :=
  match t with
  | T [L tp; L pa; k; v] => k <- dec_bytes k ;; v <- getOpt dec_wire v ;;
                            Some {| or_topic := tp; or_partition := pa; or_key := k; or_value := v |}
  | _ => None
  end.
Definition dec_prod (t : tree) : option (bool * list orec) :=
  match t with T [e; rs] => e <- getB e ;; rs <- getList dec_orec rs ;; Some (e, rs) | _ => None end.
Definition dec_bb (t : tree) : option (bool * bool) :=
  match t with T [a; b] => a <- getB a ;; b <- getB b ;; Some (a, b) | _ => None end.

Definition enc_bytes (b : bytes) : tree := ofZs b.
Definition enc_msg (m : msg) : tree := T [enc_bytes (m_type m); enc_bytes (m_key m); enc_bytes (m_payload m)].
Definition enc_wire (w : wire) : tree := T [enc_msg (w_msg w); ofB (w_ack w)].
Definition enc_pair (p : Z * Z) : tree := T [L (fst p); L (snd p)].
Definition enc_step (s : bool * list msg) : tree := T [ofB (fst s); ofList enc_msg (snd s)].
Definition enc_obs10 (o : obs10) : tree := T [ofList enc_pair (o_assign o); ofList enc_step (o_steps o)].
Definition enc_obs11 (o : obs11) : tree :=
  ofList (fun x => T [ofList (fun r => T [L (fst r); enc_msg (snd r)]) (fst x); ofZs (snd x)]) o.
Definition enc_orec (r : orec) : tree :=
  T [L (or_topic r); L (or_partition r); enc_bytes (or_key r); ofOpt enc_wire (or_value r)].
Definition enc_obs12 (o : obs12) : tree :=
  T [ofList (fun x => T [ofB (fst x); ofB (snd x)]) (o_utf8 o);
     ofList (fun x => T [ofB (fst x); ofList enc_orec (snd x)]) (o_prod o);
     ofList enc_msg (o_live o); ofList enc_msg (o_full o); ofList enc_msg (o_comp o)].

(* ================= comparison of model and implementation =================
   components: 1 partition assignments, 2 Initialized() after every event, 3 deliveries of every event
   (as a multiset at the event where the model initialises, as a list elsewhere);
   11 Receive calls (recipient, message) in order, 12 reported errors in order;
   21 UTF-8 validity of type/key, 22 error result and records written per op, 23 live deliveries,
   24 deliveries from the whole log (multiset), 25 deliveries from the compacted log (multiset) *)
Definition step_deliv_eqb (prev : bool) (a b : bool * list msg) : bool :=
  if negb prev && fst a then perm_eqb msg_eqb (snd a) (snd b) else list_eqb msg_eqb (snd a) (snd b).
Fixpoint steps_deliv_eqb (prev : bool) (a b : list (bool * list msg)) : bool :=
  match a, b with
  | [], [] => true
  | x :: a', y :: b' => step_deliv_eqb prev x y && steps_deliv_eqb (fst x) a' b'
  | _, _ => false
  end.
Definition obs_diffs10 (m o : obs10) : list Z :=
  diff_if (list_eqb zz_eqb (o_assign m) (o_assign o)) 1
  ++ diff_if (list_eqb Bool.eqb (map fst (o_steps m)) (map fst (o_steps o))) 2
  ++ diff_if (steps_deliv_eqb false (o_steps m) (o_steps o)) 3.

Definition recv_eqb (a b : Z * msg) : bool := (fst a =? fst b) && msg_eqb (snd a) (snd b).
Definition obs_diffs11 (m o : obs11) : list Z :=
  diff_if (list_eqb (list_eqb recv_eqb) (map fst m) (map fst o)) 11
  ++ diff_if (list_eqb (list_eqb Z.eqb) (map snd m) (map snd o)) 12.

Definition orec_eqb (a b : orec) : bool :=
  (or_topic a =? or_topic b) && (or_partition a =? or_partition b) && bytes_eqb (or_key a) (or_key b)
  && opt_eqb wire_eqb (or_value a) (or_value b).
Definition prod_eqb (a b : bool * list orec) : bool := Bool.eqb (fst a) (fst b) && list_eqb orec_eqb (snd a) (snd b).
Definition bb_eqb (a b : bool * bool) : bool := Bool.eqb (fst a) (fst b) && Bool.eqb (snd a) (snd b).
Definition obs_diffs12 (m o : obs12) : list Z :=
  diff_if (list_eqb bb_eqb (o_utf8 m) (o_utf8 o)) 21
  ++ diff_if (list_eqb prod_eqb (o_prod m) (o_prod o)) 22
  ++ diff_if (list_eqb msg_eqb (o_live m) (o_live o)) 23
  ++ diff_if (perm_eqb msg_eqb (o_full m) (o_full o)) 24
  ++ diff_if (perm_eqb msg_eqb (o_comp m) (o_comp o)) 25.

(* ================= branch tags =================
   2 outside C10's domain, 3 outside C11's domain (no clause applies; model and code still compared),
   4 outside C12's domain (invalid UTF-8 or '-' in a type: nothing claimed, nothing compared);
   10 the receiver initialised, 11 something delivered at initialisation, 12 something delivered live,
   13 an undecodable record, 14 end-of-partition repeated for a partition before initialisation,
   15 a (type,key) written more than once before initialisation, 16 an acknowledged message suppressed at
   initialisation, 17 several partitions, 18 a start offset capped at high-50000;
   20 a node below the roots received, 21 an error was reported, 22 the source received, 23 a subscribed node
   inside a disabled subtree, 24 a subscribed error handler, 25 a re-subscription, 26 an unsubscribed node;
   30 non-ASCII type or key, 31 key containing '-', 32 an acknowledgement, 33 compaction dropped a record,
   34 several senders, 35 empty payload *)
Definition has {A} (f : A -> bool) (l : list A) (t : Z) : list Z := if existsb f l then [t] else [].
Definition is_rec_none (o : rop) := match o with Rec None => true | _ => false end.

Fixpoint repeated_eof_before_init (pids seen : list Z) (ops : list rop) : bool :=
  match ops with
  | [] => false
  | Eof p :: rest => if caught_up pids (p :: seen) then false
                     else mem p seen || repeated_eof_before_init pids (p :: seen) rest
  | _ :: rest => repeated_eof_before_init pids seen rest
  end.
Fixpoint log_at_init (pids seen : list Z) (log : list wire) (ops : list rop) : option (list wire) :=
  match ops with
  | [] => None
  | Eof p :: rest => if caught_up pids (p :: seen) then Some log else log_at_init pids (p :: seen) log rest
  | Rec (Some w) :: rest => log_at_init pids seen (log ++ [w]) rest
  | _ :: rest => log_at_init pids seen log rest
  end.
Definition tags10 (i : in10) : list Z :=
  if dom10 i then
    let exp := srun (i_pids i) sinit (i_ops i) in
    has (fun e => snd e) exp 10
    ++ has (fun e => snd e && negb (Nat.eqb (length (snd (fst e))) 0)) exp 11
    ++ has (fun e => negb (snd e) && negb (Nat.eqb (length (snd (fst e))) 0)) exp 12
    ++ has is_rec_none (i_ops i) 13
    ++ (if repeated_eof_before_init (i_pids i) [] (i_ops i) then [14] else [])
    ++ (match log_at_init (i_pids i) [] [] (i_ops i) with
        | Some log => (if (length (latest log) <? length log)%nat then [15] else [])
                      ++ has (fun w => w_ack w) (latest log) 16
        | None => []
        end)
    ++ (if (1 <? length (i_pids i))%nat then [17] else [])
    ++ has (fun w => match w with WOk l h => h - l >? 50000 | _ => false end) (i_wms i) 18
  else [2].

Fixpoint depth_hit (t : bytes) (d : nat) (n : rnode) : bool :=
  match n with
  | RNode p dis _ kids =>
      negb dis && (((0 <? d)%nat && existsb (bytes_eqb t) (last (p_subs p) []))
                   || (fix go (l : list rnode) : bool :=
                         match l with [] => false | k :: l' => depth_hit t (S d) k || go l' end) kids)
  end.
Fixpoint any_node (f : party -> bool -> option party -> bool) (under_disabled : bool) (n : rnode) : bool :=
  match n with
  | RNode p dis h kids =>
      f p (under_disabled || dis) h
      || (fix go (l : list rnode) : bool :=
            match l with [] => false | k :: l' => any_node f (under_disabled || dis) k || go l' end) kids
  end.
Definition subscribed (t : bytes) (p : party) : bool := existsb (bytes_eqb t) (last (p_subs p) []).
Definition tags11 (i : in11) : list Z :=
  if dom11 i then
    let ts := map m_type (i_msgs i) in
    has (fun t => existsb (depth_hit t 0) (i_roots i)) ts 20
    ++ has (fun t => existsb snd (expected11 (i_src i) (i_roots i) t)) ts 21
    ++ has (fun t => subscribed t (i_src i)) ts 22
    ++ has (fun t => existsb (any_node (fun p ud _ => ud && subscribed t p) false) (i_roots i)) ts 23
    ++ has (fun t => existsb (any_node (fun _ _ h => match h with Some hp => subscribed t hp | None => false end) false) (i_roots i)) ts 24
    ++ has (fun t => existsb (any_node (fun p _ _ => (1 <? length (p_subs p))%nat) false) (i_roots i)) ts 25
    ++ has (fun t => existsb (any_node (fun p ud _ => negb ud && negb (subscribed t p)) false) (i_roots i)) ts 26
  else [3].

Definition tags12 (i : in12) : list Z :=
  if dom12 i then
    let ms := map so_msg (i_sops i) in
    let log := map (fun s => (unique_key (so_msg s), wire_of s)) (i_sops i) in
    has (fun m => existsb (fun b => 127 <? b) (m_type m ++ m_key m)) ms 30
    ++ has (fun m => negb (no_dash (m_key m))) ms 31
    ++ has so_ack (i_sops i) 32
    ++ (if (length (compact log) <? length log)%nat then [33] else [])
    ++ (if (1 <? length (nodup Nat.eq_dec (map so_sender (i_sops i))))%nat then [34] else [])
    ++ has (fun m => match m_payload m with [] => true | _ => false end) ms 35
  else [4].

(* ================= judge ================= *)
Definition clauses (prop : Z) (l : list Z) : list tree := map (fun c => clause prop c []) l.

Definition judge (t : tree) : tree :=
  match t with
  | T [T (L 10 :: pids :: wms :: T ops :: _); T [T decoded; assigns; steps]] =>
      match getZs pids, getList dec_wres wms, dec_ops ops decoded, getList dec_pair assigns, getList dec_step steps with
      | Some pids, Some wms, Some ops, Some assigns, Some steps =>
          let i := {| i_pids := pids; i_wms := wms; i_ops := ops |} in
          let o := {| o_assign := assigns; o_steps := steps |} in
          let m := model_obs10 i in
          verdict (obs_diffs10 m o) (clauses 10 (spec_c10 i o)) (enc_obs10 m) (tags10 i)
      | _, _, _, _, _ => malformed
      end
  | T [T (L 11 :: src :: roots :: msgs :: _); obs] =>
      match dec_party src, getList dec_rnode roots, getList dec_msg msgs, getList dec_obs11_one obs with
      | Some src, Some roots, Some msgs, Some o =>
          let i := {| i_src := src; i_roots := roots; i_msgs := msgs |} in
          let m := model_obs11 i in
          verdict (obs_diffs11 m o) (clauses 11 (spec_c11 i o)) (enc_obs11 m) (tags11 i)
      | _, _, _, _ => malformed
      end
  | T [T (L 12 :: topics :: sops :: _); T [u; p; lv; fl; cp]] =>
      match getZs topics, getList dec_sop sops, getList dec_bb u, getList dec_prod p,
            getList dec_msg lv, getList dec_msg fl, getList dec_msg cp with
      | Some topics, Some sops, Some u, Some p, Some lv, Some fl, Some cp =>
          let i := {| i_topics := topics; i_sops := sops |} in
          let o := {| o_utf8 := u; o_prod := p; o_live := lv; o_full := fl; o_comp := cp |} in
          let m := model_obs12 i in
          verdict (if dom12 i then obs_diffs12 m o else []) (clauses 12 (spec_c12 i o)) (enc_obs12 m) (tags12 i)
      | _, _, _, _, _, _, _ => malformed
      end
  | _ => malformed
  end.
