(* E7 judge (sinks).  One engine, two kinds of case, selected by the first leaf of the input:
     (14 <elasticsearch scenario>)   — property C14, model Model/EsClient.v
     (15 <producer / error-report case>) — property C15, model Model/Producer.v *)
From Coq Require Import List ZArith Bool.
From FB Require Import Lib.Sexp Lib.Eqb Lib.E7Lib Model.Producer.
Import ListNotations.
Open Scope Z_scope.

(* ---------- C15: input, observation ---------- *)
Inductive pinput :=
  | IProduce (cfg_topic : bytes) (p : preq)
  | IReport (cfg_topic : bytes) (q : ereq).

(* records: (topic, value); value = T (map L bytes) for produce cases, the canonical JSON tree for reports *)
Record pobs := { o_panic : bool; o_result_nil : bool; o_err : Z; o_recs : list (bytes * tree) }.

Definition bytes_tree (b : bytes) : tree := T (map L b).

Definition model_pobs (i : pinput) : pobs :=
  match i with
  | IProduce ct p =>
      let r := produce ct p in
      {| o_panic := false; o_result_nil := p_result_nil r; o_err := p_err r;
         o_recs := map (fun tv => (fst tv, bytes_tree (snd tv))) (p_records r) |}
  | IReport ct q =>
      let r := error_report ct q in
      {| o_panic := x_panic r; o_result_nil := x_result_nil r; o_err := x_err r; o_recs := x_records r |}
  end.

(* ---------- the statement of C15 as a decision procedure on observations ---------- *)
Definition rec_eqb (a b : bytes * tree) : bool := bytes_eqb (fst a) (fst b) && tree_eqb (snd a) (snd b).

(* "an error and no record" (and nothing for children) *)
Definition refused (o : pobs) : bool :=
  negb (o_panic o) && negb (o_err o =? 0) && is_empty_list (o_recs o) && o_result_nil o.
(* "exactly one record", no error, nothing for children *)
Definition one_record (o : pobs) : bool :=
  negb (o_panic o) && (o_err o =? 0) && o_result_nil o && (length (o_recs o) =? 1)%nat.

(* error is {code, message[, errorinfo]} - preserved for structured errors (FBError values),
   ERR_UNKNOWN plus the error text otherwise *)
Definition exp_error (e : errk) : tree :=
  match e with
  | EFB c m (Some (IJson j)) =>
      if is_jnull j then jobj [(k_code, jstr c); (k_message, jstr m)]      (* errorinfo nil = no errorinfo *)
      else jobj [(k_code, jstr c); (k_errorinfo, j); (k_message, jstr m)]
  | EFB c m _ => jobj [(k_code, jstr c); (k_message, jstr m)]
  | _ => jobj [(k_code, jstr s_err_unknown); (k_message, jstr (err_text e))]
  end.

(* the quantifier: a genuine error report (non-nil error) whose errorinfo, if any, is JSON data *)
Definition report_in_domain (r : report) : bool :=
  match r_err r with
  | ENil => false
  | EFB _ _ (Some IBad) => false
  | _ => true
  end.

(* members of a canonical JSON object *)
Definition obj_members (j : tree) : option (list (tree * tree)) :=
  match j with
  | T [L 5; T kvs] => mapM (fun kv => match kv with T [k; v] => Some (k, v) | _ => None end) kvs
  | _ => None
  end.

(* failing clause numbers:
   1 exactly one record, no error, nothing to children   2 topic choice   3 value = the request's bytes
   4 wrong type / no topic: error and no record
   5 report: exactly one record on the configured topic holding a JSON object with exactly the members
     error, event, timestamp (timestamp a time)
   6 report: error member {code,message[,errorinfo]} preserved / ERR_UNKNOWN + text
   7 report: event member is the failed event when it can be serialised *)
Definition spec_c15 (i : pinput) (o : pobs) : list Z :=
  match i with
  | IProduce ct (PWrong _) => if refused o then [] else [4]
  | IProduce ct (PSimple t m) | IProduce ct (PCustom t m) =>
      let d := if is_empty t then ct else t in
      if is_empty d then (if refused o then [] else [4])
      else if one_record o then
        match o_recs o with
        | [(tp, v)] => (if bytes_eqb tp d then [] else [2]) ++ (if tree_eqb v (bytes_tree m) then [] else [3])
        | _ => [1]
        end
      else [1]
  | IReport ct (RWrong _) => if refused o then [] else [4]
  | IReport ct (RReport r) =>
      if report_in_domain r then
        if is_empty ct then (if refused o then [] else [4])
        else if one_record o then
          match o_recs o with
          | [(tp, v)] =>
              match obj_members v with
              | Some [(k1, ej); (k2, ev); (k3, tj)] =>
                  (if bytes_eqb tp ct && tree_eqb k1 (bytes_tree k_error) && tree_eqb k2 (bytes_tree k_event)
                      && tree_eqb k3 (bytes_tree k_timestamp) && tree_eqb tj jtime then [] else [5])
                  ++ (if tree_eqb ej (exp_error (r_err r)) then [] else [6])
                  ++ (match r_payload r with
                      | PJson j => if tree_eqb ev (event_json (r_form r) (r_recovery r) j) then [] else [7]
                      | PUn _ => []
                      end)
              | _ => [5]
              end
          | _ => [5]
          end
        else [5]
      else []
  end.

(* ---------- wire ---------- *)
Definition dec_preq (t : tree) : option preq :=
  match t with
  | T [L 0; tp; m] => tp <- getZs tp ;; m <- getZs m ;; Some (PSimple tp m)
  | T [L 1; tp; m] => tp <- getZs tp ;; m <- getZs m ;; Some (PCustom tp m)
  | T [L 2; L k] => Some (PWrong k)
  | _ => None
  end.
Definition dec_payload (t : tree) : option payload :=
  match t with
  | T [L 0; j] => Some (PJson j)
  | T [L 1; L 0] => Some (PUn UType)
  | T [L 1; L 1; s] => s <- getZs s ;; Some (PUn (UValue s))
  | T [L 1; L 2] => Some (PUn UMarsh)
  | _ => None
  end.
Definition dec_info (t : tree) : option (option info) :=
  match t with
  | T [] => Some None
  | T [T [L 0; j]] => Some (Some (IJson j))
  | T [T [L 1]] => Some (Some IBad)
  | _ => None
  end.
Fixpoint dec_errk (t : tree) : option errk :=
  match t with
  | T [L 0; s] => s <- getZs s ;; Some (EPlain s)
  | T [L 1; c; i] => c <- getZs c ;; i <- dec_errk i ;;
      match i with ENil => None | _ => Some (EWrap c i) end       (* a nil error is not wrapped *)
  | T [L 2; c; m; i] => c <- getZs c ;; m <- getZs m ;; i <- dec_info i ;; Some (EFB c m i)
  | T [L 3; c; m] => c <- getZs c ;; m <- getZs m ;; Some (EFBPtr c m)
  | T [L 4] => Some ENil
  | _ => None
  end.
Definition dec_ereq (t : tree) : option ereq :=
  match t with
  | T [L 0; f; rc; p; e] =>
      f <- getB f ;; rc <- getB rc ;; p <- dec_payload p ;; e <- dec_errk e ;;
      Some (RReport {| r_form := f; r_recovery := rc; r_payload := p; r_err := e |})
  | T [L 1; L k] => Some (RWrong k)
  | _ => None
  end.
Definition dec_pinput (t : tree) : option pinput :=
  match t with
  | T [L 1; ct; p] => ct <- getZs ct ;; p <- dec_preq p ;; Some (IProduce ct p)
  | T [L 2; ct; q] => ct <- getZs ct ;; q <- dec_ereq q ;; Some (IReport ct q)
  | _ => None
  end.
Definition dec_rec (t : tree) : option (bytes * tree) :=
  match t with T [tp; v] => tp <- getZs tp ;; Some (tp, v) | _ => None end.
Definition dec_pobs (t : tree) : option pobs :=
  match t with
  | T [L (-1)] => Some {| o_panic := true; o_result_nil := true; o_err := 0; o_recs := [] |}
  | T [rn; L e; rs] =>
      rn <- getB rn ;; rs <- getList dec_rec rs ;;
      Some {| o_panic := false; o_result_nil := rn; o_err := e; o_recs := rs |}
  | _ => None
  end.
Definition enc_pobs (o : pobs) : tree :=
  if o_panic o then T [L (-1)]
  else T [ofB (o_result_nil o); L (o_err o); ofList (fun r => T [bytes_tree (fst r); snd r]) (o_recs o)].

(* observable components (C15): 1 panic, 2 first return value nil, 3 error enum, 4 records (topics and values) *)
Definition pobs_diffs (a b : pobs) : list Z :=
  diff_if (Bool.eqb (o_panic a) (o_panic b)) 1 ++ diff_if (Bool.eqb (o_result_nil a) (o_result_nil b)) 2
  ++ diff_if (o_err a =? o_err b) 3 ++ diff_if (list_eqb rec_eqb (o_recs a) (o_recs b)) 4.

(* branch tags (C15): 1 wrong-typed payload, 2 no topic from either place, 3 outside the quantifier (nil error /
   unmarshalable errorinfo), 10 record on the request's topic, 11 record on the configured topic,
   12 structured error with errorinfo, 13 structured error without, 14 plain error, 15 wrapped error,
   16 unmarshalable event payload, 17 empty message, 18 pointer to FBError, 19 executor's report form *)
Definition ptags (i : pinput) : list Z :=
  match i with
  | IProduce ct (PWrong _) => [1]
  | IProduce ct (PSimple t m) | IProduce ct (PCustom t m) =>
      (if is_empty t then (if is_empty ct then [2] else [11]) else [10])
      ++ (if is_empty m then [17] else [])
  | IReport ct (RWrong _) => [1]
  | IReport ct (RReport r) =>
      (if report_in_domain r then [] else [3]) ++ (if is_empty ct then [2] else [])
      ++ (match r_err r with
          | EFB _ _ (Some _) => [12] | EFB _ _ None => [13] | EPlain _ => [14] | EWrap _ _ => [15]
          | EFBPtr _ _ => [18] | ENil => []
          end)
      ++ (match r_payload r with PUn _ => [16] | _ => [] end)
      ++ (if r_form r then [19] else [])
  end.

Definition judge15 (ti to : tree) : tree :=
  match dec_pinput ti, dec_pobs to with
  | Some i, Some o =>
      let m := model_pobs i in
      verdict (pobs_diffs m o) (map (fun c => clause 15 c []) (spec_c15 i o)) (enc_pobs m) (ptags i)
  | _, _ => malformed
  end.

Definition judge14 (ti to : tree) : tree := malformed.

(* case := T [input; impl_obs], input := T [L 14; scenario] | T [L 15; pcase] *)
Definition judge (t : tree) : tree :=
  match t with
  | T [T [L 15; ti]; to] => judge15 ti to
  | T [T [L 14; ti]; to] => judge14 ti to
  | _ => malformed
  end.
