(* E7 judge (sinks).  One engine, two kinds of case, selected by the first leaf of the input:
     (14 <elasticsearch scenario>)   — property C14, model Model/EsClient.v
     (15 <producer / error-report case>) — property C15, model Model/Producer.v *)
From Coq Require Import List ZArith Bool.
From FB Require Import Lib.Sexp Lib.Eqb Lib.E7Lib Model.Producer Model.EsClient.
Import ListNotations.
Open Scope Z_scope.

(* ---------- C15: input, observation ---------- *)
Inductive pinput :=
  | IProduce (cfg_topic : bytes) (p : preq)
  | IReport (cfg_topic : bytes) (q : ereq).

(* records: (topic, value); value = T (map L bytes) for produce cases, the canonical JSON tree for reports *)
Record pobs := { o_panic : bool; o_result_nil : bool; o_err : Z; o_recs : list (bytes * tree) }.

Definition bytes_tree (b : bytes) : tree := T (map L b).

Definition model_pobs (i : pinput) : pobs :=
  match i with
  | IProduce ct p =>
      let r := produce ct p in
      {| o_panic := false; o_result_nil := p_result_nil r; o_err := p_err r;
         o_recs := map (fun tv => (fst tv, bytes_tree (snd tv))) (p_records r) |}
  | IReport ct q =>
      let r := error_report ct q in
      {| o_panic := x_panic r; o_result_nil := x_result_nil r; o_err := x_err r; o_recs := x_records r |}
  end.

(* ---------- the statement of C15 as a decision procedure on observations ---------- *)
Definition rec_eqb (a b : bytes * tree) : bool := bytes_eqb (fst a) (fst b) && tree_eqb (snd a) (snd b).

(* "an error and no record" (and nothing for children) *)
Definition refused (o : pobs) : bool :=
  negb (o_panic o) && negb (o_err o =? 0) && is_empty_list (o_recs o) && o_result_nil o.
(* "exactly one record", no error, nothing for children *)
Definition one_record (o : pobs) : bool :=
  negb (o_panic o) && (o_err o =? 0) && o_result_nil o && (length (o_recs o) =? 1)%nat.

(* error is {code, message[, errorinfo]} - preserved for structured errors (FBError values),
   ERR_UNKNOWN plus the error text otherwise *)
Definition exp_error (e : errk) : tree :=
  match e with
  | EFB c m (Some (IJson j)) =>
      if is_jnull j then jobj [(k_code, jstr c); (k_message, jstr m)]      (* errorinfo nil = no errorinfo *)
      else jobj [(k_code, jstr c); (k_errorinfo, j); (k_message, jstr m)]
  | EFB c m _ => jobj [(k_code, jstr c); (k_message, jstr m)]
  | _ => jobj [(k_code, jstr s_err_unknown); (k_message, jstr (err_text e))]
  end.

(* the quantifier: a genuine error report (non-nil error) whose errorinfo, if any, is JSON data *)
Definition report_in_domain (r : report) : bool :=
  match r_err r with
  | ENil => false
  | EFB _ _ (Some IBad) => false
  | _ => true
  end.

(* members of a canonical JSON object *)
Definition obj_members (j : tree) : option (list (tree * tree)) :=
  match j with
  | T [L 5; T kvs] => mapM (fun kv => match kv with T [k; v] => Some (k, v) | _ => None end) kvs
  | _ => None
  end.

(* failing clause numbers:
   1 exactly one record, no error, nothing to children   2 topic choice   3 value = the request's bytes
   4 wrong type / no topic: error and no record
   5 report: exactly one record on the configured topic holding a JSON object with exactly the members
     error, event, timestamp (timestamp a time)
   6 report: error member {code,message[,errorinfo]} preserved / ERR_UNKNOWN + text
   7 report: event member is the failed event when it can be serialised *)
Definition spec_c15 (i : pinput) (o : pobs) : list Z :=
  match i with
  | IProduce ct (PWrong _) => if refused o then [] else [4]
  | IProduce ct (PSimple t m) | IProduce ct (PCustom t m) =>
      let d := if is_empty t then ct else t in
      if is_empty d then (if refused o then [] else [4])
      else if one_record o then
        match o_recs o with
        | [(tp, v)] => (if bytes_eqb tp d then [] else [2]) ++ (if tree_eqb v (bytes_tree m) then [] else [3])
        | _ => [1]
        end
      else [1]
  | IReport ct (RWrong _) => if refused o then [] else [4]
  | IReport ct (RReport r) =>
      if report_in_domain r then
        if is_empty ct then (if refused o then [] else [4])
        else if one_record o then
          match o_recs o with
          | [(tp, v)] =>
              match obj_members v with
              | Some [(k1, ej); (k2, ev); (k3, tj)] =>
                  (if bytes_eqb tp ct && tree_eqb k1 (bytes_tree k_error) && tree_eqb k2 (bytes_tree k_event)
                      && tree_eqb k3 (bytes_tree k_timestamp) && tree_eqb tj jtime then [] else [5])
                  ++ (if tree_eqb ej (exp_error (r_err r)) then [] else [6])
                  ++ (match r_payload r with
                      | PJson j => if tree_eqb ev (event_json (r_form r) (r_recovery r) j) then [] else [7]
                      | PUn _ => []
                      end)
              | _ => [5]
              end
          | _ => [5]
          end
        else [5]
      else []
  end.

(* ---------- wire ---------- *)
Definition dec_preq (t : tree) : option preq :=
  match t with
  | T [L 0; tp; m] => tp <- getZs tp ;; m <- getZs m ;; Some (PSimple tp m)
  | T [L 1; tp; m] => tp <- getZs tp ;; m <- getZs m ;; Some (PCustom tp m)
  | T [L 2; L k] => Some (PWrong k)
  | _ => None
  end.
Definition dec_payload (t : tree) : option payload :=
  match t with
  | T [L 0; j] => Some (PJson j)
  | T [L 1; L 0] => Some (PUn UType)
  (* the float the harness builds: +Inf / -Inf when the text says so, NaN for ANY other text (so that every decodable
     input - e.g. one the shrinker reached - denotes the value the harness really passes) *)
  | T [L 1; L 1; s] => s <- getZs s ;;
      Some (PUn (UValue (if bytes_eqb s [43; 73; 110; 102] || bytes_eqb s [45; 73; 110; 102] then s else [78; 97; 78])))
  | T [L 1; L 2] => Some (PUn UMarsh)
  (* with a variant number: WHICH Go value of that kind the harness builds (chan in a map / func / anonymous struct
     type with a tagged chan field; Marshaler failing with a plain text / with a text full of quotes, backslashes and
     newlines).  The error text and the type name never reach the report of the current code, so the model ignores it. *)
  | T [L 1; L 0; L _] => Some (PUn UType)
  | T [L 1; L 2; L _] => Some (PUn UMarsh)
  | _ => None
  end.
Definition dec_info (t : tree) : option (option info) :=
  match t with
  | T [] => Some None
  | T [T [L 0; j]] => Some (Some (IJson j))
  | T [T [L 1]] => Some (Some IBad)
  | _ => None
  end.
Fixpoint dec_errk (t : tree) : option errk :=
  match t with
  | T [L 0; s] => s <- getZs s ;; Some (EPlain s)
  | T [L 1; c; i] => c <- getZs c ;; i <- dec_errk i ;;
      match i with ENil => None | _ => Some (EWrap c i) end       (* a nil error is not wrapped *)
  | T [L 2; c; m; i] => c <- getZs c ;; m <- getZs m ;; i <- dec_info i ;; Some (EFB c m i)
  | T [L 3; c; m] => c <- getZs c ;; m <- getZs m ;; Some (EFBPtr c m)
  | T [L 4] => Some ENil
  | _ => None
  end.
Definition dec_ereq (t : tree) : option ereq :=
  match t with
  | T [L 0; f; rc; p; e] =>
      f <- getB f ;; rc <- getB rc ;; p <- dec_payload p ;; e <- dec_errk e ;;
      Some (RReport {| r_form := f; r_recovery := rc; r_payload := p; r_err := e |})
  | T [L 1; L k] => Some (RWrong k)
  | _ => None
  end.
Definition dec_pinput (t : tree) : option pinput :=
  match t with
  | T [L 1; ct; p] => ct <- getZs ct ;; p <- dec_preq p ;; Some (IProduce ct p)
  | T [L 2; ct; q] => ct <- getZs ct ;; q <- dec_ereq q ;; Some (IReport ct q)
  | _ => None
  end.
Definition dec_rec (t : tree) : option (bytes * tree) :=
  match t with T [tp; v] => tp <- getZs tp ;; Some (tp, v) | _ => None end.
Definition dec_pobs (t : tree) : option pobs :=
  match t with
  | T [L (-1)] => Some {| o_panic := true; o_result_nil := true; o_err := 0; o_recs := [] |}
  | T [rn; L e; rs] =>
      rn <- getB rn ;; rs <- getList dec_rec rs ;;
      Some {| o_panic := false; o_result_nil := rn; o_err := e; o_recs := rs |}
  | _ => None
  end.
Definition enc_pobs (o : pobs) : tree :=
  if o_panic o then T [L (-1)]
  else T [ofB (o_result_nil o); L (o_err o); ofList (fun r => T [bytes_tree (fst r); snd r]) (o_recs o)].

(* observable components (C15): 1 panic, 2 first return value nil, 3 error enum, 4 records (topics and values),
   5 (sequences) number of calls *)
Definition pobs_diffs (a b : pobs) : list Z :=
  diff_if (Bool.eqb (o_panic a) (o_panic b)) 1 ++ diff_if (Bool.eqb (o_result_nil a) (o_result_nil b)) 2
  ++ diff_if (o_err a =? o_err b) 3 ++ diff_if (list_eqb rec_eqb (o_recs a) (o_recs b)) 4.

(* branch tags (C15): 1 wrong-typed payload, 2 no topic from either place, 3 outside the quantifier (nil error /
   unmarshalable errorinfo), 10 record on the request's topic, 11 record on the configured topic,
   12 structured error with errorinfo, 13 structured error without, 14 plain error, 15 wrapped error,
   16 unmarshalable event payload, 17 empty message, 18 pointer to FBError, 19 executor's report form *)
Definition ptags (i : pinput) : list Z :=
  match i with
  | IProduce ct (PWrong _) => [1]
  | IProduce ct (PSimple t m) | IProduce ct (PCustom t m) =>
      (if is_empty t then (if is_empty ct then [2] else [11]) else [10])
      ++ (if is_empty m then [17] else [])
  | IReport ct (RWrong _) => [1]
  | IReport ct (RReport r) =>
      (if report_in_domain r then [] else [3]) ++ (if is_empty ct then [2] else [])
      ++ (match r_err r with
          | EFB _ _ (Some _) => [12] | EFB _ _ None => [13] | EPlain _ => [14] | EWrap _ _ => [15]
          | EFBPtr _ _ => [18] | ENil => []
          end)
      ++ (match r_payload r with PUn _ => [16] | _ => [] end)
      ++ (if r_form r then [19] else [])
  end.

Definition judge15_one (ti to : tree) : tree :=
  match dec_pinput ti, dec_pobs to with
  | Some i, Some o =>
      let m := model_pobs i in
      verdict (pobs_diffs m o) (map (fun c => clause 15 c []) (spec_c15 i o)) (enc_pobs m) (ptags i)
  | _, _ => malformed
  end.

(* ---------- sequences of calls on ONE producer instance, records read after the last call ----------
   input  (3 cfg_topic ((1 preq) | (2 ereq) ...)),  obs  (3 (obs_1 ... obs_n)).
   The statement is per event, so call k is judged with the record the harness attributes to it (the k-th record
   belongs to the k-th call that returned no error).  The model of a sequence is the single-call model mapped
   over the calls: the code keeps no state between calls that the property lets matter. *)
Definition dec_pcall (ct : bytes) (t : tree) : option pinput :=
  match t with
  | T [L 1; p] => p <- dec_preq p ;; Some (IProduce ct p)
  | T [L 2; q] => q <- dec_ereq q ;; Some (IReport ct q)
  | _ => None
  end.

Definition model_pseq (is : list pinput) : list pobs := map model_pobs is.

Fixpoint spec_c15_seq (k : Z) (is : list pinput) (os : list pobs) : list tree :=
  match is, os with
  | i :: is', o :: os' => map (fun c => clause 15 c [L k]) (spec_c15 i o) ++ spec_c15_seq (k + 1) is' os'
  | _, _ => []
  end.

Fixpoint pseq_diffs (ms os : list pobs) : list Z :=
  match ms, os with
  | m :: ms', o :: os' => pobs_diffs m o ++ pseq_diffs ms' os'
  | [], [] => []
  | _, _ => [5]                      (* component 5: number of calls observed *)
  end.

Definition is_report (i : pinput) : bool := match i with IReport _ (RReport _) => true | _ => false end.

(* extra tags: 40 a sequence of at least two calls, 41 at least two error reports in one sequence *)
Definition pseq_tags (is : list pinput) : list Z :=
  flat_map ptags is
  ++ (if (2 <=? length is)%nat then [40] else [])
  ++ (if (2 <=? length (filter is_report is))%nat then [41] else []).

Definition judge15_seq (ct calls to : tree) : tree :=
  match ct, calls, to with
  | T _, T cs, T [L 3; T tos] =>
      match getZs ct with
      | Some ctb =>
          match mapM (dec_pcall ctb) cs, mapM dec_pobs tos with
          | Some is, Some os =>
              if (length is =? length os)%nat then
                let ms := model_pseq is in
                verdict (pseq_diffs ms os) (spec_c15_seq 0 is os) (T [L 3; T (map enc_pobs ms)]) (pseq_tags is)
              else malformed
          | _, _ => malformed
          end
      | None => malformed
      end
  | _, _, _ => malformed
  end.

Definition judge15 (ti to : tree) : tree :=
  match ti with
  | T (L 3 :: ct :: calls :: _) => judge15_seq ct calls to
  | _ => judge15_one ti to
  end.


(* ====================================================================================================== *)
(* ---------- C14: input, observation ---------- *)
(* how the scenario ends: [ei_clean] arrivals pause, then Shutdown; otherwise Shutdown comes right after the last op.
   [ei_gate] (only with an abrupt Shutdown): the scripted Elasticsearch holds every bulk request until Shutdown has
   returned, i.e. Shutdown runs while requests are in flight. *)
Record einput := { ei_cfg : ecfg; ei_ops : list op; ei_script : script; ei_clean : bool; ei_gate : bool }.

(* answers per op (in op order): the answer codes that event got;  calls: the bulk requests seen by the scripted
   service, as a multiset;  high: high-water mark of concurrent bulk requests;  unreliable: the harness saw a
   scheduling stall that could have let the idle timer split a batch (the case is skipped, and counted);
   timeout: the harness gave up waiting for quiescence *)
Record eobs := {
  eo_unreliable : bool; eo_timeout : bool;
  eo_answers : list (Z * list tree); eo_calls : list (list doc); eo_high : Z;
  eo_at_shutdown : list Z;    (* gate scenarios: the events (in op order) that had an answer when Shutdown returned *)
}.

Definition enc_answer (a : answer) : tree :=
  match a with ASuccess => T [L 0] | AIndexErr s t => T [L 1; L s; L t] | AOther => T [L 2] end.

Definition op_ids (ops : list op) : list Z :=
  flat_map (fun o => match o with OpDoc d => [d_id d] | OpBad id => [id] | OpPause => [] end) ops.
Definition docs_of (ops : list op) : list doc :=
  flat_map (fun o => match o with OpDoc d => [d] | _ => [] end) ops.
Definition bads_of (ops : list op) : list Z :=
  flat_map (fun o => match o with OpBad id => [id] | _ => [] end) ops.

Definition answers_of (id : Z) (l : list (Z * answer)) : list answer :=
  map snd (filter (fun p => fst p =? id) l).

Definition model_eobs (i : einput) : eobs :=
  let r := es_run (ei_cfg i) (ei_script i) (ei_ops i) (ei_clean i) in
  {| eo_unreliable := false; eo_timeout := false;
     eo_answers := map (fun id => (id, map enc_answer (answers_of id (e_answers r)))) (op_ids (ei_ops i));
     eo_calls := e_calls r; eo_high := 0;
     (* Shutdown (elasticsearch.go:148-151) only cancels the context and returns: nothing awaits the bulk goroutines,
        so with every request held in flight only ProcessAsync's own answers exist at that moment *)
     eo_at_shutdown := if ei_gate i then bads_of (ei_ops i) else [] |}.

(* ---------- the statement of C14 as a decision procedure on observations ---------- *)

(* what the statement promises one accepted document whose own outcomes are [sc 0, sc 1, ...] when no whole-request
   error interferes: success at the first 2xx; a mapping conflict fails at once; any other failure is retried, up to
   [rem] more times, and then fails with the last attempt's error.  Result: (the one answer, how often it is sent). *)
Fixpoint fate (rem n : nat) (sc : nat -> outcome) : answer * nat :=
  match sc n with
  | OOk | OWhole => (ASuccess, S n)
  | OMapping => (AIndexErr (Z.of_nat n) 2, S n)
  | ORetry => match rem with O => (AIndexErr (Z.of_nat n) 1, S n) | S r => fate r (S n) sc end
  | ONoErr => match rem with O => (AIndexErr (-1) 3, S n) | S r => fate r (S n) sc end
  end.

(* The same promise when whole-request errors occur, for a document [d] of a bulk request holding the documents [live]
   (retry count [n], all of them sent [s] times before): a request that fails as a whole answers nobody, is sent again
   unchanged and does NOT use up a retry; otherwise [d] succeeds on 2xx, fails at once on a mapping conflict, and on any
   other failure fails for good when n = max retries, else goes - with the other documents that failed retryably - into
   the next request (n + 1).  Result: (the one answer, how often [d] is sent in all). *)
Fixpoint bfate (fuel maxr : nat) (sc : script) (live : list doc) (n s : nat) (d : doc) : answer * nat :=
  match fuel with
  | O => (AOther, O)
  | S f =>
      if existsb (fun d' => is_whole (outcome_at sc (d_id d') s)) live then bfate f maxr sc live n (S s) d
      else
        let next := filter (fun d' => is_retryable (outcome_at sc (d_id d') s)) live in
        match outcome_at sc (d_id d) s with
        | OOk | OWhole => (ASuccess, S s)
        | OMapping => (AIndexErr (Z.of_nat s) 2, S s)
        | ORetry => if (n =? maxr)%nat then (AIndexErr (Z.of_nat s) 1, S s) else bfate f maxr sc next (S n) (S s) d
        | ONoErr => if (n =? maxr)%nat then (AIndexErr (-1) 3, S s) else bfate f maxr sc next (S n) (S s) d
        end
  end.

Definition no_whole (sc : script) : bool :=
  forallb (fun e => forallb (fun ol => negb (is_whole (fst ol))) (snd e)) sc.

(* the documents accepted since arrivals last paused *)
Definition since_pause (ops : list op) : list doc :=
  fold_left (fun acc o => match o with OpDoc d => acc ++ [d] | OpPause => [] | OpBad _ => acc end) ops [].
(* of those, the ones not yet in a full batch: still pending if Shutdown comes now *)
Definition pending_at_end (cfg : ecfg) (ops : list op) : list doc :=
  let l := since_pause ops in skipn (length l - (length l mod batch_size cfg))%nat l.

Definition doc_eqb (a b : doc) : bool :=
  (d_id a =? d_id b) && (d_idx a =? d_idx b) && (d_hasid a =? d_hasid b) && (d_body a =? d_body b).

Definition in_domain14 (i : einput) : bool :=
  (1 <=? batch_size (ei_cfg i))%nat && (1 <=? max_retries (ei_cfg i))%nat && (1 <=? workers (ei_cfg i))%nat
  && nodupb (op_ids (ei_ops i)).

Fixpoint lookup_answers (id : Z) (l : list (Z * list tree)) : list tree :=
  match l with
  | [] => []
  | (i, a) :: rest => if i =? id then a else lookup_answers id rest
  end.
Definition has_doc (id : Z) (c : list doc) : bool := existsb (fun d => d_id d =? id) c.
Definition count_calls (id : Z) (calls : list (list doc)) : nat := length (filter (has_doc id) calls).
(* the batch a document was accepted into = the longest bulk request that holds it (every later request of that
   batch is a sub-list of the first) *)
Fixpoint batch_of_acc (id : Z) (best : list doc) (calls : list (list doc)) : list doc :=
  match calls with
  | [] => best
  | c :: rest => batch_of_acc id (if has_doc id c && (length best <? length c)%nat then c else best) rest
  end.
Definition batch_of (id : Z) (calls : list (list doc)) : list doc := batch_of_acc id [] calls.

(* failing clauses (property 14):
   1 [0;id] an accepted request is not answered exactly once with the answer the statement promises
   2 [0;id] a document is sent more or less often than the statement allows (mapping errors never re-sent, other
            failures re-sent until bulk-index-max-retries, nothing re-sent once answered)
   3        a bulk request holds more than batch-size documents, a document twice, or a document whose
            index / id / body is not that of an accepted request
   4 [high] more than index-workers bulk requests in flight at once
   5        no quiescence: a partial batch was not sent (or requests stayed unanswered) although arrivals paused
   6 [1;id] Shutdown left an accepted request unanswered; detail 1 = it was still in the pending batch (never answered);
     [2;id] detail 2 = its bulk request was in flight (or waiting for a worker) when Shutdown returned
   7 [0;id] a wrong-typed payload is not answered with exactly one error, or was enqueued *)
Definition spec_c14 (i : einput) (o : eobs) : list tree :=
  if eo_unreliable o || negb (in_domain14 i) then [] else
  let cfg := ei_cfg i in
  let docs := docs_of (ei_ops i) in
  let pend := if ei_clean i then [] else pending_at_end cfg (ei_ops i) in
  let nw := no_whole (ei_script i) in
  let f d := if nw then fate (max_retries cfg) O (outcome_at (ei_script i) (d_id d))
             else bfate (fuel_for cfg (ei_script i)) (max_retries cfg) (ei_script i) (batch_of (d_id d) (eo_calls o)) O O d in
  let dropped d := has_doc (d_id d) pend && is_empty_list (lookup_answers (d_id d) (eo_answers o)) in
  flat_map (fun d =>
    let got := lookup_answers (d_id d) (eo_answers o) in
    if dropped d then [clause 14 6 [L 1; L (d_id d)]]
    else if list_eqb tree_eqb got [enc_answer (fst (f d))] then [] else [clause 14 1 [L 0; L (d_id d)]]) docs
  ++ flat_map (fun d =>
    if dropped d then []
    else if (count_calls (d_id d) (eo_calls o) =? snd (f d))%nat then [] else [clause 14 2 [L 0; L (d_id d)]]) docs
  ++ (if forallb (fun c => (length c <=? batch_size cfg)%nat && nodupb (map d_id c)
                           && forallb (fun x => existsb (doc_eqb x) docs) c) (eo_calls o)
      then [] else [clause 14 3 []])
  ++ (if eo_high o <=? Z.of_nat (workers cfg) then [] else [clause 14 4 [L (eo_high o)]])
  ++ (if eo_timeout o then [clause 14 5 []] else [])
  ++ flat_map (fun id =>
    if list_eqb tree_eqb (lookup_answers id (eo_answers o)) [enc_answer AOther] && (count_calls id (eo_calls o) =? 0)%nat
    then [] else [clause 14 7 [L 0; L id]]) (bads_of (ei_ops i))
  ++ (if ei_gate i then
        flat_map (fun d => if dropped d || existsb (Z.eqb (d_id d)) (eo_at_shutdown o) then []
                           else [clause 14 6 [L 2; L (d_id d)]]) docs
      else []).

(* ---------- wire (C14) ---------- *)
Definition dec_doc (t : tree) : option doc :=
  match t with
  | T [L a; L b; L c; L d] => Some {| d_id := a; d_idx := b; d_hasid := c; d_body := d |}
  | _ => None
  end.
Definition dec_op (t : tree) : option op :=
  match t with
  | T [L 0; L a; L b; L c; L d] => Some (OpDoc {| d_id := a; d_idx := b; d_hasid := c; d_body := d |})
  | T [L 1; L id] => Some (OpBad id)
  | T [L 2] => Some OpPause
  | _ => None
  end.
Definition dec_outcome (t : tree) : option (outcome * bool) :=
  match t with
  | L 0 => Some (OOk, false) | L 1 => Some (ORetry, false) | L 2 => Some (OMapping, false)
  | L 3 => Some (ONoErr, false) | L 4 => Some (OWhole, false)
  | L 10 => Some (OOk, true) | L 11 => Some (ORetry, true) | L 12 => Some (OMapping, true) | L 13 => Some (ONoErr, true)
  | _ => None
  end.
Definition dec_script_entry (t : tree) : option (Z * list (outcome * bool)) :=
  match t with T [L id; os] => os <- getList dec_outcome os ;; Some (id, os) | _ => None end.
Definition dec_einput (t : tree) : option einput :=
  match t with
  | T [T [bs; mr; w; L _]; ops; sc; L e] =>
      bs <- getNat bs ;; mr <- getNat mr ;; w <- getNat w ;; ops <- getList dec_op ops ;;
      sc <- getList dec_script_entry sc ;;
      ok <- (if (e =? 0) || (e =? 1) || (e =? 3) || ((e =? 2) && negb (existsb (fun o => match o with OpPause => true | _ => false end) ops))
             then Some tt else None) ;;
      (* end 3: the harness holds every bulk request while the ops run and releases them before a clean end; the
         model's batches are values, so for the model this is the clean end 0 *)
      Some {| ei_cfg := {| batch_size := bs; max_retries := mr; workers := w |}; ei_ops := ops; ei_script := sc;
              ei_clean := (e =? 0) || (e =? 3); ei_gate := e =? 2 |}
  | _ => None
  end.
Definition dec_ans (t : tree) : option (Z * list tree) :=
  match t with T [L id; T codes] => Some (id, codes) | _ => None end.
Definition dec_eobs (t : tree) : option eobs :=
  match t with
  | T [T [u; to]; ans; calls; L h; ash] =>
      u <- getB u ;; to <- getB to ;; ans <- getList dec_ans ans ;; calls <- getList (getList dec_doc) calls ;;
      ash <- getZs ash ;;
      Some {| eo_unreliable := u; eo_timeout := to; eo_answers := ans; eo_calls := calls; eo_high := h;
              eo_at_shutdown := ash |}
  | _ => None
  end.
Definition enc_doc (d : doc) : tree := T [L (d_id d); L (d_idx d); L (d_hasid d); L (d_body d)].
Definition enc_eobs (o : eobs) : tree :=
  T [T [ofB (eo_unreliable o); ofB (eo_timeout o)];
     ofList (fun a => T [L (fst a); T (snd a)]) (eo_answers o);
     ofList (ofList enc_doc) (eo_calls o); L (eo_high o); ofZs (eo_at_shutdown o)].

(* multiset equality of bulk requests *)
Fixpoint remove_first (c : list doc) (l : list (list doc)) : option (list (list doc)) :=
  match l with
  | [] => None
  | x :: l' => if list_eqb doc_eqb c x then Some l'
               else match remove_first c l' with Some r => Some (x :: r) | None => None end
  end.
Fixpoint calls_perm (a b : list (list doc)) : bool :=
  match a with
  | [] => is_empty_list b
  | c :: a' => match remove_first c b with Some b' => calls_perm a' b' | None => false end
  end.

Definition ans_eqb (a b : Z * list tree) : bool := (fst a =? fst b) && list_eqb tree_eqb (snd a) (snd b).

(* observable components (C14): 11 answers per event, 12 multiset of bulk requests, 13 quiescence reached,
   14 events answered when Shutdown returned (gate scenarios).
   The high-water mark is schedule-dependent and only judged by clause 4. *)
Definition eobs_diffs (dom : bool) (m o : eobs) : list Z :=
  if eo_unreliable o || negb dom then []      (* outside the quantifier (e.g. two events with one id) nothing is compared *)
  else diff_if (list_eqb ans_eqb (eo_answers m) (eo_answers o)) 11
       ++ diff_if (calls_perm (eo_calls m) (eo_calls o)) 12
       ++ diff_if (Bool.eqb (eo_timeout m) (eo_timeout o)) 13
       ++ diff_if (list_eqb Z.eqb (eo_at_shutdown m) (eo_at_shutdown o)) 14.

(* branch tags (C14): 4 outside the quantifier (duplicate ids, zero sizes), 5 skipped: unreliable timing,
   20 a document was re-sent, 21 retries exhausted, 22 mapping error, 23 non-2xx without error field at the last attempt,
   24 partial batch sent by the idle timer, 25 full batch, 26 wrong-typed payload, 27 Shutdown with a pending batch,
   28 late response, 29 whole-request error, 30 several requests with more than one worker, 31 success after retry,
   32 Shutdown with bulk requests in flight *)
Definition has_answer (p : answer -> bool) (r : esres) : bool := existsb (fun x => p (snd x)) (e_answers r).
Definition etags (i : einput) (o : eobs) : list Z :=
  let cfg := ei_cfg i in
  let r := es_run cfg (ei_script i) (ei_ops i) (ei_clean i) in
  (if in_domain14 i then [] else [4]) ++ (if eo_unreliable o then [5] else [])
  ++ (if existsb (fun d => (2 <=? count_calls (d_id d) (e_calls r))%nat) (docs_of (ei_ops i)) then [20] else [])
  ++ (if has_answer (fun a => match a with AIndexErr _ 1 => true | _ => false end) r then [21] else [])
  ++ (if has_answer (fun a => match a with AIndexErr _ 2 => true | _ => false end) r then [22] else [])
  ++ (if has_answer (fun a => match a with AIndexErr _ 3 => true | _ => false end) r then [23] else [])
  ++ (if existsb (fun c => (length c <? batch_size cfg)%nat) (e_calls r) then [24] else [])
  ++ (if existsb (fun c => (length c =? batch_size cfg)%nat) (e_calls r) then [25] else [])
  ++ (match bads_of (ei_ops i) with [] => [] | _ => [26] end)
  ++ (match e_dropped r with [] => [] | _ => [27] end)
  ++ (if existsb (fun e => existsb (fun ol => snd ol) (snd e)) (ei_script i) then [28] else [])
  ++ (if no_whole (ei_script i) then [] else [29])
  ++ (if (2 <=? workers cfg)%nat && (2 <=? length (e_calls r))%nat then [30] else [])
  ++ (if existsb (fun d => (2 <=? count_calls (d_id d) (e_calls r))%nat
                            && list_eqb tree_eqb (map enc_answer (answers_of (d_id d) (e_answers r))) [T [L 0]])
                 (docs_of (ei_ops i)) then [31] else [])
  ++ (if ei_gate i then (match e_calls r with [] => [] | _ => [32] end) else []).

Definition judge14 (ti to : tree) : tree :=
  match dec_einput ti, dec_eobs to with
  | Some i, Some o =>
      if e_fuel_out (es_run (ei_cfg i) (ei_script i) (ei_ops i) (ei_clean i)) then malformed
      else
        let m := model_eobs i in
        verdict (eobs_diffs (in_domain14 i) m o) (spec_c14 i o) (enc_eobs m) (etags i o)
  | _, _ => malformed
  end.

(* case := T [input; impl_obs], input := T [L 14; scenario] | T [L 15; pcase] *)
Definition judge (t : tree) : tree :=
  match t with
  | T [T [L 15; ti]; to] => judge15 ti to
  | T [T [L 14; ti]; to] => judge14 ti to
  | _ => malformed
  end.
