(* E1 prediction pass: (1 T cfgs intents) -> ((1 T cfgs intents) prediction).  The lockstep driver
   needs the model's resolution of the intents and the predicted snapshots BEFORE it runs the
   implementation (it waits for the predicted quiescent state instead of guessing stability).
   Free-running cases pass through unchanged. *)
From Coq Require Import List ZArith.
From FB Require Import Lib.Sexp Judge.E1.
Import ListNotations.
Local Open Scope Z_scope.

Definition judge (t : tree) : tree :=
  match t with
  | T (L 1 :: _) => match dec_lock t with Some i => T [t; predict i] | None => T [t; T []] end
  | _ => t
  end.
