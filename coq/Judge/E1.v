(* E1 judge.  Two kinds of case:
   mode 1 (lockstep): input = (1 T cfgs intents); the model resolves the intents into concrete
     commands and predicts the quiescent snapshot after each ([predict], exposed to the driver through
     Judge/E1P.v); the implementation's observation is its own snapshot after each command plus the
     context tree it built; the judge compares, component by component.
   mode 0 (free-running): input = (0 T cfgs params); observation = context tree, the trace stamped by
     harness nodes (oldest first, nodes by id), the counters per node; the judge evaluates
     [trace_ok]/[terminal_ok] (Model/TraceSpec.v) on it.
   Observable components: 1 context tree (pruning, kinds, wiring), 2 channel lengths, 3 calls at the
   gate, 4 received/processed/filtered/failed counters, 5 discarded counter, 6 Shutdown begun/ended,
   7 Execute returned (clean / timed out), 8 source incarnation state, 9 async events in flight,
   10 shape of the observation. *)
From Coq Require Import List ZArith Bool Arith.
From FB Require Import Lib.Sexp Lib.Eqb Model.Exec Model.Settle Model.Play Model.TraceSpec.
Import ListNotations.
Local Open Scope Z_scope.

(* ---------------- wire: configuration ---------------- *)
Definition dec_kind (t : tree) : option kind :=
  match t with L 0 => Some KSync | L 1 => Some KFanout | L 2 => Some KAsync | _ => None end.
Definition enc_kind (k : kind) : tree := L (match k with KSync => 0 | KFanout => 1 | KAsync => 2 end).
Definition dec_hcfg (t : tree) : option hcfg :=
  match t with
  | T [L id; k; w; b; d] =>
      k <- dec_kind k ;; w <- getNat w ;; b <- getNat b ;; d <- getB d ;;
      Some {| h_id := id; h_kind := k; h_workers := w; h_buf := b; h_disc := d |}
  | _ => None
  end.
Fixpoint dec_cfg (fuel : nat) (t : tree) : option cfg :=
  match fuel with
  | O => None
  | S f =>
      match t with
      | T [L id; k; w; b; dis; d; T kids; h] =>
          k <- dec_kind k ;; w <- getNat w ;; b <- getNat b ;; dis <- getB dis ;; d <- getB d ;;
          kids <- mapM (dec_cfg f) kids ;; h <- getOpt dec_hcfg h ;;
          Some (Cfg id k w b dis d kids h)
      | _ => None
      end
  end.

Definition enc_role (r : role) : tree := L (match r with RRoot => 0 | RChild => 1 | RHandler => 2 end).
(* the context tree, node by node in table order, children and handler BY ID (what the harness can see) *)
Definition enc_net (nt : net) : tree :=
  ofList (fun x => T [L (nid x); enc_kind (nkind x); ofNat (nworkers x); ofNat (ncap x); ofB (ndisc x);
                      ofList (fun c => L (nid (info nt c))) (nkids x);
                      ofOpt (fun h => L (nid (info nt h))) (nhandler x); enc_role (nrole x)]) nt.

(* ---------------- wire: scenario ---------------- *)
Definition dec_intent (t : tree) : option intent :=
  match t with
  | T [L 1] => Some IEmit
  | T [L 2; n; k; o; a] => n <- getNat n ;; k <- getNat k ;; o <- getNat o ;; a <- getNat a ;; Some (IRelease n k o a)
  | T [L 3; n; k; o; a] => n <- getNat n ;; k <- getNat k ;; o <- getNat o ;; a <- getNat a ;; Some (IComplete n k o a)
  | T [L 4] => Some IEnd
  | T [L 5] => Some IFail
  | T [L 6] => Some IWait
  | T [L 7] => Some ISignal
  | _ => None
  end.
Definition enc_outcome (o : outcome) : tree :=
  match o with ORes es => T [L 0; ofZs es] | OFail e => T [L 1; L e] | OLater => T [L 2] end.
Definition dec_outcome (t : tree) : option outcome :=
  match t with
  | T [L 0; es] => es <- getZs es ;; Some (ORes es)
  | T [L 1; L e] => Some (OFail e)
  | T [L 2] => Some OLater
  | _ => None
  end.
(* commands name nodes by id *)
Definition enc_cmd (nt : net) (c : cmd) : tree :=
  match c with
  | CSkip => T [L 0]
  | CEmit e => T [L 1; L e]
  | CRelease n it o => T [L 2; L (nid (info nt n)); enc_item it; enc_outcome o]
  | CComplete n it o => T [L 3; L (nid (info nt n)); enc_item it; enc_outcome o]
  | CEnd => T [L 4] | CFail => T [L 5] | CWait => T [L 6] | CSignal => T [L 7]
  end.

(* the quantifier shared by the E1 properties: ids of nodes and handlers pairwise distinct (counters, gates and
   trace events are keyed by id), workers >= 1, buffersize >= 1.  Inputs outside it (they can only come from the
   shrinker) are answered with tag 4 and nothing is compared or judged on them. *)
Fixpoint cfg_ids (fuel : nat) (c : cfg) : list Z :=
  match fuel with
  | O => []
  | S f => match c with
           | Cfg id _ _ _ _ _ kids h =>
               id :: (match h with Some x => [h_id x] | None => [] end) ++ flat_map (cfg_ids f) kids
           end
  end.
Fixpoint cfg_sizes_ok (fuel : nat) (c : cfg) : bool :=
  match fuel with
  | O => false
  | S f => match c with
           | Cfg _ _ w b _ _ kids h =>
               (0 <? w)%nat && (0 <? b)%nat
               && (match h with Some x => (0 <? h_workers x)%nat && (0 <? h_buf x)%nat | None => true end)
               && forallb (cfg_sizes_ok f) kids
           end
  end.
Definition in_domain_e1 (cfgs : list cfg) : bool :=
  nodupb (flat_map (cfg_ids 64) cfgs) && forallb (cfg_sizes_ok 64) cfgs.
Definition out_of_domain : tree := T [ L 1; T []; T []; T [L 4]; T [] ].

Record lock_input := { li_T : nat; li_cfgs : list cfg; li_intents : list intent }.
Definition dec_lock (t : tree) : option lock_input :=
  match t with
  | T [L 1; tmo; T cfgs; T ints] =>
      tmo <- getNat tmo ;; cfgs <- mapM (dec_cfg 64) cfgs ;; ints <- mapM dec_intent ints ;;
      Some {| li_T := tmo; li_cfgs := cfgs; li_intents := ints |}
  | _ => None
  end.

(* prediction handed to the driver: (net init_snapshot ((cmd snapshot)...) truncated) *)
Definition predict (i : lock_input) : tree :=
  let nt := flatten (li_cfgs i) in
  let '(p, s0, out) := play_from_init nt (li_T i) (li_intents i) in
  T [enc_net nt; s0; ofList (fun cs => T [enc_cmd nt (fst cs); snd cs]) out; ofB (stopped p); ofB (bad p)].

(* ---------------- comparing snapshots ---------------- *)
Definition diff_node (a b : tree) : list Z :=
  match a, b with
  | T [ql; gate; infl; cnt; disc; life], T [ql'; gate'; infl'; cnt'; disc'; life'] =>
      diff_if (tree_eqb ql ql') 2 ++ diff_if (tree_eqb gate gate') 3 ++ diff_if (tree_eqb infl infl') 9
      ++ diff_if (tree_eqb cnt cnt') 4 ++ diff_if (tree_eqb disc disc') 5 ++ diff_if (tree_eqb life life') 6
  | _, _ => [10]
  end.
Fixpoint diff_nodes (a b : list tree) : list Z :=
  match a, b with
  | [], [] => []
  | x :: r, y :: r' => diff_node x y ++ diff_nodes r r'
  | _, _ => [10]
  end.
Definition diff_snap (a b : tree) : list Z :=
  match a, b with
  | T [T ns; m; sr], T [T ns'; m'; sr'] =>
      diff_nodes ns ns' ++ diff_if (tree_eqb m m') 7 ++ diff_if (tree_eqb sr sr') 8
  | _, _ => [10]
  end.
(* after a shutdown timeout the executor force-stops workers asynchronously (stopWorkers): only the
   fact that Execute returned, and how, is compared from then on *)
Definition diff_main_only (a b : tree) : list Z :=
  match a, b with
  | T [_; m; sr], T [_; m'; sr'] => diff_if (tree_eqb m m') 7 ++ diff_if (tree_eqb sr sr') 8
  | _, _ => [10]
  end.
Definition timed_out_snap (s : tree) : bool := match s with T [_; L 2; _] => true | _ => false end.
Fixpoint diff_snaps (exp : list (cmd * tree)) (got : list tree) : list Z :=
  match exp, got with
  | [], [] => []
  | (_, s) :: r, g :: r' => (if timed_out_snap s then diff_main_only s g else diff_snap s g) ++ diff_snaps r r'
  | _, _ => [10]
  end.
Fixpoint dedup (l : list Z) : list Z :=
  match l with [] => [] | x :: r => if existsb (Z.eqb x) r then dedup r else x :: dedup r end.

(* ---------------- wire: free-running observation ---------------- *)
Fixpoint index_of (id : Z) (nt : net) (i : nat) : option nat :=
  match nt with [] => None | x :: r => if nid x =? id then Some i else index_of id r (S i) end.
Definition dec_item (t : tree) : option item := match t with T [L a; L b] => Some (a, b) | _ => None end.
Definition dec_tev (nt : net) (t : tree) : option tev :=
  let nd id := index_of id nt 0 in
  match t with
  | T [L 1; k] => k <- getNat k ;; Some (TPrep k)
  | T [L 2; k] => k <- getNat k ;; Some (TStart k)
  | T [L 3; k; ok] => k <- getNat k ;; ok <- getB ok ;; Some (TEnd k ok)
  | T [L 4; L e] => Some (TEmit e)
  | T [L 5; L n; it] => it <- dec_item it ;; Some (TEnter (match nd n with Some i => i | None => length nt end) it)
  | T [L 6; L n; it; o] => n <- nd n ;; it <- dec_item it ;; o <- dec_outcome o ;; Some (TRet n it o)
  | T [L 7; L n; it; o] => n <- nd n ;; it <- dec_item it ;; o <- dec_outcome o ;; Some (TCb n it o)
  | T [L 8; L n] => n <- nd n ;; Some (TShutBegin n)
  | T [L 9; L n] => n <- nd n ;; Some (TShutEnd n)
  | T [L 10; c] => c <- getB c ;; Some (TDone c)
  | T [L 11; L n] => Some (TSetup (match nd n with Some i => i | None => length nt end))
  | T [L 12; k] => k <- getNat k ;; Some (TPrepFail k)
  | _ => None
  end.
Definition dec_counters (t : tree) : option counters :=
  match t with
  | T (a :: b :: c :: d :: e :: _) => a <- getNat a ;; b <- getNat b ;; c <- getNat c ;; d <- getNat d ;; e <- getNat e ;;
      Some {| k_recv := a; k_proc := b; k_filt := c; k_fail := d; k_disc := e |}
  | _ => None
  end.

Definition enc_pc (pc : nat * nat) : tree := clause (Z.of_nat (fst pc)) (Z.of_nat (snd pc)) [].
(* "every loss is counted in discarded_events_total" is a clause of C04 (4,2) and of C16 (16,7) alike *)
Definition also_c16 (pc : nat * nat) : list (nat * nat) :=
  match pc with (4, 2) => [(4, 2); (16, 7)] | _ => [pc] end%nat.

(* clauses on the final state of a lockstep scenario come from the counters in the last snapshot only:
   the per-node accounting identity of C16 at quiescence (no call at the gate, nothing in flight) *)
Definition lock_clauses_node (nd : tree) : list tree :=
  match nd with
  | T [_; T gate; T infl; T [L r; L p; L f; L e]; _; _] =>
      match gate, infl with
      | [], [] => if r =? p + f + e then [] else [clause 16 5 []]
      | _, _ => if r =? p + f + e + Z.of_nat (length gate) + Z.of_nat (length infl) then [] else [clause 16 5 []]
      end
  | _ => []
  end.

(* C17 on a lockstep observation: elapsed_ms of each CWait against the timeout.  detail 1 = the main
   goroutine was still copying an event to a full root buffer when the source stopped. *)
Definition c17_clauses (tmo : nat) (exp : list (cmd * tree)) (got : list tree) (waits : list Z) (blocked_main : bool) : list tree :=
  let fix go (exp : list (cmd * tree)) (got : list tree) (waits : list Z) : list tree :=
    match exp, got with
    | (CWait, e) :: r, g :: r' =>
        match waits with
        | ms :: wr =>
            (match g with
             | T [_; L m; _] =>
                 (if (m =? 0) || (Z.of_nat tmo * 1000 + 1500 <? ms)
                  then [clause 17 1 [L (if blocked_main then 1 else 0)]] else [])
                 (* every node finished (the model ends clean) but Execute waited out the timeout *)
                 ++ (match e with
                     | T [_; L 1; _] => if m =? 1 then [] else [clause 17 2 []; clause 3 8 []]
                     | _ => []
                     end)
             | _ => []
             end) ++ go r r' wr
        | [] => go r r' []
        end
    | _ :: r, _ :: r' => go r r' waits
    | _, _ => []
    end in
  go exp got waits.

Definition tag_of_cmd (c : cmd) : list Z :=
  match c with
  | CSkip => [] | CEmit _ => [10]
  | CRelease _ _ (ORes []) => [12] | CRelease _ _ (ORes [_]) => [11] | CRelease _ _ (ORes _) => [14]
  | CRelease _ _ (OFail _) => [13] | CRelease _ _ OLater => [15]
  | CComplete _ _ _ => [16] | CEnd => [17] | CFail => [18] | CWait => [19] | CSignal => [25]
  end.

(* the state after the harness has let everything finish (all gates opened, source ended), when Execute then
   returned with every node shut down: what the source emitted reached every root (received or counted as
   discarded there), and every failure of a node with a handler reached that handler likewise
   (theorems clean_end_exact, counters_meaning; a difference is an event lost without being counted: C01/C02, C03 and C04).
   fin = ((nodes main src) emitted). *)
Definition fin_counts (ns : list tree) (i : nat) : option (Z * Z * Z) :=
  match nth i ns (T []) with
  | T [_; _; _; T [L r; _; _; L f]; L d; _] => Some (r, f, d)
  | _ => None
  end.
Fixpoint index_from (i : nat) (nt : net) : list (nat * ninfo) :=
  match nt with [] => [] | x :: r => (i, x) :: index_from (S i) r end.
Definition final_clauses (nt : net) (fin : tree) : list tree :=
  match fin with
  | T [T [T ns; L 1; _]; L em] =>
      flat_map (fun r => match fin_counts ns r with
                         | Some (rv, _, d) => if rv + d =? em then [] else [clause 3 9 [ofNat r]; clause 1 9 [ofNat r]; clause 4 9 [ofNat r]]
                         | None => []
                         end) (roots nt)
      ++ flat_map (fun ix => match nhandler (snd ix) with
                             | Some h =>
                                 match fin_counts ns (fst ix), fin_counts ns h with
                                 | Some (_, f, _), Some (rv, _, d) =>
                                     if rv + d =? f then [] else [clause 3 9 [ofNat h]; clause 2 9 [ofNat h]; clause 4 9 [ofNat h]]
                                 | _, _ => []
                                 end
                             | None => []
                             end) (index_from 0 nt)
  | _ => []
  end%Z.

(* (18,8): Execute has returned although no source incarnation has returned nil from Start: a source that ended with an
   error was not restarted (theorem returned_needs_nil_end).  On a snapshot: main code <> 0 and the source not shown as
   ended by nil. *)
Definition returned_without_nil (snap : tree) : bool :=
  match snap with
  | T [_; L m; src] => negb (m =? 0)%Z && negb (tree_eqb src (T [L 2; L 0]))
  | _ => false
  end.
Definition c18_return_clauses (snaps : list tree) : list tree :=
  if existsb returned_without_nil snaps then [clause 18 8 []] else [].

Definition main_blocked (s : state) : bool := match mn s with MDeliver _ _ => true | _ => false end.

(* (17,3): where the model says Execute returns cleanly in the course of a command (all workers had finished), the
   implementation must show it promptly, not after sitting out the shutdown timeout (theorem C17_prompt_return).
   aw = per command, the time until the predicted snapshot was there. *)
Fixpoint prompt_clauses (prev : Z) (exp : list (cmd * tree)) (aw : list Z) : list tree :=
  match exp, aw with
  | (_, T [_; L m; _]) :: r, ms :: ar =>
      (if (prev =? 0) && (m =? 1) && (700 <? ms) then [clause 17 3 []] else []) ++ prompt_clauses m r ar
  | _, _ => []
  end%Z.

Definition judge_lock (ti tobs : tree) : tree :=
  match dec_lock ti, (match tobs with
                      | T [a; b; c; d] => T [a; b; c; d; T []; T []]
                      | T [a; b; c; d; e] => T [a; b; c; d; e; T []]
                      | _ => tobs end) with
  | Some i, T [netdump; snap0; T snaps; waits; fin; awaits] =>
      if negb (in_domain_e1 (li_cfgs i)) || (li_T i <? 1)%nat then out_of_domain else
      match getZs waits with
      | None => malformed
      | Some waits =>
      let nt := flatten (li_cfgs i) in
      let '(p, s0, out) := play_from_init nt (li_T i) (li_intents i) in
      let diffs := diff_if (tree_eqb (enc_net nt) netdump) 1 ++ diff_snap s0 snap0 ++ diff_snaps out snaps in
      let last := last snaps snap0 in
      let clauses := (match last with T [T ns; _; _] => flat_map lock_clauses_node ns | _ => [] end)
                     ++ (let cs := c17_clauses (li_T i) out snaps waits (main_blocked (st p)) in
                         cs ++ (if existsb (fun cs' => match fst cs' with CFail => true | _ => false end) out
                                   && existsb (tree_eqb (clause 3 8 [])) cs
                                then [clause 18 9 []] else []))
                     (* not after a shutdown timeout (predicted by the model or observed: a snapshot with main code 2, or a wait
                        that lasted the whole timeout): the forced stop leaves events behind by design, and once it has
                        completed the harness can no longer tell the run from a clean one *)
                     ++ (if existsb (fun cs => match snd cs with T [_; L 2; _] => true | _ => false end) out
                            || existsb (fun g => match g with T [_; L 2; _] => true | _ => false end) snaps
                            || existsb (fun ms => Z.of_nat (li_T i) * 1000 - 100 <=? ms) waits
                         then [] else final_clauses nt fin)
                     ++ c18_return_clauses (snaps ++ match fin with T [sn; _] => [sn] | _ => [] end)
                     ++ prompt_clauses 0 out (match getZs awaits with Some l => l | None => [] end) in
      verdict (dedup diffs) clauses (T [enc_net nt; s0; ofList (fun cs => snd cs) out])
              (dedup (flat_map (fun cs => tag_of_cmd (fst cs)) out)
               ++ (if stopped p then [5] else []) ++ (if bad p then [6] else [])
               ++ (if existsb (fun x => ndisc x) nt then [20] else [])
               ++ (if existsb (fun x => match nhandler x with Some _ => true | None => false end) nt then [21] else [])
               ++ (if existsb (fun x => 1 <? nworkers x)%nat nt then [22] else []))
      end
  | _, _ => malformed
  end.

Definition judge_free (ti tobs : tree) : tree :=
  match ti, tobs with
  | T (L 0 :: L tmo :: T cfgs :: _), T [netdump; T trace; T ctrs; T [L stall_ok; L cut; T stalls]] =>
      match mapM (dec_cfg 64) cfgs with
      | None => malformed
      | Some cfgs =>
          (* a shutdown timeout below 2 s makes 'ends clean' a race with the drain itself: outside the domain *)
          if negb (in_domain_e1 cfgs) || (tmo <? 2) then out_of_domain else
          let nt := flatten cfgs in
          match mapM (dec_tev nt) trace, mapM dec_counters ctrs with
          | Some tr, Some ks =>
              let p := rev tr in
              let clean := existsb (fun e => match e with TDone true => true | _ => false end) p in
              let fails := trace_ok nt p ++ (if clean then terminal_ok nt p ks else []) in
              (* (4,3): while a discarding node was stalled, the source could not finish emitting: somebody waited for it *)
              (* (4,4): at quiescence with a discarding node d stalled, everything its feeder produced for it has been
                 handed to it, is buffered, or was discarded and counted: nobody is waiting to deliver to it *)
              let acct_fails (st : tree) : list Z :=
                match st with
                | T [L id; L lench; L disc; L c0] =>
                    let pcut := rev (firstn (Z.to_nat c0) tr) in
                    match index_of id nt 0 with
                    | Some d => if Z.of_nat (length (supply nt d pcut)) =? Z.of_nat (length (entered d pcut)) + lench + disc
                                then [] else [id]
                    | None => []
                    end
                | _ => []
                end in
              (* reported only when it fails at BOTH stock-takings (the harness takes two, 300 ms apart) *)
              let failing := flat_map acct_fails stalls in
              let stall_acct := map (fun id => clause 4 4 [L 0; L id])
                                    (dedup (filter (fun id => 2 <=? Z.of_nat (length (filter (Z.eqb id) failing))) failing)) in
              (* (4,5): buffer_full_events_total ("events that caused blocking because the node's buffer was full",
                 docs/metrics.md) of a node marked discard_on_full_buffer stays 0: no delivery to it ever took the
                 blocking path (theorem C04_discarding_never_blocks; the model has no such counter) *)
              let full_clause :=
                flat_map (fun ix => match snd ix with
                                    | T [_; _; _; _; _; L f] =>
                                        if ndisc (info nt (fst ix)) && (0 <? f) then [clause 4 5 [L 0; L (nid (info nt (fst ix)))]] else []
                                    | _ => []
                                    end) (combine (seq 0 (length ctrs)) ctrs) in
              (* (17,2)/(3,8): every harness node returns from every call, so the run must end by the clean return of
                 Execute, not by the shutdown timeout (theorem C03_every_run_ends_clean) *)
              let clean_clause := (if clean then [] else [clause 17 2 []; clause 3 8 []])
                                  ++ (if existsb (fun e => match e with TDone _ => true | _ => false end) p && negb (any_nil_end p)
                                      then [clause 18 8 []] else []) in
              (* (18,9): a run in which a failed source was restarted must end like any other: events of the new incarnation
                 flow through the same pipeline and its nil return ends the run *)
              let restart_clause := if negb clean && existsb (fun e => match e with TEnd _ false => true | _ => false end) p
                                    then [clause 18 9 []] else [] in
              let stall_clause := clean_clause ++ restart_clause ++ full_clause ++ (if stall_ok =? 0 then [clause 4 3 []] else []) ++ (if cut <? 0 then [] else stall_acct) in
              verdict (diff_if (tree_eqb (enc_net nt) netdump) 1) (map enc_pc (flat_map also_c16 fails) ++ stall_clause) (enc_net nt)
                      ((if clean then [30] else [31])
                       ++ (if existsb (fun x => ndisc x) nt then [20] else [])
                       ++ (if existsb (fun x => match nhandler x with Some _ => true | None => false end) nt then [21] else [])
                       ++ (if existsb (fun x => 1 <? nworkers x)%nat nt then [22] else [])
                       ++ (if existsb (fun x => match nkind x with KAsync => true | _ => false end) nt then [23] else [])
                       ++ (if existsb (fun e => match e with TEnd _ false => true | _ => false end) p then [24] else []))
          | _, _ => malformed
          end
      end
  | _, _ => malformed
  end.

(* a scripted source whose Setup fails in a later incarnation; run in a child process because the executor ends the
   process then.  obs = (net trace exit): only the prefix-closed trace clauses are judged (there is no end of run).
   Event (12 k) = Setup of incarnation k returned an error. *)
Definition judge_setupfail (ti tobs : tree) : tree :=
  match ti, tobs with
  | T (L 2 :: L tmo :: T cfgs :: T (_ :: phases) :: _), T [netdump; T trace; L exit] =>
      match mapM (dec_cfg 64) cfgs with
      | None => malformed
      | Some cfgs =>
          (* the first incarnation is set up inside executor.New, before there is anything to observe *)
          if negb (in_domain_e1 cfgs) || (tmo <? 2)
             || match phases with T [_; _; L 1] :: _ => true | [] => true | _ => false end then out_of_domain else
          let nt := flatten cfgs in
          match mapM (dec_tev nt) trace with
          | Some tr =>
              let p := rev tr in
              verdict (diff_if (tree_eqb (enc_net nt) netdump) 1) (map enc_pc (flat_map also_c16 (trace_ok nt p))) (enc_net nt)
                      ([26] ++ (if exit =? 1 then [27] else [])
                       ++ (if existsb (fun e => match e with TEnd _ false => true | _ => false end) p then [24] else []))
          | None => malformed
          end
      end
  | _, _ => malformed
  end.

(* case := T [input; obs]; in lockstep mode the driver's input is T [orig; prediction] *)
Definition judge (t : tree) : tree :=
  match t with
  | T [T [(T (L 1 :: _)) as orig; _pred]; obs] => judge_lock orig obs
  | T [(T (L 0 :: _)) as orig; obs] => judge_free orig obs
  | T [(T (L 2 :: _)) as orig; obs] => judge_setupfail orig obs
  | _ => malformed
  end.
