(* E8 judge: decode a case, run the model of the parameter code, compare with the implementation's
   observation, evaluate the C20 clauses on the implementation's observation. *)
From Coq Require Import List ZArith Bool.
From FB Require Import Lib.Sexp Lib.Eqb Model.Atoi Model.Params.
Import ListNotations.
Open Scope Z_scope.

(* one case = one call *)
Inductive input :=
| IBuild (which : Z) (p : pmap)                                  (* buildConfigMap of client [which] *)
| ICheck (p : pmap)                                              (* KafkaConsumer.checkConfig *)
| IInt (req : bool) (p : pmap) (name : bytes) (d mn mx : Z)      (* IntConfig / IntConfigRequired *)
| IStr (req : bool) (p : pmap) (name d : bytes)                  (* StringConfig / StringConfigRequired *)
| IFloat (req : bool) (p : pmap) (name : bytes) (d : fv) (dtxt : bytes)
         (parse : list (bytes * option fv)) (mn mx : fv).        (* Float64Config / Float64ConfigRequired *)

Inductive obs :=
| OBuild (r : bres)
| OCheck (ok : bool) (m : pmap)
| OInt (r : option Z) (m : pmap)
| OStr (r : option bytes) (m : pmap)
| OFloat (r : option fv) (m : pmap)
| OPanic.

Definition model_obs (i : input) : obs :=
  match i with
  | IBuild w p => OBuild (build_config_map w p)
  | ICheck p => let '(ok, m) := check_config p in OCheck ok m
  | IInt req p name d mn mx => let '(r, m) := int_getter req p name d mn mx in OInt r m
  | IStr req p name d => let '(r, m) := string_getter req p name d in OStr r m
  | IFloat req p name d dtxt parse mn mx => let '(r, m) := float_getter req p name dtxt parse mn mx in OFloat r m
  end.

Definition params_of (i : input) : pmap :=
  match i with
  | IBuild _ p | ICheck p | IInt _ p _ _ _ _ | IStr _ p _ _ | IFloat _ p _ _ _ _ _ _ => p
  end.

(* ---------- equalities ---------- *)
Definition isSome {A} (o : option A) : bool := match o with Some _ => true | None => false end.
Definition sval_eqb (a b : sval) : bool :=
  match a, b with
  | SStr x, SStr y => bytes_eqb x y
  | SInt x, SInt y => x =? y
  | SBool x, SBool y => Bool.eqb x y
  | _, _ => false
  end.
(* two association lists denote the same finite map *)
Definition map_sub {A} (eqb : A -> A -> bool) (a b : list (bytes * A)) : bool :=
  forallb (fun kv => opt_eqb eqb (lookup (fst kv) b) (Some (snd kv))) a.
Definition keys_nodup {A} (m : list (bytes * A)) : bool :=
  (fix go (l : list (bytes * A)) : bool :=
     match l with [] => true | (k, _) :: r => negb (isSome (lookup k r)) && go r end) m.
Definition map_equiv {A} (eqb : A -> A -> bool) (a b : list (bytes * A)) : bool :=
  map_sub eqb a b && map_sub eqb b a && keys_nodup a && keys_nodup b.
Definition cval_eqb (a b : cval) : bool :=
  match a, b with
  | VS x, VS y => sval_eqb x y
  | VMap x, VMap y => map_equiv sval_eqb x y
  | _, _ => false
  end.
Definition pmap_equiv : pmap -> pmap -> bool := map_equiv bytes_eqb.
Definition cmap_equiv : cmap -> cmap -> bool := map_equiv cval_eqb.
Definition fv_eqb (a b : fv) : bool :=
  match a, b with FNaN, FNaN => true | FNum x, FNum y => x =? y | _, _ => false end.
Definition bres_eqb (a b : bres) : bool :=
  match a, b with
  | BErr, BErr => true | BPanic, BPanic => true
  | BOk x, BOk y => cmap_equiv x y
  | _, _ => false
  end.

(* ---------- the statement of C20 as a decision procedure on observations ---------- *)

(* a parameter whose prefix-stripped name starts with {topic}. (confluent redirects it into default.topic.config) *)
Definition is_topic_key (k : bytes) : bool := has_prefix lp k && has_prefix tp (trim_prefix lp k).
Definition has_topic (p : pmap) : bool := existsb (fun kv => is_topic_key (fst kv)) p.
(* outside the domain: librdkafka.default.topic.config given together with a librdkafka.{topic}.* parameter:
   confluent's SetKey then panics or not depending on Go's map iteration order *)
Definition conflict (p : pmap) : bool := isSome (lookup (lp ++ dtc) p) && has_topic p.

(* clause 1: every prefixed parameter is in the client configuration verbatim, prefix removed (once), and
   wins over the default; defaults that are not overridden stay *)
Definition c1_param (cm : cmap) (kv : bytes * bytes) : bool :=
  let '(k, v) := kv in
  if has_prefix lp k then
    let k' := trim_prefix lp k in
    if has_prefix tp k' then
      match lookup dtc cm with
      | Some (VMap sub) => opt_eqb sval_eqb (lookup (trim_prefix tp k') sub) (Some (SStr v))
      | _ => false
      end
    else opt_eqb cval_eqb (lookup k' cm) (Some (VS (SStr v)))
  else true.
Definition c1_default (p : pmap) (cm : cmap) (kd : bytes * cval) : bool :=
  let '(k, dv) := kd in
  if isSome (lookup (lp ++ k) p) then true
  else match dv with
       | VS _ => opt_eqb cval_eqb (lookup k cm) (Some dv)
       | VMap dsub =>
           match lookup k cm with
           | Some (VMap sub) =>
               forallb (fun xd => isSome (lookup (lp ++ tp ++ fst xd) p)
                                  || opt_eqb sval_eqb (lookup (fst xd) sub) (Some (snd xd))) dsub
           | _ => false
           end
       end.
Definition clause1 (p : pmap) (dflt cm : cmap) : bool :=
  forallb (c1_param cm) p && forallb (c1_default p cm) dflt.

(* clause 2: nothing else is in it *)
Definition nested_default (x : bytes) (dflt : cmap) : bool :=
  match lookup dtc dflt with Some (VMap dsub) => isSome (lookup x dsub) | _ => false end.
Definition c2_entry (p : pmap) (dflt cm : cmap) (kc : bytes * cval) : bool :=
  let k := fst kc in
  (isSome (lookup k dflt) || isSome (lookup (lp ++ k) p) || (bytes_eqb k dtc && has_topic p))
  && match lookup k cm with       (* the observed map has distinct keys: this is [snd kc] *)
     | Some (VMap sub) =>
         bytes_eqb k dtc
         && forallb (fun xv => isSome (lookup (lp ++ tp ++ fst xv) p) || nested_default (fst xv) dflt) sub
     | _ => true
     end.
Definition clause2 (p : pmap) (dflt cm : cmap) : bool := forallb (c2_entry p dflt cm) cm.

(* clause 3 *)
Definition expected_accept (p : pmap) : bool :=
  negb (is_empty (pget k_brokers p)) && negb (is_empty (pget k_group p)) && negb (is_empty (pget k_topic p))
  && match atoi (pget k_bufsize p) with Some b => 1 <=? b | None => false end
  && (is_empty (pget k_maxlag p) || match atoi (pget k_maxlag p) with Some l => 0 <=? l | None => false end)
  && (is_empty (pget k_par p) || isSome (parse_bool (pget k_par p))).

(* clauses 4-6 *)
Definition expected_int (req : bool) (p : pmap) (name : bytes) (d mn mx : Z) : option Z :=
  match lookup name p with
  | Some t => match atoi t with
              | Some v => if (mn <=? v) && (v <=? mx) then Some v else None
              | None => None
              end
  | None => if req then None else if (mn <=? d) && (d <=? mx) then Some d else None
  end.
Definition expected_str (req : bool) (p : pmap) (name d : bytes) : option bytes :=
  match lookup name p with
  | Some t => Some t
  | None => if req then None else Some d
  end.
Definition expected_float (req : bool) (p : pmap) (name : bytes) (d : fv) (parse : list (bytes * option fv))
  (mn mx : fv) : option fv :=
  match lookup name p with
  | Some t => match lookup t parse with
              | Some (Some v) => if fle mn v && fle v mx then Some v else None
              | _ => None
              end
  | None => if req then None else if fle mn d && fle d mx then Some d else None
  end.
(* guard of clause 6 (trusted, checked on every case): ParseFloat(FormatFloat(default)) is the default *)
Definition float_roundtrip (req : bool) (p : pmap) (name : bytes) (d : fv) (dtxt : bytes)
  (parse : list (bytes * option fv)) : bool :=
  req || isSome (lookup name p) || opt_eqb (opt_eqb fv_eqb) (lookup dtxt parse) (Some (Some d)).

(* failing clauses: (clause number, detail).  1 overlay verbatim+override, 2 no leak, 3 checkConfig iff,
   4 int getter, 5 string getter, 6 float getter.  Detail -1: the call failed or panicked. *)
Definition spec_c20 (i : input) (o : obs) : list (Z * list Z) :=
  match i with
  | IBuild w p =>
      match defaults_of w p with
      | None => []
      | Some dflt =>
          if conflict p then []
          else match o with
               | OBuild (BOk cm) =>
                   (if clause1 p dflt cm then [] else [(1, [])])
                   ++ (if clause2 p dflt cm then [] else [(2, [])])
               | _ => [(1, [-1])]
               end
      end
  | ICheck p =>
      match o with
      | OCheck ok _ => if Bool.eqb ok (expected_accept p) then [] else [(3, [])]
      | _ => [(3, [-1])]
      end
  | IInt req p name d mn mx =>
      if int64b d then
        match o with
        | OInt r _ => if opt_eqb Z.eqb r (expected_int req p name d mn mx) then [] else [(4, [])]
        | _ => [(4, [-1])]
        end
      else []
  | IStr req p name d =>
      match o with
      | OStr r _ => if opt_eqb bytes_eqb r (expected_str req p name d) then [] else [(5, [])]
      | _ => [(5, [-1])]
      end
  | IFloat req p name d dtxt parse mn mx =>
      if float_roundtrip req p name d dtxt parse then
        match o with
        | OFloat r _ => if opt_eqb fv_eqb r (expected_float req p name d parse mn mx) then [] else [(6, [])]
        | _ => [(6, [-1])]
        end
      else []
  end.

(* ---------- wire ---------- *)
Definition dec_bytes (t : tree) : option bytes := getZs t.
Definition dec_kv {A} (f : tree -> option A) (t : tree) : option (bytes * A) :=
  match t with T [k; v] => k <- dec_bytes k ;; v <- f v ;; Some (k, v) | _ => None end.
Definition dec_pmap (t : tree) : option pmap := getList (dec_kv dec_bytes) t.
Definition dec_fv (t : tree) : option fv :=
  match t with T [] => Some FNaN | T [L k] => Some (FNum k) | _ => None end.
Definition dec_sval (t : tree) : option sval :=
  match t with
  | T [L 0; s] => s <- dec_bytes s ;; Some (SStr s)
  | T [L 1; L z] => Some (SInt z)
  | T [L 2; b] => b <- getB b ;; Some (SBool b)
  | _ => None
  end.
Definition dec_cval (t : tree) : option cval :=
  match t with
  | T [L 3; m] => m <- getList (dec_kv dec_sval) m ;; Some (VMap m)
  | _ => s <- dec_sval t ;; Some (VS s)
  end.
Definition dec_cmap (t : tree) : option cmap := getList (dec_kv dec_cval) t.

Definition dec_input (t : tree) : option input :=
  match t with
  | T [L 1; L w; p] => p <- dec_pmap p ;; Some (IBuild w p)
  | T [L 2; p] => p <- dec_pmap p ;; Some (ICheck p)
  | T [L 3; req; p; name; L d; L mn; L mx] =>
      req <- getB req ;; p <- dec_pmap p ;; name <- dec_bytes name ;; Some (IInt req p name d mn mx)
  | T [L 4; req; p; name; d] =>
      req <- getB req ;; p <- dec_pmap p ;; name <- dec_bytes name ;; d <- dec_bytes d ;; Some (IStr req p name d)
  | _ => None
  end.

Definition dec_obs (t : tree) : option obs :=
  match t with
  | T [L (-1)] => Some OPanic
  | T [L 1; L 0] => Some (OBuild BErr)
  | T [L 1; L 1] => Some (OBuild BPanic)
  | T [L 1; L 2; m] => m <- dec_cmap m ;; Some (OBuild (BOk m))
  | T [L 2; ok; m] => ok <- getB ok ;; m <- dec_pmap m ;; Some (OCheck ok m)
  | T [L 3; r; m] => r <- getOpt getZ r ;; m <- dec_pmap m ;; Some (OInt r m)
  | T [L 4; r; m] => r <- getOpt dec_bytes r ;; m <- dec_pmap m ;; Some (OStr r m)
  | _ => None
  end.

(* a float getter case: the input carries (req params name d min max) — the older form with dtxt and parse between
   d and min is still read, those two fields ignored —, and the Go driver derives from it the oracle
   (d dtxt parse min max) = canonical order keys, FormatFloat of the default, what ParseFloat answers for the texts the
   getter can look at, and reports it in the observation (5 result params' oracle).  The judge takes d, dtxt,
   parse, min, max from that oracle only, so a damaged input can never contradict strconv. *)
Definition dec_float_in (t : tree) : option (bool * pmap * bytes) :=
  match t with
  | T [L 5; req; p; name; _; _; _] | T [L 5; req; p; name; _; _; _; _; _] =>
      req <- getB req ;; p <- dec_pmap p ;; name <- dec_bytes name ;; Some (req, p, name)
  | _ => None
  end.
Definition dec_float_case (ti to : tree) : option (input * obs) :=
  match dec_float_in ti, to with
  | Some (req, p, name), T [L 5; r; m; T [d; dtxt; parse; mn; mx]] =>
      m <- dec_pmap m ;; d <- dec_fv d ;; dtxt <- dec_bytes dtxt ;;
      parse <- getList (dec_kv (getOpt dec_fv)) parse ;; mn <- dec_fv mn ;; mx <- dec_fv mx ;;
      o <- match r with
           | L (-1) => Some OPanic
           | _ => r <- getOpt dec_fv r ;; Some (OFloat r m)
           end ;;
      Some (IFloat req p name d dtxt parse mn mx, o)
  | _, _ => None
  end.
Definition dec_case (ti to : tree) : option (input * obs) :=
  match ti with
  | T (L 5 :: _) => dec_float_case ti to
  | _ => i <- dec_input ti ;; o <- dec_obs to ;; Some (i, o)
  end.

Definition enc_bytes (b : bytes) : tree := ofZs b.
Definition enc_pmap (m : pmap) : tree := ofList (fun kv => T [enc_bytes (fst kv); enc_bytes (snd kv)]) m.
Definition enc_fv (f : fv) : tree := match f with FNaN => T [] | FNum k => T [L k] end.
Definition enc_sval (s : sval) : tree :=
  match s with SStr b => T [L 0; enc_bytes b] | SInt z => T [L 1; L z] | SBool b => T [L 2; ofB b] end.
Definition enc_cval (c : cval) : tree :=
  match c with
  | VS s => enc_sval s
  | VMap m => T [L 3; ofList (fun kv => T [enc_bytes (fst kv); enc_sval (snd kv)]) m]
  end.
Definition enc_cmap (m : cmap) : tree := ofList (fun kv => T [enc_bytes (fst kv); enc_cval (snd kv)]) m.
Definition enc_obs (o : obs) : tree :=
  match o with
  | OPanic => T [L (-1)]
  | OBuild BErr => T [L 1; L 0]
  | OBuild BPanic => T [L 1; L 1]
  | OBuild (BOk m) => T [L 1; L 2; enc_cmap m]
  | OCheck ok m => T [L 2; ofB ok; enc_pmap m]
  | OInt r m => T [L 3; ofOpt L r; enc_pmap m]
  | OStr r m => T [L 4; ofOpt enc_bytes r; enc_pmap m]
  | OFloat r m => T [L 5; ofOpt enc_fv r; enc_pmap m]
  end.

(* observable components: 1 buildConfigMap result (error / panic / the ConfigMap as a finite map with typed values),
   2 checkConfig accept/reject, 3 the parameter map after checkConfig, 4 int getter result, 5 map after the int
   getter, 6 string getter result, 7 map after, 8 float getter result, 9 map after, 10 wrong kind / panic *)
Definition obs_diffs (i : input) (a b : obs) : list Z :=
  match a, b with
  | OBuild x, OBuild y =>
      (* on a conflicting input (see [conflict]) the outcome depends on Go's map iteration order: not compared *)
      if conflict (params_of i) then [] else diff_if (bres_eqb x y) 1
  | OCheck x m, OCheck y n => diff_if (Bool.eqb x y) 2 ++ diff_if (pmap_equiv m n) 3
  | OInt x m, OInt y n => diff_if (opt_eqb Z.eqb x y) 4 ++ diff_if (pmap_equiv m n) 5
  | OStr x m, OStr y n => diff_if (opt_eqb bytes_eqb x y) 6 ++ diff_if (pmap_equiv m n) 7
  | OFloat x m, OFloat y n => diff_if (opt_eqb fv_eqb x y) 8 ++ diff_if (pmap_equiv m n) 9
  | _, _ => [10]
  end.

(* branch tags: see bin/engine_defs/e8.py for the legend *)
Definition tag_if (b : bool) (t : Z) : list Z := if b then [t] else [].
Definition tags (i : input) : list Z :=
  match i with
  | IBuild w p =>
      match defaults_of w p with
      | None => [1]
      | Some dflt =>
          tag_if (conflict p) 2
          ++ tag_if (existsb (fun kv => has_prefix lp (fst kv) && isSome (lookup (trim_prefix lp (fst kv)) dflt)) p) 10
          ++ tag_if (existsb (fun kv => has_prefix lp (fst kv) && negb (isSome (lookup (trim_prefix lp (fst kv)) dflt))) p) 11
          ++ tag_if (has_topic p) 12
          ++ tag_if (existsb (fun kv => negb (has_prefix lp (fst kv))) p) 13
          ++ tag_if (existsb (fun kv => has_prefix lp (fst kv)
                                        && (is_empty (trim_prefix lp (fst kv)) || has_prefix lp (trim_prefix lp (fst kv)))) p) 14
          ++ tag_if (isSome (lookup (lp ++ dtc) p)) 15
          ++ [16 + w]
      end
  | ICheck p =>
      if expected_accept p then 20 :: tag_if (is_empty (pget k_maxlag p)) 25
      else
        tag_if (is_empty (pget k_brokers p) || is_empty (pget k_group p) || is_empty (pget k_topic p)) 21
        ++ tag_if (negb match atoi (pget k_bufsize p) with Some b => 1 <=? b | None => false end) 22
        ++ tag_if (negb (is_empty (pget k_maxlag p) || match atoi (pget k_maxlag p) with Some l => 0 <=? l | None => false end)) 23
        ++ tag_if (negb (is_empty (pget k_par p) || isSome (parse_bool (pget k_par p)))) 24
  | IInt req p name d mn mx =>
      tag_if (negb (int64b d)) 3
      ++ match lookup name p with
         | Some t => match atoi t with
                     | None => [31]
                     | Some v => (if (mn <=? v) && (v <=? mx) then [30] else [32])
                                 ++ tag_if ((v =? mn) || (v =? mx)) 36
                                 ++ tag_if ((v =? mn - 1) || (v =? mx + 1)) 37
                     end
         | None => if req then [35] else if (mn <=? d) && (d <=? mx) then [33] else [34]
         end
  | IStr req p name d =>
      match lookup name p with Some _ => [40] | None => if req then [42] else [41] end
  | IFloat req p name d dtxt parse mn mx =>
      tag_if (negb (float_roundtrip req p name d dtxt parse)) 4
      ++ match lookup name p with
         | Some t => match lookup t parse with
                     | Some (Some v) => (if fle mn v && fle v mx then [50] else [52])
                                        ++ tag_if (fv_eqb v mn || fv_eqb v mx) 56
                                        ++ tag_if (fv_eqb v FNaN) 57
                     | _ => [51]
                     end
         | None => if req then [55] else if fle mn d && fle d mx then [53] else [54]
         end
  end.

(* a case is well formed when the parameter map has distinct keys (it is a Go map), every byte is a byte, the client
   number is one of the four, and, for the float getter, the ParseFloat oracle covers the text the getter will look at *)
Definition byte_ok (z : Z) : bool := (0 <=? z) && (z <=? 255).
Definition bytes_ok (b : bytes) : bool := forallb byte_ok b.
Definition pmap_ok (p : pmap) : bool := forallb (fun kv => bytes_ok (fst kv) && bytes_ok (snd kv)) p.
Definition well_formed (i : input) : bool :=
  keys_nodup (params_of i) && pmap_ok (params_of i)
  && match i with
     | IBuild w _ => (0 <=? w) && (w <=? 3)
     | IInt _ _ name _ _ _ => bytes_ok name
     | IStr _ _ name d => bytes_ok name && bytes_ok d
     | _ => true
     end
  && match i with
     | IFloat req p name d dtxt parse mn mx =>
         bytes_ok name &&
         match lookup name (with_default req name dtxt p) with
         | Some t => isSome (lookup t parse)
         | None => true
         end
     | _ => true
     end.

(* case := T [input; impl_obs] *)
Definition judge (t : tree) : tree :=
  match t with
  | T [ti; to] =>
      match dec_case ti to with
      | Some (i, o) =>
          if well_formed i then
            let m := model_obs i in
            verdict (obs_diffs i m o) (map (fun c => clause 20 (fst c) (map L (snd c))) (spec_c20 i o))
                    (enc_obs m) (tags i)
          else malformed
      | None => malformed
      end
  | _ => malformed
  end.
