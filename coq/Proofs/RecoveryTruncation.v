(* E4 — truncation (C07) *)
From Coq Require Import List ZArith Bool Lia ZifyBool.
From FB Require Import Lib.Sexp Lib.Eqb Model.Tracker Model.Offsets Model.Recovery Judge.E4.
From FB Require Import Proofs.RecoveryProofs Proofs.RecoveryOwnership.
Import ListNotations.
Open Scope Z_scope.

Lemma r_lookup_set_same p v s : lookup p (set p v s) = Some v.
Proof.
  induction s as [|[q rs] s IH]; cbn [set lookup]; [now rewrite Z.eqb_refl|].
  destruct (q =? p) eqn:E; cbn [lookup]; rewrite E; [reflexivity|exact IH].
Qed.

Lemma r_lookup_set_other p q v s : p <> q -> lookup p (set q v s) = lookup p s.
Proof.
  intros Hne. induction s as [|[k rs] s IH]; cbn [set lookup].
  - destruct (q =? p) eqn:E; [exfalso; lia|reflexivity].
  - destruct (k =? q) eqn:E; cbn [lookup].
    + destruct (k =? p) eqn:E2; [exfalso; lia|reflexivity].
    + destruct (k =? p); [reflexivity|exact IH].
Qed.

(* what processError does to the request of ONE formerly active partition (recoveryconsumer.go:229-243) *)
Definition trunc_one (t : tstate) (p f to low : Z) : tres :=
  if f <? low then (if low >=? to then complete t p to else update t p low to)
  else {| ts := t; terr := false; tout := [] |}.

Lemma trunc_one_other t p f to low q : q <> p -> lookup q (ts (trunc_one t p f to low)) = lookup q t.
Proof.
  intros Hne. unfold trunc_one. destruct (f <? low); [|reflexivity]. destruct (low >=? to).
  - unfold complete. destruct (lookup p t) as [rs|]; [|reflexivity].
    destruct (existsb (fun r => snd r =? to) rs); [|reflexivity]. cbn [ts]. apply r_lookup_set_other; assumption.
  - unfold update. destruct (lookup p t) as [[|[f0 t0] rest]|]; try reflexivity.
    destruct (t0 =? to); [|reflexivity]. cbn [ts]. apply r_lookup_set_other; assumption.
Qed.

Lemma kerr_loop_unfold t p f to rest lows :
  kerr_loop t ((p, (f, to)) :: rest) lows =
  (fst (kerr_loop (ts (trunc_one t p f to (low_of lows p))) rest lows),
   tout (trunc_one t p f to (low_of lows p)) ++ snd (kerr_loop (ts (trunc_one t p f to (low_of lows p))) rest lows)).
Proof.
  cbn [kerr_loop]. unfold trunc_one. destruct (kerr_loop _ rest lows) as [t' out]. reflexivity.
Qed.

Lemma kerr_loop_other lows : forall act t q, ~ In q (keys act) -> lookup q (fst (kerr_loop t act lows)) = lookup q t.
Proof.
  induction act as [|[p [f to]] act IH]; intros t q Hq; [reflexivity|].
  rewrite kerr_loop_unfold. cbn [fst]. cbn [keys map fst] in Hq. rewrite IH by (intros Hx; apply Hq; right; exact Hx).
  apply trunc_one_other. intros ->. apply Hq. left. reflexivity.
Qed.

Lemma trunc_one_congr t1 t2 p f to low :
  lookup p t1 = lookup p t2 -> lookup p (ts (trunc_one t1 p f to low)) = lookup p (ts (trunc_one t2 p f to low)).
Proof.
  intros H. unfold trunc_one. destruct (f <? low); [|exact H]. destruct (low >=? to).
  - unfold complete. rewrite H. destruct (lookup p t2) as [rs|] eqn:E2; [|cbn [ts]; congruence].
    destruct (existsb (fun r => snd r =? to) rs); [|cbn [ts]; congruence]. cbn [ts]. now rewrite !r_lookup_set_same.
  - unfold update. rewrite H. destruct (lookup p t2) as [[|[f0 t0] rest]|] eqn:E2; try (cbn [ts]; congruence).
    destruct (t0 =? to); [|cbn [ts]; congruence]. cbn [ts]. now rewrite !r_lookup_set_same.
Qed.

(* every formerly active partition is treated independently of the others *)
Lemma kerr_loop_each lows : forall act t p f to,
  NoDup (keys act) -> In (p, (f, to)) act ->
  lookup p (fst (kerr_loop t act lows)) = lookup p (ts (trunc_one t p f to (low_of lows p))).
Proof.
  induction act as [|[q [qf qt]] act IH]; intros t p f to Hnd Hin; [destruct Hin|].
  rewrite kerr_loop_unfold. cbn [fst]. cbn [keys map fst] in Hnd. inversion Hnd as [|? ? Hnotin Hnd']; subst.
  destruct Hin as [Heq|Hin].
  - inversion Heq; subst. rewrite kerr_loop_other by assumption. reflexivity.
  - rewrite (IH _ p f to Hnd' Hin).
    assert (Hne : p <> q) by (intros ->; apply Hnotin; unfold keys; apply in_map_iff; exists (q, (f, to)); auto).
    apply trunc_one_congr. apply trunc_one_other. assumption.
Qed.

(* C07 truncation: offset-out-of-range / invalid-message with answering watermark queries pauses all recovery and,
   per formerly active partition with from < low, closes the request when low >= to, else moves its from to low;
   partitions that were not active keep their requests; any other error code changes nothing *)
Lemma kerr_truncation s code lows :
  code = 1 \/ code = 2 -> NoDup (keys (active s)) ->
  let s' := fst (kerr_step s code false lows) in
  active s' = [] /\ owned s' = owned s /\
  (forall p f to, In (p, (f, to)) (active s) ->
     lookup p (trk s') = lookup p (ts (trunc_one (trk s) p f to (low_of lows p)))) /\
  (forall q, ~ In q (keys (active s)) -> lookup q (trk s') = lookup q (trk s)).
Proof.
  intros Hc Hnd. unfold kerr_step. replace ((code =? 1) || (code =? 2)) with true by lia.
  destruct (kerr_loop (trk s) (active s) lows) as [t' sent] eqn:E. cbn [fst active owned trk].
  assert (Ht : t' = fst (kerr_loop (trk s) (active s) lows)) by now rewrite E.
  split; [reflexivity|]. split; [reflexivity|]. split.
  - intros p f to Hin. rewrite Ht. apply kerr_loop_each; assumption.
  - intros q Hq. rewrite Ht. apply kerr_loop_other; assumption.
Qed.

Lemma kerr_other_code s code wm lows : code <> 1 -> code <> 2 -> kerr_step s code wm lows = (s, out_nil).
Proof. intros H1 H2. unfold kerr_step. replace ((code =? 1) || (code =? 2)) with false by lia. reflexivity. Qed.

Lemma trunc_one_closed t p f to low rs :
  f < low -> to <= low -> lookup p t = Some rs -> existsb (fun r => snd r =? to) rs = true ->
  lookup p (ts (trunc_one t p f to low)) = Some (filter (fun r => negb (snd r =? to)) rs).
Proof.
  intros H1 H2 Hl He. unfold trunc_one. replace (f <? low) with true by lia. replace (low >=? to) with true by lia.
  unfold complete. rewrite Hl, He. cbn [ts]. apply r_lookup_set_same.
Qed.

Lemma trunc_one_moved t p f to low f0 rest :
  f < low -> low < to -> lookup p t = Some ((f0, to) :: rest) ->
  lookup p (ts (trunc_one t p f to low)) = Some ((low, to) :: rest).
Proof.
  intros H1 H2 Hl. unfold trunc_one. replace (f <? low) with true by lia. replace (low >=? to) with false by lia.
  unfold update. rewrite Hl, Z.eqb_refl. cbn [ts]. apply r_lookup_set_same.
Qed.

Lemma trunc_one_kept t p f to low : low <= f -> ts (trunc_one t p f to low) = t.
Proof. intros H. unfold trunc_one. replace (f <? low) with false by lia. reflexivity. Qed.
