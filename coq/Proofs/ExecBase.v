(* E1 — plumbing lemmas for the proofs about the executor model (Model/Exec.v):
   upd / nth / node / set_node / log / sumf / trace projections / item_eqb reflection /
   try_send characterisation / close_all frame.  Used by Proofs/ExecCount*.v. *)
From Coq Require Import List ZArith Bool Arith Lia.
From FB Require Import Model.Exec Model.TraceSpec Model.ExecInv.
Import ListNotations.
Local Open Scope nat_scope.

(* ------------------------------------------------------------------ upd / nth *)
Lemma upd_length : forall A i (x : A) l, length (upd i x l) = length l.
Proof. intros A i x l; revert i; induction l; intros [|i]; simpl; auto. Qed.

Lemma nth_upd_same : forall A i (x : A) l d, i < length l -> nth i (upd i x l) d = x.
Proof.
  intros A i x l; revert i; induction l; intros [|i] d H; simpl in *; try lia; auto.
  apply IHl; lia.
Qed.

Lemma nth_upd_other : forall A i j (x : A) l d, i <> j -> nth j (upd i x l) d = nth j l d.
Proof.
  intros A i j x l; revert i j; induction l; intros [|i] [|j] d H; simpl in *; auto; try lia.
Qed.

Lemma upd_out : forall A i (x : A) l, length l <= i -> upd i x l = l.
Proof.
  intros A i x l; revert i; induction l; intros [|i] H; simpl in *; auto; try lia.
  f_equal; apply IHl; lia.
Qed.

Lemma nth_error_upd_same : forall A i (x : A) l, i < length l -> nth_error (upd i x l) i = Some x.
Proof.
  intros A i x l; revert i; induction l; intros [|i] H; simpl in *; try lia; auto.
  apply IHl; lia.
Qed.

Lemma nth_error_upd_other : forall A i j (x : A) l, i <> j -> nth_error (upd i x l) j = nth_error l j.
Proof.
  intros A i j x l; revert i j; induction l; intros [|i] [|j] H; simpl in *; auto; try lia.
Qed.

Lemma nth_error_some_lt : forall A (l : list A) i a, nth_error l i = Some a -> i < length l.
Proof. intros A l i a H; apply nth_error_Some; congruence. Qed.

Lemma nth_error_some_nth : forall A (l : list A) i a d, nth_error l i = Some a -> nth i l d = a.
Proof.
  intros A l; induction l; intros [|i] b d H; simpl in *; try discriminate.
  - congruence.
  - eauto.
Qed.

Lemma nth_out : forall A (l : list A) i d, length l <= i -> nth i l d = d.
Proof. intros; apply nth_overflow; auto. Qed.

(* ------------------------------------------------------------------ sumf *)
Lemma sumf_app : forall A (f : A -> nat) l1 l2, sumf f (l1 ++ l2) = sumf f l1 + sumf f l2.
Proof. intros A f l1 l2; induction l1; simpl; auto; lia. Qed.

Lemma sumf_upd : forall A (f : A -> nat) l i a b,
  nth_error l i = Some a -> sumf f (upd i b l) + f a = sumf f l + f b.
Proof.
  intros A f l; induction l; intros [|i] x y H; simpl in *; try discriminate.
  - inversion H; subst; lia.
  - specialize (IHl _ _ y H); lia.
Qed.

Lemma sumf_upd_nth : forall A (f : A -> nat) l i b d,
  i < length l -> sumf f (upd i b l) + f (nth i l d) = sumf f l + f b.
Proof.
  intros A f l i b d H.
  destruct (nth_error l i) eqn:E.
  - rewrite (nth_error_some_nth _ _ _ _ d E); apply sumf_upd; auto.
  - apply nth_error_None in E; lia.
Qed.

Lemma sumf_remove : forall A (f : A -> nat) l i a,
  nth_error l i = Some a -> sumf f (firstn i l ++ skipn (S i) l) + f a = sumf f l.
Proof.
  intros A f l; induction l; intros [|i] x H; simpl in *; try discriminate.
  - inversion H; subst; lia.
  - specialize (IHl _ _ H); simpl in IHl; lia.
Qed.

Lemma sumf_remove_nth : forall A (f : A -> nat) l i d,
  i < length l -> sumf f (firstn i l ++ skipn (S i) l) + f (nth i l d) = sumf f l.
Proof.
  intros A f l i d H.
  destruct (nth_error l i) eqn:E.
  - rewrite (nth_error_some_nth _ _ _ _ d E); apply sumf_remove; auto.
  - apply nth_error_None in E; lia.
Qed.

Lemma sumf_ext_nth : forall A (f : A -> nat) d l l',
  length l = length l' -> (forall n, f (nth n l d) = f (nth n l' d)) -> sumf f l = sumf f l'.
Proof.
  intros A f d l; induction l; intros [|b l'] HL H; simpl in *; try discriminate; auto.
  f_equal.
  - apply (H 0).
  - apply IHl; [lia|]. intro n; apply (H (S n)).
Qed.

Lemma sumf_ext : forall A (f g : A -> nat) l, (forall a, f a = g a) -> sumf f l = sumf g l.
Proof. intros A f g l H; induction l; simpl; auto. Qed.

Lemma sumf_zero : forall A (f : A -> nat) l, (forall a, In a l -> f a = 0) -> sumf f l = 0.
Proof.
  intros A f l; induction l; simpl; intros H; auto.
  rewrite (H a), IHl; auto.
Qed.

Lemma sumf_map : forall A B (g : A -> B) (f : B -> nat) l, sumf f (map g l) = sumf (fun a => f (g a)) l.
Proof. intros; induction l; simpl; auto. Qed.

(* ------------------------------------------------------------------ state plumbing *)
Lemma node_log : forall s es n, node (log s es) n = node s n.
Proof. reflexivity. Qed.
Lemma node_set_mn : forall s m n, node (set_mn s m) n = node s n.
Proof. reflexivity. Qed.
Lemma node_set_src : forall s m n, node (set_src s m) n = node s n.
Proof. reflexivity. Qed.
Lemma node_set_cbs : forall s m n, node (set_cbs s m) n = node s n.
Proof. reflexivity. Qed.

Lemma nodes_log : forall s es, nodes (log s es) = nodes s.
Proof. reflexivity. Qed.
Lemma nodes_set_mn : forall s m, nodes (set_mn s m) = nodes s.
Proof. reflexivity. Qed.
Lemma nodes_set_src : forall s m, nodes (set_src s m) = nodes s.
Proof. reflexivity. Qed.
Lemma nodes_set_cbs : forall s m, nodes (set_cbs s m) = nodes s.
Proof. reflexivity. Qed.
Lemma nodes_set_node : forall s n x, nodes (set_node s n x) = upd n x (nodes s).
Proof. reflexivity. Qed.

Lemma length_nodes_set_node : forall s n x, length (nodes (set_node s n x)) = length (nodes s).
Proof. intros; unfold set_node; simpl; apply upd_length. Qed.

Lemma node_set_node_same : forall s n x, n < length (nodes s) -> node (set_node s n x) n = x.
Proof. intros; unfold node, set_node; simpl; apply nth_upd_same; auto. Qed.

Lemma node_set_node_other : forall s n m x, n <> m -> node (set_node s n x) m = node s m.
Proof. intros; unfold node, set_node; simpl; apply nth_upd_other; auto. Qed.

Lemma node_set_node_out : forall s n m x, length (nodes s) <= n -> node (set_node s n x) m = node s m.
Proof. intros; unfold node, set_node; simpl; rewrite upd_out; auto. Qed.

Lemma nodes_set_node_out : forall s n x, length (nodes s) <= n -> nodes (set_node s n x) = nodes s.
Proof. intros; unfold set_node; simpl; rewrite upd_out; auto. Qed.

Lemma node_out : forall s n, length (nodes s) <= n -> node s n = dummy_ns.
Proof. intros; unfold node; apply nth_overflow; auto. Qed.

(* a worker slot of node n exists only if n is a node of the state *)
Lemma worker_in_range : forall s n w st, nth_error (ws (node s n)) w = Some st -> n < length (nodes s).
Proof.
  intros s n w st H.
  destruct (Nat.lt_ge_cases n (length (nodes s))) as [|G]; auto.
  rewrite (node_out _ _ G) in H; destruct w; discriminate.
Qed.

Lemma tr_log : forall s es, tr (log s es) = es ++ tr s.
Proof. reflexivity. Qed.
Lemma tr_set_node : forall s n x, tr (set_node s n x) = tr s.
Proof. reflexivity. Qed.
Lemma tr_set_mn : forall s m, tr (set_mn s m) = tr s.
Proof. reflexivity. Qed.
Lemma tr_set_src : forall s m, tr (set_src s m) = tr s.
Proof. reflexivity. Qed.
Lemma tr_set_cbs : forall s m, tr (set_cbs s m) = tr s.
Proof. reflexivity. Qed.

Lemma cbs_log : forall s es, cbs (log s es) = cbs s.
Proof. reflexivity. Qed.
Lemma cbs_set_node : forall s n x, cbs (set_node s n x) = cbs s.
Proof. reflexivity. Qed.
Lemma cbs_set_mn : forall s m, cbs (set_mn s m) = cbs s.
Proof. reflexivity. Qed.
Lemma cbs_set_src : forall s m, cbs (set_src s m) = cbs s.
Proof. reflexivity. Qed.
Lemma cbs_set_cbs : forall s m, cbs (set_cbs s m) = m.
Proof. reflexivity. Qed.

Lemma mn_log : forall s es, mn (log s es) = mn s.
Proof. reflexivity. Qed.
Lemma mn_set_node : forall s n x, mn (set_node s n x) = mn s.
Proof. reflexivity. Qed.
Lemma mn_set_mn : forall s m, mn (set_mn s m) = m.
Proof. reflexivity. Qed.
Lemma mn_set_src : forall s m, mn (set_src s m) = mn s.
Proof. reflexivity. Qed.
Lemma mn_set_cbs : forall s m, mn (set_cbs s m) = mn s.
Proof. reflexivity. Qed.

Lemma src_log : forall s es, src (log s es) = src s.
Proof. reflexivity. Qed.
Lemma src_set_node : forall s n x, src (set_node s n x) = src s.
Proof. reflexivity. Qed.
Lemma src_set_mn : forall s m, src (set_mn s m) = src s.
Proof. reflexivity. Qed.
Lemma src_set_src : forall s m, src (set_src s m) = m.
Proof. reflexivity. Qed.
Lemma src_set_cbs : forall s m, src (set_cbs s m) = src s.
Proof. reflexivity. Qed.

Global Hint Rewrite node_log node_set_mn node_set_src node_set_cbs nodes_log nodes_set_mn nodes_set_src
  nodes_set_cbs length_nodes_set_node tr_log tr_set_node tr_set_mn tr_set_src tr_set_cbs
  cbs_log cbs_set_node cbs_set_mn cbs_set_src cbs_set_cbs mn_log mn_set_node mn_set_mn mn_set_src mn_set_cbs
  src_log src_set_node src_set_mn src_set_src src_set_cbs : exb.

(* set_ws / set_worker / set_once / count_outcome: field projections *)
Lemma ws_set_ws : forall x w, ws (set_ws x w) = w.
Proof. reflexivity. Qed.
Lemma ws_set_worker : forall x w st, ws (set_worker x w st) = upd w st (ws x).
Proof. reflexivity. Qed.
Lemma ws_set_once : forall x o, ws (set_once x o) = ws x.
Proof. reflexivity. Qed.
Lemma ws_count_outcome : forall x o, ws (count_outcome x o) = ws x.
Proof. intros x [[|e es]|e|]; reflexivity. Qed.
Lemma q_count_outcome : forall x o, q (count_outcome x o) = q x.
Proof. intros x [[|e es]|e|]; reflexivity. Qed.
Lemma closed_count_outcome : forall x o, closed (count_outcome x o) = closed x.
Proof. intros x [[|e es]|e|]; reflexivity. Qed.
Lemma once_count_outcome : forall x o, once (count_outcome x o) = once x.
Proof. intros x [[|e es]|e|]; reflexivity. Qed.
Lemma inflight_count_outcome : forall x o, inflight (count_outcome x o) = inflight x.
Proof. intros x [[|e es]|e|]; reflexivity. Qed.
Lemma offered_count_outcome : forall x o, offered (count_outcome x o) = offered x.
Proof. intros x [[|e es]|e|]; reflexivity. Qed.
Lemma dropped_count_outcome : forall x o, dropped (count_outcome x o) = dropped x.
Proof. intros x [[|e es]|e|]; reflexivity. Qed.
Lemma c_recv_count_outcome : forall x o, c_recv (count_outcome x o) = c_recv x.
Proof. intros x [[|e es]|e|]; reflexivity. Qed.
Lemma c_disc_count_outcome : forall x o, c_disc (count_outcome x o) = c_disc x.
Proof. intros x [[|e es]|e|]; reflexivity. Qed.

Global Hint Rewrite ws_set_ws ws_set_worker ws_set_once ws_count_outcome q_count_outcome closed_count_outcome
  once_count_outcome inflight_count_outcome offered_count_outcome dropped_count_outcome
  c_recv_count_outcome c_disc_count_outcome : exb.

(* ------------------------------------------------------------------ items *)
Lemma item_eqb_eq : forall a b : item, item_eqb a b = true <-> a = b.
Proof.
  intros [a1 a2] [b1 b2]; unfold item_eqb; simpl.
  rewrite andb_true_iff, !Z.eqb_eq. split.
  - intros [? ?]; subst; auto.
  - intros H; inversion H; auto.
Qed.

Lemma item_eqb_refl : forall a, item_eqb a a = true.
Proof. intros; apply item_eqb_eq; auto. Qed.

Lemma item_eqb_neq : forall a b : item, item_eqb a b = false <-> a <> b.
Proof.
  intros a b; split; intros H.
  - intro E; apply item_eqb_eq in E; congruence.
  - destruct (item_eqb a b) eqn:E; auto. apply item_eqb_eq in E; contradiction.
Qed.

Lemma item_eqb_sym : forall a b, item_eqb a b = item_eqb b a.
Proof.
  intros a b; destruct (item_eqb a b) eqn:E; symmetry.
  - apply item_eqb_eq in E; subst; apply item_eqb_refl.
  - apply item_eqb_neq in E; apply item_eqb_neq; auto.
Qed.

Lemma item_eq_dec : forall a b : item, {a = b} + {a <> b}.
Proof.
  intros a b; destruct (item_eqb a b) eqn:E; [left; apply item_eqb_eq|right; apply item_eqb_neq]; auto.
Qed.

Lemma count_item_app : forall x l1 l2, count_item x (l1 ++ l2) = count_item x l1 + count_item x l2.
Proof. intros x l1 l2; induction l1; simpl; auto; lia. Qed.

Lemma count_item_cons : forall x y l, count_item x (y :: l) = (if item_eqb x y then 1 else 0) + count_item x l.
Proof. reflexivity. Qed.

Lemma count_item_remove_one : forall it l l', remove_one it l = Some l' ->
  forall x, count_item x l = (if item_eqb x it then 1 else 0) + count_item x l'.
Proof.
  intros it l; induction l; intros l' H x; simpl in *; try discriminate.
  destruct (item_eqb it a) eqn:E.
  - inversion H; subst. apply item_eqb_eq in E; subst; auto.
  - destruct (remove_one it l) eqn:R; try discriminate. inversion H; subst; simpl.
    rewrite (IHl _ eq_refl x); lia.
Qed.

Lemma length_remove_one : forall it l l', remove_one it l = Some l' -> length l = S (length l').
Proof.
  intros it l; induction l; intros l' H; simpl in *; try discriminate.
  destruct (item_eqb it a).
  - inversion H; subst; auto.
  - destruct (remove_one it l) eqn:R; try discriminate. inversion H; subst; simpl. f_equal; auto.
Qed.

Lemma remove_one_some : forall it l, count_item it l > 0 -> exists l', remove_one it l = Some l'.
Proof.
  intros it l; induction l; simpl; intros H; try lia.
  destruct (item_eqb it a); eauto.
  destruct IHl as [l' E]; [lia|]. rewrite E; eauto.
Qed.

(* equal multiplicities imply equal length *)
Lemma count_item_all_length : forall a b, (forall x, count_item x a = count_item x b) -> length a = length b.
Proof.
  intros a; induction a as [|y a IH]; intros b H.
  - destruct b as [|z b]; auto. specialize (H z); simpl in H; rewrite item_eqb_refl in H; lia.
  - destruct (remove_one_some y b) as [b' E].
    { rewrite <- H; simpl; rewrite item_eqb_refl; lia. }
    rewrite (length_remove_one _ _ _ E); simpl; f_equal; apply IH.
    intro x; specialize (H x); simpl in H; rewrite (count_item_remove_one _ _ _ E x) in H; lia.
Qed.

(* ------------------------------------------------------------------ cnt_pair / cnt_nat *)
Lemma cnt_pair_nil : forall c x, cnt_pair c x [] = 0.
Proof. reflexivity. Qed.

Lemma cnt_pair_cons : forall c x p l, cnt_pair c x (p :: l) = (if pair_is c x p then 1 else 0) + cnt_pair c x l.
Proof. intros; unfold cnt_pair; simpl; destruct (pair_is c x p); reflexivity. Qed.

Lemma cnt_pair_app : forall c x l1 l2, cnt_pair c x (l1 ++ l2) = cnt_pair c x l1 + cnt_pair c x l2.
Proof. intros; unfold cnt_pair; rewrite filter_app, app_length; auto. Qed.

Lemma cnt_nat_nil : forall c, cnt_nat c [] = 0.
Proof. reflexivity. Qed.

Lemma cnt_nat_cons : forall c r l, cnt_nat c (r :: l) = (if c =? r then 1 else 0) + cnt_nat c l.
Proof. intros; unfold cnt_nat; simpl; destruct (c =? r); reflexivity. Qed.

Lemma wpend_after_deliveries : forall c x p, wpend c x (after_deliveries p) = cnt_pair c x p.
Proof. intros c x [|d p]; reflexivity. Qed.

Lemma wproc_after_deliveries : forall x p, wproc x (after_deliveries p) = 0.
Proof. intros x [|d p]; reflexivity. Qed.

(* ------------------------------------------------------------------ trace projections over ++ *)
Lemma entered_app : forall n p1 p2, entered n (p1 ++ p2) = entered n p1 ++ entered n p2.
Proof. intros; unfold entered; apply flat_map_app. Qed.
Lemma rets_app : forall n p1 p2, rets n (p1 ++ p2) = rets n p1 ++ rets n p2.
Proof. intros; unfold rets; apply flat_map_app. Qed.
Lemma laters_app : forall n p1 p2, laters n (p1 ++ p2) = laters n p1 ++ laters n p2.
Proof. intros; unfold laters; apply flat_map_app. Qed.
Lemma cbacks_app : forall n p1 p2, cbacks n (p1 ++ p2) = cbacks n p1 ++ cbacks n p2.
Proof. intros; unfold cbacks; apply flat_map_app. Qed.
Lemma outcomes_app : forall n p1 p2, outcomes n (p1 ++ p2) = outcomes n p1 ++ outcomes n p2.
Proof. intros; unfold outcomes; apply flat_map_app. Qed.
Lemma results_app : forall n p1 p2, results n (p1 ++ p2) = results n p1 ++ results n p2.
Proof. intros; unfold results; rewrite outcomes_app; apply flat_map_app. Qed.
Lemma failreps_app : forall n p1 p2, failreps n (p1 ++ p2) = failreps n p1 ++ failreps n p2.
Proof. intros; unfold failreps; rewrite outcomes_app; apply flat_map_app. Qed.
Lemma emitted_app : forall p1 p2, emitted (p1 ++ p2) = emitted p1 ++ emitted p2.
Proof. intros; unfold emitted; apply flat_map_app. Qed.
Lemma n_proc_app : forall n p1 p2, n_proc n (p1 ++ p2) = n_proc n p1 + n_proc n p2.
Proof. intros; unfold n_proc; rewrite outcomes_app, filter_app, app_length; auto. Qed.
Lemma n_filt_app : forall n p1 p2, n_filt n (p1 ++ p2) = n_filt n p1 + n_filt n p2.
Proof. intros; unfold n_filt; rewrite outcomes_app, filter_app, app_length; auto. Qed.
Lemma n_fail_app : forall n p1 p2, n_fail n (p1 ++ p2) = n_fail n p1 + n_fail n p2.
Proof. intros; unfold n_fail; rewrite outcomes_app, filter_app, app_length; auto. Qed.
Lemma produced_app : forall nt c x p1 p2, produced nt c x (p1 ++ p2) = produced nt c x p1 + produced nt c x p2.
Proof. intros; unfold produced; apply sumf_app. Qed.

(* events that none of the per-node projections sees *)
Definition quiet_ev (e : tev) : bool :=
  match e with TEnter _ _ | TRet _ _ _ | TCb _ _ _ => false | _ => true end.
(* ... and that entitle nobody to a delivery *)
Definition silent_ev (e : tev) : bool :=
  match e with TEnter _ _ | TRet _ _ _ | TCb _ _ _ | TEmit _ => false | _ => true end.

Lemma silent_quiet : forall ev, forallb silent_ev ev = true -> forallb quiet_ev ev = true.
Proof.
  induction ev as [|e ev IH]; simpl; auto. rewrite !andb_true_iff; intros [H1 H2]; split; auto.
  destruct e; auto.
Qed.

Lemma entered_quiet : forall n ev, forallb quiet_ev ev = true -> entered n ev = [].
Proof.
  induction ev as [|e ev IH]; simpl; auto. rewrite andb_true_iff; intros [H1 H2].
  rewrite (IH H2); destruct e; simpl in *; auto; discriminate.
Qed.
Lemma rets_quiet : forall n ev, forallb quiet_ev ev = true -> rets n ev = [].
Proof.
  induction ev as [|e ev IH]; simpl; auto. rewrite andb_true_iff; intros [H1 H2].
  rewrite (IH H2); destruct e; simpl in *; auto; discriminate.
Qed.
Lemma laters_quiet : forall n ev, forallb quiet_ev ev = true -> laters n ev = [].
Proof.
  induction ev as [|e ev IH]; simpl; auto. rewrite andb_true_iff; intros [H1 H2].
  rewrite (IH H2); destruct e; simpl in *; auto; discriminate.
Qed.
Lemma cbacks_quiet : forall n ev, forallb quiet_ev ev = true -> cbacks n ev = [].
Proof.
  induction ev as [|e ev IH]; simpl; auto. rewrite andb_true_iff; intros [H1 H2].
  rewrite (IH H2); destruct e; simpl in *; auto; discriminate.
Qed.
Lemma outcomes_quiet : forall n ev, forallb quiet_ev ev = true -> outcomes n ev = [].
Proof.
  induction ev as [|e ev IH]; simpl; auto. rewrite andb_true_iff; intros [H1 H2].
  rewrite (IH H2); destruct e; simpl in *; auto; discriminate.
Qed.
Lemma produced_silent : forall nt c x ev, forallb silent_ev ev = true -> produced nt c x ev = 0.
Proof.
  induction ev as [|e ev IH]; simpl; auto. rewrite andb_true_iff; intros [H1 H2].
  unfold produced in *; simpl; rewrite (IH H2); destruct e; simpl in *; auto; discriminate.
Qed.

(* ------------------------------------------------------------------ try_send *)
Definition enq (x : nstate) (it : item) : nstate :=
  {| q := q x ++ [it]; closed := closed x; ws := ws x; once := once x; inflight := inflight x;
     offered := it :: offered x; dropped := dropped x; c_recv := c_recv x; c_proc := c_proc x;
     c_filt := c_filt x; c_fail := c_fail x; c_disc := c_disc x |}.
Definition drp (x : nstate) (it : item) : nstate :=
  {| q := q x; closed := closed x; ws := ws x; once := once x; inflight := inflight x;
     offered := offered x; dropped := it :: dropped x; c_recv := c_recv x; c_proc := c_proc x;
     c_filt := c_filt x; c_fail := c_fail x; c_disc := S (c_disc x) |}.

Lemma try_send_sent : forall nt s c it s', try_send nt s c it = Sent s' ->
  closed (node s c) = false /\
  ((length (q (node s c)) < ncap (info nt c) /\ s' = set_node s c (enq (node s c) it)) \/
   (length (q (node s c)) >= ncap (info nt c) /\ ndisc (info nt c) = true /\ s' = set_node s c (drp (node s c) it))).
Proof.
  intros nt s c it s' H; unfold try_send in H.
  destruct (closed (node s c)) eqn:C; try discriminate. split; auto.
  destruct (length (q (node s c)) <? ncap (info nt c)) eqn:L.
  - apply Nat.ltb_lt in L; inversion H; subst; left; split; auto.
    unfold enq; rewrite C; reflexivity.
  - apply Nat.ltb_ge in L. destruct (ndisc (info nt c)) eqn:D; try discriminate.
    inversion H; subst; right; repeat split; auto.
    unfold drp; rewrite C; reflexivity.
Qed.

Lemma try_send_blocked : forall nt s c it, try_send nt s c it = Blocked ->
  closed (node s c) = false /\ length (q (node s c)) >= ncap (info nt c) /\ ndisc (info nt c) = false.
Proof.
  intros nt s c it H; unfold try_send in H.
  destruct (closed (node s c)); try discriminate.
  destruct (length (q (node s c)) <? ncap (info nt c)) eqn:L; try discriminate.
  apply Nat.ltb_ge in L. destruct (ndisc (info nt c)); try discriminate. auto.
Qed.

Lemma try_send_panic : forall nt s c it, try_send nt s c it = SendPanic <-> closed (node s c) = true.
Proof.
  intros nt s c it; unfold try_send; destruct (closed (node s c)); split; auto; try discriminate.
  destruct (length (q (node s c)) <? ncap (info nt c)); try discriminate.
  destruct (ndisc (info nt c)); discriminate.
Qed.

(* a send to an index outside the table blocks for ever (capacity 0, not discarding) *)
Lemma info_out : forall nt c, length nt <= c -> info nt c = dummy_info.
Proof. intros; unfold info; apply nth_overflow; auto. Qed.

Lemma try_send_in_range : forall nt s c it s', try_send nt s c it = Sent s' -> c < length nt.
Proof.
  intros nt s c it s' H. destruct (Nat.lt_ge_cases c (length nt)) as [|G]; auto.
  apply try_send_sent in H. rewrite (info_out _ _ G) in H; simpl in H.
  destruct H as [_ [[H _]|[_ [H _]]]]; [lia|discriminate].
Qed.

(* frame: only node c changes, and only in q / offered / dropped / c_disc *)
Lemma try_send_frame : forall nt s c it s', try_send nt s c it = Sent s' ->
  length (nodes s') = length (nodes s) /\ cbs s' = cbs s /\ mn s' = mn s /\ src s' = src s /\ tr s' = tr s
  /\ clock s' = clock s /\ wstart s' = wstart s /\ timedout s' = timedout s
  /\ (forall m, m <> c -> node s' m = node s m)
  /\ (forall m, ws (node s' m) = ws (node s m) /\ closed (node s' m) = closed (node s m)
                /\ once (node s' m) = once (node s m) /\ inflight (node s' m) = inflight (node s m)
                /\ c_recv (node s' m) = c_recv (node s m) /\ c_proc (node s' m) = c_proc (node s m)
                /\ c_filt (node s' m) = c_filt (node s m) /\ c_fail (node s' m) = c_fail (node s m)).
Proof.
  intros nt s c it s' H. apply try_send_sent in H. destruct H as [_ H].
  assert (E : exists y, s' = set_node s c y /\ ws y = ws (node s c) /\ closed y = closed (node s c)
            /\ once y = once (node s c) /\ inflight y = inflight (node s c)
            /\ c_recv y = c_recv (node s c) /\ c_proc y = c_proc (node s c)
            /\ c_filt y = c_filt (node s c) /\ c_fail y = c_fail (node s c)).
  { destruct H as [[_ H]|[_ [_ H]]]; eexists; (split; [exact H|simpl; repeat split]). }
  destruct E as [y [E Y]]; subst s'.
  split; [apply length_nodes_set_node|]. repeat (split; [reflexivity|]).
  split. { intros m Hm; apply node_set_node_other; auto. }
  intro m. destruct (Nat.eq_dec m c) as [->|Hm].
  - destruct (Nat.lt_ge_cases c (length (nodes s))) as [L|G].
    + rewrite node_set_node_same; auto.
    + rewrite node_set_node_out; auto. repeat split.
  - rewrite node_set_node_other; auto. repeat split.
Qed.

(* ------------------------------------------------------------------ close_all *)
Definition set_closed (x : nstate) : nstate :=
  {| q := q x; closed := true; ws := ws x; once := once x; inflight := inflight x;
     offered := offered x; dropped := dropped x; c_recv := c_recv x; c_proc := c_proc x;
     c_filt := c_filt x; c_fail := c_fail x; c_disc := c_disc x |}.

(* y is x except possibly for [closed] *)
Definition same_but_closed (x y : nstate) : Prop :=
  q y = q x /\ ws y = ws x /\ once y = once x /\ inflight y = inflight x /\ offered y = offered x
  /\ dropped y = dropped x /\ c_recv y = c_recv x /\ c_proc y = c_proc x /\ c_filt y = c_filt x
  /\ c_fail y = c_fail x /\ c_disc y = c_disc x.

Lemma same_but_closed_refl : forall x, same_but_closed x x.
Proof. intros; repeat split. Qed.

Lemma same_but_closed_trans : forall x y z, same_but_closed x y -> same_but_closed y z -> same_but_closed x z.
Proof.
  unfold same_but_closed; intros x y z H1 H2.
  destruct H1 as (?&?&?&?&?&?&?&?&?&?&?), H2 as (?&?&?&?&?&?&?&?&?&?&?).
  repeat split; congruence.
Qed.

Lemma close_all_cons : forall s c cs,
  close_all s (c :: cs) = if closed (node s c) then None else close_all (set_node s c (set_closed (node s c))) cs.
Proof. reflexivity. Qed.

Lemma close_all_frame : forall cs s s', close_all s cs = Some s' ->
  length (nodes s') = length (nodes s) /\ cbs s' = cbs s /\ mn s' = mn s /\ src s' = src s /\ tr s' = tr s
  /\ clock s' = clock s /\ wstart s' = wstart s /\ timedout s' = timedout s
  /\ (forall m, same_but_closed (node s m) (node s' m))
  /\ (forall m, ~ In m cs -> node s' m = node s m)
  /\ (forall m, closed (node s m) = true -> closed (node s' m) = true).
Proof.
  induction cs as [|c cs IH]; intros s s' H.
  - simpl in H; inversion H; subst. repeat split; auto.
  - rewrite close_all_cons in H. destruct (closed (node s c)) eqn:C; try discriminate.
    apply IH in H. destruct H as (H1&H2&H3&H4&H5&H6&H7&H8&H9&H10&H11).
    rewrite length_nodes_set_node in H1. autorewrite with exb in *.
    repeat (split; [assumption|]).
    assert (F : forall m, same_but_closed (node s m) (node (set_node s c (set_closed (node s c))) m)).
    { intro m. destruct (Nat.eq_dec m c) as [->|Hm].
      - destruct (Nat.lt_ge_cases c (length (nodes s))) as [L|G].
        + rewrite node_set_node_same; auto. repeat split.
        + rewrite node_set_node_out; auto. apply same_but_closed_refl.
      - rewrite node_set_node_other; auto. apply same_but_closed_refl. }
    split; [|split].
    + intro m. eapply same_but_closed_trans; [apply F|apply H9].
    + intros m Hm. rewrite H10; [|intro; apply Hm; right; auto].
      apply node_set_node_other. intro; apply Hm; left; auto.
    + intros m Hm. apply H11. destruct (Nat.eq_dec m c) as [->|Hn].
      * congruence.
      * rewrite node_set_node_other; auto.
Qed.

(* ------------------------------------------------------------------ init *)
Lemma node_init : forall nt n, n < length nt -> node (init nt) n = init_node (info nt n).
Proof.
  intros nt n H; unfold node, init, info; simpl.
  rewrite (nth_indep _ dummy_ns (init_node dummy_info)); [|rewrite map_length; auto].
  apply map_nth.
Qed.

Lemma length_nodes_init : forall nt, length (nodes (init nt)) = length nt.
Proof. intros; unfold init; simpl; apply map_length. Qed.

Lemma quiet_init_trace : forall nt, forallb silent_ev (tr (init nt)) = true.
Proof.
  intros nt; unfold init; simpl. rewrite forallb_app; simpl. rewrite andb_true_r.
  apply forallb_forall. intros e H. apply in_rev, in_map_iff in H. destruct H as [k [<- _]]; auto.
Qed.
