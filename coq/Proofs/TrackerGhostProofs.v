(* E3 — the ghost run erases to the plain run; invariants over ALL histories: nothing filed is
   lost, nothing is invented (monotone updates), provenance of every piece, the head is the
   oldest request. *)
From Coq Require Import List ZArith Bool Lia ZifyBool Sorted.
From FB Require Import Lib.Eqb Model.Tracker Model.TrackerWire Model.TrackerGhost Proofs.TrackerProofs.
Import ListNotations.
Open Scope Z_scope.

(* ---------- erasure ---------- *)
Lemma erase_glookup p e : lookup p (erase_ents e) = option_map (map erase_req) (glookup p e).
Proof.
  induction e as [|[q rs] e IH]; cbn [erase_ents map lookup glookup fst snd option_map]; [reflexivity|].
  destruct (q =? p); [reflexivity|exact IH].
Qed.

Lemma erase_gset p v e : erase_ents (gset p v e) = set p (map erase_req v) (erase_ents e).
Proof.
  induction e as [|[q rs] e IH]; cbn [erase_ents map gset set fst snd]; [reflexivity|].
  destruct (q =? p); cbn [map fst snd]; [reflexivity|]. f_equal. exact IH.
Qed.

Lemma erase_glk p e : lk p (erase_ents e) = map erase_req (glk p e).
Proof. unfold lk, glk. rewrite erase_glookup. destruct (glookup p e); reflexivity. Qed.

Lemma existsb_map {A B} (f : A -> B) (q : B -> bool) l : existsb q (map f l) = existsb (fun x => q (f x)) l.
Proof. induction l as [|x l IH]; cbn [map existsb]; [reflexivity|]. now rewrite IH. Qed.

Lemma filter_map_comm {A B} (f : A -> B) (q : B -> bool) l : filter q (map f l) = map f (filter (fun x => q (f x)) l).
Proof.
  induction l as [|x l IH]; cbn [map filter]; [reflexivity|].
  destruct (q (f x)); cbn [map]; now rewrite IH.
Qed.

Lemma erase_gwiden f t r : erase_req (gwiden f t r) = widen f t (erase_req r).
Proof. unfold gwiden, widen. destruct (overlaps f t (erase_req r)); reflexivity. Qed.

Lemma erase_gfresh rs : forall n, map erase_req (gfresh n rs) = rs.
Proof. induction rs as [|[f t] rs IH]; intros n; cbn [gfresh map]; [reflexivity|]. now rewrite IH. Qed.

Lemma erase_step g o : erase (gstep g o) = ts (tstep (erase g) o).
Proof.
  unfold erase. destruct o as [p f t|p f t|p t| |p rs|]; cbn [gstep tstep].
  - rewrite add_char. cbn [ts]. rewrite erase_glk. unfold merged. rewrite existsb_map.
    destruct (existsb (fun r => overlaps f t (erase_req r)) (glk p (g_ents g))); cbn [g_ents];
      rewrite erase_gset; f_equal.
    + rewrite !map_map. apply map_ext. intros r. apply erase_gwiden.
    + rewrite map_app. reflexivity.
  - unfold update. rewrite erase_glookup.
    destruct (glookup p (g_ents g)) as [[|r rest]|]; cbn [option_map map]; try reflexivity.
    cbn [erase_req]. destruct (g_to r =? t); cbn [ts g_ents]; [|reflexivity].
    rewrite erase_gset. reflexivity.
  - unfold complete. rewrite erase_glookup.
    destruct (glookup p (g_ents g)) as [rs|]; cbn [option_map]; [|reflexivity].
    rewrite existsb_map. cbn [erase_req snd].
    destruct (existsb (fun x => g_to x =? t) rs); cbn [ts g_ents]; [|reflexivity].
    rewrite erase_gset. f_equal. rewrite filter_map_comm. reflexivity.
  - cbn [cancel_all ts g_ents]. unfold erase_ents. rewrite !map_map. reflexivity.
  - cbn [ts g_ents]. unfold receive. rewrite erase_gset, erase_gfresh. reflexivity.
  - reflexivity.
Qed.

Lemma erase_run h : forall g, erase (grun g h) = run_state (erase g) h.
Proof.
  induction h as [|o h IH]; intros g; [reflexivity|].
  cbn [grun run_state fold_left]. fold (grun (gstep g o) h).
  fold (run_state (ts (tstep (erase g) o)) h). rewrite IH, erase_step. reflexivity.
Qed.

Lemma run_state_trun h : forall s, run_state s h = fst (trun s h).
Proof.
  induction h as [|o h IH]; intros s; [reflexivity|].
  cbn [run_state fold_left trun]. fold (run_state (ts (tstep s o)) h). rewrite IH.
  destruct (trun (ts (tstep s o)) h). reflexivity.
Qed.

(* ---------- a property of every tracked request, through one step ---------- *)
Definition AllReq (P : Z -> greq -> Prop) (e : gentries) : Prop :=
  forall q rs r, In (q, rs) e -> In r rs -> P q r.

Lemma glookup_In p e rs : glookup p e = Some rs -> In (p, rs) e.
Proof.
  induction e as [|[q r] e IH]; cbn [glookup]; [discriminate|].
  destruct (q =? p) eqn:E; intros H.
  - inversion H; subst. left. f_equal. lia.
  - right. auto.
Qed.

Lemma gset_In p v e q rs : In (q, rs) (gset p v e) -> In (q, rs) e \/ (q = p /\ rs = v).
Proof.
  induction e as [|[k r] e IH]; cbn [gset In].
  - intros [H|[]]. inversion H; subst. now right.
  - destruct (k =? p) eqn:E; cbn [In].
    + intros [H|H]; [|left; now right]. inversion H; subst. right. split; [lia|reflexivity].
    + intros [H|H]; [left; now left|]. apply IH in H as [H|H]; [left; now right|now right].
Qed.

Lemma AllReq_glk P e p r : AllReq P e -> In r (glk p e) -> P p r.
Proof.
  unfold glk. destruct (glookup p e) as [rs|] eqn:E; [|intros _ []].
  intros H Hin. eapply H; [apply glookup_In; exact E|exact Hin].
Qed.

Lemma gfresh_In rs : forall n r, In r (gfresh n rs) -> exists f t m, r = gnew f t m /\ In (f, t) rs.
Proof.
  induction rs as [|[f t] rs IH]; intros n r; cbn [gfresh In]; [tauto|].
  intros [H|H].
  - exists f, t, n. split; [now symmetry|now left].
  - apply IH in H as (f' & t' & m & -> & Hin). exists f', t', m. split; [reflexivity|now right].
Qed.

Definition op_hyp (P Q : Z -> greq -> Prop) (e : gentries) (o : top) : Prop :=
  match o with
  | Add p f t => (forall r, P p r -> Q p (gwiden f t r)) /\ forall n, Q p (gnew f t n)
  | Update p f t => forall r rest, glookup p e = Some (r :: rest) -> g_to r = t -> P p r -> Q p (gupd f r)
  | Receive p rs => forall f t n, In (f, t) rs -> Q p (gnew f t n)
  | _ => True
  end.

Lemma gstep_all (P Q : Z -> greq -> Prop) g o :
  (forall q r, P q r -> Q q r) -> op_hyp P Q (g_ents g) o ->
  AllReq P (g_ents g) -> AllReq Q (g_ents (gstep g o)).
Proof.
  intros Hmono Hop Hall. destruct o as [p f t|p f t|p t| |p rs'|]; cbn [gstep op_hyp] in *.
  - destruct Hop as [Hw Hn].
    destruct (existsb (fun r => overlaps f t (erase_req r)) (glk p (g_ents g))); cbn [g_ents];
      intros q rs r Hin Hr; apply gset_In in Hin as [Hin|[-> ->]]; try (apply Hmono; eapply Hall; eauto; fail).
    + apply in_map_iff in Hr as (r0 & <- & Hr0). apply Hw. eapply AllReq_glk; eauto.
    + apply in_app_or in Hr as [Hr|[<-|[]]]; [|apply Hn]. apply Hmono. eapply AllReq_glk; eauto.
  - destruct (glookup p (g_ents g)) as [[|r0 rest]|] eqn:E;
      try (intros q rs r Hin Hr; apply Hmono; eapply Hall; eauto; fail).
    destruct (g_to r0 =? t) eqn:E2; cbn [g_ents];
      intros q rs r Hin Hr; [|apply Hmono; eapply Hall; eauto].
    apply gset_In in Hin as [Hin|[-> ->]]; [apply Hmono; eapply Hall; eauto|].
    apply glookup_In in E as Hin0. destruct Hr as [<-|Hr].
    + eapply Hop; [reflexivity|lia|]. eapply Hall; [exact Hin0|now left].
    + apply Hmono. eapply Hall; [exact Hin0|now right].
  - destruct (glookup p (g_ents g)) as [rs0|] eqn:E;
      try (intros q rs r Hin Hr; apply Hmono; eapply Hall; eauto; fail).
    destruct (existsb (fun r => g_to r =? t) rs0); cbn [g_ents];
      intros q rs r Hin Hr; [|apply Hmono; eapply Hall; eauto].
    apply gset_In in Hin as [Hin|[-> ->]]; [apply Hmono; eapply Hall; eauto|].
    apply filter_In in Hr as [Hr _]. apply Hmono. eapply Hall; [apply glookup_In; exact E|exact Hr].
  - cbn [g_ents]. intros q rs r Hin Hr. apply in_map_iff in Hin as (x & Hx & _). inversion Hx; subst. destruct Hr.
  - cbn [g_ents]. intros q rs r Hin Hr. apply gset_In in Hin as [Hin|[-> ->]]; [apply Hmono; eapply Hall; eauto|].
    apply gfresh_In in Hr as (f & t & m & -> & Hft). eapply Hop; eauto.
  - intros q rs r Hin Hr. apply Hmono. eapply Hall; eauto.
Qed.

(* ---------- nothing lost / nothing invented, for either reading of a range ---------- *)
Section Reading.
  Variable inr : Z -> req -> bool.
  Hypothesis H_widen : forall f t r x, inr x (widen f t r) = inr x r || (overlaps f t r && inr x (f, t)).
  Hypothesis H_clip : forall a c f b x, inr x (Z.max a (Z.max c f), b) = inr x (Z.max a c, b) && inr x (f, b).
  Hypothesis H_mix : forall l1 u1 l2 u2 x, inr x (l1, u1) = true -> inr x (l2, u2) = true -> inr x (l1, u2) = true.
  Hypothesis H_lower : forall f0 f t x, f0 <= f -> inr x (f, t) = true -> inr x (f0, t) = true.

  (* every piece, from its progress point onward, lies inside its request *)
  Definition lost_ok (_ : Z) (g : greq) : Prop :=
    forall x pc, In pc (g_pieces g) -> inr x (piece_rng pc) = true -> inr x (erase_req g) = true.
  (* every offset of a request lies in one of its pieces, from that piece's progress point onward *)
  Definition inv_ok (_ : Z) (g : greq) : Prop :=
    forall x, inr x (erase_req g) = true -> exists pc, In pc (g_pieces g) /\ inr x (piece_rng pc) = true.

  Lemma rng_new f t : piece_rng (new_piece f t) = (f, t).
  Proof. unfold piece_rng, new_piece. cbn [pc_from pc_clip pc_to]. now rewrite Z.max_id. Qed.

  Lemma lost_ok_new q f t n : lost_ok q (gnew f t n).
  Proof. intros x pc [<-|[]]. now rewrite rng_new. Qed.
  Lemma inv_ok_new q f t n : inv_ok q (gnew f t n).
  Proof. intros x H. exists (new_piece f t). split; [now left|now rewrite rng_new]. Qed.

  Lemma lost_ok_widen q f t r : lost_ok q r -> lost_ok q (gwiden f t r).
  Proof.
    intros H x pc Hin Hx. rewrite erase_gwiden, H_widen. unfold gwiden in Hin.
    destruct (overlaps f t (erase_req r)) eqn:E; cbn [g_pieces andb] in *.
    - apply in_app_or in Hin as [Hin|[<-|[]]].
      + now rewrite (H x pc Hin Hx).
      + rewrite rng_new in Hx. rewrite Hx. apply orb_true_r.
    - now rewrite (H x pc Hin Hx).
  Qed.

  Lemma inv_ok_widen q f t r : inv_ok q r -> inv_ok q (gwiden f t r).
  Proof.
    intros H x Hx. rewrite erase_gwiden, H_widen in Hx. unfold gwiden.
    destruct (overlaps f t (erase_req r)) eqn:E; cbn [g_pieces andb] in *.
    - apply orb_true_iff in Hx as [Hx|Hx].
      + destruct (H x Hx) as (pc & Hin & Hp). exists pc. split; [apply in_or_app; now left|exact Hp].
      + exists (new_piece f t). split; [apply in_or_app; right; now left|now rewrite rng_new].
    - rewrite orb_false_r in Hx. exact (H x Hx).
  Qed.

  Lemma lost_ok_upd q f r : lost_ok q r -> lost_ok q (gupd f r).
  Proof.
    intros H x pc Hin Hx. unfold gupd in *. cbn [g_pieces erase_req g_from g_to] in *.
    apply in_map_iff in Hin as (pc0 & <- & Hin0).
    unfold piece_rng, clip_piece in Hx. cbn [pc_from pc_to pc_clip] in Hx.
    rewrite H_clip in Hx. apply andb_true_iff in Hx as [Hx1 Hx2].
    specialize (H x pc0 Hin0 Hx1). unfold erase_req in H.
    exact (H_mix _ _ _ _ _ Hx2 H).
  Qed.

  Lemma inv_ok_upd q f r : g_from r <= f -> inv_ok q r -> inv_ok q (gupd f r).
  Proof.
    intros Hle H x Hx. unfold gupd in *. cbn [g_pieces erase_req g_from g_to] in *.
    destruct (H x (H_lower _ _ _ _ Hle Hx)) as (pc & Hin & Hp).
    exists (clip_piece f pc). split; [now apply in_map|].
    unfold piece_rng, clip_piece in *. cbn [pc_from pc_to pc_clip]. rewrite H_clip, Hp. cbn [andb].
    exact (H_mix _ _ _ _ _ Hx Hp).
  Qed.

  Lemma lost_ok_step g o : AllReq lost_ok (g_ents g) -> AllReq lost_ok (g_ents (gstep g o)).
  Proof.
    apply gstep_all; [auto|]. destruct o; cbn [op_hyp]; auto.
    - split; [intros r; apply lost_ok_widen|intros n; apply lost_ok_new].
    - intros r rest _ _. apply lost_ok_upd.
    - intros f t n _. apply lost_ok_new.
  Qed.

  Lemma inv_ok_step g o :
    mono_step (erase g) o = true -> AllReq inv_ok (g_ents g) -> AllReq inv_ok (g_ents (gstep g o)).
  Proof.
    intros Hm. apply gstep_all; [auto|]. destruct o as [p f t|p f t|p t| |p rs|]; cbn [op_hyp]; auto.
    - split; [intros r; apply inv_ok_widen|intros n; apply inv_ok_new].
    - intros r rest E Et. apply inv_ok_upd.
      cbn [mono_step] in Hm. unfold erase in Hm. rewrite erase_glookup, E in Hm.
      cbn [option_map map erase_req] in Hm. rewrite <- Et, Z.eqb_refl in Hm. lia.
    - intros f t n _. apply inv_ok_new.
  Qed.

  Lemma lost_ok_run h : forall g, AllReq lost_ok (g_ents g) -> AllReq lost_ok (g_ents (grun g h)).
  Proof.
    induction h as [|o h IH]; intros g H; [exact H|].
    cbn [grun fold_left]. fold (grun (gstep g o) h). apply IH. now apply lost_ok_step.
  Qed.

  Lemma inv_ok_run h : forall g,
    mono_hist (erase g) h = true -> AllReq inv_ok (g_ents g) -> AllReq inv_ok (g_ents (grun g h)).
  Proof.
    induction h as [|o h IH]; intros g Hm H; [exact H|].
    cbn [mono_hist] in Hm. apply andb_true_iff in Hm as [Hm1 Hm2].
    cbn [grun fold_left]. fold (grun (gstep g o) h). apply IH.
    - now rewrite erase_step.
    - now apply inv_ok_step.
  Qed.

  (* cover of the plain state = union over the tracked requests *)
  Definition cov_by (s : tstate) (p x : Z) : bool := existsb (inr x) (lk p s).

  Lemma lost_cover g p x pc :
    AllReq lost_ok (g_ents g) -> In pc (pieces_of p g) -> inr x (piece_rng pc) = true ->
    cov_by (erase g) p x = true.
  Proof.
    intros H Hin Hx. unfold pieces_of in Hin. apply in_flat_map in Hin as (r & Hr & Hpc).
    unfold cov_by, erase. rewrite erase_glk, existsb_map. apply existsb_exists. exists r. split; [exact Hr|].
    exact (AllReq_glk _ _ _ _ H Hr x pc Hpc Hx).
  Qed.

  Lemma inv_cover g p x :
    AllReq inv_ok (g_ents g) -> cov_by (erase g) p x = true ->
    exists pc, In pc (pieces_of p g) /\ inr x (piece_rng pc) = true.
  Proof.
    intros H Hc. unfold cov_by, erase in Hc. rewrite erase_glk, existsb_map in Hc.
    apply existsb_exists in Hc as (r & Hr & Hx).
    destruct (AllReq_glk _ _ _ _ H Hr x Hx) as (pc & Hpc & Hp).
    exists pc. split; [|exact Hp]. unfold pieces_of. apply in_flat_map. now exists r.
  Qed.
End Reading.

Lemma AllReq_init P : AllReq P (g_ents ginit).
Proof. intros q rs r []. Qed.

Lemma clip_co a c f b x : in_req x (Z.max a (Z.max c f), b) = in_req x (Z.max a c, b) && in_req x (f, b).
Proof. unfold in_req. cbn [fst snd]. lia. Qed.
Lemma mix_co l1 u1 l2 u2 x : in_req x (l1, u1) = true -> in_req x (l2, u2) = true -> in_req x (l1, u2) = true.
Proof. unfold in_req. cbn [fst snd]. lia. Qed.
Lemma lower_co f0 f t x : f0 <= f -> in_req x (f, t) = true -> in_req x (f0, t) = true.
Proof. unfold in_req. cbn [fst snd]. lia. Qed.
Lemma clip_oc a c f b x : in_req_oc x (Z.max a (Z.max c f), b) = in_req_oc x (Z.max a c, b) && in_req_oc x (f, b).
Proof. unfold in_req_oc. cbn [fst snd]. lia. Qed.
Lemma mix_oc l1 u1 l2 u2 x : in_req_oc x (l1, u1) = true -> in_req_oc x (l2, u2) = true -> in_req_oc x (l1, u2) = true.
Proof. unfold in_req_oc. cbn [fst snd]. lia. Qed.
Lemma lower_oc f0 f t x : f0 <= f -> in_req_oc x (f, t) = true -> in_req_oc x (f0, t) = true.
Proof. unfold in_req_oc. cbn [fst snd]. lia. Qed.

Lemma cov_by_covered s p x : cov_by in_req s p x = covered s p x.
Proof. unfold cov_by, covered, lk. destruct (lookup p s); reflexivity. Qed.
Lemma cov_by_covered_oc s p x : cov_by in_req_oc s p x = covered_oc s p x.
Proof. unfold cov_by, covered_oc, lk. destruct (lookup p s); reflexivity. Qed.

(* ---------- provenance: every live piece was filed, its progress point never precedes its from ---------- *)
Definition prov (h : list top) (q : Z) (r : greq) : Prop :=
  forall pc, In pc (g_pieces r) -> In (pc_from pc, pc_to pc) (filed_on q h) /\ pc_from pc <= pc_clip pc.

Lemma grun_snoc g h o : grun g (h ++ [o]) = gstep (grun g h) o.
Proof. unfold grun. now rewrite fold_left_app. Qed.

Lemma filed_on_snoc q h o : filed_on q (h ++ [o]) = filed_on q h ++ filed_by q o.
Proof. unfold filed_on. rewrite flat_map_app. cbn [flat_map]. now rewrite app_nil_r. Qed.

Lemma prov_new h p f t n o :
  In (f, t) (filed_by p o) -> prov (h ++ [o]) p (gnew f t n).
Proof.
  intros Hin pc [<-|[]]. cbn [new_piece pc_from pc_to pc_clip]. split; [|lia].
  rewrite filed_on_snoc. apply in_or_app. now right.
Qed.

Lemma prov_run : forall h, AllReq (prov h) (g_ents (grun ginit h)).
Proof.
  induction h as [|o h IH] using rev_ind; [apply AllReq_init|].
  rewrite grun_snoc. eapply gstep_all; [| |exact IH].
  - intros q r H pc Hpc. destruct (H pc Hpc) as [H1 H2]. split; [|exact H2].
    rewrite filed_on_snoc. apply in_or_app. now left.
  - destruct o as [p f t|p f t|p t| |p rs|]; cbn [op_hyp]; auto.
    + assert (Hf : In (f, t) (filed_by p (Add p f t))) by (cbn [filed_by]; rewrite Z.eqb_refl; now left).
      split; [|intros n; now apply prov_new].
      intros r H pc Hpc. unfold gwiden in Hpc. destruct (overlaps f t (erase_req r)); cbn [g_pieces] in Hpc.
      * apply in_app_or in Hpc as [Hpc|[<-|[]]].
        -- destruct (H pc Hpc) as [H1 H2]. split; [|exact H2]. rewrite filed_on_snoc. apply in_or_app. now left.
        -- cbn [new_piece pc_from pc_to pc_clip]. split; [|lia]. rewrite filed_on_snoc. apply in_or_app. now right.
      * destruct (H pc Hpc) as [H1 H2]. split; [|exact H2]. rewrite filed_on_snoc. apply in_or_app. now left.
    + intros r rest _ _ H pc Hpc. cbn [gupd g_pieces] in Hpc. apply in_map_iff in Hpc as (pc0 & <- & Hpc0).
      destruct (H pc0 Hpc0) as [H1 H2]. cbn [clip_piece pc_from pc_to pc_clip]. split; [|lia].
      rewrite filed_on_snoc. apply in_or_app. now left.
    + intros f t n Hin. apply prov_new. cbn [filed_by]. now rewrite Z.eqb_refl.
Qed.

(* ---------- births: strictly increasing along every list; the head is the oldest ---------- *)
Definition older (a b : greq) : Prop := (g_birth a < g_birth b)%nat.
Definition births_ok (n : nat) (rs : list greq) : Prop :=
  StronglySorted older rs /\ Forall (fun r => (g_birth r < n)%nat) rs.
Definition AllList (P : list greq -> Prop) (e : gentries) : Prop := forall q rs, In (q, rs) e -> P rs.

Lemma births_ok_weaken n m rs : (n <= m)%nat -> births_ok n rs -> births_ok m rs.
Proof.
  intros Hle [H1 H2]. split; [exact H1|]. eapply Forall_impl; [|exact H2]. cbn. intros; lia.
Qed.

Lemma ssorted_filter {A} (R : A -> A -> Prop) f l : StronglySorted R l -> StronglySorted R (filter f l).
Proof.
  induction 1 as [|a l Hs IH Hf]; cbn [filter]; [constructor|].
  destruct (f a); [|exact IH]. constructor; [exact IH|].
  apply Forall_forall. intros x Hx. apply filter_In in Hx as [Hx _].
  rewrite Forall_forall in Hf. now apply Hf.
Qed.

Lemma ssorted_map_same (g : greq -> greq) l :
  (forall r, g_birth (g r) = g_birth r) -> StronglySorted older l -> StronglySorted older (map g l).
Proof.
  intros Hg. induction 1 as [|a l Hs IH Hf]; cbn [map]; constructor; [exact IH|].
  apply Forall_forall. intros x Hx. apply in_map_iff in Hx as (y & <- & Hy).
  rewrite Forall_forall in Hf. unfold older. rewrite !Hg. now apply Hf.
Qed.

Lemma births_ok_snoc n rs r : births_ok n rs -> g_birth r = n -> births_ok (S n) (rs ++ [r]).
Proof.
  intros [H1 H2] Hb. split.
  - induction H1 as [|a l Hs IH Hf]; cbn [app].
    + constructor; constructor.
    + inversion H2 as [|? ? Ha Hl]; subst. constructor; [now apply IH|].
      apply Forall_app. split; [exact Hf|]. constructor; [|constructor]. unfold older. lia.
  - apply Forall_app. split.
    + eapply Forall_impl; [|exact H2]. cbn. intros; lia.
    + constructor; [lia|constructor].
Qed.

Lemma births_ok_fresh rs : forall n,
  StronglySorted older (gfresh n rs)
  /\ Forall (fun r => (n <= g_birth r < n + length rs)%nat) (gfresh n rs).
Proof.
  induction rs as [|[f t] rs IH]; intros n; cbn [gfresh length].
  - split; constructor.
  - destruct (IH (S n)) as [H1 H2]. split.
    + constructor; [exact H1|]. eapply Forall_impl; [|exact H2]. unfold older. cbn. intros; lia.
    + constructor; [cbn; lia|]. eapply Forall_impl; [|exact H2]. cbn. intros; lia.
Qed.

Lemma births_step g o :
  AllList (births_ok (g_next g)) (g_ents g) ->
  AllList (births_ok (g_next (gstep g o))) (g_ents (gstep g o)).
Proof.
  intros H. assert (Hglk : forall p, births_ok (g_next g) (glk p (g_ents g))).
  { intros p. unfold glk. destruct (glookup p (g_ents g)) eqn:E; [|split; constructor].
    eapply H. apply glookup_In. exact E. }
  destruct o as [p f t|p f t|p t| |p rs'|]; cbn [gstep].
  - destruct (existsb (fun r => overlaps f t (erase_req r)) (glk p (g_ents g))); cbn [g_ents g_next];
      intros q rs Hin; apply gset_In in Hin as [Hin|[-> ->]].
    + eapply H; eauto.
    + destruct (Hglk p) as [H1 H2]. split.
      * apply ssorted_map_same; [|exact H1]. intros r. unfold gwiden. now destruct (overlaps f t (erase_req r)).
      * apply Forall_forall. intros x Hx. apply in_map_iff in Hx as (y & <- & Hy).
        rewrite Forall_forall in H2. unfold gwiden. destruct (overlaps f t (erase_req y)); cbn [g_birth]; now apply H2.
    + eapply births_ok_weaken; [|eapply H; eauto]. lia.
    + apply births_ok_snoc; [apply Hglk|reflexivity].
  - destruct (glookup p (g_ents g)) as [[|r0 rest]|] eqn:E; try exact H.
    destruct (g_to r0 =? t); [|exact H]. cbn [g_ents g_next].
    intros q rs Hin; apply gset_In in Hin as [Hin|[-> ->]]; [eapply H; eauto|].
    apply glookup_In in E. destruct (H _ _ E) as [H1 H2]. inversion H1; subst. inversion H2; subst.
    split; constructor; auto.
  - destruct (glookup p (g_ents g)) as [rs0|] eqn:E; try exact H.
    destruct (existsb (fun r => g_to r =? t) rs0); [|exact H]. cbn [g_ents g_next].
    intros q rs Hin; apply gset_In in Hin as [Hin|[-> ->]]; [eapply H; eauto|].
    apply glookup_In in E. destruct (H _ _ E) as [H1 H2]. split; [now apply ssorted_filter|].
    apply Forall_forall. intros x Hx. apply filter_In in Hx as [Hx _]. rewrite Forall_forall in H2. now apply H2.
  - cbn [g_ents g_next]. intros q rs Hin. apply in_map_iff in Hin as (x & Hx & _). inversion Hx; subst.
    split; constructor.
  - cbn [g_ents g_next]. intros q rs Hin; apply gset_In in Hin as [Hin|[-> ->]].
    + eapply births_ok_weaken; [|eapply H; eauto]. lia.
    + destruct (births_ok_fresh rs' (g_next g)) as [H1 H2]. split; [exact H1|].
      eapply Forall_impl; [|exact H2]. cbn. intros; lia.
  - exact H.
Qed.

Lemma births_run h : forall g,
  AllList (births_ok (g_next g)) (g_ents g) ->
  AllList (births_ok (g_next (grun g h))) (g_ents (grun g h)).
Proof.
  induction h as [|o h IH]; intros g H; [exact H|].
  cbn [grun fold_left]. fold (grun (gstep g o) h). apply IH. now apply births_step.
Qed.

(* ---------- the theorems of Props/C08.v ---------- *)
Lemma ghost_erases h : erase (grun ginit h) = fst (trun [] h).
Proof. rewrite erase_run. apply run_state_trun. Qed.

Lemma head_is_oldest h p :
  let g := grun ginit h in
  get (fst (trun [] h)) p = match glk p (g_ents g) with r :: _ => Some (erase_req r) | [] => None end
  /\ forall r rest, glk p (g_ents g) = r :: rest -> Forall (fun r' => (g_birth r < g_birth r')%nat) rest.
Proof.
  intros g. split.
  - rewrite <- ghost_erases. fold g. unfold get, erase. rewrite erase_glookup. unfold glk.
    destruct (glookup p (g_ents g)) as [[|r rest]|]; reflexivity.
  - intros r rest E. assert (H : births_ok (g_next g) (glk p (g_ents g))).
    { unfold glk in *. destruct (glookup p (g_ents g)) eqn:E2; [|discriminate].
      eapply (births_run h ginit); [intros q rs []|]. apply glookup_In. exact E2. }
    rewrite E in H. destruct H as [H _]. inversion H; subst. assumption.
Qed.

Lemma never_lost h :
  let g := grun ginit h in
  let s := fst (trun [] h) in
  erase g = s
  /\ (forall p x pc, In pc (pieces_of p g) ->
        (in_req x (piece_rng pc) = true -> covered s p x = true)
        /\ (in_req_oc x (piece_rng pc) = true -> covered_oc s p x = true))
  /\ (forall p pc, In pc (pieces_of p g) ->
        In (pc_from pc, pc_to pc) (filed_on p h) /\ pc_from pc <= pc_clip pc).
Proof.
  intros g s. assert (He : erase g = s) by apply ghost_erases. split; [exact He|]. split.
  - intros p x pc Hin. rewrite <- He, <- cov_by_covered, <- cov_by_covered_oc. split; intros Hx.
    + eapply (lost_cover in_req); eauto. apply (lost_ok_run in_req widen_in_req clip_co mix_co). apply AllReq_init.
    + eapply (lost_cover in_req_oc); eauto. apply (lost_ok_run in_req_oc widen_in_req_oc clip_oc mix_oc). apply AllReq_init.
  - intros p pc Hin. unfold pieces_of in Hin. apply in_flat_map in Hin as (r & Hr & Hpc).
    exact (AllReq_glk _ _ _ _ (prov_run h) Hr pc Hpc).
Qed.

Lemma nothing_invented h :
  mono_hist [] h = true ->
  let g := grun ginit h in
  let s := fst (trun [] h) in
  forall p x,
    (covered s p x = true -> exists pc, In pc (pieces_of p g) /\ in_req x (piece_rng pc) = true)
    /\ (covered_oc s p x = true -> exists pc, In pc (pieces_of p g) /\ in_req_oc x (piece_rng pc) = true).
Proof.
  intros Hm g s p x. assert (He : erase g = s) by apply ghost_erases.
  rewrite <- He, <- cov_by_covered, <- cov_by_covered_oc. split; intros Hc.
  - eapply (inv_cover in_req); eauto.
    apply (inv_ok_run in_req widen_in_req clip_co mix_co lower_co); [exact Hm|apply AllReq_init].
  - eapply (inv_cover in_req_oc); eauto.
    apply (inv_ok_run in_req_oc widen_in_req_oc clip_oc mix_oc lower_oc); [exact Hm|apply AllReq_init].
Qed.

(* ---------- "until": a piece leaves the tracker only through a completion naming its request's
   to, a cancel-all, or a snapshot received for its partition ---------- *)
Lemma glookup_gset p q v e : glookup q (gset p v e) = if q =? p then Some v else glookup q e.
Proof.
  induction e as [|[k r] e IH]; cbn [gset glookup].
  - rewrite (Z.eqb_sym p q). destruct (q =? p); reflexivity.
  - destruct (k =? p) eqn:E; cbn [glookup].
    + destruct (q =? p) eqn:E2.
      * assert (k =? q = true) as -> by lia. reflexivity.
      * assert (k =? q = false) as -> by lia. reflexivity.
    + destruct (k =? q) eqn:E3.
      * assert (q =? p = false) as -> by lia. reflexivity.
      * exact IH.
Qed.

Lemma glk_gset_same p v e : glk p (gset p v e) = v.
Proof. unfold glk. now rewrite glookup_gset, Z.eqb_refl. Qed.
Lemma glk_gset_other p q v e : q <> p -> glk q (gset p v e) = glk q e.
Proof. intros H. unfold glk. rewrite glookup_gset. assert (q =? p = false) as -> by lia. reflexivity. Qed.

Definition survives (g' : gstate) (p : Z) (r : greq) (pc : piece) : Prop :=
  exists r' pc', In r' (glk p (g_ents g')) /\ In pc' (g_pieces r') /\ g_birth r' = g_birth r
                 /\ pc_from pc' = pc_from pc /\ pc_to pc' = pc_to pc /\ pc_clip pc <= pc_clip pc'.

Lemma piece_until g o p r pc :
  In r (glk p (g_ents g)) -> In pc (g_pieces r) ->
  survives (gstep g o) p r pc
  \/ o = CancelAll \/ (exists rs, o = Receive p rs) \/ o = Complete p (g_to r).
Proof.
  intros Hr Hpc.
  assert (Hsame : forall g', glk p (g_ents g') = glk p (g_ents g) -> survives g' p r pc).
  { intros g' E. exists r, pc. rewrite E. repeat split; auto; lia. }
  unfold survives in *.
  destruct o as [p' f t|p' f t|p' t| |p' rs'|]; cbn [gstep].
  - left. destruct (Z.eq_dec p p') as [<-|Hne].
    + destruct (existsb (fun r => overlaps f t (erase_req r)) (glk p (g_ents g))); cbn [g_ents].
      * exists (gwiden f t r), pc. cbn [g_ents]; rewrite glk_gset_same. split; [now apply in_map|].
        unfold gwiden. destruct (overlaps f t (erase_req r)); cbn [g_pieces g_birth];
          repeat split; auto; try lia. apply in_or_app. now left.
      * exists r, pc. cbn [g_ents]; rewrite glk_gset_same. repeat split; auto; try lia. apply in_or_app. now left.
    + destruct (existsb _ (glk p' (g_ents g))); apply Hsame; cbn [g_ents]; now apply glk_gset_other.
  - left. destruct (glookup p' (g_ents g)) as [[|r0 rest]|] eqn:E; try (now apply Hsame).
    destruct (g_to r0 =? t); [|now apply Hsame]. destruct (Z.eq_dec p p') as [<-|Hne].
    + unfold glk in Hr. rewrite E in Hr. destruct Hr as [<-|Hr].
      * exists (gupd f r0), (clip_piece f pc). cbn [g_ents]. cbn [g_ents]; rewrite glk_gset_same.
        split; [now left|]. cbn [gupd g_pieces g_birth clip_piece pc_from pc_to pc_clip].
        repeat split; auto; try lia. now apply in_map.
      * exists r, pc. cbn [g_ents]. cbn [g_ents]; rewrite glk_gset_same. repeat split; auto; try lia. now right.
    + apply Hsame. cbn [g_ents]. now apply glk_gset_other.
  - destruct (glookup p' (g_ents g)) as [rs0|] eqn:E; try (left; now apply Hsame).
    destruct (existsb (fun r => g_to r =? t) rs0); [|left; now apply Hsame].
    destruct (Z.eq_dec p p') as [<-|Hne].
    + unfold glk in Hr. rewrite E in Hr. destruct (g_to r =? t) eqn:Et.
      * right. right. right. f_equal. lia.
      * left. exists r, pc. cbn [g_ents]. cbn [g_ents]; rewrite glk_gset_same. repeat split; auto; try lia.
        apply filter_In. split; [exact Hr|]. now rewrite Et.
    + left. apply Hsame. cbn [g_ents]. now apply glk_gset_other.
  - right. now left.
  - destruct (Z.eq_dec p p') as [<-|Hne].
    + right. right. left. now exists rs'.
    + left. apply Hsame. cbn [g_ents]. now apply glk_gset_other.
  - left. now apply Hsame.
Qed.
