(* E4 / C19 — the limiter as a scheduler: whatever the times at which records become available, the emission times
   a caller of Wait obtains are admitted by the ideal bucket, hence obey the window bound; Wait never delays a caller
   that finds a token, and never releases one earlier than asked. *)
From Coq Require Import List ZArith Bool Lia ZifyBool.
From FB Require Import Model.Bucket Proofs.BucketProofs.
Import ListNotations.
Open Scope Z_scope.

Ltac Zify.zify_post_hook ::= Z.div_mod_to_equations.

Lemma wait_until_ge b lvl t0 t : 0 < b_rate b -> 0 < b_den b -> t <= wait_until b lvl t0 t.
Proof.
  intros Hr Hd. unfold wait_until. destruct (b_den b <=? level_at b lvl t0 t) eqn:E; [lia|].
  assert (0 <= (b_den b - level_at b lvl t0 t + b_rate b - 1) / b_rate b) by (apply Z.div_pos; lia).
  lia.
Qed.

(* no delay when a token is there *)
Lemma wait_until_now b lvl t0 t : b_den b <= level_at b lvl t0 t -> wait_until b lvl t0 t = t.
Proof. intros H. unfold wait_until. destruct (b_den b <=? level_at b lvl t0 t) eqn:E; lia. Qed.

(* at the time Wait returns a whole token is available *)
Lemma wait_until_token b lvl t0 t :
  0 < b_rate b -> 0 < b_den b -> 1 <= b_burst b -> lvl <= cap b -> t0 <= t ->
  b_den b <= level_at b lvl t0 (wait_until b lvl t0 t).
Proof.
  intros Hr Hd Hb Hl Ht. unfold wait_until.
  destruct (b_den b <=? level_at b lvl t0 t) eqn:E; [lia|].
  assert (Hcap : b_den b <= cap b) by (unfold cap; nia).
  unfold level_at in *.
  set (r := b_rate b) in *. set (den := b_den b) in *. set (C := cap b) in *.
  assert (Hlow : lvl + r * (t - t0) < den) by lia.
  replace (Z.min C (lvl + r * (t - t0))) with (lvl + r * (t - t0)) by lia.
  set (need := den - (lvl + r * (t - t0))) in *.
  assert (Hq : need <= r * ((need + r - 1) / r)).
  { pose proof (Z.div_mod (need + r - 1) r ltac:(lia)) as Hdm.
    pose proof (Z.mod_pos_bound (need + r - 1) r Hr) as Hm. lia. }
  replace (r * (t + (need + r - 1) / r - t0)) with (r * (t - t0) + r * ((need + r - 1) / r)) by ring.
  lia.
Qed.

(* Wait returns at the EARLIEST tick with a token: one tick earlier there is none *)
Lemma wait_until_earliest b lvl t0 t :
  0 < b_rate b -> 0 < b_den b -> lvl <= cap b -> t0 <= t ->
  forall u, t <= u < wait_until b lvl t0 t -> level_at b lvl t0 u < b_den b.
Proof.
  intros Hr Hd Hl Ht u Hu. unfold wait_until in Hu.
  destruct (b_den b <=? level_at b lvl t0 t) eqn:E; [lia|].
  unfold level_at in *.
  set (r := b_rate b) in *. set (den := b_den b) in *. set (C := cap b) in *.
  destruct (Z_lt_le_dec C den) as [HC|HC]; [lia|].
  assert (Hlow : lvl + r * (t - t0) < den) by lia.
  replace (Z.min C (lvl + r * (t - t0))) with (lvl + r * (t - t0)) in Hu by lia.
  set (need := den - (lvl + r * (t - t0))) in *.
  assert (Hq : r * ((need + r - 1) / r) < need + r).
  { pose proof (Z.div_mod (need + r - 1) r ltac:(lia)) as Hdm.
    pose proof (Z.mod_pos_bound (need + r - 1) r Hr) as Hm. lia. }
  assert (Hu' : r * (u - t) <= r * ((need + r - 1) / r) - r) by nia.
  replace (r * (u - t0)) with (r * (t - t0) + r * (u - t)) by ring.
  lia.
Qed.

Lemma level_at_bounds b lvl t0 t :
  0 <= b_rate b -> 0 <= cap b -> 0 <= lvl -> t0 <= t -> 0 <= level_at b lvl t0 t <= cap b.
Proof. intros Hr Hc Hl Ht. unfold level_at. pose proof (mul_nonneg (b_rate b) (t - t0) Hr ltac:(lia)). lia. Qed.

(* whatever the availability times, the emission times are admitted by the bucket *)
Lemma schedule_admitted b : 0 < b_rate b -> 0 < b_den b -> 1 <= b_burst b ->
  forall arr lvl t0, 0 <= lvl <= cap b -> admitted_from b lvl t0 (schedule b lvl t0 arr) = true.
Proof.
  intros Hr Hd Hb. assert (Hcap : b_den b <= cap b) by (unfold cap; nia).
  induction arr as [|a arr IH]; intros lvl t0 Hl; [reflexivity|].
  cbn [schedule admitted_from].
  set (t := wait_until b lvl t0 (Z.max a t0)).
  assert (Ht : Z.max a t0 <= t) by (apply wait_until_ge; assumption).
  assert (Htok : b_den b <= level_at b lvl t0 t)
    by (apply wait_until_token; try assumption; lia).
  pose proof (level_at_bounds b lvl t0 t ltac:(lia) ltac:(lia) ltac:(lia) ltac:(lia)) as Hlb.
  rewrite IH by lia.
  destruct (t0 <=? t) eqn:E1; [|lia]. destruct (b_den b <=? level_at b lvl t0 t) eqn:E2; [|lia]. reflexivity.
Qed.

Lemma Forall2_weaken {A B} (P Q : A -> B -> Prop) l1 l2 :
  (forall x y, P x y -> Q x y) -> Forall2 P l1 l2 -> Forall2 Q l1 l2.
Proof. intros HPQ H. induction H; constructor; auto. Qed.

(* every emission happens at or after the time its record became available, and in order *)
Lemma schedule_not_early b : 0 < b_rate b -> 0 < b_den b ->
  forall arr lvl t0, Forall2 (fun a t => a <= t /\ t0 <= t) arr (schedule b lvl t0 arr).
Proof.
  intros Hr Hd. induction arr as [|a arr IH]; intros lvl t0; cbn [schedule]; constructor.
  - pose proof (wait_until_ge b lvl t0 (Z.max a t0) Hr Hd). lia.
  - pose proof (wait_until_ge b lvl t0 (Z.max a t0) Hr Hd) as Hw.
    eapply Forall2_weaken; [|apply IH]. cbn. intros x y [H1 H2]. lia.
Qed.

Lemma schedule_length b arr : forall lvl t0, length (schedule b lvl t0 arr) = length arr.
Proof. induction arr as [|a arr IH]; intros; cbn [schedule length]; [reflexivity|]. now rewrite IH. Qed.

(* C19 for the scheduler: records available as fast as one likes, any window [s, s+d]: at most burst + rate*d/den *)
Lemma schedule_window_bound b t0 arr s d :
  0 < b_rate b -> 0 < b_den b -> 1 <= b_burst b -> 0 <= d ->
  b_den b * count_in s (s + d) (schedule b (cap b) t0 arr) <= b_den b * b_burst b + b_rate b * d.
Proof.
  intros Hr Hd Hb Hdd. apply (bucket_window_bound b t0); try lia.
  unfold admitted. apply schedule_admitted; try assumption. unfold cap. nia.
Qed.

(* the first [burst] records of a backlog available at t0 are emitted at t0: the initial burst is not delayed *)
Lemma schedule_burst_now b t0 : 0 < b_rate b -> 0 < b_den b ->
  forall n lvl, 0 <= lvl <= cap b -> Z.of_nat n * b_den b <= lvl ->
  schedule b lvl t0 (repeat t0 n) = repeat t0 n.
Proof.
  intros Hr Hd. induction n as [|n IH]; intros lvl Hl Hn; [reflexivity|].
  cbn [repeat schedule]. replace (Z.max t0 t0) with t0 by lia.
  assert (Hlv : level_at b lvl t0 t0 = lvl).
  { unfold level_at. replace (t0 - t0) with 0 by lia. lia. }
  rewrite wait_until_now by (rewrite Hlv; lia).
  rewrite Hlv. rewrite IH by lia. reflexivity.
Qed.

Lemma schedule_only_delays b arr lvl t0 :
  0 < b_rate b -> 0 < b_den b ->
  length (schedule b lvl t0 arr) = length arr
  /\ Forall2 (fun a t => a <= t /\ t0 <= t) arr (schedule b lvl t0 arr).
Proof. intros Hr Hd. split; [apply schedule_length | apply schedule_not_early; assumption]. Qed.

Lemma wait_exact b lvl t0 t :
  0 < b_rate b -> 0 < b_den b -> 1 <= b_burst b -> lvl <= cap b -> t0 <= t ->
  b_den b <= level_at b lvl t0 (wait_until b lvl t0 t)
  /\ (forall u, t <= u < wait_until b lvl t0 t -> level_at b lvl t0 u < b_den b).
Proof.
  intros Hr Hd Hb Hl Ht. split;
  [apply wait_until_token; assumption | apply wait_until_earliest; assumption].
Qed.

Lemma initial_burst_now b t0 n :
  0 < b_rate b -> 0 < b_den b -> 0 <= b_burst b -> Z.of_nat n <= b_burst b ->
  schedule b (cap b) t0 (repeat t0 n) = repeat t0 n.
Proof. intros Hr Hd Hb Hn. apply schedule_burst_now; try assumption; unfold cap; nia. Qed.

Example schedule_runs :
  schedule {| b_rate := 2; b_den := 1000; b_burst := 3 |} 3000 0 [0; 0; 0; 0; 0; 10000] = [0; 0; 0; 500; 1000; 10000].
Proof. vm_compute. reflexivity. Qed.
