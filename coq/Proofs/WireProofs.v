(* Lemmas about Model/Wire.v and the reference functions of Judge/E5.v *)
From Coq Require Import List ZArith Bool Lia ZifyBool.
From FB Require Import Lib.Eqb Model.Wire Model.Receiver Judge.E5.
Import ListNotations.
Open Scope Z_scope.

(* ---- equalities ---- *)
Lemma bytes_eqb_refl b : bytes_eqb b b = true.
Proof. apply list_eqb_refl, Z.eqb_refl. Qed.
Lemma bytes_eqb_eq a b : bytes_eqb a b = true -> a = b.
Proof. apply list_eqb_eq. intros x y; apply Z.eqb_eq. Qed.
Lemma bytes_eqb_iff a b : bytes_eqb a b = true <-> a = b.
Proof. split; [apply bytes_eqb_eq | intros ->; apply bytes_eqb_refl]. Qed.
Lemma bytes_eqb_false a b : bytes_eqb a b = false <-> a <> b.
Proof.
  split.
  - intros E ->. rewrite bytes_eqb_refl in E; discriminate.
  - intros N. destruct (bytes_eqb a b) eqn:E; [|reflexivity]. apply bytes_eqb_eq in E; contradiction.
Qed.

Lemma msg_eqb_refl m : msg_eqb m m = true.
Proof. unfold msg_eqb. now rewrite !bytes_eqb_refl. Qed.
Lemma msg_eqb_eq a b : msg_eqb a b = true -> a = b.
Proof.
  unfold msg_eqb. intros E. apply andb_true_iff in E as [E E3]. apply andb_true_iff in E as [E1 E2].
  destruct a, b; cbn in *. f_equal; now apply bytes_eqb_eq.
Qed.
Lemma wire_eqb_refl w : wire_eqb w w = true.
Proof. unfold wire_eqb. rewrite msg_eqb_refl. now destruct (w_ack w). Qed.

Lemma same_id_iff a b : same_id a b = true <-> m_type a = m_type b /\ m_key a = m_key b.
Proof. unfold same_id. rewrite andb_true_iff, !bytes_eqb_iff. tauto. Qed.
Lemma same_id_refl a : same_id a a = true.
Proof. apply same_id_iff; auto. Qed.
Lemma same_id_sym a b : same_id a b = same_id b a.
Proof.
  destruct (same_id a b) eqn:E1, (same_id b a) eqn:E2; try reflexivity.
  - apply same_id_iff in E1 as [? ?]. assert (same_id b a = true) by (apply same_id_iff; auto). congruence.
  - apply same_id_iff in E2 as [? ?]. assert (same_id a b = true) by (apply same_id_iff; auto). congruence.
Qed.
Lemma same_id_trans a b c : same_id a b = true -> same_id b c = true -> same_id a c = true.
Proof. rewrite !same_id_iff. intros [? ?] [? ?]; split; congruence. Qed.
Lemma same_id_congr a b c : same_id a b = true -> same_id a c = same_id b c.
Proof.
  intros E. destruct (same_id a c) eqn:E1, (same_id b c) eqn:E2; try reflexivity.
  - rewrite same_id_sym in E. rewrite (same_id_trans _ _ _ E E1) in E2. discriminate.
  - rewrite (same_id_trans _ _ _ E E2) in E1. discriminate.
Qed.

(* ---- multiset comparison ---- *)
Lemma perm_eqb_refl {A} (eqb : A -> A -> bool) l : perm_eqb eqb l l = true.
Proof.
  unfold perm_eqb. rewrite Nat.eqb_refl. cbn. apply forallb_forall. intros x _. apply Nat.eqb_refl.
Qed.

(* ---- record keys: type ++ "-" ++ key is injective for types without '-' ---- *)
Lemma unique_key_inj_bytes : forall t1 t2 k1 k2 : bytes,
  no_dash t1 = true -> no_dash t2 = true ->
  t1 ++ dash :: k1 = t2 ++ dash :: k2 -> t1 = t2 /\ k1 = k2.
Proof.
  unfold no_dash.
  induction t1 as [|a t1 IH]; intros [|b t2] k1 k2 H1 H2 E; cbn [app existsb] in *.
  - injection E as E. auto.
  - injection E as E1 E. subst b. rewrite Z.eqb_refl in H2. discriminate.
  - injection E as E1 E. subst a. rewrite Z.eqb_refl in H1. discriminate.
  - injection E as E1 E. subst b.
    apply negb_true_iff in H1, H2. apply orb_false_iff in H1 as [_ H1], H2 as [_ H2].
    destruct (IH t2 k1 k2) as [-> ->]; auto; now apply negb_true_iff.
Qed.

Lemma unique_key_inj a b :
  no_dash (m_type a) = true -> no_dash (m_type b) = true ->
  (bytes_eqb (unique_key a) (unique_key b) = same_id a b).
Proof.
  intros Ha Hb. destruct (same_id a b) eqn:E.
  - apply same_id_iff in E as [E1 E2]. unfold unique_key. rewrite E1, E2. apply bytes_eqb_refl.
  - apply bytes_eqb_false. intros K. unfold unique_key in K.
    destruct (unique_key_inj_bytes _ _ _ _ Ha Hb K) as [E1 E2].
    assert (same_id a b = true) by (apply same_id_iff; auto). congruence.
Qed.

(* a type containing '-' breaks it: the concatenation is ambiguous *)
Lemma unique_key_collision :
  exists a b, same_id a b = false /\ unique_key a = unique_key b.
Proof.
  exists {| m_type := [97; 45; 98]; m_key := [99]; m_payload := [] |},
         {| m_type := [97]; m_key := [98; 45; 99]; m_payload := [] |}.
  split; reflexivity.
Qed.

(* ---- the wire record as a JSON tree ---- *)
Lemma decode_encode now w : decode (encode now w) = Some w.
Proof. destruct w as [[t k p] a]. reflexivity. Qed.

Lemma produce_one topic m ack :
  produce topic m ack = [ {| r_topic := topic; r_partition := -1; r_key := unique_key m;
                             r_value := {| w_msg := m; w_ack := ack |} |} ].
Proof. reflexivity. Qed.

(* ---- latest ---- *)
Lemma existsb_app' {A} (f : A -> bool) l1 l2 : existsb f (l1 ++ l2) = existsb f l1 || existsb f l2.
Proof. apply existsb_app. Qed.

Lemma latest_snoc rs w :
  latest (rs ++ [w]) = filter (fun x => negb (same_id (w_msg x) (w_msg w))) (latest rs) ++ [w].
Proof.
  induction rs as [|a rs IH]; cbn [latest app existsb filter].
  - reflexivity.
  - rewrite existsb_app'. cbn [existsb]. rewrite orb_false_r.
    destruct (existsb (fun w' => same_id (w_msg w') (w_msg a)) rs) eqn:E1; cbn [orb].
    + exact IH.
    + destruct (same_id (w_msg w) (w_msg a)) eqn:E2.
      * rewrite IH. cbn [filter]. rewrite same_id_sym, E2. reflexivity.
      * rewrite IH. cbn [filter]. rewrite same_id_sym, E2. reflexivity.
Qed.

Lemma latest_incl rs x : In x (latest rs) -> In x rs.
Proof.
  induction rs as [|a rs IH]; cbn [latest]; [auto|].
  destruct (existsb _ rs); intros H; [right; auto|].
  destruct H as [->|H]; [now left | right; auto].
Qed.

(* no two records of [latest rs] share an identity *)
Fixpoint distinct_ids (l : list wire) : Prop :=
  match l with
  | [] => True
  | w :: r => existsb (fun w' => same_id (w_msg w') (w_msg w)) r = false /\ distinct_ids r
  end.

Lemma existsb_false_incl {A} (f : A -> bool) (l l' : list A) :
  (forall x, In x l' -> In x l) -> existsb f l = false -> existsb f l' = false.
Proof.
  intros I E. destruct (existsb f l') eqn:E'; [|reflexivity].
  apply existsb_exists in E' as [x [Hx Fx]]. assert (existsb f l = true) by (apply existsb_exists; exists x; auto).
  congruence.
Qed.

Lemma latest_distinct rs : distinct_ids (latest rs).
Proof.
  induction rs as [|a rs IH]; cbn [latest]; [exact I|].
  destruct (existsb _ rs) eqn:E; [exact IH|]. split; [|exact IH].
  eapply existsb_false_incl; [|exact E]. apply latest_incl.
Qed.

Lemma latest_of_distinct l : distinct_ids l -> latest l = l.
Proof.
  induction l as [|a l IH]; cbn [latest distinct_ids]; [reflexivity|].
  intros [E D]. rewrite E. f_equal; auto.
Qed.

Lemma latest_idem rs : latest (latest rs) = latest rs.
Proof. apply latest_of_distinct, latest_distinct. Qed.

(* existence of a same-identity record survives [latest] *)
Lemma existsb_latest rs m :
  existsb (fun w' => same_id (w_msg w') m) (latest rs) = existsb (fun w' => same_id (w_msg w') m) rs.
Proof.
  induction rs as [|a rs IH]; cbn [latest existsb]; [reflexivity|].
  destruct (existsb (fun w' => same_id (w_msg w') (w_msg a)) rs) eqn:E.
  - rewrite IH. destruct (same_id (w_msg a) m) eqn:E2; [|reflexivity]. cbn [orb].
    apply existsb_exists in E as [x [Hx Sx]]. apply existsb_exists. exists x; split; [exact Hx|].
    eapply same_id_trans; eauto.
  - cbn [existsb]. now rewrite IH.
Qed.

(* ---- compaction by record key = [latest], for types without '-' ---- *)
Definition keyed (ws : list wire) : list (bytes * wire) := map (fun w => (unique_key (w_msg w), w)) ws.

Lemma keyed_cons a ws : keyed (a :: ws) = (unique_key (w_msg a), a) :: keyed ws.
Proof. reflexivity. Qed.

Lemma existsb_keyed a ws :
  no_dash (m_type (w_msg a)) = true ->
  forallb (fun w => no_dash (m_type (w_msg w))) ws = true ->
  existsb (fun r' => bytes_eqb (fst r') (unique_key (w_msg a))) (keyed ws)
  = existsb (fun w' => same_id (w_msg w') (w_msg a)) ws.
Proof.
  intros Ha. induction ws as [|b ws IH]; intros Hws; [reflexivity|].
  rewrite keyed_cons. cbn [existsb fst forallb] in *. apply andb_true_iff in Hws as [Hb Hws].
  rewrite IH by exact Hws. f_equal. apply unique_key_inj; assumption.
Qed.

Lemma compact_keyed ws :
  forallb (fun w => no_dash (m_type (w_msg w))) ws = true ->
  map snd (compact (keyed ws)) = latest ws.
Proof.
  induction ws as [|a ws IH]; [reflexivity|].
  intros H. cbn [forallb] in H. apply andb_true_iff in H as [Ha Hws].
  rewrite keyed_cons. cbn [compact latest fst]. rewrite existsb_keyed by assumption.
  destruct (existsb _ ws); cbn [map snd]; [auto | f_equal; auto].
Qed.

(* a history in which some type contains '-': compaction can lose a message *)
Lemma compact_dash_loses :
  exists ws, map snd (compact (keyed ws)) <> latest ws.
Proof.
  exists [ {| w_msg := {| m_type := [97; 45; 98]; m_key := [99]; m_payload := [] |}; w_ack := false |};
           {| w_msg := {| m_type := [97]; m_key := [98; 45; 99]; m_payload := [] |}; w_ack := false |} ].
  vm_compute. discriminate.
Qed.
