(* E4 — soundness of the decision procedures spec_c07 / spec_c09 (Judge/E4.v) for the model, clause by clause:
   each clause, evaluated on the model's own observations, never fails (or fails only in a known-finding shape),
   for ALL inputs (every configuration, every op list). *)
From Coq Require Import List ZArith Bool Lia ZifyBool.
From FB Require Import Lib.Sexp Lib.Eqb Model.Tracker Model.Offsets Model.Recovery Judge.E4
  Proofs.RecoveryProofs Proofs.RecoveryOwnership Proofs.RecoveryTruncation Proofs.RecoveryCover Proofs.RecoveryCoverFinal.
Import ListNotations.
Open Scope Z_scope.

Definition model_l (cfg : rcfg) (s : rstate) (ops : list rop) : list opobs :=
  map (fun so => mk_opobs (fst so) (snd so)) (rrun cfg s ops).

(* ---------- scanning the model's observations under a state invariant ---------- *)
Lemma scan_model_inv {R} (f : rop -> opobs -> opobs -> list R) cfg (I : rstate -> Prop) :
  (forall op s, I s -> I (fst (rstep cfg s op))) ->
  (forall op s outprev, I s -> f op (mk_opobs s outprev) (mk_opobs (fst (rstep cfg s op)) (snd (rstep cfg s op))) = []) ->
  forall ops s outprev, I s -> scan f ops (mk_opobs s outprev) (model_l cfg s ops) = [].
Proof.
  intros Hstep Hf. induction ops as [|op ops IH]; intros s outprev HI; unfold model_l; cbn [rrun map scan]; [reflexivity|].
  specialize (Hf op s outprev HI). specialize (Hstep op s HI).
  destruct (rstep cfg s op) as [s' out]. cbn [map scan fst snd] in *. rewrite Hf. apply IH. exact Hstep.
Qed.

(* ---------- the owned set (C09 clause 5) ---------- *)
Lemma refresh_owned s : owned (fst (refresh s)) = owned s.
Proof. unfold refresh. destruct (changed _ _); reflexivity. Qed.

Lemma rec_step_owned cfg s p o : owned (fst (rec_step cfg s p o)) = owned s.
Proof.
  pose proof (rec_step_case cfg s p o) as Hc. destruct (rec_step cfg s p o) as [s1 out]. cbn [fst snd] in *.
  destruct Hc as [Ha|f t Ha Hlt|f t s' calls Ha Hfo Hto Hr|f t r Ha Hfo Hot Hr]; try reflexivity.
  replace s' with (fst (refresh (with_trk s (ts (complete (trk s) p t)) (tout (complete (trk s) p t))))) by now rewrite Hr.
  now rewrite refresh_owned.
Qed.

Lemma fresh_step_owned cfg s p : owned (fst (fresh_step cfg s p)) = owned s.
Proof.
  unfold fresh_step. destruct (pget p (cli s)); [|reflexivity]. pose proof (rec_step_owned cfg s p z) as H.
  destruct (rec_step cfg s p z) as [s1 out]. cbn [fst] in *. destruct (o_calls out); exact H.
Qed.

Lemma pump_owned cfg : forall k s p, owned (fst (pump cfg s p k)) = owned s.
Proof.
  induction k as [|k IH]; intros s p; cbn [pump]; [reflexivity|].
  pose proof (fresh_step_owned cfg s p) as H. destruct (fresh_step cfg s p) as [s1 o1]. cbn [fst] in *.
  specialize (IH s1 p). destruct (pump cfg s1 p k) as [s2 o2]. cbn [fst] in *. congruence.
Qed.

Lemma calc_keys cfg offs : forall pw l, fst (calc cfg offs pw) = Some l -> map fst l = map fst pw.
Proof.
  induction pw as [|[p w] pw IH]; intros l H; cbn [calc] in H.
  - cbn in H. inversion H. reflexivity.
  - destruct w as [|low high]; [cbn in H; discriminate|].
    destruct (start_offset cfg (committed_of p offs) high) as [st rq]. destruct (calc cfg offs pw) as [r filed] eqn:E.
    cbn [fst] in *. destruct r as [l'|]; [|discriminate]. inversion H; subst. cbn [map fst]. f_equal. apply IH. reflexivity.
Qed.

Lemma map_fst_combine_maps {A B C} (f : A -> B) (g : A -> C) (l : list A) :
  map fst (combine (map f l) (map g l)) = map f l.
Proof. induction l as [|x l IH]; cbn; [reflexivity|]. now rewrite IH. Qed.

Lemma massign_owned cfg cerr pcs :
  let a := massign_in cfg cerr pcs in
  (a_err a = true -> a_owned a = None) /\ (a_err a = false -> a_owned a = Some (match a_owned a with Some l => l | None => [] end)
                                           /\ map fst (match a_owned a with Some l => l | None => [] end) = map fst pcs).
Proof.
  unfold massign_in, assign. destruct cerr; [cbn; split; [reflexivity|discriminate]|].
  set (acfg := {| maxlag := c_maxlag cfg; recov := true; maxrec := c_maxrec cfg |}).
  set (pw := combine (map fst pcs) (map (fun x => if snd (snd x) <? 0 then WErr else WOk 0 (snd (snd x))) pcs)).
  pose proof (calc_keys acfg (map (fun x => (fst x, fst (snd x))) pcs) pw) as Hk.
  destruct (calc acfg _ pw) as [r filed]. cbn [fst] in Hk. destruct r as [l|]; cbn [a_err a_owned recov acfg].
  - split; [discriminate|]. intros _. split; [reflexivity|]. rewrite (Hk l eq_refl). unfold pw. apply map_fst_combine_maps.
  - split; [reflexivity|discriminate].
Qed.

Lemma rec_crash_owned cfg s p : owned (fst (rec_crash cfg s p)) = [].
Proof.
  unfold rec_crash. destruct (pget p (cli s)); [|reflexivity]. destruct (would_send s p z); [reflexivity|].
  destruct (rec_step cfg s p z). reflexivity.
Qed.

Lemma kerr_owned s code wm lows : owned (fst (kerr_step s code wm lows)) = owned s.
Proof.
  unfold kerr_step. destruct ((code =? 1) || (code =? 2)); [|reflexivity]. destruct wm; [reflexivity|].
  destruct (kerr_loop _ _ _). reflexivity.
Qed.

Lemma c09_owned_model cfg op s outprev :
  c09_owned op (mk_opobs s outprev) (mk_opobs (fst (rstep cfg s op)) (snd (rstep cfg s op))) = [].
Proof.
  unfold c09_owned. cbn [b_owned b_err mk_opobs].
  destruct op as [p k|p d|p d|p o|p o|code wm lows| |ps| |p f t|cerr pcs|m| |p|p d]; cbn [rstep].
  - rewrite pump_owned, list_eqb_Z_refl. reflexivity.
  - rewrite rec_step_owned, list_eqb_Z_refl. reflexivity.
  - unfold ahead_step. destruct (pget p (cli s)); [|cbn [fst]; now rewrite list_eqb_Z_refl].
    destruct (pget p (active s)) as [[f to]|]; [|cbn [fst]; now rewrite list_eqb_Z_refl].
    destruct (_ && _); [rewrite rec_step_owned|cbn [fst]]; now rewrite list_eqb_Z_refl.
  - rewrite rec_step_owned, list_eqb_Z_refl. reflexivity.
  - cbn [fst]. now rewrite list_eqb_Z_refl.
  - rewrite kerr_owned, list_eqb_Z_refl. reflexivity.
  - pose proof (refresh_owned s) as H. destruct (refresh s). cbn [fst] in *. rewrite H, list_eqb_Z_refl. reflexivity.
  - cbn [fst owned]. now rewrite list_eqb_Z_refl.
  - set (s1 := {| owned := []; active := active s; trk := trk s; cli := cli s; mlog := mlog s |}).
    pose proof (refresh_owned s1) as H. destruct (refresh s1). cbn [fst] in *. rewrite H. reflexivity.
  - destruct (trim _ _). cbn [fst with_trk owned]. now rewrite list_eqb_Z_refl.
  - destruct (massign_owned cfg cerr pcs) as [He Hok]. destruct (file_all _ _) as [t' sent]. cbn [fst snd owned o_err].
    destruct (a_err (massign_in cfg cerr pcs)) eqn:Ee.
    + rewrite (He eq_refl). now rewrite list_eqb_Z_refl.
    + destruct (Hok eq_refl) as [H1 H2]. rewrite H1, H2. now rewrite list_eqb_Z_refl.
  - destruct m; cbn [fst owned with_trk]; now rewrite list_eqb_Z_refl.
  - reflexivity.
  - rewrite rec_crash_owned. reflexivity.
  - unfold wild_step. destruct (pget p (cli s)); [|cbn [fst]; now rewrite list_eqb_Z_refl].
    destruct (pget p (active s)); [rewrite rec_step_owned|cbn [fst]]; now rewrite list_eqb_Z_refl.
Qed.

Theorem c09_owned_sound cfg ops : scan c09_owned ops obs0 (model_l cfg init_state ops) = [].
Proof.
  rewrite obs0_init. apply (scan_model_inv c09_owned cfg (fun _ => True)); auto.
  intros op s outprev _. apply c09_owned_model.
Qed.

(* ---------- nothing is recovered between a revocation / stop and the next assignment (C09 clause 4) ---------- *)
Lemma rec_crash_idle cfg s p : active (fst (rec_crash cfg s p)) = [].
Proof.
  unfold rec_crash. destruct (pget p (cli s)); [|reflexivity]. destruct (would_send s p z); [reflexivity|].
  destruct (rec_step cfg s p z). reflexivity.
Qed.

Lemma c09_revoked_model cfg : forall ops s (revoked : bool),
  (revoked = true -> owned s = [] /\ active s = []) ->
  c09_revoked ops (model_l cfg s ops) revoked = [].
Proof.
  induction ops as [|op ops IH]; intros s revoked Hr; unfold model_l; cbn [rrun map c09_revoked]; [reflexivity|].
  destruct (rstep cfg s op) as [s' out] eqn:E. cbn [map c09_revoked fst snd mk_opobs b_emits].
  assert (Hemit : revoked = true -> rec_emits (o_emits out) = []).
  { intros ->. destruct (Hr eq_refl) as [Ho Ha]. destruct (assigns op) eqn:Eas.
    - destruct op; try discriminate; cbn in E; [inversion E; reflexivity|].
      destruct (file_all _ _). inversion E. reflexivity.
    - pose proof (idle_step cfg s op Ho Ha Eas) as [_ [_ H3]]. rewrite E in H3. exact H3. }
  assert (Hnext : (match op with Revoke | Crash | RecCrash _ => true | SetOwned _ | MAssign _ _ => false | _ => revoked end) = true ->
                  owned s' = [] /\ active s' = []).
  { assert (Hidle : revoked = true -> assigns op = false -> owned s' = [] /\ active s' = []).
    { intros -> Eas. destruct (Hr eq_refl) as [Ho Ha]. pose proof (idle_step cfg s op Ho Ha Eas) as [H1 [H2 _]].
      rewrite E in H1, H2. auto. }
    intros Hx. destruct op as [p k|p d|p d|p o|p o|code wm lows| |ps| |p f t|cerr pcs|m| |p|p d]; try discriminate;
      try (apply Hidle; [exact Hx|reflexivity]).
    - pose proof (revoke_clears cfg s) as [H1 [H2 _]]. rewrite E in H1, H2. auto.
    - cbn in E. inversion E. auto.
    - cbn [rstep] in E. pose proof (rec_crash_owned cfg s p) as H1. pose proof (rec_crash_idle cfg s p) as H2. rewrite E in H1, H2. auto. }
  replace (revoked && match rec_emits (o_emits out) with [] => false | _ => true end) with false.
  - cbn [app]. apply IH. exact Hnext.
  - destruct revoked; [rewrite (Hemit eq_refl); reflexivity|reflexivity].
Qed.

Theorem c09_revoked_sound cfg ops : c09_revoked ops (model_l cfg init_state ops) false = [].
Proof. apply c09_revoked_model. discriminate. Qed.

(* ---------- state invariant: the active map has strictly increasing keys ---------- *)
Definition SI (s : rstate) : Prop := ssorted (keys (active s)).

Lemma SI_refresh s : SI s -> SI (fst (refresh s)).
Proof.
  intros H. destruct (refresh s) as [s' calls] eqn:E. cbn [fst].
  exact (proj1 (proj2 (proj2 (refresh_exact s s' calls H E)))).
Qed.

Lemma SI_rec_step cfg s p o : SI s -> SI (fst (rec_step cfg s p o)).
Proof.
  intros H. pose proof (rec_step_case cfg s p o) as Hc. destruct (rec_step cfg s p o) as [s1 out]. cbn [fst snd] in *.
  destruct Hc as [Ha|f t Ha Hlt|f t s' calls Ha Hfo Hto Hr|f t r Ha Hfo Hot Hr]; try exact H.
  replace s' with (fst (refresh (with_trk s (ts (complete (trk s) p t)) (tout (complete (trk s) p t))))) by now rewrite Hr.
  apply SI_refresh. exact H.
Qed.

Lemma SI_fresh cfg s p : SI s -> SI (fst (fresh_step cfg s p)).
Proof.
  intros H. unfold fresh_step. destruct (pget p (cli s)); [|exact H]. pose proof (SI_rec_step cfg s p z H) as H1.
  destruct (rec_step cfg s p z) as [s1 out]. cbn [fst] in *. destruct (o_calls out); exact H1.
Qed.

Lemma SI_pump cfg : forall k s p, SI s -> SI (fst (pump cfg s p k)).
Proof.
  induction k as [|k IH]; intros s p H; cbn [pump]; [exact H|].
  pose proof (SI_fresh cfg s p H) as H1. destruct (fresh_step cfg s p) as [s1 o1]. cbn [fst] in *.
  specialize (IH s1 p H1). destruct (pump cfg s1 p k) as [s2 o2]. exact IH.
Qed.

Lemma SI_rstep cfg op s : SI s -> SI (fst (rstep cfg s op)).
Proof.
  intros H. destruct op as [p k|p d|p d|p o|p o|code wm lows| |ps| |p f t|cerr pcs|m| |p|p d]; cbn [rstep].
  - apply SI_pump; exact H.
  - apply SI_rec_step; exact H.
  - unfold ahead_step. destruct (pget p (cli s)); [|exact H]. destruct (pget p (active s)) as [[f to]|]; [|exact H].
    destruct (_ && _); [apply SI_rec_step|]; exact H.
  - apply SI_rec_step; exact H.
  - exact H.
  - unfold kerr_step. destruct ((code =? 1) || (code =? 2)); [|exact H]. destruct wm; [exact I|].
    destruct (kerr_loop _ _ _). exact I.
  - pose proof (SI_refresh s H) as H1. destruct (refresh s). exact H1.
  - exact H.
  - set (s1 := {| owned := []; active := active s; trk := trk s; cli := cli s; mlog := mlog s |}).
    pose proof (SI_refresh s1 H) as H1. destruct (refresh s1). exact H1.
  - destruct (trim _ _). exact H.
  - destruct (file_all _ _). exact H.
  - destruct m; exact H.
  - exact I.
  - unfold rec_crash. destruct (pget p (cli s)); [|exact I]. destruct (would_send s p z); [exact I|].
    destruct (rec_step cfg s p z). exact I.
  - unfold wild_step. destruct (pget p (cli s)); [|exact H]. destruct (pget p (active s)); [apply SI_rec_step|]; exact H.
Qed.

Lemma SI_init : SI init_state. Proof. exact I. Qed.

(* ---------- the sorted tracker snapshot has the same entries ---------- *)
Lemma lookup_ins_key p k (v : list req) l : lookup p (ins_key k v l) = if k =? p then Some v else lookup p l.
Proof.
  induction l as [|[k' v'] l IH]; cbn [ins_key lookup]; [reflexivity|].
  destruct (k <=? k') eqn:E; cbn [lookup]; [reflexivity|].
  destruct (k' =? p) eqn:E2; [destruct (k =? p) eqn:E3; [exfalso; lia|reflexivity]|exact IH].
Qed.

Lemma lookup_sort_key p (t : tstate) : lookup p (sort_key t) = lookup p t.
Proof.
  induction t as [|[k v] t IH]; [reflexivity|]. unfold sort_key in *. cbn [fold_right fst snd lookup].
  rewrite lookup_ins_key, IH. reflexivity.
Qed.

Lemma reqs_of_sort_key p t : reqs_of (sort_key t) p = reqs_of t p.
Proof. unfold reqs_of. now rewrite lookup_sort_key. Qed.

(* ---------- boolean equalities are reflexive ---------- *)
Lemma req_list_eqb_refl l : req_list_eqb l l = true.
Proof. apply list_eqb_refl. apply zz_eqb_refl. Qed.
Lemma bcast_eqb_refl b : bcast_eqb b b = true.
Proof. apply pair_eqb_refl; [apply Z.eqb_refl|apply req_list_eqb_refl]. Qed.
Lemma bcast_list_eqb_refl l : list_eqb bcast_eqb l l = true.
Proof. apply list_eqb_refl. apply bcast_eqb_refl. Qed.
Lemma amap_eqb_refl m : amap_eqb m m = true.
Proof. apply list_eqb_refl. intros x. apply pair_eqb_refl; [apply Z.eqb_refl|apply zz_eqb_refl]. Qed.
Lemma call_eqb_refl c : call_eqb c c = true.
Proof. destruct c; [reflexivity|]. apply list_eqb_refl. apply zz_eqb_refl. Qed.

Lemma flat_map_nil {A B} (f : A -> list B) l : (forall x, In x l -> f x = []) -> flat_map f l = [].
Proof.
  induction l as [|x l IH]; intros H; [reflexivity|]. cbn [flat_map]. rewrite (H x (or_introl eq_refl)). cbn [app].
  apply IH. intros y Hy. apply H. right. exact Hy.
Qed.

Lemma filter_all {A} (f : A -> bool) l : existsb (fun x => negb (f x)) l = false -> filter f l = l.
Proof.
  induction l as [|x l IH]; cbn [existsb filter]; [reflexivity|]. intros H. apply orb_false_iff in H as [H1 H2].
  apply negb_false_iff in H1. rewrite H1. f_equal. apply IH. exact H2.
Qed.

(* ---------- truncation (C07 clause 4) ---------- *)
Definition trunc_want (rs : list req) (f t low : Z) : list req :=
  if f <? low then
    if low >=? t then filter (fun r => negb (snd r =? t)) rs
    else match rs with (f0, t0) :: rest => if t0 =? t then (low, t0) :: rest else rs | [] => rs end
  else rs.

Lemma trunc_one_reqs tr p f t low :
  reqs_of (ts (trunc_one tr p f t low)) p = trunc_want (reqs_of tr p) f t low.
Proof.
  unfold trunc_one, trunc_want, reqs_of. destruct (f <? low); [|reflexivity]. destruct (low >=? t).
  - unfold complete. destruct (lookup p tr) as [rs|] eqn:El; [|cbn [ts]; rewrite El; reflexivity].
    destruct (existsb (fun r => snd r =? t) rs) eqn:Ee; cbn [ts].
    + now rewrite r_lookup_set_same.
    + rewrite El. symmetry. apply filter_all. rewrite <- Ee. clear.
      induction rs as [|r rs IH]; [reflexivity|]. cbn [existsb]. now rewrite negb_involutive, IH.
  - unfold update. destruct (lookup p tr) as [[|[f0 t0] rest]|] eqn:El; cbn [ts]; try (rewrite El; reflexivity).
    destruct (t0 =? t); cbn [ts]; [now rewrite r_lookup_set_same|rewrite El; reflexivity].
Qed.

Lemma c07_trunc_model cfg op s outprev : SI s ->
  c07_trunc op (mk_opobs s outprev) (mk_opobs (fst (rstep cfg s op)) (snd (rstep cfg s op))) = [].
Proof.
  intros HS. destruct op as [p k|p d|p d|p o|p o|code wm lows| |ps| |p f t|cerr pcs|m| |p|p d]; try reflexivity.
  cbn [c07_trunc rstep b_active b_trk mk_opobs].
  destruct ((code =? 1) || (code =? 2)) eqn:Ec.
  - destruct wm.
    + unfold kerr_step. rewrite Ec. cbn [fst active trk]. rewrite bcast_list_eqb_refl. reflexivity.
    + assert (Hcode : code = 1 \/ code = 2) by lia.
      pose proof (kerr_truncation s code lows Hcode (ssorted_NoDup _ HS)) as [Ha [_ [Heach _]]].
      cbv zeta in Ha, Heach. rewrite Ha. cbn [app].
      apply flat_map_nil. intros [q [f t]] Hin. cbn [fst snd].
      rewrite !reqs_of_sort_key.
      assert (Hr : reqs_of (trk (fst (kerr_step s code false lows))) q = reqs_of (ts (trunc_one (trk s) q f t (low_of lows q))) q)
        by (unfold reqs_of; now rewrite (Heach q f t Hin)).
      rewrite Hr, trunc_one_reqs. unfold trunc_want.
      destruct (f <? low_of lows q); [|now rewrite req_list_eqb_refl].
      destruct (low_of lows q >=? t); [now rewrite req_list_eqb_refl|].
      destruct (reqs_of (trk s) q) as [|[f0 t0] rest]; [reflexivity|]. now rewrite req_list_eqb_refl.
  - unfold kerr_step. rewrite Ec. cbn [fst active trk]. rewrite amap_eqb_refl, bcast_list_eqb_refl. reflexivity.
Qed.

Theorem c07_trunc_sound cfg ops : scan c07_trunc ops obs0 (model_l cfg init_state ops) = [].
Proof.
  rewrite obs0_init. apply (scan_model_inv c07_trunc cfg SI); [intros op s; apply SI_rstep| |exact SI_init].
  intros op s outprev HS. apply c07_trunc_model. exact HS.
Qed.

(* ---------- completion (C07 clause 3) ---------- *)
Lemma refresh_trk s : trk (fst (refresh s)) = trk s.
Proof. unfold refresh. destruct (changed _ _); reflexivity. Qed.

Lemma head_in_filter (rs : list req) t rf t' :
  match filter (fun r => negb (snd r =? t)) rs with r :: _ => Some r | [] => None end = Some (rf, t') -> t' <> t.
Proof.
  destruct (filter (fun r => negb (snd r =? t)) rs) as [|r l] eqn:E; [discriminate|]. intros H. inversion H; subst.
  assert (Hin : In (rf, t') (filter (fun r => negb (snd r =? t)) rs)) by (rewrite E; left; reflexivity).
  apply filter_In in Hin as [_ Hn]. cbn [snd] in Hn. lia.
Qed.

Lemma complete_step_facts cfg s p o f t :
  SI s -> pget p (active s) = Some (f, t) -> f <= o -> t < o ->
  existsb (fun r => snd r =? t) (reqs_of (trk s) p) = true ->
  let rs' := filter (fun r => negb (snd r =? t)) (reqs_of (trk s) p) in
  let s1 := fst (rec_step cfg s p o) in let o1 := snd (rec_step cfg s p o) in
  o_emits o1 = [] /\ o_sent o1 = [(p, rs')] /\ reqs_of (trk s1) p = rs' /\
  (forall f' t', pget p (active s1) = Some (f', t') -> t' <> t).
Proof.
  intros HS Ha Hfo Hto He rs' s1 o1. subst s1 o1. rewrite (rec_step_complete cfg s p o f t Ha Hfo Hto). cbn [fst snd o_emits o_sent].
  assert (Hc : ts (complete (trk s) p t) = set p rs' (trk s) /\ tout (complete (trk s) p t) = [(p, rs')]).
  { unfold complete, rs', reqs_of in *. destruct (lookup p (trk s)) as [rs|]; [|cbn in He; discriminate]. rewrite He. auto. }
  destruct Hc as [Hts Hto']. rewrite Hts, Hto'.
  set (s0 := with_trk s (set p rs' (trk s)) [(p, rs')]).
  split; [reflexivity|]. split; [reflexivity|]. split.
  - rewrite refresh_trk. unfold s0, with_trk, reqs_of. cbn [trk]. now rewrite r_lookup_set_same.
  - intros f' t' Hp. destruct (refresh s0) as [s' calls] eqn:Er. cbn [fst] in Hp.
    assert (HS0 : ssorted (keys (active s0))) by exact HS.
    pose proof (refresh_exact s0 s' calls HS0 Er) as [_ [_ [_ [_ [Hent _]]]]].
    destruct (Hent p f' t' Hp) as [rf [Hg _]]. unfold get, s0, with_trk in Hg. cbn [trk] in Hg. rewrite r_lookup_set_same in Hg.
    apply (head_in_filter (reqs_of (trk s) p) t rf t'). fold rs'. destruct rs'; [discriminate|exact Hg].
Qed.

(* the observation of a single-record op on partition p is that of rec_step, up to the client's position *)
Lemma pump1_obs cfg s p n : pget p (cli s) = Some n ->
  let r := rstep cfg s (Pump p 1) in let r1 := rec_step cfg s p n in
  o_emits (snd r) = o_emits (snd r1) /\ o_sent (snd r) = o_sent (snd r1) /\ o_calls (snd r) = o_calls (snd r1)
  /\ trk (fst r) = trk (fst r1) /\ active (fst r) = active (fst r1) /\ owned (fst r) = owned (fst r1).
Proof.
  intros Hn. cbn [rstep pump]. unfold fresh_step. rewrite Hn. destruct (rec_step cfg s p n) as [s1 o1]. cbn [fst snd].
  destruct (o_calls o1) eqn:Ec; cbn [fst snd out_app out_nil o_emits o_sent o_calls trk active owned]; rewrite !app_nil_r; rewrite ?Ec; repeat split; reflexivity.
Qed.

Lemma c07_complete_rec cfg s p o outprev s1 o1 :
  SI s ->
  o_emits o1 = o_emits (snd (rec_step cfg s p o)) -> o_sent o1 = o_sent (snd (rec_step cfg s p o)) ->
  trk s1 = trk (fst (rec_step cfg s p o)) -> active s1 = active (fst (rec_step cfg s p o)) ->
  match pget p (b_active (mk_opobs s outprev)) with
  | Some (f, t) =>
      if (f <=? o) && (t <? o) then
        let rs := reqs_of (b_trk (mk_opobs s outprev)) p in
        if existsb (fun r => snd r =? t) rs then
          let rs' := filter (fun r => negb (snd r =? t)) rs in
          (match b_emits (mk_opobs s1 o1) with [] => [] | _ => [(3, [1; p])] end)
          ++ (if list_eqb bcast_eqb (b_sent (mk_opobs s1 o1)) [(p, rs')] && req_list_eqb (reqs_of (b_trk (mk_opobs s1 o1)) p) rs'
              then [] else [(3, [2; p])])
          ++ (match pget p (b_active (mk_opobs s1 o1)) with
              | Some (_, t') => if t' =? t then [(3, [3; p])] else []
              | None => []
              end)
        else []
      else []
  | None => []
  end = ([] : list fail).
Proof.
  intros HS He Hs Ht Ha. cbn [b_active b_trk b_emits b_sent mk_opobs].
  destruct (pget p (active s)) as [[f t]|] eqn:Eact; [|reflexivity].
  destruct ((f <=? o) && (t <? o)) eqn:Ew; [|reflexivity]. rewrite !reqs_of_sort_key.
  destruct (existsb (fun r => snd r =? t) (reqs_of (trk s) p)) eqn:Ee; [|reflexivity].
  destruct (complete_step_facts cfg s p o f t HS Eact ltac:(lia) ltac:(lia) Ee) as [H1 [H2 [H3 H4]]].
  cbv zeta. rewrite He, H1, Hs, H2, Ht, H3, Ha. cbn [sort_key fold_right ins_key fst snd app].
  rewrite bcast_list_eqb_refl, req_list_eqb_refl. cbn [andb app].
  destruct (pget p (active (fst (rec_step cfg s p o)))) as [[f' t']|] eqn:Ep; [|reflexivity].
  specialize (H4 f' t' eq_refl). replace (t' =? t) with false by lia. reflexivity.
Qed.

Lemma c07_complete_model cfg op s outprev : SI s ->
  c07_complete op (mk_opobs s outprev) (mk_opobs (fst (rstep cfg s op)) (snd (rstep cfg s op))) = [].
Proof.
  intros HS. unfold c07_complete.
  destruct op as [p k|p d|p d|p o|p o|code wm lows| |ps| |p f t|cerr pcs|m| |p|p d]; try reflexivity.
  - (* Pump *) cbn [single_record]. destruct k as [|[|k]]; try reflexivity. cbn [b_cli mk_opobs].
    destruct (pget p (cli s)) as [n|] eqn:En; [|reflexivity].
    destruct (pump1_obs cfg s p n En) as [H1 [H2 [_ [H4 [H5 _]]]]].
    apply (c07_complete_rec cfg s p n outprev); assumption.
  - (* Stale *) cbn [single_record b_cli mk_opobs rstep]. fold (stale_offset s p d).
    apply (c07_complete_rec cfg s p (stale_offset s p d) outprev); auto.
  - (* RawRec *) cbn [single_record rstep]. apply (c07_complete_rec cfg s p o outprev); auto.
Qed.

Theorem c07_complete_sound cfg ops : scan c07_complete ops obs0 (model_l cfg init_state ops) = [].
Proof.
  rewrite obs0_init. apply (scan_model_inv c07_complete cfg SI); [intros op s; apply SI_rstep| |exact SI_init].
  intros op s outprev HS. apply c07_complete_model. exact HS.
Qed.

(* ---------- flags and window (C07 clause 2) ---------- *)
Definition W (s : rstate) (p x : Z) : Prop :=
  in_win (pget p (active s)) x = true \/ exists r, In r (reqs_of (trk s) p) /\ in_win (Some r) x = true.

Lemma get_in_reqs t p r : get t p = Some r -> In r (reqs_of t p).
Proof. unfold get, reqs_of. destruct (lookup p t) as [[|r0 l]|]; try discriminate. intros H; inversion H; left; reflexivity. Qed.

Lemma complete_reqs_subset t p to r : In r (reqs_of (ts (complete t p to)) p) -> In r (reqs_of t p).
Proof.
  unfold complete, reqs_of. destruct (lookup p t) as [rs|] eqn:El; [|cbn [ts]; now rewrite El].
  destruct (existsb (fun r => snd r =? to) rs); cbn [ts]; [|now rewrite El].
  rewrite r_lookup_set_same. intros H. apply filter_In in H. tauto.
Qed.

Lemma update_reqs t p o to r : In r (reqs_of (ts (update t p o to)) p) -> In r (reqs_of t p) \/ r = (o, to).
Proof.
  unfold update, reqs_of. destruct (lookup p t) as [[|[f0 t0] rest]|] eqn:El; cbn [ts]; try (rewrite El; auto).
  destruct (t0 =? to) eqn:E; cbn [ts]; [|rewrite El; auto].
  rewrite r_lookup_set_same. intros [H|H]; [right; rewrite <- H; f_equal; lia|left; right; exact H].
Qed.

Lemma W_back cfg s p o x : SI s -> W (fst (rec_step cfg s p o)) p x -> W s p x.
Proof.
  intros HS HW. pose proof (rec_step_case cfg s p o) as Hc. destruct (rec_step cfg s p o) as [s1 out]. cbn [fst snd] in *.
  destruct Hc as [Ha|f t Ha Hlt|f t s' calls Ha Hfo Hto Hr|f t r Ha Hfo Hot Hr]; try exact HW.
  - set (s0 := with_trk s (ts (complete (trk s) p t)) (tout (complete (trk s) p t))) in *.
    pose proof (refresh_exact s0 s' calls HS Hr) as [_ [Htrk [_ [_ [Hent _]]]]].
    destruct HW as [HW|[r [Hin Hw]]].
    + destruct (pget p (active s')) as [[a1 t1]|] eqn:Ep; [|discriminate].
      destruct (Hent p a1 t1 Ep) as [rf [Hg [[_ Ha1]|[_ Hsame]]]].
      * right. exists (rf, t1). split.
        -- apply (complete_reqs_subset (trk s) p t). apply get_in_reqs. exact Hg.
        -- cbn [in_win] in *. destruct (pget p (active s0)) as [[af ax]|]; lia.
      * left. unfold s0, with_trk in Hsame. cbn [active] in Hsame. now rewrite Hsame.
    + right. exists r. split; [|exact Hw]. rewrite Htrk in Hin. apply (complete_reqs_subset (trk s) p t). exact Hin.
  - unfold W, with_trk in HW. cbn [active trk] in HW. destruct HW as [HW|[r' [Hin Hw]]]; [left; exact HW|].
    subst r. destruct ((o mod c_every cfg =? 0) && (t - o >? 0)); cbn [ts] in Hin; [|right; exists r'; auto].
    destruct (update_reqs _ _ _ _ _ Hin) as [H|H]; [right; exists r'; auto|].
    left. rewrite Ha. subst r'. cbn [in_win] in *. lia.
Qed.

Lemma pump_emits_W cfg : forall k s p e, SI s -> In e (o_emits (snd (pump cfg s p k))) ->
  snd e = true /\ fst (fst e) = p /\ W s p (snd (fst e)).
Proof.
  induction k as [|k IH]; intros s p e HS Hin; [destruct Hin|].
  rewrite pump_emits_unfold in Hin. apply in_app_or in Hin as [Hin|Hin].
  - unfold fresh_step in Hin. destruct (pget p (cli s)) as [n|]; [|destruct Hin].
    pose proof (rec_step_emits cfg s p n e) as H. destruct (rec_step cfg s p n) as [s1 out]. cbn [snd] in *.
    assert (Hin' : In e (o_emits out)) by (destruct (o_calls out); exact Hin).
    destruct (H Hin') as [-> [f [t [Ha Hr]]]]. cbn [fst snd]. split; [reflexivity|]. split; [reflexivity|].
    left. rewrite Ha. cbn [in_win]. lia.
  - assert (HS1 : SI (fst (fresh_step cfg s p))) by (apply SI_fresh; exact HS).
    destruct (IH _ p e HS1 Hin) as [H1 [H2 H3]]. split; [exact H1|]. split; [exact H2|].
    unfold fresh_step in H3. destruct (pget p (cli s)) as [n|]; [|exact H3].
    pose proof (W_back cfg s p n (snd (fst e)) HS) as Hb. destruct (rec_step cfg s p n) as [s1 out]. cbn [fst] in *.
    apply Hb. destruct (o_calls out); exact H3.
Qed.

Lemma W_flag_check s s' p x : W s p x ->
  (in_win (pget p (active s)) x || in_win (pget p (active s')) x
   || existsb (fun r => in_win (Some r) x) (reqs_of (sort_key (trk s)) p)) = true.
Proof.
  intros [H|[r [Hin Hw]]]; [rewrite H; reflexivity|].
  rewrite reqs_of_sort_key. apply orb_true_iff. right. apply existsb_exists. exists r. auto.
Qed.

Lemma rec_emits_W cfg s p o e : In e (o_emits (snd (rec_step cfg s p o))) ->
  snd e = true /\ fst (fst e) = p /\ W s p (snd (fst e)).
Proof.
  intros H. destruct (rec_step_emits cfg s p o e H) as [-> [f [t [Ha Hr]]]]. cbn [fst snd].
  split; [reflexivity|]. split; [reflexivity|]. left. rewrite Ha. cbn [in_win]. lia.
Qed.

Lemma flags_forallb s s' p (l : list (Z * Z * bool)) :
  (forall e, In e l -> snd e = true /\ fst (fst e) = p /\ W s p (snd (fst e))) ->
  forallb (fun e => snd e && (fst (fst e) =? p)
                    && (in_win (pget p (active s)) (snd (fst e)) || in_win (pget p (active s')) (snd (fst e))
                        || existsb (fun r => in_win (Some r) (snd (fst e))) (reqs_of (sort_key (trk s)) p))) l = true.
Proof.
  intros H. apply forallb_forall. intros e He. destruct (H e He) as [H1 [H2 H3]].
  rewrite H1, H2, Z.eqb_refl, (W_flag_check s s' p _ H3). reflexivity.
Qed.

Lemma c07_flags_model cfg op s outprev : SI s ->
  c07_flags op (mk_opobs s outprev) (mk_opobs (fst (rstep cfg s op)) (snd (rstep cfg s op))) = [].
Proof.
  intros HS. unfold c07_flags. cbn [b_emits b_active b_trk mk_opobs].
  destruct op as [p k|p d|p d|p o|p o|code wm lows| |ps| |p f t|cerr pcs|m| |p|p d]; cbn [rstep].
  - rewrite flags_forallb; [reflexivity|]. intros e He. apply (pump_emits_W cfg k s p e HS He).
  - rewrite flags_forallb; [reflexivity|]. intros e He. apply (rec_emits_W cfg s p _ e He).
  - rewrite flags_forallb; [reflexivity|]. intros e He. unfold ahead_step in He.
    destruct (pget p (cli s)); [|destruct He]. destruct (pget p (active s)) as [[f to]|] eqn:Ea; [|destruct He].
    destruct (_ && _); [|destruct He]. apply (rec_emits_W cfg s p _ e He).
  - rewrite flags_forallb; [reflexivity|]. intros e He. apply (rec_emits_W cfg s p _ e He).
  - cbn [snd o_emits list_eqb fst]. unfold emit_eqb. rewrite zz_eqb_refl. reflexivity.
  - unfold kerr_step. destruct ((code =? 1) || (code =? 2)); [|reflexivity]. destruct wm; [reflexivity|].
    destruct (kerr_loop _ _ _). reflexivity.
  - destruct (refresh s). reflexivity.
  - reflexivity.
  - destruct (refresh _). reflexivity.
  - destruct (trim _ _). reflexivity.
  - destruct (file_all _ _). reflexivity.
  - destruct m; reflexivity.
  - reflexivity.
  - rewrite (proj1 (rec_crash_out cfg s p)). reflexivity.
  - rewrite flags_forallb; [reflexivity|]. intros e He. unfold wild_step in He.
    destruct (pget p (cli s)); [|destruct He]. destruct (pget p (active s)); [|destruct He].
    apply (rec_emits_W cfg s p _ e He).
Qed.

Theorem c07_flags_sound cfg ops : scan c07_flags ops obs0 (model_l cfg init_state ops) = [].
Proof.
  rewrite obs0_init. apply (scan_model_inv c07_flags cfg SI); [intros op s; apply SI_rstep| |exact SI_init].
  intros op s outprev HS. apply c07_flags_model. exact HS.
Qed.

(* ---------- refresh exactness as decided by the spec (C09 clause 1) ---------- *)
Lemma pget_below {A} p (m : pmap A) : (forall k, In k (keys m) -> p < k) -> pget p m = None.
Proof.
  induction m as [|[q w] m IH]; intros H; [reflexivity|]. cbn [pget]. cbn [keys map fst] in H.
  replace (q =? p) with false by (specialize (H q (or_introl eq_refl)); lia). apply IH. intros k Hk. apply H. right. exact Hk.
Qed.

Lemma sorted_ext {A} : forall (m1 m2 : pmap A), ssorted (keys m1) -> ssorted (keys m2) ->
  (forall p, pget p m1 = pget p m2) -> m1 = m2.
Proof.
  induction m1 as [|[k1 v1] r1 IH]; intros m2 H1 H2 He.
  - destruct m2 as [|[k2 v2] r2]; [reflexivity|]. specialize (He k2). cbn [pget] in He. rewrite Z.eqb_refl in He. discriminate.
  - destruct m2 as [|[k2 v2] r2]; [specialize (He k1); cbn [pget] in He; rewrite Z.eqb_refl in He; discriminate|].
    cbn [keys map fst] in H1, H2.
    pose proof (ssorted_lb k1 (map fst r1) H1) as L1. pose proof (ssorted_lb k2 (map fst r2) H2) as L2.
    assert (Hk : k1 = k2).
    { destruct (Z.eq_dec k1 k2) as [|Hne]; [assumption|exfalso].
      pose proof (He k1) as E1. pose proof (He k2) as E2. cbn [pget] in E1, E2. rewrite Z.eqb_refl in E1, E2.
      replace (k2 =? k1) with false in E1 by lia. replace (k1 =? k2) with false in E2 by lia.
      assert (In k1 (keys r2)) by (apply pget_in_keys; congruence).
      assert (In k2 (keys r1)) by (apply pget_in_keys; congruence).
      specialize (L1 k2 H0). specialize (L2 k1 H). lia. }
    subst k2. pose proof (He k1) as E1. cbn [pget] in E1. rewrite Z.eqb_refl in E1. inversion E1; subst v2. f_equal.
    apply IH; [destruct H1; assumption|destruct H2; assumption|].
    intros p. destruct (Z.eq_dec p k1) as [->|Hne].
    + rewrite !pget_below; auto.
    + specialize (He p). cbn [pget] in He. replace (k1 =? p) with false in He by lia. exact He.
Qed.

Lemma ins_uniq_In k l x : In x (ins_uniq k l) <-> x = k \/ In x l.
Proof.
  induction l as [|k' r IH]; cbn [ins_uniq]; [cbn; intuition|].
  destruct (k <? k') eqn:E1; [cbn; intuition|]. destruct (k =? k') eqn:E2.
  - assert (k = k') by lia. subst. cbn. intuition.
  - cbn [In]. rewrite IH. intuition.
Qed.

Lemma ins_uniq_sorted k l : ssorted l -> ssorted (ins_uniq k l).
Proof.
  induction l as [|k' r IH]; intros H; cbn [ins_uniq]; [cbn; auto|].
  destruct (k <? k') eqn:E1; [cbn [ssorted] in *; split; [lia|exact H]|].
  destruct (k =? k') eqn:E2; [exact H|]. destruct H as [H1 H2]. specialize (IH H2). cbn [ssorted]. split; [|exact IH].
  destruct r as [|k'' r]; cbn [ins_uniq] in *; [lia|]. destruct (k <? k''); [lia|]. destruct (k =? k''); lia.
Qed.

Lemma sort_uniq_sorted l : ssorted (sort_uniq l).
Proof. induction l as [|x l IH]; [exact I|]. unfold sort_uniq in *. cbn [fold_right]. apply ins_uniq_sorted. exact IH. Qed.

Lemma sort_uniq_In l x : In x (sort_uniq l) <-> In x l.
Proof.
  induction l as [|y l IH]; [tauto|]. unfold sort_uniq in *. cbn [fold_right]. rewrite ins_uniq_In, IH. cbn. intuition.
Qed.

Lemma existsb_sort_uniq p l : existsb (Z.eqb p) (sort_uniq l) = existsb (Z.eqb p) l.
Proof. apply Bool.eq_iff_eq_true. rewrite !existsb_Zeqb_In. apply sort_uniq_In. Qed.

Section FM.
  Variable ge : Z -> option (Z * Z).
  Definition gl (x : Z) : list (Z * (Z * Z)) := match ge x with Some v => [(x, v)] | None => [] end.

  Lemma fm_keys L : forall k, In k (keys (flat_map gl L)) -> In k L.
  Proof.
    induction L as [|x r IH]; intros k Hk; [exact Hk|]. cbn [flat_map] in Hk. unfold keys in Hk. rewrite map_app in Hk.
    apply in_app_or in Hk as [Hk|Hk]; [|right; apply IH; exact Hk].
    unfold gl in Hk. destruct (ge x); cbn in Hk; [left; tauto|contradiction].
  Qed.

  Lemma fm_sorted L : ssorted L -> ssorted (keys (flat_map gl L)).
  Proof.
    induction L as [|x r IH]; intros H; [exact I|]. cbn [flat_map]. pose proof (ssorted_lb x r H) as Hlb.
    destruct H as [_ H]. specialize (IH H). unfold gl at 1. destruct (ge x); [|exact IH]. cbn [app keys map fst].
    cbn [ssorted]. split; [|exact IH].
    destruct (flat_map gl r) as [|[k v] m] eqn:E; [exact I|]. cbn [map fst]. apply Hlb. apply fm_keys. rewrite E. left. reflexivity.
  Qed.

  Lemma fm_get L p : ssorted L -> pget p (flat_map gl L) = if existsb (Z.eqb p) L then ge p else None.
  Proof.
    induction L as [|x r IH]; intros H; [reflexivity|]. cbn [flat_map existsb]. pose proof (ssorted_lb x r H) as Hlb.
    destruct H as [_ H]. specialize (IH H).
    destruct (Z.eq_dec p x) as [->|Hne].
    - rewrite Z.eqb_refl. cbn [orb]. unfold gl at 1. destruct (ge x) eqn:Eg; cbn [app pget]; [now rewrite Z.eqb_refl|].
      rewrite IH. destruct (existsb (Z.eqb x) r) eqn:Ee; [|reflexivity]. apply existsb_Zeqb_In in Ee. specialize (Hlb x Ee). lia.
    - replace (p =? x) with false by lia. cbn [orb]. unfold gl at 1. destruct (ge x); cbn [app pget]; [|exact IH].
      replace (x =? p) with false by lia. exact IH.
  Qed.
End FM.

Lemma head_req_sort_key t p : head_req (sort_key t) p = get t p.
Proof. unfold head_req, get. now rewrite lookup_sort_key. Qed.

Lemma expected_is_candidates ow act t : expected_active ow (sort_key t) act = candidates ow act t.
Proof.
  set (ge := fun p => cand_entry act t p).
  assert (Hform : expected_active ow (sort_key t) act = flat_map (gl ge) (sort_uniq ow)).
  { unfold expected_active. apply flat_map_ext. intros p. unfold gl, ge, cand_entry. rewrite head_req_sort_key.
    destruct (get t p) as [[f to]|]; reflexivity. }
  rewrite Hform. apply sorted_ext.
  - apply fm_sorted. apply sort_uniq_sorted.
  - apply candidates_sorted.
  - intros p. rewrite fm_get by apply sort_uniq_sorted. rewrite existsb_sort_uniq, candidates_get. reflexivity.
Qed.

Lemma keys_tos_keys m : keys (keys_tos m) = keys m.
Proof. unfold keys, keys_tos. rewrite map_map. reflexivity. Qed.

Lemma pget_keys_tos p m : pget p (keys_tos m) = option_map snd (pget p m).
Proof.
  induction m as [|[q [f to]] m IH]; [reflexivity|]. cbn [keys_tos map pget fst snd]. destruct (q =? p); [reflexivity|exact IH].
Qed.

Lemma keys_tos_iff_unchanged cand act :
  ssorted (keys cand) -> ssorted (keys act) ->
  list_eqb zz_eqb (keys_tos cand) (keys_tos act) = negb (changed cand act).
Proof.
  intros Hc Ha. destruct (changed cand act) eqn:Ech; cbn [negb].
  - destruct (list_eqb zz_eqb (keys_tos cand) (keys_tos act)) eqn:E; [|reflexivity]. exfalso.
    apply (list_eqb_eq zz_eqb zz_eqb_eq) in E.
    assert (Hf : changed cand act = false); [|congruence].
    unfold changed. assert (Hl : length cand = length act).
    { rewrite <- (map_length (fun e => (fst e, snd (snd e))) cand), <- (map_length (fun e => (fst e, snd (snd e))) act). exact (f_equal (@length _) E). }
    rewrite Hl, Nat.eqb_refl. apply Bool.not_true_iff_false. intros Hex. apply existsb_exists in Hex as [[k [f to]] [Hin Hx]].
    cbn [fst snd] in Hx. pose proof (In_pget k (f, to) cand Hc Hin) as Hp.
    assert (Hk : pget k (keys_tos act) = Some to) by (rewrite <- E, pget_keys_tos, Hp; reflexivity).
    rewrite pget_keys_tos in Hk. destruct (pget k act) as [[af ato]|]; cbn in Hk; [|discriminate]. inversion Hk; subst. lia.
  - pose proof (unchanged_same_keys cand act Hc Ha Ech) as Hu.
    replace (keys_tos cand) with (keys_tos act); [apply list_eqb_refl; apply zz_eqb_refl|].
    apply sorted_ext; [now rewrite keys_tos_keys|now rewrite keys_tos_keys|].
    intros p. rewrite !pget_keys_tos. destruct (Hu p) as [Hdom Hto].
    destruct (pget p cand) as [[cf ct]|] eqn:E1, (pget p act) as [[af at']|] eqn:E2; cbn [option_map snd]; try reflexivity.
    + f_equal. symmetry. eapply Hto; reflexivity.
    + exfalso. apply (proj1 Hdom); congruence.
    + exfalso. apply (proj2 Hdom); congruence.
Qed.

(* the spec's decision about one refresh, on the model *)
Lemma refresh_after_model s s' calls a :
  SI s -> refresh s = (s', calls) -> b_active a = active s' ->
  c09_refresh_after (sort_key (trk s)) (owned s) (active s) calls a = [].
Proof.
  intros HS Hr Ha. unfold c09_refresh_after. rewrite expected_is_candidates.
  rewrite (keys_tos_iff_unchanged _ _ (candidates_sorted _ _ _) HS).
  unfold refresh in Hr. destruct (changed _ _); inversion Hr; subst; cbn [negb]; rewrite Ha; cbn [active].
  - rewrite amap_eqb_refl. cbn [list_eqb]. rewrite !call_eqb_refl. reflexivity.
  - rewrite amap_eqb_refl. reflexivity.
Qed.

Lemma rec_step_calls cfg s p o f t : pget p (active s) = Some (f, t) -> (f <=? o) && (t <? o) = false ->
  o_calls (snd (rec_step cfg s p o)) = [].
Proof.
  intros Ha Hw. pose proof (rec_step_case cfg s p o) as Hc. destruct (rec_step cfg s p o) as [s1 out]. cbn [fst snd] in *.
  destruct Hc as [Ha'|f' t' Ha' Hlt|f' t' s' calls Ha' Hfo Hto Hr|f' t' r Ha' Hfo Hot Hr]; try reflexivity.
  rewrite Ha in Ha'. inversion Ha'; subst. lia.
Qed.

Lemma rec_step_calls_inactive cfg s p o : pget p (active s) = None -> o_calls (snd (rec_step cfg s p o)) = [].
Proof. intros Ha. unfold rec_step. rewrite Ha. reflexivity. Qed.

Lemma c09_refresh_rec cfg s p o outprev s1 o1 : SI s ->
  o_calls o1 = o_calls (snd (rec_step cfg s p o)) -> trk s1 = trk (fst (rec_step cfg s p o)) ->
  active s1 = active (fst (rec_step cfg s p o)) ->
  match pget p (b_active (mk_opobs s outprev)) with
  | Some (f, t) =>
      if (f <=? o) && (t <? o)
      then c09_refresh_after (b_trk (mk_opobs s1 o1)) (b_owned (mk_opobs s outprev)) (b_active (mk_opobs s outprev)) (b_calls (mk_opobs s1 o1)) (mk_opobs s1 o1)
      else match b_calls (mk_opobs s1 o1) with [] => [] | _ => [(1, [4])] end
  | None => match b_calls (mk_opobs s1 o1) with [] => [] | _ => [(1, [4])] end
  end = ([] : list fail).
Proof.
  intros HS Hc Ht Ha. cbn [b_active b_trk b_owned b_calls mk_opobs].
  destruct (pget p (active s)) as [[f t]|] eqn:Eact; [|rewrite Hc, rec_step_calls_inactive; auto].
  destruct ((f <=? o) && (t <? o)) eqn:Ew; [|rewrite Hc, (rec_step_calls cfg s p o f t Eact Ew); reflexivity].
  rewrite Hc, Ht. rewrite (rec_step_complete cfg s p o f t Eact ltac:(lia) ltac:(lia)). cbn [fst snd o_calls].
  set (s0 := with_trk s (ts (complete (trk s) p t)) (tout (complete (trk s) p t))).
  rewrite refresh_trk.
  assert (HS0 : SI s0) by exact HS.
  destruct (refresh s0) as [s' calls] eqn:Er. cbn [fst snd].
  apply (refresh_after_model s0 s' calls _ HS0 Er). cbn [b_active mk_opobs]. rewrite Ha.
  rewrite (rec_step_complete cfg s p o f t Eact ltac:(lia) ltac:(lia)). cbn [fst]. fold s0. now rewrite Er.
Qed.

Lemma c09_refresh_model cfg op s outprev : SI s ->
  c09_refresh op (mk_opobs s outprev) (mk_opobs (fst (rstep cfg s op)) (snd (rstep cfg s op))) = [].
Proof.
  intros HS. unfold c09_refresh.
  destruct op as [p k|p d|p d|p o|p o|code wm lows| |ps| |p f t|cerr pcs|m| |p|p d]; try reflexivity.
  - cbn [single_record]. destruct k as [|[|k]]; try reflexivity. cbn [b_cli mk_opobs].
    destruct (pget p (cli s)) as [n|] eqn:En; [|reflexivity].
    destruct (pump1_obs cfg s p n En) as [_ [_ [H3 [H4 [H5 _]]]]].
    apply (c09_refresh_rec cfg s p n outprev); assumption.
  - cbn [single_record b_cli mk_opobs rstep]. fold (stale_offset s p d).
    apply (c09_refresh_rec cfg s p (stale_offset s p d) outprev); auto.
  - cbn [single_record rstep]. apply (c09_refresh_rec cfg s p o outprev); auto.
  - cbn [rstep b_trk b_owned b_active b_calls mk_opobs]. destruct (refresh s) as [s' calls] eqn:Er. cbn [fst snd o_calls].
    apply (refresh_after_model s s' calls _ HS Er). reflexivity.
  - cbn [rstep b_trk b_owned b_active b_calls mk_opobs].
    set (s1 := {| owned := []; active := active s; trk := trk s; cli := cli s; mlog := mlog s |}).
    destruct (refresh s1) as [s' calls] eqn:Er. cbn [fst snd o_calls].
    pose proof (revoke_clears cfg s) as [H1 [H2 _]]. cbn [rstep] in H1, H2. fold s1 in H1, H2. rewrite Er in H1, H2. cbn [fst] in H1, H2.
    rewrite H1, H2. cbn [app].
    assert (HS1 : SI s1) by exact HS.
    apply (refresh_after_model s1 s' calls _ HS1 Er). reflexivity.
Qed.

Theorem c09_refresh_sound cfg ops : scan c09_refresh ops obs0 (model_l cfg init_state ops) = [].
Proof.
  rewrite obs0_init. apply (scan_model_inv c09_refresh cfg SI); [intros op s; apply SI_rstep| |exact SI_init].
  intros op s outprev HS. apply c09_refresh_model. exact HS.
Qed.

(* ---------- the successor of a stopped instance holds what the broadcasts say (C09 clause 6) ---------- *)
(* every op appends to the message log exactly the snapshot it delivers from another sender and what it sends *)
Definition delivered (op : rop) : list bcast :=
  match op with Deliver (MReq p rs) => [(p, rs)] | _ => [] end.

Lemma refresh_mlog s : mlog (fst (refresh s)) = mlog s.
Proof. unfold refresh. destruct (changed _ _); reflexivity. Qed.

Lemma rec_step_mlog cfg s p o : mlog (fst (rec_step cfg s p o)) = mlog s ++ o_sent (snd (rec_step cfg s p o)).
Proof.
  pose proof (rec_step_case cfg s p o) as Hc. destruct (rec_step cfg s p o) as [s1 out]. cbn [fst snd] in *.
  destruct Hc as [Ha|f t Ha Hlt|f t s' calls Ha Hfo Hto Hr|f t r Ha Hfo Hot Hr]; cbn [o_sent out_nil with_trk mlog];
    try reflexivity; try (now rewrite app_nil_r).
  replace s' with (fst (refresh (with_trk s (ts (complete (trk s) p t)) (tout (complete (trk s) p t))))) by now rewrite Hr.
  now rewrite refresh_mlog.
Qed.

Lemma fresh_step_mlog cfg s p : mlog (fst (fresh_step cfg s p)) = mlog s ++ o_sent (snd (fresh_step cfg s p)).
Proof.
  unfold fresh_step. destruct (pget p (cli s)); [|cbn [fst snd o_sent out_nil]; now rewrite app_nil_r].
  pose proof (rec_step_mlog cfg s p z) as H. destruct (rec_step cfg s p z) as [s1 out]. cbn [fst snd] in *.
  destruct (o_calls out); exact H.
Qed.

Lemma pump_mlog cfg : forall k s p, mlog (fst (pump cfg s p k)) = mlog s ++ o_sent (snd (pump cfg s p k)).
Proof.
  induction k as [|k IH]; intros s p; cbn [pump]; [cbn [fst snd o_sent out_nil]; now rewrite app_nil_r|].
  pose proof (fresh_step_mlog cfg s p) as H. destruct (fresh_step cfg s p) as [s1 o1]. cbn [fst snd] in *.
  specialize (IH s1 p). destruct (pump cfg s1 p k) as [s2 o2]. cbn [fst snd out_app o_sent] in *.
  rewrite IH, H. now rewrite app_assoc.
Qed.

Lemma rec_crash_mlog cfg s p :
  mlog (fst (rec_crash cfg s p)) = mlog s ++ o_sent (snd (rec_crash cfg s p))
  /\ trk (fst (rec_crash cfg s p)) = replay (mlog (fst (rec_crash cfg s p))).
Proof.
  unfold rec_crash. destruct (pget p (cli s)); [|cbn; now rewrite app_nil_r].
  destruct (would_send s p z); [cbn; now rewrite app_nil_r|].
  pose proof (rec_step_mlog cfg s p z) as H. destruct (rec_step cfg s p z) as [s1 out]. cbn [fst snd crash_state mlog trk] in *.
  split; [exact H|reflexivity].
Qed.

Lemma rstep_mlog cfg op s :
  mlog (fst (rstep cfg s op)) = mlog s ++ delivered op ++ o_sent (snd (rstep cfg s op)).
Proof.
  destruct op as [p k|p d|p d|p o|p o|code wm lows| |ps| |p f t|cerr pcs|m| |p|p d]; cbn [rstep delivered app].
  - apply pump_mlog.
  - apply rec_step_mlog.
  - unfold ahead_step. destruct (pget p (cli s)); [|cbn; now rewrite app_nil_r].
    destruct (pget p (active s)) as [[f to]|]; [|cbn; now rewrite app_nil_r].
    destruct (_ && _); [apply rec_step_mlog|cbn; now rewrite app_nil_r].
  - apply rec_step_mlog.
  - cbn. now rewrite app_nil_r.
  - unfold kerr_step. destruct ((code =? 1) || (code =? 2)); [|cbn; now rewrite app_nil_r].
    destruct wm; [cbn; now rewrite app_nil_r|]. destruct (kerr_loop _ _ _). reflexivity.
  - pose proof (refresh_mlog s) as H. destruct (refresh s). cbn [fst snd o_sent] in *. now rewrite app_nil_r.
  - cbn. now rewrite app_nil_r.
  - set (s1 := {| owned := []; active := active s; trk := trk s; cli := cli s; mlog := mlog s |}).
    pose proof (refresh_mlog s1) as H. destruct (refresh s1). cbn [fst snd o_sent] in *. rewrite H. cbn. now rewrite app_nil_r.
  - destruct (trim _ _). reflexivity.
  - destruct (file_all _ _). reflexivity.
  - destruct m; cbn [fst snd delivered app with_trk mlog o_sent out_nil]; rewrite ?app_nil_r; reflexivity.
  - cbn. now rewrite app_nil_r.
  - apply rec_crash_mlog.
  - unfold wild_step. destruct (pget p (cli s)); [|cbn; now rewrite app_nil_r].
    destruct (pget p (active s)); [apply rec_step_mlog|cbn; now rewrite app_nil_r].
Qed.

Lemma stop_trk_replay cfg op s :
  match op with Crash | RecCrash _ => True | _ => False end ->
  trk (fst (rstep cfg s op)) = replay (mlog (fst (rstep cfg s op))).
Proof.
  destruct op; try contradiction; intros _; cbn [rstep]; [reflexivity|apply rec_crash_mlog].
Qed.

(* what a replay holds for p: the last entry of the log for p *)
Definition last_step (p : Z) (acc : option (list req)) (m : bcast) : option (list req) :=
  if fst m =? p then Some (snd m) else acc.
Definition last_for (p : Z) (log : list bcast) : option (list req) := fold_left (last_step p) log None.

Lemma lookup_receive_fold p : forall (m : list bcast) (t : tstate),
  lookup p (fold_left (fun t x => receive t (fst x) (snd x)) m t) = fold_left (last_step p) m (lookup p t).
Proof.
  induction m as [|[k v] m IH]; intros t; [reflexivity|]. cbn [fold_left fst snd]. rewrite IH. f_equal.
  unfold receive, last_step. cbn [fst snd]. destruct (k =? p) eqn:E.
  - assert (k = p) by lia. subst. apply r_lookup_set_same.
  - apply r_lookup_set_other. lia.
Qed.

Lemma lookup_replay p log : lookup p (replay log) = last_for p log.
Proof. unfold replay, last_for. now rewrite lookup_receive_fold. Qed.

Lemma last_for_app p l m : last_for p (l ++ m) = fold_left (last_step p) m (last_for p l).
Proof. unfold last_for. apply fold_left_app. Qed.

(* ... which depends only on the entries of p, in their order: the stable sort by partition does not change it *)
Definition for_key (p : Z) (m : bcast) : bool := fst m =? p.

Lemma last_fold_filter p : forall (m : list bcast) acc,
  fold_left (last_step p) m acc = fold_left (last_step p) (filter (for_key p) m) acc.
Proof.
  induction m as [|x m IH]; intros acc; [reflexivity|]. cbn [filter fold_left]. unfold for_key at 1, last_step at 2.
  destruct (fst x =? p) eqn:E; cbn [fold_left]; [unfold last_step at 3; rewrite E|]; apply IH.
Qed.

Lemma for_key_pair p k (v : list req) : for_key p (k, v) = (k =? p).
Proof. reflexivity. Qed.

Lemma filter_ins_key p k (v : list req) l :
  filter (for_key p) (ins_key k v l) = if k =? p then (k, v) :: filter (for_key p) l else filter (for_key p) l.
Proof.
  induction l as [|[k' v'] l IH]; cbn [ins_key filter]; [rewrite for_key_pair; reflexivity|].
  destruct (k <=? k') eqn:E; cbn [filter]; rewrite ?for_key_pair; [reflexivity|].
  rewrite IH. destruct (k' =? p) eqn:E2; [|reflexivity].
  destruct (k =? p) eqn:E3; [exfalso; lia|reflexivity].
Qed.

Lemma filter_sort_key p (l : list bcast) : filter (for_key p) (sort_key l) = filter (for_key p) l.
Proof.
  induction l as [|[k v] l IH]; [reflexivity|]. unfold sort_key in *. cbn [fold_right fst snd].
  rewrite filter_ins_key, IH. cbn [filter]. rewrite for_key_pair. reflexivity.
Qed.

Lemma last_fold_sort_key p (m : list bcast) acc :
  fold_left (last_step p) (sort_key m) acc = fold_left (last_step p) m acc.
Proof. rewrite (last_fold_filter p (sort_key m)), filter_sort_key, <- last_fold_filter. reflexivity. Qed.

(* the log the decision procedure accumulates agrees, partition by partition, with the model's message log *)
Definition log_agrees (log : list bcast) (s : rstate) : Prop := forall p, last_for p log = last_for p (mlog s).

Lemma log_agrees_step cfg op s log :
  log_agrees log s ->
  log_agrees (log ++ delivered op ++ sort_key (o_sent (snd (rstep cfg s op)))) (fst (rstep cfg s op)).
Proof.
  intros H p. rewrite rstep_mlog, !last_for_app, !fold_left_app, last_fold_sort_key, (H p). reflexivity.
Qed.

Lemma successor_ok_model log s :
  log_agrees log s -> trk s = replay (mlog s) -> successor_ok (sort_key (trk s)) log = true.
Proof.
  intros H Ht. unfold successor_ok. apply forallb_forall. intros p _.
  rewrite reqs_of_sort_key, Ht. unfold reqs_of. rewrite !lookup_replay, (H p). apply req_list_eqb_refl.
Qed.

Lemma c09_successor_model cfg : forall ops s log,
  log_agrees log s -> c09_successor ops (model_l cfg s ops) log = [].
Proof.
  induction ops as [|op ops IH]; intros s log H; unfold model_l; cbn [rrun map c09_successor]; [reflexivity|].
  pose proof (log_agrees_step cfg op s log H) as Hstep. pose proof (stop_trk_replay cfg op s) as Hstop.
  destruct (rstep cfg s op) as [s' out]. cbn [map c09_successor fst snd mk_opobs b_sent b_trk] in *.
  fold (model_l cfg s' ops).
  match goal with |- _ ++ c09_successor _ _ ?lg = [] => change lg with (log ++ delivered op ++ sort_key (o_sent out)) end.
  rewrite (IH s' _ Hstep), app_nil_r.
  destruct op; try reflexivity; rewrite (successor_ok_model _ s' Hstep (Hstop I)); reflexivity.
Qed.

Theorem c09_successor_sound cfg ops : c09_successor ops (model_l cfg init_state ops) [] = [].
Proof. apply c09_successor_model. intros p. reflexivity. Qed.

(* on a small history: the request of partition 0 is completed before the stop, so the successor holds no request; a
   successor that still holds the completed request is flagged *)
Definition succ_cfg : rcfg := {| c_maxrec := 100; c_every := 2; c_maxlag := 10 |}.
Definition succ_ops : list rop := [Request 0 0 3; SetOwned [0]; Refresh; Pump 0 5; Crash].
Definition doctor_last_trk (t : tstate) (l : list opobs) : list opobs :=
  match rev l with
  | a :: r => rev r ++ [{| b_emits := b_emits a; b_calls := b_calls a; b_sent := b_sent a; b_err := b_err a; b_acks := b_acks a;
                           b_waits := b_waits a; b_active := b_active a; b_owned := b_owned a; b_trk := t; b_cli := b_cli a |}]
  | [] => []
  end.

Example c09_successor_example :
  c09_successor succ_ops (model_l succ_cfg init_state succ_ops) [] = []
  /\ b_trk (last (model_l succ_cfg init_state succ_ops) obs0) = [(0, [])]
  /\ c09_successor succ_ops (doctor_last_trk [(0, [(0, 3)])] (model_l succ_cfg init_state succ_ops)) [] = [(6, [1])]
  (* the whole spec_c09: on the model only the known shape of F6 (hand-off coverage, the record AT from is missing:
     (2, [1])), no clause 6; on the doctored observation (the request looks outstanding, so the hand-off coverage clause
     does not apply) exactly clause 6 *)
  /\ spec_c09 succ_cfg succ_ops (model_l succ_cfg init_state succ_ops) = [(2, [1])]
  /\ spec_c09 succ_cfg succ_ops (doctor_last_trk [(0, [(0, 3)])] (model_l succ_cfg init_state succ_ops)) = [(6, [1])].
Proof. vm_compute. repeat split; reflexivity. Qed.

(* ---------- summary ---------- *)
Lemma model_obs_logic cfg ops : model_obs (ILogic cfg ops) = OLogic (model_l cfg init_state ops).
Proof. reflexivity. Qed.

Theorem spec_c07_clauses_234_sound cfg ops :
  let l := model_l cfg init_state ops in
  scan c07_flags ops obs0 l = [] /\ scan c07_complete ops obs0 l = [] /\ scan c07_trunc ops obs0 l = [].
Proof. cbv zeta. split; [apply c07_flags_sound|split; [apply c07_complete_sound|apply c07_trunc_sound]]. Qed.

Theorem spec_c09_clauses_1456_sound cfg ops :
  let l := model_l cfg init_state ops in
  scan c09_refresh ops obs0 l = [] /\ c09_revoked ops l false = [] /\ scan c09_owned ops obs0 l = []
  /\ c09_successor ops l [] = [].
Proof.
  cbv zeta. split; [apply c09_refresh_sound|split; [apply c09_revoked_sound|split; [apply c09_owned_sound|apply c09_successor_sound]]].
Qed.

(* the whole of spec_c09 on the model's own observations: whatever it reports is a coverage clause (2: hand-off, 3: progress -
   decided through cover_fails / outside_fails, where the known findings F6 / F11 show); clauses 1, 4, 5 and 6 never fail *)
Lemma dedup_fail_In x l : In x (dedup_fail l) -> In x l.
Proof.
  induction l as [|y l IH]; [exact (fun H => H)|]. unfold dedup_fail in *. cbn [fold_right].
  destruct (existsb _ _); [intros H; right; apply IH; exact H|].
  intros [H|H]; [left; exact H|right; apply IH; exact H].
Qed.

Lemma cover_fails_clause cl wd cfg ops l x : In x (cover_fails cl wd cfg ops l) -> fst x = cl.
Proof.
  unfold cover_fails. intros H. apply in_flat_map in H as [p [_ H]].
  destruct (cover_of cfg ops l p) as [[cv [[f0 t] lows]]|]; [|destruct H].
  destruct (Bool.eqb (cv_done cv) wd); [|destruct H].
  destruct (filter _ (filter _ (cv_missing cv))); [|destruct H as [<-|[]]; reflexivity].
  destruct (filter _ (cv_missing cv)); [|destruct H as [<-|[]]; reflexivity].
  destruct (cv_missing cv); [destruct H|destruct H as [<-|[]]; reflexivity].
Qed.

Lemma outside_fails_clause cl cfg ops l x : In x (outside_fails cl cfg ops l) -> fst x = cl.
Proof.
  unfold outside_fails. intros H. apply in_flat_map in H as [p [_ H]].
  destruct (cover_of cfg ops l p) as [[cv ?]|]; [|destruct H].
  destruct (cv_outside cv); [destruct H|destruct H as [<-|[]]; reflexivity].
Qed.

Theorem spec_c09_model_only_coverage cfg ops x :
  In x (spec_c09 cfg ops (model_l cfg init_state ops)) -> fst x = 2 \/ fst x = 3.
Proof.
  unfold spec_c09. unfold model_l at 1. rewrite map_length, rrun_length, Nat.eqb_refl.
  rewrite c09_refresh_sound, c09_revoked_sound, c09_owned_sound, c09_successor_sound. cbn [app]. rewrite app_nil_r.
  intros H. apply dedup_fail_In in H. apply in_app_or in H as [H|H].
  - destruct (has_handoff ops); [|destruct H]. left.
    apply in_app_or in H as [H|H]; [exact (cover_fails_clause _ _ _ _ _ _ H)|exact (outside_fails_clause _ _ _ _ _ H)].
  - right. exact (cover_fails_clause _ _ _ _ _ _ H).
Qed.

Corollary spec_c09_model_no_clause_6 cfg ops d : ~ In (6, d) (spec_c09 cfg ops (model_l cfg init_state ops)).
Proof. intros H. apply spec_c09_model_only_coverage in H. cbn [fst] in H. lia. Qed.
