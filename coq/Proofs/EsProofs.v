(* proofs about Model/EsClient.v *)
From Coq Require Import List ZArith Bool Arith Lia ZifyBool.
From FB Require Import Lib.Sexp Lib.Eqb Lib.E7Lib Model.EsClient.
Import ListNotations.
Open Scope Z_scope.

(* ================= token pool: every interleaving ================= *)
Lemma set_nth_length {A} i (y : A) l : length (set_nth i y l) = length l.
Proof. revert i; induction l as [|x l IH]; intros [|i]; simpl; auto. Qed.

Lemma remove_nth_length {A} i (l : list A) x :
  nth_error l i = Some x -> S (length (remove_nth i l)) = length l.
Proof.
  revert i; induction l as [|a l IH]; intros [|i]; simpl; try discriminate.
  - intros _. reflexivity.
  - intros H. rewrite (IH _ H). reflexivity.
Qed.

Definition pool_inv (cfg : ecfg) (s : mstate) : Prop :=
  (length (m_running s) + m_tokens s = workers cfg)%nat.

Lemma pool_init cfg : pool_inv cfg (m_init cfg).
Proof. unfold pool_inv; simpl. lia. Qed.

Lemma pool_step cfg sc s a s' : mstep cfg sc s a = Some s' -> pool_inv cfg s -> pool_inv cfg s'.
Proof.
  unfold pool_inv. destruct a as [o| |i|i|i]; cbn [mstep].
  - destruct (m_stopped s); [discriminate|]. intros [= <-]; simpl; auto.
  - intros [= <-]; simpl; auto.
  - destruct (nth_error (m_waiting s) i) as [t|]; [|discriminate].
    destruct (m_tokens s) as [|k] eqn:Ek; [discriminate|]. intros [= <-]; simpl.
    rewrite app_length; simpl. lia.
  - destruct (nth_error (m_running s) i) as [[t [|]]|]; try discriminate.
    destruct (handle cfg sc t) as [ans next]. intros [= <-]; simpl. rewrite set_nth_length. auto.
  - destruct (nth_error (m_running s) i) as [[t [|]]|] eqn:En; try discriminate.
    intros [= <-]; simpl. pose proof (remove_nth_length _ _ _ En). lia.
Qed.

Lemma pool_run cfg sc sch : forall s s', mrun cfg sc s sch = Some s' -> pool_inv cfg s -> pool_inv cfg s'.
Proof.
  induction sch as [|a sch IH]; simpl; intros s s'.
  - intros [= <-]; auto.
  - destruct (mstep cfg sc s a) as [s1|] eqn:E; [|discriminate].
    intros Hr Hi. eapply IH; eauto using pool_step.
Qed.

Lemma pool_bound cfg sc sch s :
  mrun cfg sc (m_init cfg) sch = Some s ->
  (in_flight s + m_tokens s = workers cfg)%nat /\ (in_flight s <= workers cfg)%nat.
Proof.
  intros H. pose proof (pool_run _ _ _ _ _ H (pool_init cfg)) as P. unfold pool_inv, in_flight in *. lia.
Qed.

(* a token can only be taken when one is there: with all workers busy nobody starts *)
Lemma acquire_needs_token cfg sc s i s' :
  mstep cfg sc s (AAcquire i) = Some s' -> (m_tokens s > 0)%nat /\ m_tokens s' = pred (m_tokens s).
Proof.
  cbn [mstep]. destruct (nth_error (m_waiting s) i); [|discriminate].
  destruct (m_tokens s); [discriminate|]. intros [= <-]; simpl. split; [lia|reflexivity].
Qed.

(* ================= batcher ================= *)
Lemma pause_flushes cfg s :
  b_pending (bstep cfg s OpPause) = [] /\ b_batches (bstep cfg s OpPause) = b_batches s ++ [b_pending s].
Proof. split; reflexivity. Qed.

Lemma arrival_batches cfg s d :
  (b_batches (bstep cfg s (OpDoc d)) = b_batches s /\ b_pending (bstep cfg s (OpDoc d)) = b_pending s ++ [d]
   /\ length (b_pending s ++ [d]) <> batch_size cfg)
  \/ (b_batches (bstep cfg s (OpDoc d)) = b_batches s ++ [b_pending s ++ [d]] /\ b_pending (bstep cfg s (OpDoc d)) = []
      /\ length (b_pending s ++ [d]) = batch_size cfg).
Proof.
  cbn [bstep]. destruct (length (b_pending s ++ [d]) =? batch_size cfg)%nat eqn:E; simpl.
  - right. apply Nat.eqb_eq in E. auto.
  - left. apply Nat.eqb_neq in E. auto.
Qed.

Lemma bad_not_enqueued cfg s id :
  b_batches (bstep cfg s (OpBad id)) = b_batches s /\ b_pending (bstep cfg s (OpBad id)) = b_pending s
  /\ b_direct (bstep cfg s (OpBad id)) = b_direct s ++ [(id, AOther)].
Proof. repeat split. Qed.

Definition binv (cfg : ecfg) (s : bstate) : Prop :=
  (length (b_pending s) < batch_size cfg)%nat /\ Forall (fun b => (length b <= batch_size cfg)%nat) (b_batches s).

Lemma binv_step cfg s o : (1 <= batch_size cfg)%nat -> binv cfg s -> binv cfg (bstep cfg s o).
Proof.
  intros Hb [Hp Hf]. destruct o as [d|id|]; cbn [bstep].
  - destruct (length (b_pending s ++ [d]) =? batch_size cfg)%nat eqn:E; split; simpl; auto.
    + apply Forall_app; split; auto. constructor; auto. apply Nat.eqb_eq in E. lia.
    + apply Nat.eqb_neq in E. rewrite app_length in *; simpl in *. lia.
  - split; auto.
  - split; simpl; auto. apply Forall_app; split; auto. constructor; auto. lia.
Qed.

Lemma binv_fold cfg ops : forall s, (1 <= batch_size cfg)%nat -> binv cfg s -> binv cfg (fold_left (bstep cfg) ops s).
Proof. induction ops as [|o ops IH]; simpl; intros s Hb Hi; auto. apply IH; auto. now apply binv_step. Qed.

Lemma binv_run cfg ops clean : (1 <= batch_size cfg)%nat -> binv cfg (bfinish cfg clean (brun cfg ops)).
Proof.
  intros Hb. assert (H : binv cfg (brun cfg ops)).
  { apply binv_fold; auto. split; simpl; [lia|constructor]. }
  unfold bfinish. destruct clean; auto. now apply binv_step.
Qed.

(* ================= the retry machine ================= *)
From FB Require Import Judge.E7.

Lemma item_answers_flat cfg t g ds :
  item_answers cfg t ds (map g ds) = flat_map (fun d => item_answer cfg t d (g d)) ds.
Proof. induction ds as [|d ds IH]; simpl; [reflexivity|]. now rewrite IH. Qed.

Lemma retry_list_filter g ds : retry_list ds (map g ds) = filter (fun d => is_retryable (g d)) ds.
Proof. induction ds as [|d ds IH]; simpl; [reflexivity|]. destruct (is_retryable (g d)); now rewrite IH. Qed.

Lemma script_of_clean sc id :
  no_whole sc = true -> Forall (fun ol => is_whole (fst ol) = false) (script_of sc id).
Proof.
  unfold no_whole. induction sc as [|[i l] sc IH]; simpl; intros H; [constructor|].
  apply andb_true_iff in H as [H1 H2]. destruct (i =? id); [|auto].
  apply Forall_forall. intros x Hx. rewrite forallb_forall in H1. specialize (H1 x Hx).
  now apply negb_true_iff in H1.
Qed.

Lemma no_whole_outcome sc id k : no_whole sc = true -> is_whole (outcome_at sc id k) = false.
Proof.
  intros H. unfold outcome_at. pose proof (script_of_clean sc id H) as F.
  destruct (nth_in_or_default k (script_of sc id) (OOk, false)) as [Hin | ->]; [|reflexivity].
  rewrite Forall_forall in F. now apply F.
Qed.

Lemma fate_unfold rem n sc :
  fate rem n sc =
  match sc n with
  | OOk | OWhole => (ASuccess, S n)
  | OMapping => (AIndexErr (Z.of_nat n) 2, S n)
  | ORetry => match rem with O => (AIndexErr (Z.of_nat n) 1, S n) | S r => fate r (S n) sc end
  | ONoErr => match rem with O => (AIndexErr (-1) 3, S n) | S r => fate r (S n) sc end
  end.
Proof. destruct rem; reflexivity. Qed.

Lemma answers_of_app id a b : answers_of id (a ++ b) = answers_of id a ++ answers_of id b.
Proof. unfold answers_of. now rewrite filter_app, map_app. Qed.

Definition keyed (F : doc -> list (Z * answer)) : Prop := forall d x, In x (F d) -> fst x = d_id d.

Lemma answers_of_same id l : (forall x, In x l -> fst x = id) -> answers_of id l = map snd l.
Proof.
  unfold answers_of. induction l as [|x l IH]; simpl; intros H; [reflexivity|].
  rewrite (H x (or_introl eq_refl)), Z.eqb_refl. simpl. f_equal. apply IH. intros y Hy; apply H; now right.
Qed.
Lemma answers_of_other id l : (forall x, In x l -> fst x <> id) -> answers_of id l = [].
Proof.
  unfold answers_of. induction l as [|x l IH]; simpl; intros H; [reflexivity|].
  destruct (fst x =? id) eqn:E; [apply Z.eqb_eq in E; exfalso; eapply H; eauto|].
  apply IH. intros y Hy; apply H; now right.
Qed.

Lemma answers_of_flat_out F ds id :
  keyed F -> ~ In id (map d_id ds) -> answers_of id (flat_map F ds) = [].
Proof.
  intros K H. apply answers_of_other. intros x Hx. apply in_flat_map in Hx as [d [Hd Hx]].
  rewrite (K d x Hx). intros E. apply H. rewrite <- E. now apply in_map.
Qed.

Lemma answers_of_flat_in F ds d :
  keyed F -> NoDup (map d_id ds) -> In d ds -> answers_of (d_id d) (flat_map F ds) = map snd (F d).
Proof.
  intros K. induction ds as [|a ds IH]; simpl; intros N Hin; [contradiction|].
  destruct Hin as [E|Hin].
  - subst a. inversion N as [|? ? Hn Hd]; subst. rewrite answers_of_app.
    rewrite (answers_of_same (d_id d) (F d)) by (intros x Hx; now apply K).
    rewrite answers_of_flat_out by assumption. now rewrite app_nil_r.
  - inversion N as [|? ? Hn Hd]; subst. rewrite answers_of_app.
    rewrite (answers_of_other (d_id d) (F a)); [now apply IH|].
    intros x Hx. rewrite (K a x Hx). intros E. apply Hn. rewrite E. now apply in_map.
Qed.

Lemma map_as_flat_map {A B} (f : A -> B) l : map f l = flat_map (fun x => [f x]) l.
Proof. induction l; simpl; congruence. Qed.

Lemma has_doc_in d ds : In d ds -> has_doc (d_id d) ds = true.
Proof. intros H. unfold has_doc. apply existsb_exists. exists d; split; [assumption|apply Z.eqb_refl]. Qed.
Lemma has_doc_out id ds : ~ In id (map d_id ds) -> has_doc id ds = false.
Proof.
  intros H. unfold has_doc. destruct (existsb _ ds) eqn:E; [|reflexivity].
  apply existsb_exists in E as [d [Hd E]]. apply Z.eqb_eq in E. exfalso; apply H. rewrite <- E. now apply in_map.
Qed.
Lemma count_calls_cons id c calls :
  count_calls id (c :: calls) = ((if has_doc id c then 1 else 0) + count_calls id calls)%nat.
Proof. unfold count_calls; simpl. destruct (has_doc id c); reflexivity. Qed.
Lemma count_calls_single id c : count_calls id [c] = (if has_doc id c then 1 else 0)%nat.
Proof. unfold count_calls; simpl. destruct (has_doc id c); reflexivity. Qed.
Lemma count_calls_app id a b : count_calls id (a ++ b) = (count_calls id a + count_calls id b)%nat.
Proof. unfold count_calls. now rewrite filter_app, app_length. Qed.

Lemma NoDup_map_inj {A B} (f : A -> B) l a b :
  NoDup (map f l) -> In a l -> In b l -> f a = f b -> a = b.
Proof.
  induction l as [|x l IH]; simpl; intros N Ha Hb E; [contradiction|].
  inversion N as [|? ? Hn Hd]; subst.
  destruct Ha as [->|Ha], Hb as [->|Hb]; auto.
  - exfalso; apply Hn. rewrite E. now apply in_map.
  - exfalso; apply Hn. rewrite <- E. now apply in_map.
Qed.
Lemma NoDup_map_filter {A B} (f : A -> B) p l : NoDup (map f l) -> NoDup (map f (filter p l)).
Proof.
  induction l as [|x l IH]; simpl; intros N; [constructor|].
  inversion N as [|? ? Hn Hd]; subst. destruct (p x); simpl; [|auto].
  constructor; [|auto]. intros H. apply Hn. apply in_map_iff in H as [y [E Hy]].
  apply filter_In in Hy as [Hy _]. rewrite <- E. now apply in_map.
Qed.
Lemma filter_ids_subset p (ds : list doc) id : In id (map d_id (filter p ds)) -> In id (map d_id ds).
Proof. intros H. apply in_map_iff in H as [y [E Hy]]. apply filter_In in Hy as [Hy _]. rewrite <- E. now apply in_map. Qed.

Lemma item_answer_keyed cfg t g : keyed (fun d => item_answer cfg t d (g d)).
Proof.
  intros d x. unfold item_answer. destruct (g d); try destruct (t_n t =? max_retries cfg)%nat; simpl;
    intros H; try contradiction; destruct H as [<-|[]]; reflexivity.
Qed.

(* one step of the lineage *)
Lemma lineage_S f cfg sc t :
  lineage (S f) cfg sc t =
  tr_app {| tr_answers := fst (handle cfg sc t); tr_calls := call_of t; tr_fuel_out := false |}
         (match snd (handle cfg sc t) with Some t' => lineage f cfg sc t' | None => tr_empty end).
Proof. simpl. destruct (handle cfg sc t); reflexivity. Qed.

(* handle, without whole-request errors, on a non-empty task *)
Lemma handle_clean cfg sc t :
  no_whole sc = true -> t_docs t <> [] ->
  let g := fun d => outcome_at sc (d_id d) (t_send t) in
  handle cfg sc t =
    if forallb is_ok (map g (t_docs t))
    then (map (fun d => (d_id d, ASuccess)) (t_docs t), None)
    else (flat_map (fun d => item_answer cfg t d (g d)) (t_docs t),
          if (t_n t =? max_retries cfg)%nat then None
          else Some {| t_docs := filter (fun d => is_retryable (g d)) (t_docs t); t_n := S (t_n t); t_send := S (t_send t) |}).
Proof.
  intros Hnw Hne g. unfold handle, outcomes. fold g.
  destruct (t_docs t) as [|d0 ds] eqn:Ed; [contradiction|].
  assert (W : existsb is_whole (map g (d0 :: ds)) = false).
  { destruct (existsb is_whole (map g (d0 :: ds))) eqn:E; [|reflexivity].
    apply existsb_exists in E as [o [Ho E]]. apply in_map_iff in Ho as [d [<- _]].
    unfold g in E. now rewrite no_whole_outcome in E. }
  rewrite W. destruct (forallb is_ok (map g (d0 :: ds))); [reflexivity|].
  rewrite item_answers_flat, retry_list_filter. destruct (t_n t =? max_retries cfg)%nat; reflexivity.
Qed.

Definition fate_of (sc : script) rem n (d : doc) := fate rem n (outcome_at sc (d_id d)).

(* the statement about one bulk request and everything it leads to *)
Definition fate_ok (cfg : ecfg) (sc : script) rem (t : task) (tr : trace) : Prop :=
  tr_fuel_out tr = false
  /\ (forall d, In d (t_docs t) ->
        answers_of (d_id d) (tr_answers tr) = [fst (fate_of sc rem (t_n t) d)]
        /\ (count_calls (d_id d) (tr_calls tr) + t_n t = snd (fate_of sc rem (t_n t) d))%nat)
  /\ (forall id, ~ In id (map d_id (t_docs t)) ->
        answers_of id (tr_answers tr) = [] /\ count_calls id (tr_calls tr) = 0%nat).

Lemma fate_all_ok cfg sc rem t :
  t_send t = t_n t -> NoDup (map d_id (t_docs t)) ->
  forallb is_ok (map (fun d => outcome_at sc (d_id d) (t_send t)) (t_docs t)) = true ->
  fate_ok cfg sc rem t
    {| tr_answers := map (fun d => (d_id d, ASuccess)) (t_docs t) ++ []; tr_calls := [t_docs t] ++ [];
       tr_fuel_out := false |}.
Proof.
  intros Hs Nd Eok. unfold fate_ok. cbn [tr_answers tr_calls tr_fuel_out]. rewrite !app_nil_r.
  assert (K : keyed (fun d => [(d_id d, ASuccess)])) by (intros d' x [<-|[]]; reflexivity).
  split; [reflexivity|]. split.
  - intros d Hd. rewrite map_as_flat_map.
    rewrite (answers_of_flat_in (fun d => [(d_id d, ASuccess)]) (t_docs t) d K Nd Hd).
    rewrite count_calls_cons, (has_doc_in d (t_docs t) Hd). unfold count_calls at 1. simpl.
    assert (Eo : outcome_at sc (d_id d) (t_n t) = OOk).
    { rewrite forallb_forall in Eok.
      specialize (Eok _ (in_map (fun d => outcome_at sc (d_id d) (t_send t)) _ _ Hd)). simpl in Eok.
      rewrite Hs in Eok. destruct (outcome_at sc (d_id d) (t_n t)); try discriminate; reflexivity. }
    unfold fate_of. rewrite fate_unfold, Eo. simpl. split; [reflexivity|lia].
  - intros id Hid. rewrite map_as_flat_map.
    rewrite (answers_of_flat_out (fun d => [(d_id d, ASuccess)]) (t_docs t) id K Hid).
    rewrite count_calls_cons, (has_doc_out id (t_docs t) Hid). split; reflexivity.
Qed.

Lemma lineage_fate cfg sc (Hnw : no_whole sc = true) :
  forall rem fuel t,
    (t_n t + rem = max_retries cfg)%nat -> t_send t = t_n t -> (rem < fuel)%nat -> NoDup (map d_id (t_docs t)) ->
    fate_ok cfg sc rem t (lineage fuel cfg sc t).
Proof.
  induction rem as [|rem IH]; intros fuel t Hn Hs Hf Nd; (destruct fuel as [|f]; [lia|]);
    rewrite lineage_S;
    (destruct (t_docs t) as [|d0 ds] eqn:Ed;
     [ unfold fate_ok, handle, call_of; rewrite Ed; simpl; repeat split; intros; try contradiction; reflexivity | ]);
    (assert (Hne : t_docs t <> []) by (rewrite Ed; discriminate));
    rewrite (handle_clean cfg sc t Hnw Hne); cbv zeta; unfold call_of; rewrite Ed; rewrite <- Ed; rewrite <- Ed in Nd;
    set (g := fun d => outcome_at sc (d_id d) (t_send t));
    set (F := fun d1 : doc => item_answer cfg t d1 (outcome_at sc (d_id d1) (t_send t)));
    set (P := fun d : doc => is_retryable (outcome_at sc (d_id d) (t_send t)));
    (assert (KF : keyed F) by exact (item_answer_keyed cfg t g));
    (destruct (forallb is_ok (map g (t_docs t))) eqn:Eok;
     [ cbn [fst snd tr_app tr_answers tr_calls tr_fuel_out tr_empty orb]; apply fate_all_ok; assumption | ]).
  (* rem = 0, some failure: n = max_retries, nothing is started *)
  - assert (En : (t_n t =? max_retries cfg)%nat = true) by (apply Nat.eqb_eq; lia).
    rewrite En. unfold fate_ok. cbn [fst snd tr_app tr_answers tr_calls tr_fuel_out tr_empty]. rewrite !app_nil_r.
    split; [reflexivity|]. split.
    + intros d Hd. rewrite (answers_of_flat_in F (t_docs t) d KF Nd Hd).
      rewrite count_calls_cons, (has_doc_in d (t_docs t) Hd). unfold count_calls at 1. simpl.
      unfold fate_of. rewrite fate_unfold. unfold F, item_answer. rewrite En, Hs.
      pose proof (no_whole_outcome sc (d_id d) (t_n t) Hnw) as Hw.
      destruct (outcome_at sc (d_id d) (t_n t)); try discriminate; simpl; split; try reflexivity; lia.
    + intros id Hid. rewrite (answers_of_flat_out F (t_docs t) id KF Hid).
      rewrite count_calls_cons, (has_doc_out id (t_docs t) Hid). split; reflexivity.
  (* rem = S rem, some failure: the retry list is sent with n + 1 *)
  - assert (En : (t_n t =? max_retries cfg)%nat = false) by (apply Nat.eqb_neq; lia).
    rewrite En. cbn [fst snd].
    set (t' := {| t_docs := filter P (t_docs t); t_n := S (t_n t); t_send := S (t_send t) |}).
    assert (Nd' : NoDup (map d_id (t_docs t'))) by (apply NoDup_map_filter; assumption).
    destruct (IH f t') as [Hfo [Hin Hout]]; try assumption; simpl; try lia.
    unfold fate_ok. cbn [tr_app tr_answers tr_calls tr_fuel_out]. split; [simpl; assumption|]. split.
    + intros d Hd. rewrite answers_of_app, count_calls_app, count_calls_single, (has_doc_in d (t_docs t) Hd).
      rewrite (answers_of_flat_in F (t_docs t) d KF Nd Hd).
      unfold fate_of. rewrite fate_unfold.
      pose proof (no_whole_outcome sc (d_id d) (t_n t) Hnw) as Hw.
      destruct (P d) eqn:Er.
      * assert (Hd' : In d (t_docs t')) by (apply filter_In; split; assumption).
        destruct (Hin d Hd') as [A C]. unfold fate_of in A, C. simpl in A, C. rewrite A.
        unfold F, item_answer. rewrite En. unfold P in Er. rewrite Hs in *.
        destruct (outcome_at sc (d_id d) (t_n t)); try discriminate; simpl; split; try reflexivity; lia.
      * assert (Hd' : ~ In (d_id d) (map d_id (t_docs t'))).
        { intros H. apply in_map_iff in H as [y [E Hy]]. apply filter_In in Hy as [Hy Hr].
          assert (y = d) by exact (NoDup_map_inj d_id (t_docs t) y d Nd Hy Hd E). subst y. congruence. }
        destruct (Hout _ Hd') as [A C]. rewrite A, C.
        unfold F, item_answer. rewrite En. unfold P in Er. rewrite Hs in *.
        destruct (outcome_at sc (d_id d) (t_n t)); try discriminate; simpl; split; try reflexivity; lia.
    + intros id Hid. rewrite answers_of_app, count_calls_app, count_calls_single, (has_doc_out id (t_docs t) Hid).
      rewrite (answers_of_flat_out F (t_docs t) id KF Hid).
      assert (Hid' : ~ In id (map d_id (t_docs t'))) by (intros H; apply Hid; eapply filter_ids_subset; exact H).
      destruct (Hout _ Hid') as [A C]. rewrite A, C. split; reflexivity.
Qed.

(* the headline form: a fresh batch (retryCount 0, never sent), any fuel the model uses *)
Lemma batch_answered_once cfg sc b :
  no_whole sc = true -> NoDup (map d_id b) ->
  fate_ok cfg sc (max_retries cfg) (fresh b) (lineage (fuel_for cfg sc) cfg sc (fresh b)).
Proof.
  intros Hnw Nd. apply lineage_fate; simpl; auto. unfold fuel_for. lia.
Qed.

(* ================= shape of bulk requests ================= *)
Lemma filter_filter {A} (p q : A -> bool) l : filter p (filter q l) = filter (fun x => q x && p x) l.
Proof. induction l as [|x l IH]; simpl; [reflexivity|]. destruct (q x); simpl; [destruct (p x)|]; now rewrite IH. Qed.
Lemma filter_true {A} (l : list A) : filter (fun _ => true) l = l.
Proof. induction l; simpl; congruence. Qed.
Lemma filter_length_le' {A} (p : A -> bool) l : (length (filter p l) <= length l)%nat.
Proof. induction l as [|x l IH]; simpl; [lia|]. destruct (p x); simpl; lia. Qed.

Lemma handle_next_filter cfg sc t t' :
  snd (handle cfg sc t) = Some t' -> exists p, t_docs t' = filter p (t_docs t).
Proof.
  unfold handle. destruct (t_docs t) as [|d0 ds] eqn:Ed; [discriminate|]. rewrite <- Ed.
  destruct (existsb is_whole (outcomes sc t)).
  - intros [= <-]; simpl. exists (fun _ => true). now rewrite filter_true.
  - destruct (forallb is_ok (outcomes sc t)); [discriminate|].
    destruct (t_n t =? max_retries cfg)%nat; [discriminate|].
    intros [= <-]; cbn [t_docs]. unfold outcomes. rewrite retry_list_filter. eexists; reflexivity.
Qed.

Lemma tr_calls_app a b : tr_calls (tr_app a b) = tr_calls a ++ tr_calls b.
Proof. reflexivity. Qed.

Lemma lineage_calls_filter cfg sc fuel : forall t c,
  In c (tr_calls (lineage fuel cfg sc t)) -> c <> [] /\ exists p, c = filter p (t_docs t).
Proof.
  induction fuel as [|f IH]; intros t c; [simpl; contradiction|].
  rewrite lineage_S, tr_calls_app. cbn [tr_calls]. intros H. apply in_app_or in H as [H|H].
  - unfold call_of in H. destruct (t_docs t) as [|d0 ds] eqn:Ed; [contradiction|].
    destruct H as [<-|[]]. split; [discriminate|]. exists (fun _ => true). now rewrite filter_true.
  - destruct (snd (handle cfg sc t)) as [t'|] eqn:En; [|contradiction].
    destruct (IH t' c H) as [Hne [p Hp]]. destruct (handle_next_filter _ _ _ _ En) as [q Hq].
    split; [assumption|]. exists (fun x => q x && p x). now rewrite Hp, Hq, filter_filter.
Qed.

(* every bulk request of a scenario: a sub-list of one batch (elements untouched, order kept), at most batch-size long *)
Lemma fold_calls_in cfg sc batches c :
  In c (tr_calls (fold_right (fun b acc => tr_app (lineage (fuel_for cfg sc) cfg sc (fresh b)) acc) tr_empty batches)) ->
  exists b, In b batches /\ In c (tr_calls (lineage (fuel_for cfg sc) cfg sc (fresh b))).
Proof.
  induction batches as [|b bs IH]; simpl; [contradiction|].
  intros H. apply in_app_or in H as [H|H]; [exists b; auto|].
  destruct (IH H) as [b' [Hb Hc]]. exists b'; auto.
Qed.

Lemma run_calls_shape cfg sc ops clean c :
  (1 <= batch_size cfg)%nat ->
  In c (e_calls (es_run cfg sc ops clean)) ->
  exists b p, In b (b_batches (bfinish cfg clean (brun cfg ops))) /\ c = filter p b /\ c <> []
              /\ (length c <= batch_size cfg)%nat.
Proof.
  intros Hb H. unfold es_run in H. cbn [e_calls] in H.
  apply fold_calls_in in H as [b [Hin Hc]].
  apply lineage_calls_filter in Hc as [Hne [p Hp]]. simpl in Hp.
  exists b, p. repeat split; auto.
  destruct (binv_run cfg ops clean Hb) as [_ F]. rewrite Forall_forall in F. specialize (F b Hin).
  subst c. pose proof (filter_length_le' p b). lia.
Qed.

(* what [fate] promises, spelled out *)
Lemma fate_spec sc : (forall k, is_whole (sc k) = false) -> forall rem n,
  let a := fst (fate rem n sc) in
  let k := snd (fate rem n sc) in
  (n < k <= n + rem + 1)%nat
  /\ (forall j, (n <= j < k - 1)%nat -> is_retryable (sc j) = true)
  /\ match sc (k - 1)%nat with
     | OOk => a = ASuccess
     | OMapping => a = AIndexErr (Z.of_nat (k - 1)) 2
     | ORetry => a = AIndexErr (Z.of_nat (k - 1)) 1 /\ (k - 1 = n + rem)%nat
     | ONoErr => a = AIndexErr (-1) 3 /\ (k - 1 = n + rem)%nat
     | OWhole => False
     end.
Proof.
  intros Hw. induction rem as [|r IH]; intros n; cbv zeta; rewrite fate_unfold;
    pose proof (Hw n) as Hn; destruct (sc n) eqn:E; try discriminate; cbn [fst snd];
    try (replace (S n - 1)%nat with n by lia; rewrite E; repeat split; try lia; intros j Hj; lia).
  - specialize (IH (S n)). cbv zeta in IH. destruct IH as [B [R L]]. split; [lia|]. split; [|].
    + intros j Hj. destruct (Nat.eq_dec j n) as [->|Hne]; [now rewrite E|]. apply R. lia.
    + destruct (sc (snd (fate r (S n) sc) - 1)%nat); auto; destruct L; split; auto; lia.
  - specialize (IH (S n)). cbv zeta in IH. destruct IH as [B [R L]]. split; [lia|]. split; [|].
    + intros j Hj. destruct (Nat.eq_dec j n) as [->|Hne]; [now rewrite E|]. apply R. lia.
    + destruct (sc (snd (fate r (S n) sc) - 1)%nat); auto; destruct L; split; auto; lia.
Qed.

(* late responses do not matter to the (repaired) code: only the outcomes do *)
Lemma handle_ignores_late cfg sc sc' t :
  (forall id k, outcome_at sc id k = outcome_at sc' id k) -> handle cfg sc t = handle cfg sc' t.
Proof.
  intros H. unfold handle, outcomes.
  assert (E : map (fun d => outcome_at sc (d_id d) (t_send t)) (t_docs t)
              = map (fun d => outcome_at sc' (d_id d) (t_send t)) (t_docs t)) by (apply map_ext; intros; apply H).
  now rewrite E.
Qed.

(* ================= every script, whole-request errors included: exactly one answer ================= *)
Lemma handle_cases cfg sc t :
  t_docs t <> [] ->
  let g := fun d => outcome_at sc (d_id d) (t_send t) in
  handle cfg sc t =
    if existsb is_whole (map g (t_docs t))
    then ([], Some {| t_docs := t_docs t; t_n := t_n t; t_send := S (t_send t) |})
    else if forallb is_ok (map g (t_docs t))
    then (map (fun d => (d_id d, ASuccess)) (t_docs t), None)
    else (flat_map (fun d => item_answer cfg t d (g d)) (t_docs t),
          if (t_n t =? max_retries cfg)%nat then None
          else Some {| t_docs := filter (fun d => is_retryable (g d)) (t_docs t); t_n := S (t_n t); t_send := S (t_send t) |}).
Proof.
  intros Hne g. unfold handle, outcomes. fold g.
  destruct (t_docs t) as [|d0 ds] eqn:Ed; [contradiction|]. rewrite <- Ed.
  destruct (existsb is_whole (map g (t_docs t))); [reflexivity|].
  destruct (forallb is_ok (map g (t_docs t))); [reflexivity|].
  rewrite item_answers_flat, retry_list_filter. destruct (t_n t =? max_retries cfg)%nat; reflexivity.
Qed.

Lemma script_of_len sc id : (length (script_of sc id) <= script_len sc)%nat.
Proof.
  unfold script_len. induction sc as [|[i l] sc IH]; simpl; [lia|]. destruct (i =? id); simpl; lia.
Qed.

Lemma whole_bound sc id k : is_whole (outcome_at sc id k) = true -> (k < script_len sc)%nat.
Proof.
  unfold outcome_at. intros H. pose proof (script_of_len sc id).
  destruct (Nat.lt_ge_cases k (length (script_of sc id))) as [Hlt|Hge]; [lia|].
  rewrite nth_overflow in H by assumption. discriminate.
Qed.

Definition once_ok (t : task) (tr : trace) : Prop :=
  tr_fuel_out tr = false
  /\ (forall d, In d (t_docs t) -> length (answers_of (d_id d) (tr_answers tr)) = 1%nat)
  /\ (forall id, ~ In id (map d_id (t_docs t)) ->
        answers_of id (tr_answers tr) = [] /\ count_calls id (tr_calls tr) = 0%nat).

Lemma lineage_once cfg sc : forall fuel t rem,
  (t_n t + rem = max_retries cfg)%nat -> (rem + (script_len sc - t_send t) < fuel)%nat ->
  NoDup (map d_id (t_docs t)) -> once_ok t (lineage fuel cfg sc t).
Proof.
  induction fuel as [|f IH]; intros t rem Hn Hf Nd; [lia|].
  rewrite lineage_S.
  destruct (t_docs t) as [|d0 ds] eqn:Ed.
  { unfold once_ok, handle, call_of; rewrite Ed; simpl; repeat split; intros; try contradiction; reflexivity. }
  assert (Hne : t_docs t <> []) by (rewrite Ed; discriminate).
  rewrite (handle_cases cfg sc t Hne). cbv zeta. unfold call_of. rewrite Ed. rewrite <- Ed. rewrite <- Ed in Nd.
  set (g := fun d => outcome_at sc (d_id d) (t_send t)).
  set (F := fun d1 : doc => item_answer cfg t d1 (outcome_at sc (d_id d1) (t_send t))).
  set (P := fun d : doc => is_retryable (outcome_at sc (d_id d) (t_send t))).
  assert (KF : keyed F) by exact (item_answer_keyed cfg t g).
  destruct (existsb is_whole (map g (t_docs t))) eqn:Ew.
  - (* the whole request failed: same documents, same retryCount, one send later *)
    apply existsb_exists in Ew as [o [Ho Ew]]. apply in_map_iff in Ho as [dw [<- _]].
    apply whole_bound in Ew.
    cbn [fst snd].
    set (t' := {| t_docs := t_docs t; t_n := t_n t; t_send := S (t_send t) |}).
    destruct (IH t' rem) as [Hfo [Hin Hout]]; simpl; try assumption; try lia.
    unfold once_ok, tr_app. cbn [tr_answers tr_calls tr_fuel_out app orb]. split; [assumption|]. split.
    + intros d Hd. exact (Hin d Hd).
    + intros id Hid. destruct (Hout id Hid) as [A C]. split; [assumption|].
      rewrite count_calls_cons, (has_doc_out id (t_docs t) Hid), C. reflexivity.
  - assert (Hnw : forall d, In d (t_docs t) -> is_whole (g d) = false).
    { intros d Hd. destruct (is_whole (g d)) eqn:E; [|reflexivity].
      assert (existsb is_whole (map g (t_docs t)) = true) by (apply existsb_exists; exists (g d); split; [now apply in_map|assumption]).
      congruence. }
    destruct (forallb is_ok (map g (t_docs t))) eqn:Eok.
    + cbn [fst snd]. unfold once_ok, tr_app, tr_empty. cbn [tr_answers tr_calls tr_fuel_out orb]. rewrite !app_nil_r.
      assert (K : keyed (fun d => [(d_id d, ASuccess)])) by (intros d' x [<-|[]]; reflexivity).
      unfold once_ok. cbn [tr_answers tr_calls tr_fuel_out]. split; [reflexivity|]. split.
      * intros d Hd. rewrite map_as_flat_map.
        rewrite (answers_of_flat_in (fun d => [(d_id d, ASuccess)]) (t_docs t) d K Nd Hd). reflexivity.
      * intros id Hid. rewrite map_as_flat_map.
        rewrite (answers_of_flat_out (fun d => [(d_id d, ASuccess)]) (t_docs t) id K Hid).
        rewrite count_calls_single, (has_doc_out id (t_docs t) Hid). split; reflexivity.
    + destruct (t_n t =? max_retries cfg)%nat eqn:En.
      * cbn [fst snd]. unfold once_ok, tr_app, tr_empty. cbn [tr_answers tr_calls tr_fuel_out orb]. rewrite !app_nil_r.
        unfold once_ok. cbn [tr_answers tr_calls tr_fuel_out]. split; [reflexivity|]. split.
        -- intros d Hd. rewrite (answers_of_flat_in F (t_docs t) d KF Nd Hd).
           unfold F, item_answer. rewrite En. specialize (Hnw d Hd). unfold g in Hnw.
           destruct (outcome_at sc (d_id d) (t_send t)); try discriminate; reflexivity.
        -- intros id Hid. rewrite (answers_of_flat_out F (t_docs t) id KF Hid).
           rewrite count_calls_single, (has_doc_out id (t_docs t) Hid). split; reflexivity.
      * apply Nat.eqb_neq in En. destruct rem as [|rem']; [lia|].
        cbn [fst snd].
        set (t' := {| t_docs := filter P (t_docs t); t_n := S (t_n t); t_send := S (t_send t) |}).
        assert (Nd' : NoDup (map d_id (t_docs t'))) by (apply NoDup_map_filter; assumption).
        destruct (IH t' rem') as [Hfo [Hin Hout]]; simpl; try assumption; try lia.
        unfold once_ok, tr_app. cbn [tr_answers tr_calls tr_fuel_out orb]. split; [assumption|]. split.
        -- intros d Hd. rewrite answers_of_app, (answers_of_flat_in F (t_docs t) d KF Nd Hd), app_length.
           specialize (Hnw d Hd). unfold g in Hnw.
           destruct (P d) eqn:Er.
           ++ assert (Hd' : In d (t_docs t')) by (apply filter_In; split; assumption).
              rewrite (Hin d Hd'). unfold F, item_answer. apply Nat.eqb_neq in En. rewrite En. unfold P in Er.
              destruct (outcome_at sc (d_id d) (t_send t)); try discriminate; reflexivity.
           ++ assert (Hd' : ~ In (d_id d) (map d_id (t_docs t'))).
              { intros H. apply in_map_iff in H as [y [E Hy]]. apply filter_In in Hy as [Hy Hr].
                assert (y = d) by exact (NoDup_map_inj d_id (t_docs t) y d Nd Hy Hd E). subst y. congruence. }
              destruct (Hout _ Hd') as [A C]. rewrite A. unfold F, item_answer. unfold P in Er.
              destruct (outcome_at sc (d_id d) (t_send t)); try discriminate; reflexivity.
        -- intros id Hid. rewrite answers_of_app, count_calls_app, count_calls_single, (has_doc_out id (t_docs t) Hid).
           rewrite (answers_of_flat_out F (t_docs t) id KF Hid).
           assert (Hid' : ~ In id (map d_id (t_docs t'))) by (intros H; apply Hid; eapply filter_ids_subset; exact H).
           destruct (Hout _ Hid') as [A C]. rewrite A, C. split; reflexivity.
Qed.

Lemma batch_once cfg sc b :
  NoDup (map d_id b) -> once_ok (fresh b) (lineage (fuel_for cfg sc) cfg sc (fresh b)).
Proof. intros Nd. apply (lineage_once cfg sc _ (fresh b) (max_retries cfg)); simpl; auto. unfold fuel_for. lia. Qed.

(* ================= every script: WHICH answer, with whole-request errors ================= *)
Definition bfate_ok (cfg : ecfg) (sc : script) (fuel : nat) (t : task) (tr : trace) : Prop :=
  tr_fuel_out tr = false
  /\ (forall d, In d (t_docs t) ->
        answers_of (d_id d) (tr_answers tr) = [fst (bfate fuel (max_retries cfg) sc (t_docs t) (t_n t) (t_send t) d)]
        /\ (count_calls (d_id d) (tr_calls tr) + t_send t
            = snd (bfate fuel (max_retries cfg) sc (t_docs t) (t_n t) (t_send t) d))%nat)
  /\ (forall id, ~ In id (map d_id (t_docs t)) ->
        answers_of id (tr_answers tr) = [] /\ count_calls id (tr_calls tr) = 0%nat).

Lemma bfate_S f maxr sc live n s d :
  bfate (S f) maxr sc live n s d =
  if existsb (fun d' => is_whole (outcome_at sc (d_id d') s)) live then bfate f maxr sc live n (S s) d
  else
    let next := filter (fun d' => is_retryable (outcome_at sc (d_id d') s)) live in
    match outcome_at sc (d_id d) s with
    | OOk | OWhole => (ASuccess, S s)
    | OMapping => (AIndexErr (Z.of_nat s) 2, S s)
    | ORetry => if (n =? maxr)%nat then (AIndexErr (Z.of_nat s) 1, S s) else bfate f maxr sc next (S n) (S s) d
    | ONoErr => if (n =? maxr)%nat then (AIndexErr (-1) 3, S s) else bfate f maxr sc next (S n) (S s) d
    end.
Proof. reflexivity. Qed.

Lemma existsb_map {A B} (p : B -> bool) (g : A -> B) l : existsb p (map g l) = existsb (fun x => p (g x)) l.
Proof. induction l as [|x l IH]; simpl; [reflexivity|]. now rewrite IH. Qed.

Lemma lineage_bfate cfg sc : forall fuel t rem,
  (t_n t + rem = max_retries cfg)%nat -> (rem + (script_len sc - t_send t) < fuel)%nat ->
  NoDup (map d_id (t_docs t)) -> bfate_ok cfg sc fuel t (lineage fuel cfg sc t).
Proof.
  induction fuel as [|f IH]; intros t rem Hn Hf Nd; [lia|].
  rewrite lineage_S.
  destruct (t_docs t) as [|d0 ds] eqn:Ed.
  { unfold bfate_ok, handle, call_of; rewrite Ed; simpl; repeat split; intros; try contradiction; reflexivity. }
  assert (Hne : t_docs t <> []) by (rewrite Ed; discriminate).
  rewrite (handle_cases cfg sc t Hne). cbv zeta. unfold call_of. rewrite Ed. rewrite <- Ed. rewrite <- Ed in Nd.
  set (g := fun d => outcome_at sc (d_id d) (t_send t)).
  set (F := fun d1 : doc => item_answer cfg t d1 (outcome_at sc (d_id d1) (t_send t))).
  set (P := fun d : doc => is_retryable (outcome_at sc (d_id d) (t_send t))).
  assert (KF : keyed F) by exact (item_answer_keyed cfg t g).
  unfold bfate_ok.
  assert (EW : existsb (fun d' => is_whole (outcome_at sc (d_id d') (t_send t))) (t_docs t)
               = existsb is_whole (map g (t_docs t))) by (now rewrite existsb_map).
  destruct (existsb is_whole (map g (t_docs t))) eqn:Ew.
  - (* the whole request failed *)
    assert (Ewb := Ew). apply existsb_exists in Ewb as [o [Ho Ewb]]. apply in_map_iff in Ho as [dw [<- _]].
    apply whole_bound in Ewb.
    cbn [fst snd].
    set (t' := {| t_docs := t_docs t; t_n := t_n t; t_send := S (t_send t) |}).
    destruct (IH t' rem) as [Hfo [Hin Hout]]; simpl; try assumption; try lia.
    unfold tr_app. cbn [tr_answers tr_calls tr_fuel_out app orb]. split; [assumption|]. split.
    + intros d Hd. rewrite ?bfate_S, EW. destruct (Hin d Hd) as [A C]. cbn [t_docs t_n t_send t'] in A, C.
      rewrite A. split; [reflexivity|]. rewrite count_calls_cons, (has_doc_in d (t_docs t) Hd). lia.
    + intros id Hid. destruct (Hout id Hid) as [A C]. split; [assumption|].
      rewrite count_calls_cons, (has_doc_out id (t_docs t) Hid), C. reflexivity.
  - assert (Hnw : forall d, In d (t_docs t) -> is_whole (g d) = false).
    { intros d Hd. destruct (is_whole (g d)) eqn:E; [|reflexivity].
      assert (existsb is_whole (map g (t_docs t)) = true) by (apply existsb_exists; exists (g d); split; [now apply in_map|assumption]).
      congruence. }
    destruct (forallb is_ok (map g (t_docs t))) eqn:Eok.
    + cbn [fst snd]. unfold tr_app, tr_empty. cbn [tr_answers tr_calls tr_fuel_out orb]. rewrite !app_nil_r.
      assert (K : keyed (fun d => [(d_id d, ASuccess)])) by (intros d' x [<-|[]]; reflexivity).
      split; [reflexivity|]. split.
      * intros d Hd. rewrite map_as_flat_map.
        rewrite (answers_of_flat_in (fun d => [(d_id d, ASuccess)]) (t_docs t) d K Nd Hd).
        rewrite ?bfate_S, EW. cbv zeta.
        assert (Eo : outcome_at sc (d_id d) (t_send t) = OOk).
        { rewrite forallb_forall in Eok. specialize (Eok _ (in_map g _ _ Hd)). unfold g in Eok.
          destruct (outcome_at sc (d_id d) (t_send t)); try discriminate; reflexivity. }
        rewrite Eo. cbn [fst snd map]. split; [reflexivity|].
        rewrite count_calls_single, (has_doc_in d (t_docs t) Hd). lia.
      * intros id Hid. rewrite map_as_flat_map.
        rewrite (answers_of_flat_out (fun d => [(d_id d, ASuccess)]) (t_docs t) id K Hid).
        rewrite count_calls_single, (has_doc_out id (t_docs t) Hid). split; reflexivity.
    + destruct (t_n t =? max_retries cfg)%nat eqn:En.
      * cbn [fst snd]. unfold tr_app, tr_empty. cbn [tr_answers tr_calls tr_fuel_out orb]. rewrite !app_nil_r.
        split; [reflexivity|]. split.
        -- intros d Hd. rewrite (answers_of_flat_in F (t_docs t) d KF Nd Hd).
           rewrite ?bfate_S, EW. cbv zeta. rewrite En.
           rewrite count_calls_single, (has_doc_in d (t_docs t) Hd).
           unfold F, item_answer. rewrite En. specialize (Hnw d Hd). unfold g in Hnw.
           destruct (outcome_at sc (d_id d) (t_send t)); try discriminate; cbn [fst snd map]; split; try reflexivity; lia.
        -- intros id Hid. rewrite (answers_of_flat_out F (t_docs t) id KF Hid).
           rewrite count_calls_single, (has_doc_out id (t_docs t) Hid). split; reflexivity.
      * assert (En' := En). apply Nat.eqb_neq in En'. destruct rem as [|rem']; [lia|].
        cbn [fst snd].
        set (t' := {| t_docs := filter P (t_docs t); t_n := S (t_n t); t_send := S (t_send t) |}).
        assert (Nd' : NoDup (map d_id (t_docs t'))) by (apply NoDup_map_filter; assumption).
        destruct (IH t' rem') as [Hfo [Hin Hout]]; simpl; try assumption; try lia.
        unfold tr_app. cbn [tr_answers tr_calls tr_fuel_out orb]. split; [assumption|]. split.
        -- intros d Hd. rewrite answers_of_app, (answers_of_flat_in F (t_docs t) d KF Nd Hd).
           rewrite count_calls_cons, (has_doc_in d (t_docs t) Hd).
           rewrite ?bfate_S, EW. cbv zeta. rewrite En. fold P.
           specialize (Hnw d Hd). unfold g in Hnw.
           destruct (P d) eqn:Er.
           ++ assert (Hd' : In d (t_docs t')) by (apply filter_In; split; assumption).
              destruct (Hin d Hd') as [A C]. cbn [t_docs t_n t_send t'] in A, C. rewrite A.
              unfold F, item_answer. rewrite En. unfold P in Er.
              destruct (outcome_at sc (d_id d) (t_send t)); try discriminate; cbn [map app]; split; try reflexivity; lia.
           ++ assert (Hd' : ~ In (d_id d) (map d_id (t_docs t'))).
              { intros H. apply in_map_iff in H as [y [E Hy]]. apply filter_In in Hy as [Hy Hr].
                assert (y = d) by exact (NoDup_map_inj d_id (t_docs t) y d Nd Hy Hd E). subst y. congruence. }
              destruct (Hout _ Hd') as [A C]. rewrite A, C. unfold F, item_answer. unfold P in Er.
              destruct (outcome_at sc (d_id d) (t_send t)); try discriminate; cbn [fst snd map app]; split; try reflexivity; lia.
        -- intros id Hid. rewrite answers_of_app, count_calls_cons, (has_doc_out id (t_docs t) Hid).
           rewrite (answers_of_flat_out F (t_docs t) id KF Hid).
           assert (Hid' : ~ In id (map d_id (t_docs t'))) by (intros H; apply Hid; eapply filter_ids_subset; exact H).
           destruct (Hout _ Hid') as [A C]. rewrite A, C. split; reflexivity.
Qed.

Lemma batch_bfate cfg sc b :
  NoDup (map d_id b) ->
  bfate_ok cfg sc (fuel_for cfg sc) (fresh b) (lineage (fuel_for cfg sc) cfg sc (fresh b)).
Proof. intros Nd. apply (lineage_bfate cfg sc _ (fresh b) (max_retries cfg)); simpl; auto. unfold fuel_for. lia. Qed.

(* without whole-request errors the batch-level closed form is the per-document one *)
Lemma bfate_is_fate sc : no_whole sc = true -> forall f rem live s d,
  (rem < f)%nat -> bfate f (s + rem) sc live s s d = fate rem s (outcome_at sc (d_id d)).
Proof.
  intros Hnw. induction f as [|f IH]; intros rem live s d Hf; [lia|].
  rewrite bfate_S, fate_unfold.
  assert (E : existsb (fun d' => is_whole (outcome_at sc (d_id d') s)) live = false).
  { destruct (existsb _ live) eqn:E; [|reflexivity]. apply existsb_exists in E as [x [_ E]].
    now rewrite no_whole_outcome in E. }
  rewrite E. cbv zeta.
  destruct (outcome_at sc (d_id d) s); try reflexivity.
  - destruct rem as [|r].
    + rewrite Nat.add_0_r, Nat.eqb_refl. reflexivity.
    + assert (En : (s =? s + S r)%nat = false) by (apply Nat.eqb_neq; lia). rewrite En.
      replace (s + S r)%nat with (S s + r)%nat by lia. apply IH. lia.
  - destruct rem as [|r].
    + rewrite Nat.add_0_r, Nat.eqb_refl. reflexivity.
    + assert (En : (s =? s + S r)%nat = false) by (apply Nat.eqb_neq; lia). rewrite En.
      replace (s + S r)%nat with (S s + r)%nat by lia. apply IH. lia.
Qed.
