(* E1 — the main goroutine and the source supervisor as state machines (C17, C18). *)
From Coq Require Import List ZArith Bool Arith Lia.
From FB Require Import Model.Exec Model.TraceSpec Model.ExecInv.
Import ListNotations.
Local Open Scope nat_scope.

(* ------------------------------------------------------------------ what a step does to src / mn / tr *)
Definition is_src_ev (e : tev) : bool :=
  match e with TPrep _ | TStart _ | TEnd _ _ | TPrepFail _ => true | _ => false end.
Definition src_evs (p : list tev) : list tev := filter is_src_ev p.

Lemma tr_set_node s n x : tr (set_node s n x) = tr s. Proof. reflexivity. Qed.
Lemma src_set_node s n x : src (set_node s n x) = src s. Proof. reflexivity. Qed.
Lemma mn_set_node s n x : mn (set_node s n x) = mn s. Proof. reflexivity. Qed.

Lemma try_send_frame nt s c it s' :
  try_send nt s c it = Sent s' ->
  tr s' = tr s /\ src s' = src s /\ mn s' = mn s /\ cbs s' = cbs s /\ clock s' = clock s
  /\ wstart s' = wstart s /\ timedout s' = timedout s.
Proof.
  unfold try_send. destruct (closed (node s c)); [discriminate|].
  destruct (length (q (node s c)) <? ncap (info nt c)).
  - intros H; inversion H; subst; cbn; repeat split.
  - destruct (ndisc (info nt c)); [|discriminate]. intros H; inversion H; subst; cbn; repeat split.
Qed.

Lemma close_all_frame cs : forall s s',
  close_all s cs = Some s' ->
  tr s' = tr s /\ src s' = src s /\ mn s' = mn s /\ cbs s' = cbs s /\ clock s' = clock s
  /\ wstart s' = wstart s /\ timedout s' = timedout s.
Proof.
  induction cs as [|c cs IH]; intros s s' H; cbn in H.
  - inversion H; subst; repeat split.
  - destruct (closed (node s c)); [discriminate|]. apply IH in H. cbn in H. exact H.
Qed.

(* every step only PREPENDS events to the trace, and the source state changes only with its own actions *)
Definition src_action (a : action) : bool :=
  match a with SrcReturnNil | SrcReturnErr | SrcRestart | SrcSetupFail => true | _ => false end.

Ltac fin :=
  cbn; repeat split; intros; try discriminate;
  try match goal with
      | E : SRunning _ = SRunning _ |- _ => inversion E; subst
      | E : SSleeping _ = SSleeping _ |- _ => inversion E; subst
      end; repeat split; auto.

Lemma step_trace nt T s a s' :
  step nt T s a = Ok s' ->
  exists evs, tr s' = evs ++ tr s
    /\ (src_action a = false ->
        src s' = src s /\ src_evs evs = []
        /\ (emitted evs = [] \/ exists e k, a = SrcEmit e /\ src s = SRunning k /\ evs = [TEmit e]))
    /\ (forall k, a = SrcReturnNil -> src s = SRunning k -> src s' = SClosed /\ evs = [TEnd k true])
    /\ (forall k, a = SrcReturnErr -> src s = SRunning k -> src s' = SSleeping k /\ evs = [TEnd k false])
    /\ (forall k, a = SrcRestart -> src s = SSleeping k -> src s' = SRunning (S k) /\ evs = [TStart (S k); TPrep (S k)])
    /\ (forall k, a = SrcSetupFail -> src s = SSleeping k -> src s' = SDead /\ evs = [TPrepFail (S k)]).
Proof.
  destruct a; cbn [step]; intros H.
  - (* SrcEmit *) destruct (src s) as [k|k| |] eqn:Es; try discriminate. destruct (mn s); try discriminate.
    inversion H; subst. exists [TEmit e]. fin. right. eauto.
  - destruct (src s) as [k|k| |] eqn:Es; try discriminate. inversion H; subst. exists [TEnd k true]. fin.
  - destruct (src s) as [k|k| |] eqn:Es; try discriminate. inversion H; subst. exists [TEnd k false]. fin.
  - destruct (src s) as [k|k| |] eqn:Es; try discriminate. inversion H; subst. exists [TStart (S k); TPrep (S k)]. fin.
  - (* MainSend *) destruct (mn s) as [| it rs | | |] eqn:Em; try discriminate. destruct rs as [|r rs]; [discriminate|].
    destruct (try_send nt s r it) as [s1| |] eqn:Et; try discriminate.
    apply try_send_frame in Et as (Ht & Hs & _). inversion H; subst. exists []. cbn. rewrite Ht, Hs. fin.
  - destruct (mn s); try discriminate. destruct (src s) eqn:Es; try discriminate. inversion H; subst. exists []. fin.
  - destruct (mn s); try discriminate. destruct (close_all s (roots nt)) as [s1|] eqn:Ec; [|discriminate].
    apply close_all_frame in Ec as (Ht & Hs & _). inversion H; subst. exists []; cbn. rewrite Ht, Hs. fin.
  - destruct (mn s); try discriminate. destruct (all_exited s); [|discriminate]. inversion H; subst.
    exists [TDone true]. fin.
  - destruct (mn s); try discriminate. destruct (wstart s + T <=? clock s); [|discriminate]. inversion H; subst.
    exists [TDone false]. fin.
  - inversion H; subst. exists []. fin.
  - (* Deq *) destruct (nth_error (ws (node s n)) w) as [[]|]; try discriminate. destruct (q (node s n)); [discriminate|].
    inversion H; subst. eexists [_]. fin.
  - (* Return *) destruct (nth_error (ws (node s n)) w) as [[]|]; try discriminate.
    destruct (outcome_ok (nkind (info nt n)) o false); [|discriminate].
    destruct o; inversion H; subst; eexists [_]; fin.
  - (* SendW *) destruct (nth_error (ws (node s n)) w) as [[| |pend| | | | |]|]; try discriminate.
    destruct pend as [|[c it] rest]; [discriminate|].
    destruct (try_send nt s c it) as [s1| |] eqn:Et; try discriminate.
    apply try_send_frame in Et as (Ht & Hs & _). inversion H; subst. exists []; cbn. rewrite Ht, Hs. fin.
  - destruct (nth_error (ws (node s n)) w) as [[]|]; try discriminate. destruct (q (node s n)); [|discriminate].
    destruct (closed (node s n)); [|discriminate]. inversion H; subst. exists []. fin.
  - destruct (nth_error (ws (node s n)) w) as [[]|]; try discriminate. destruct (forallb wpast (ws (node s n))); [|discriminate].
    inversion H; subst. exists []. fin.
  - destruct (nth_error (ws (node s n)) w) as [[]|]; try discriminate. destruct (once (node s n)); try discriminate.
    inversion H; subst. eexists [_]. fin.
  - destruct (nth_error (ws (node s n)) w) as [[]|]; try discriminate. destruct (inflight (node s n)); [|discriminate].
    destruct (existsb (owns n) (cbs s)); [discriminate|]. inversion H; subst. eexists [_]. fin.
  - destruct (nth_error (ws (node s n)) w) as [[]|]; try discriminate.
    destruct (close_all s (targets (info nt n))) as [s1|] eqn:Ec; [|discriminate].
    apply close_all_frame in Ec as (Ht & Hs & _). inversion H; subst. exists []; cbn. rewrite Ht, Hs. fin.
  - destruct (nth_error (ws (node s n)) w) as [[]|]; try discriminate. destruct (once (node s n)); try discriminate.
    inversion H; subst. exists []. fin.
  - (* Callback *) destruct (remove_one it (inflight (node s n))); [|discriminate].
    destruct (outcome_ok (nkind (info nt n)) o true); [|discriminate].
    inversion H; subst. eexists [_]. destruct (deliveries nt n it o); fin.
  - (* SendC *) destruct (nth_error (cbs s) i) as [[n pend]|]; try discriminate.
    destruct pend as [|[c it] rest]; [discriminate|].
    destruct (try_send nt s c it) as [s1| |] eqn:Et; try discriminate.
    apply try_send_frame in Et as (Ht & Hs & _). inversion H; subst. exists []; cbn. rewrite Ht, Hs. fin.
  - (* SrcSetupFail *)
    destruct (src s) as [k|k| |] eqn:Es; try discriminate. inversion H; subst. exists [TPrepFail (S k)]. fin.
Qed.

(* ------------------------------------------------------------------ C18: the history of source incarnations *)
(* incarnations 0..k-1 that failed, newest first *)
Fixpoint failed (k : nat) : list tev :=
  match k with O => [] | S j => TEnd j false :: TStart j :: TPrep j :: failed j end.

(* oldest first: Prep 0, Start 0, End 0 err, ..., Prep k, Start k [, End k nil | , End k err [, PrepFail (k+1)]];
   after a failed Setup (the process exits) nothing more *)
Definition src_history (s : state) : Prop :=
  match src s with
  | SRunning k => src_evs (tr s) = TStart k :: TPrep k :: failed k
  | SSleeping k => src_evs (tr s) = failed (S k)
  | SClosed => exists k, src_evs (tr s) = TEnd k true :: TStart k :: TPrep k :: failed k
  | SDead => exists k, src_evs (tr s) = TPrepFail (S k) :: failed (S k)
  end.

Lemma src_evs_app a b : src_evs (a ++ b) = src_evs a ++ src_evs b.
Proof. unfold src_evs. apply filter_app. Qed.

Lemma src_evs_setups l : src_evs (map TSetup l) = [].
Proof. induction l; cbn; auto. Qed.

Lemma src_history_init nt : src_history (init nt).
Proof.
  unfold src_history, init; cbn. f_equal.
  rewrite src_evs_app, <- map_rev, src_evs_setups. reflexivity.
Qed.

Lemma src_history_step nt T s a s' : src_history s -> step nt T s a = Ok s' -> src_history s'.
Proof.
  intros Hh Hs. destruct (step_trace nt T s a s' Hs) as (evs & Ht & Hn & Hnil & Herr & Hre & Hsf).
  unfold src_history in *. rewrite Ht, src_evs_app.
  destruct (src_action a) eqn:Ea.
  - destruct a; try discriminate; cbn [step] in Hs.
    + destruct (src s) as [k| | |] eqn:Es; try discriminate.
      destruct (Hnil k eq_refl eq_refl) as [E1 E2]. rewrite E1, E2. exists k. cbn. now rewrite Hh.
    + destruct (src s) as [k| | |] eqn:Es; try discriminate.
      destruct (Herr k eq_refl eq_refl) as [E1 E2]. rewrite E1, E2. cbn. now rewrite Hh.
    + destruct (src s) as [|k| |] eqn:Es; try discriminate.
      destruct (Hre k eq_refl eq_refl) as [E1 E2]. rewrite E1, E2. cbn. now rewrite Hh.
    + destruct (src s) as [|k| |] eqn:Es; try discriminate.
      destruct (Hsf k eq_refl eq_refl) as [E1 E2]. rewrite E1, E2. exists k. cbn. now rewrite Hh.
  - destruct (Hn eq_refl) as (E1 & E2 & _). rewrite E1, E2. exact Hh.
Qed.

Lemma run_inv_gen (P : state -> Prop) nt T :
  (forall s a s', P s -> step nt T s a = Ok s' -> P s') ->
  forall sch s s', P s -> run nt T s sch = Ok s' -> P s'.
Proof.
  intros Hstep sch; induction sch as [|a sch IH]; intros s s' HP Hr; cbn in Hr.
  - inversion Hr; subst; assumption.
  - destruct (step nt T s a) eqn:Es; try discriminate. eapply IH; [|eassumption]. eapply Hstep; eassumption.
Qed.

Theorem source_history_reachable nt T s : reachable nt T s -> src_history s.
Proof.
  intros [sch Hr]. eapply run_inv_gen; [|apply (src_history_init nt)|exact Hr].
  intros; eapply src_history_step; eassumption.
Qed.

(* ------------------------------------------------------------------ C18: a failed Setup is the end *)
(* everything the source or its supervisor stamps *)
Definition is_source_ev (e : tev) : bool :=
  match e with TPrep _ | TStart _ | TEnd _ _ | TEmit _ | TPrepFail _ => true | _ => false end.
(* no source event is newer than a TPrepFail *)
Fixpoint quiet_after_fail (p : list tev) : bool :=
  match p with
  | [] => true
  | e :: r => (if is_source_ev e then negb (any_prepfail r) else true) && quiet_after_fail r
  end.
Definition dead_inv (s : state) : Prop :=
  quiet_after_fail (tr s) = true /\ (any_prepfail (tr s) = true -> src s = SDead).

Lemma any_prepfail_app a b : any_prepfail (a ++ b) = any_prepfail a || any_prepfail b.
Proof. unfold any_prepfail, has. apply existsb_app. Qed.

Lemma no_source_evs evs : src_evs evs = [] -> emitted evs = [] -> forallb (fun e => negb (is_source_ev e)) evs = true.
Proof.
  induction evs as [|e evs IH]; cbn; auto. intros H1 H2.
  destruct e; cbn in *; try discriminate; auto.
Qed.

Lemma quiet_app_nosrc evs p :
  forallb (fun e => negb (is_source_ev e)) evs = true ->
  quiet_after_fail (evs ++ p) = quiet_after_fail p /\ any_prepfail (evs ++ p) = any_prepfail p.
Proof.
  induction evs as [|e evs IH]; cbn; auto. intros H. apply andb_true_iff in H as [He H].
  destruct (IH H) as [I1 I2]. rewrite I1. destruct e; cbn in *; try discriminate; auto.
Qed.

Lemma any_prepfail_setups l : any_prepfail (map TSetup l) = false.
Proof. induction l; cbn; auto. Qed.
Lemma quiet_setups l p : quiet_after_fail (map TSetup l ++ p) = quiet_after_fail p.
Proof. induction l; cbn; auto. Qed.

Lemma dead_inv_init nt : dead_inv (init nt).
Proof.
  unfold dead_inv, init; cbn [tr src]. rewrite <- map_rev. split.
  - cbn. rewrite any_prepfail_app, any_prepfail_setups, quiet_setups. reflexivity.
  - cbn. rewrite any_prepfail_app, any_prepfail_setups. cbn. discriminate.
Qed.

Lemma any_prepfail_cons e r :
  any_prepfail (e :: r) = (match e with TPrepFail _ => true | _ => false end) || any_prepfail r.
Proof. reflexivity. Qed.

Lemma dead_inv_cons e s s' :
  dead_inv s -> src s <> SDead -> is_source_ev e = true -> tr s' = e :: tr s ->
  (match e with TPrepFail _ => src s' = SDead | _ => True end) -> dead_inv s'.
Proof.
  intros [Hq Hd] Hl He Ht Hf. assert (Hpf : any_prepfail (tr s) = false).
  { destruct (any_prepfail (tr s)); auto. exfalso; auto. }
  unfold dead_inv. rewrite Ht. cbn [quiet_after_fail]. rewrite He, Hpf, Hq, any_prepfail_cons, Hpf.
  split; [reflexivity|]. destruct e; cbn; auto; discriminate.
Qed.

Lemma dead_inv_step nt T s a s' : dead_inv s -> step nt T s a = Ok s' -> dead_inv s'.
Proof.
  intros Hi Hs. destruct (step_trace nt T s a s' Hs) as (evs & Ht & Hn & Hnil & Herr & Hre & Hsf).
  destruct (src_action a) eqn:Ea.
  - destruct a; try discriminate; cbn [step] in Hs.
    + destruct (src s) as [k| | |] eqn:Es; try discriminate.
      destruct (Hnil k eq_refl eq_refl) as [E1 E2]. rewrite E2 in Ht.
      eapply dead_inv_cons; [exact Hi| | |exact Ht|exact I]; [rewrite Es; discriminate|reflexivity].
    + destruct (src s) as [k| | |] eqn:Es; try discriminate.
      destruct (Herr k eq_refl eq_refl) as [E1 E2]. rewrite E2 in Ht.
      eapply dead_inv_cons; [exact Hi| | |exact Ht|exact I]; [rewrite Es; discriminate|reflexivity].
    + destruct (src s) as [|k| |] eqn:Es; try discriminate.
      destruct (Hre k eq_refl eq_refl) as [E1 E2]. rewrite E2 in Ht.
      assert (Hi1 : dead_inv (log s [TPrep (S k)])).
      { eapply dead_inv_cons; [exact Hi| | |reflexivity|exact I]; [rewrite Es; discriminate|reflexivity]. }
      eapply dead_inv_cons; [exact Hi1| | |exact Ht|exact I]; [cbn; rewrite Es; discriminate|reflexivity].
    + destruct (src s) as [|k| |] eqn:Es; try discriminate.
      destruct (Hsf k eq_refl eq_refl) as [E1 E2]. rewrite E2 in Ht.
      eapply dead_inv_cons; [exact Hi| | |exact Ht|exact E1]; [rewrite Es; discriminate|reflexivity].
  - destruct (Hn eq_refl) as (E1 & E2 & [E3|(e & k & -> & Es & ->)]).
    + destruct Hi as [Hq Hd]. destruct (quiet_app_nosrc evs (tr s) (no_source_evs evs E2 E3)) as [Q1 Q2].
      unfold dead_inv. rewrite Ht, Q1, Q2, E1. split; assumption.
    + eapply dead_inv_cons; [exact Hi| | |exact Ht|exact I]; [rewrite Es; discriminate|reflexivity].
Qed.

Theorem dead_inv_reachable nt T s : reachable nt T s -> dead_inv s.
Proof.
  intros [sch Hr]. eapply run_inv_gen; [|apply (dead_inv_init nt)|exact Hr].
  intros; eapply dead_inv_step; eassumption.
Qed.

(* every TStart k has its TPrep k earlier (= further down the newest-first trace) *)
Fixpoint prep_before_start (p : list tev) : bool :=
  match p with
  | [] => true
  | TStart k :: r => prepped k r && prep_before_start r
  | _ :: r => prep_before_start r
  end.

Lemma pbs_failed k : prep_before_start (failed k) = true.
Proof. induction k as [|k IH]; cbn; auto. unfold prepped, has; cbn. now rewrite Nat.eqb_refl, IH. Qed.

Lemma pbs_history s : src_history s -> prep_before_start (src_evs (tr s)) = true.
Proof.
  unfold src_history. destruct (src s) as [k|k| |].
  - intros ->. cbn. unfold prepped, has; cbn. now rewrite Nat.eqb_refl, pbs_failed.
  - intros ->. apply (pbs_failed (S k)).
  - intros [k ->]. cbn. unfold prepped, has; cbn. now rewrite Nat.eqb_refl, pbs_failed.
  - intros [k ->]. apply (pbs_failed (S k)).
Qed.

Lemma pbs_split x k y : prep_before_start (x ++ TStart k :: y) = true -> prepped k y = true.
Proof.
  induction x as [|e x IH]; cbn.
  - intros H. apply andb_true_iff in H. tauto.
  - destruct e; auto. intros H. apply andb_true_iff in H as [_ H]. auto.
Qed.

Lemma prepped_In k y : prepped k y = true -> In (TPrep k) y.
Proof.
  unfold prepped, has. intros H. apply existsb_exists in H as (e & Hin & He).
  destruct e; try discriminate. apply Nat.eqb_eq in He. subst. exact Hin.
Qed.

Theorem start_needs_prep nt T s : reachable nt T s ->
  forall a k b, tr s = a ++ TStart k :: b -> In (TPrep k) b.
Proof.
  intros HR a k b Ht. pose proof (pbs_history s (source_history_reachable nt T s HR)) as H.
  rewrite Ht, src_evs_app in H. cbn in H. apply pbs_split, prepped_In in H.
  unfold src_evs in H. apply filter_In in H. tauto.
Qed.

Lemma quiet_split a k b :
  quiet_after_fail (a ++ TPrepFail k :: b) = true -> forall e, In e a -> is_source_ev e = false.
Proof.
  induction a as [|x a IH]; cbn; [tauto|]. intros H e [->|Hin].
  - apply andb_true_iff in H as [H _]. destruct (is_source_ev e); auto.
    rewrite any_prepfail_app in H. cbn in H. rewrite orb_true_r in H. discriminate.
  - apply andb_true_iff in H as [_ H]. auto.
Qed.

(* nothing of the source (Prep, Start, End, Emit, another PrepFail) is newer than a TPrepFail *)
Theorem nothing_after_prepfail nt T s : reachable nt T s ->
  forall a k b e, tr s = a ++ TPrepFail k :: b -> In e a -> is_source_ev e = false.
Proof.
  intros HR a k b e Ht. destruct (dead_inv_reachable nt T s HR) as [Hq _]. rewrite Ht in Hq.
  eapply quiet_split. exact Hq.
Qed.

(* after a failed Setup the process is gone: no action of the source or its supervisor is enabled *)
Theorem source_dead_is_final nt T s a :
  src s = SDead -> src_action a = true \/ (exists e, a = SrcEmit e) -> step nt T s a = NotEnabled.
Proof.
  intros Hs [Ha|[e Ha]]; [destruct a; try discriminate|subst a]; cbn [step]; rewrite Hs; reflexivity.
Qed.

(* non-vacuity: a run that reaches SDead; its trace passes the observable specification *)
Definition sf_net : net :=
  [{| nid := 1; nkind := KSync; nworkers := 1; ncap := 1; ndisc := false; nkids := []; nhandler := None; nrole := RRoot |}].
Definition sf_sched : list action := [SrcEmit 1%Z; MainSend; SrcReturnErr; SrcSetupFail].

Example setup_fail_run :
  exists s, run sf_net 1 (init sf_net) sf_sched = Ok s /\ src s = SDead
            /\ tr s = [TPrepFail 1; TEnd 0 false; TEmit 1%Z; TStart 0; TSetup 0; TPrep 0]
            /\ trace_ok sf_net (tr s) = [].
Proof. eexists. split; [vm_compute; reflexivity|]. repeat split; vm_compute; reflexivity. Qed.

(* the wrong behaviour — starting the source whose Setup failed — is rejected by the specification *)
Example start_after_prepfail_rejected :
  trace_ok sf_net [TStart 1; TPrepFail 1; TEnd 0 false; TEmit 1%Z; TStart 0; TSetup 0; TPrep 0] = [(18, 3); (18, 7)].
Proof. vm_compute. reflexivity. Qed.

(* a nil return ends the run of the source: nothing of the supervisor is enabled any more *)
Theorem source_closed_is_final nt T s a :
  src s = SClosed -> src_action a = true \/ (exists e, a = SrcEmit e) -> step nt T s a = NotEnabled.
Proof.
  intros Hs [Ha|[e Ha]]; [destruct a; try discriminate|subst a]; cbn [step]; rewrite Hs; reflexivity.
Qed.

(* events are emitted only by an incarnation that is inside Start() *)
Theorem emit_needs_running nt T s e s' :
  step nt T s (SrcEmit e) = Ok s' -> exists k, src s = SRunning k /\ src s' = SRunning k.
Proof.
  cbn [step]. destruct (src s) eqn:Es; try discriminate. destruct (mn s); try discriminate.
  intros H; inversion H; subst. exists k. split; auto.
Qed.

(* ------------------------------------------------------------------ C17: leaving waitTimeout *)
(* all workers returned: Execute returns at once, without any tick *)
Theorem wait_prompt nt T s :
  mn s = MWait -> all_exited s = true ->
  exists s', step nt T s MainWgDone = Ok s' /\ mn s' = MDone /\ timedout s' = timedout s /\ clock s' = clock s.
Proof.
  intros Hm Ha. cbn [step]. rewrite Hm, Ha. eexists; split; [reflexivity|]. cbn. repeat split; auto.
Qed.

Lemma run_app nt T a b : forall s,
  run nt T s (a ++ b) = match run nt T s a with Ok s1 => run nt T s1 b | r => r end.
Proof.
  induction a as [|x a IH]; intros s; cbn; [reflexivity|].
  destruct (step nt T s x); auto.
Qed.

Lemma run_ticks nt T k : forall s,
  exists s', run nt T s (repeat Tick k) = Ok s' /\ clock s' = clock s + k /\ mn s' = mn s /\ wstart s' = wstart s
             /\ nodes s' = nodes s /\ tr s' = tr s.
Proof.
  induction k as [|k IH]; intros s; cbn.
  - exists s. repeat split; lia.
  - destruct (IH {| nodes := nodes s; cbs := cbs s; mn := mn s; src := src s; clock := S (clock s);
                    wstart := wstart s; timedout := timedout s; tr := tr s |}) as (s' & Hr & Hc & Hm & Hw & Hn & Ht).
    exists s'. cbn in *. repeat split; auto; lia.
Qed.

(* whatever every other goroutine does or does not do: once in waitTimeout, T ticks of the clock and
   the main goroutine's own timeout step are all it takes for Execute to return *)
Theorem wait_bounded nt T s :
  mn s = MWait ->
  exists s', run nt T s (repeat Tick (wstart s + T - clock s) ++ [MainTimeout]) = Ok s'
             /\ mn s' = MDone /\ clock s' <= Nat.max (clock s) (wstart s + T).
Proof.
  intros Hm. rewrite run_app.
  destruct (run_ticks nt T (wstart s + T - clock s) s) as (s1 & Hr & Hc & Hm1 & Hw & _).
  rewrite Hr. cbn [run step]. rewrite Hm1, Hm, Hw.
  assert (E : wstart s + T <=? clock s1 = true) by (apply Nat.leb_le; lia).
  rewrite E. eexists; split; [reflexivity|]. cbn. split; [reflexivity|lia].
Qed.

(* the timeout cannot fire early *)
Theorem timeout_not_early nt T s s' :
  step nt T s MainTimeout = Ok s' -> mn s = MWait /\ wstart s + T <= clock s /\ timedout s' = true.
Proof.
  cbn [step]. destruct (mn s); try discriminate. destruct (wstart s + T <=? clock s) eqn:E; [|discriminate].
  intros H; inversion H; subst. apply Nat.leb_le in E. cbn. auto.
Qed.

(* the clean exit needs every worker to have returned *)
Theorem clean_exit_needs_all nt T s s' :
  step nt T s MainWgDone = Ok s' -> mn s = MWait /\ all_exited s = true /\ timedout s' = timedout s.
Proof.
  cbn [step]. destruct (mn s); try discriminate. destruct (all_exited s) eqn:E; [|discriminate].
  intros H; inversion H; subst. cbn. auto.
Qed.

(* ------------------------------------------------------------------ C17 full statement is false of the model (F9) *)
(* one root, buffer 1, one worker that never returns: three events are emitted, the main goroutine is
   stuck copying the third into the full buffer; the source then returns nil. *)
Definition f9_net : net :=
  [{| nid := 1; nkind := KSync; nworkers := 1; ncap := 1; ndisc := false; nkids := []; nhandler := None; nrole := RRoot |}].
Definition f9_prefix : list action :=
  [SrcEmit 1%Z; MainSend; Deq 0 0; SrcEmit 2%Z; MainSend; SrcEmit 3%Z; SrcReturnNil].

Definition f9_stuck (s : state) : Prop :=
  src s = SClosed /\ mn s = MDeliver (3%Z, 0%Z) [0]
  /\ q (node s 0) = [(2%Z, 0%Z)] /\ closed (node s 0) = false
  /\ ws (node s 0) = [WProc (1%Z, 0%Z)] /\ cbs s = [] /\ length (nodes s) = 1.

Definition stalled (a : action) : bool :=   (* the node never returns from Process *)
  match a with Return _ _ _ => false | _ => true end.

Lemma f9_reaches : exists s, run f9_net 1 (init f9_net) f9_prefix = Ok s /\ f9_stuck s.
Proof. eexists. split; [vm_compute; reflexivity|]. unfold f9_stuck; cbn. repeat split; reflexivity. Qed.

Lemma nth_error_single {A} (x : A) w y : nth_error [x] w = Some y -> w = 0 /\ y = x.
Proof. destruct w as [|w]; cbn; [intros H; inversion H; auto|]. destruct w; discriminate. Qed.

Lemma node_out_of_range s n : length (nodes s) <= n -> node s n = dummy_ns.
Proof. intros H. unfold node. apply nth_overflow. exact H. Qed.

Lemma f9_step_stuck T s a s' :
  f9_stuck s -> stalled a = true -> step f9_net T s a = Ok s' -> f9_stuck s'.
Proof.
  intros (Hsrc & Hmn & Hq & Hcl & Hws & Hcb & Hlen) Hst Hs.
  assert (Hdummy : forall n, n <> 0 -> node s n = dummy_ns).
  { intros n Hn. apply node_out_of_range. lia. }
  destruct a; cbn [step] in Hs; try discriminate.
  - rewrite Hsrc in Hs; discriminate.
  - rewrite Hsrc in Hs; discriminate.
  - rewrite Hsrc in Hs; discriminate.
  - rewrite Hsrc in Hs; discriminate.
  - (* MainSend: buffer full, not discarding: blocked *)
    rewrite Hmn in Hs. unfold try_send in Hs. rewrite Hcl, Hq in Hs. cbn in Hs. discriminate.
  - rewrite Hmn in Hs; discriminate.
  - rewrite Hmn in Hs; discriminate.
  - rewrite Hmn in Hs; discriminate.
  - rewrite Hmn in Hs; discriminate.
  - inversion Hs; subst. unfold f9_stuck; cbn. repeat split; assumption.
  - (* Deq *) destruct (Nat.eq_dec n 0) as [->|Hn].
    + rewrite Hws in Hs. destruct (nth_error [WProc (1%Z, 0%Z)] w) eqn:E; [|discriminate].
      apply nth_error_single in E as [_ ->]. discriminate.
    + rewrite (Hdummy n Hn) in Hs. cbn in Hs. destruct w; discriminate.
  - (* SendW *) destruct (Nat.eq_dec n 0) as [->|Hn].
    + rewrite Hws in Hs. destruct (nth_error [WProc (1%Z, 0%Z)] w) eqn:E; [|discriminate].
      apply nth_error_single in E as [_ ->]. discriminate.
    + rewrite (Hdummy n Hn) in Hs. cbn in Hs. destruct w; discriminate.
  - destruct (Nat.eq_dec n 0) as [->|Hn].
    + rewrite Hws in Hs. destruct (nth_error [WProc (1%Z, 0%Z)] w) eqn:E; [|discriminate].
      apply nth_error_single in E as [_ ->]. discriminate.
    + rewrite (Hdummy n Hn) in Hs. cbn in Hs. destruct w; discriminate.
  - destruct (Nat.eq_dec n 0) as [->|Hn].
    + rewrite Hws in Hs. destruct (nth_error [WProc (1%Z, 0%Z)] w) eqn:E; [|discriminate].
      apply nth_error_single in E as [_ ->]. discriminate.
    + rewrite (Hdummy n Hn) in Hs. cbn in Hs. destruct w; discriminate.
  - destruct (Nat.eq_dec n 0) as [->|Hn].
    + rewrite Hws in Hs. destruct (nth_error [WProc (1%Z, 0%Z)] w) eqn:E; [|discriminate].
      apply nth_error_single in E as [_ ->]. discriminate.
    + rewrite (Hdummy n Hn) in Hs. cbn in Hs. destruct w; discriminate.
  - destruct (Nat.eq_dec n 0) as [->|Hn].
    + rewrite Hws in Hs. destruct (nth_error [WProc (1%Z, 0%Z)] w) eqn:E; [|discriminate].
      apply nth_error_single in E as [_ ->]. discriminate.
    + rewrite (Hdummy n Hn) in Hs. cbn in Hs. destruct w; discriminate.
  - destruct (Nat.eq_dec n 0) as [->|Hn].
    + rewrite Hws in Hs. destruct (nth_error [WProc (1%Z, 0%Z)] w) eqn:E; [|discriminate].
      apply nth_error_single in E as [_ ->]. discriminate.
    + rewrite (Hdummy n Hn) in Hs. cbn in Hs. destruct w; discriminate.
  - destruct (Nat.eq_dec n 0) as [->|Hn].
    + rewrite Hws in Hs. destruct (nth_error [WProc (1%Z, 0%Z)] w) eqn:E; [|discriminate].
      apply nth_error_single in E as [_ ->]. discriminate.
    + rewrite (Hdummy n Hn) in Hs. cbn in Hs. destruct w; discriminate.
  - (* Callback: nothing in flight anywhere *)
    assert (Hin : inflight (node s n) = [] \/ True) by auto.
    destruct (Nat.eq_dec n 0) as [->|Hn].
    + (* root 0: inflight is whatever; a sync node has no Later: but we do not know inflight = [] from f9_stuck *)
      destruct (remove_one it (inflight (node s 0))) eqn:Er; [|discriminate].
      destruct (outcome_ok (nkind (info f9_net 0)) o true) eqn:Eo; [|discriminate].
      inversion Hs; subst. unfold f9_stuck.
      destruct (deliveries f9_net 0 it o) eqn:Ed.
      * cbn -[count_outcome]. unfold node; cbn -[count_outcome].
        destruct (nodes s) as [|x0 [|x1 xs]] eqn:En; cbn in Hlen; try lia.
        unfold node in Hq, Hcl, Hws; rewrite En in Hq, Hcl, Hws; cbn in Hq, Hcl, Hws.
        cbn -[count_outcome]. destruct o as [[|e es]|err|]; cbn; repeat split; auto.
      * (* deliveries of a childless, handlerless node are empty *)
        destruct o as [es|err|]; cbn in Ed; try discriminate.
    + rewrite (Hdummy n Hn) in Hs. cbn in Hs. discriminate.
  - rewrite Hcb in Hs. destruct i; discriminate.
  - rewrite Hsrc in Hs; discriminate.
Qed.

Lemma f9_stuck_forever T : forall sch s s',
  f9_stuck s -> forallb stalled sch = true -> run f9_net T s sch = Ok s' -> f9_stuck s'.
Proof.
  induction sch as [|a sch IH]; intros s s' Hst Hall Hrun; cbn in Hrun.
  - inversion Hrun; subst; assumption.
  - cbn in Hall. apply andb_true_iff in Hall as [Ha Hall].
    destruct (step f9_net T s a) as [s1| |] eqn:Es; try discriminate.
    eapply IH; [|exact Hall|exact Hrun]. eapply f9_step_stuck; eassumption.
Qed.

(* F9 as a theorem about the model: from that state no schedule in which the stalled node keeps
   stalling ever lets Execute return — not even after any number of clock ticks *)
Theorem shutdown_unbounded_when_main_blocked :
  exists s0, run f9_net 1 (init f9_net) f9_prefix = Ok s0 /\ src s0 = SClosed
    /\ forall sch s', forallb stalled sch = true -> run f9_net 1 s0 sch = Ok s' -> mn s' <> MDone.
Proof.
  destruct f9_reaches as (s0 & Hr & Hst). exists s0. split; [exact Hr|]. split; [apply Hst|].
  intros sch s' Hall Hrun.
  destruct (f9_stuck_forever 1 sch s0 s' Hst Hall Hrun) as (_ & Hm & _). rewrite Hm. discriminate.
Qed.
