(* E1 — plumbing lemmas for the lifecycle / safety proofs of the executor model (Proofs/ExecLife.v):
   upd / nth / nth_error, node / set_node / log / set_mn / set_src / set_cbs, count_outcome,
   try_send (characterisation + frame), close_all (characterisation + frame + totality),
   forallb / existsb / filter over upd, well-formed networks. *)
From Coq Require Import List ZArith Bool Arith Lia.
From FB Require Import Model.Exec Model.TraceSpec Model.ExecInv.
Import ListNotations.
Local Open Scope nat_scope.

(* ------------------------------------------------------------------ upd *)
Lemma upd_length : forall A i (x : A) l, length (upd i x l) = length l.
Proof. induction i; destruct l; cbn; auto. Qed.

Lemma nth_upd_eq : forall A i (x : A) l d, i < length l -> nth i (upd i x l) d = x.
Proof. induction i; destruct l; cbn; intros; try lia; auto. apply IHi; lia. Qed.

Lemma nth_upd_neq : forall A i j (x : A) l d, i <> j -> nth j (upd i x l) d = nth j l d.
Proof. induction i; destruct l, j; cbn; intros; try congruence; auto. Qed.

Lemma upd_oob : forall A i (x : A) l, length l <= i -> upd i x l = l.
Proof. induction i; destruct l; cbn; intros; try lia; auto. f_equal; apply IHi; lia. Qed.

Lemma nth_error_upd_eq : forall A i (x : A) l, i < length l -> nth_error (upd i x l) i = Some x.
Proof. induction i; destruct l; cbn; intros; try lia; auto. apply IHi; lia. Qed.

Lemma nth_error_upd_neq : forall A i j (x : A) l, i <> j -> nth_error (upd i x l) j = nth_error l j.
Proof. induction i; destruct l, j; cbn; intros; try congruence; auto. Qed.

Lemma nth_error_upd_inv : forall A i j (x y : A) l,
  nth_error (upd i x l) j = Some y -> (j = i /\ y = x) \/ (j <> i /\ nth_error l j = Some y).
Proof.
  intros A i j x y l H. destruct (Nat.eq_dec i j) as [->|Hn].
  - left. assert (j < length l).
    { rewrite <- (upd_length _ j x l). apply nth_error_Some. congruence. }
    rewrite nth_error_upd_eq in H by assumption. split; congruence.
  - right. rewrite nth_error_upd_neq in H by assumption. split; auto.
Qed.

Lemma nth_error_some_lt : forall A (l : list A) i a, nth_error l i = Some a -> i < length l.
Proof. intros. apply nth_error_Some. congruence. Qed.

Lemma In_upd : forall A i (x y : A) l, In y (upd i x l) -> y = x \/ In y l.
Proof. induction i; destruct l; cbn; intros; auto. - destruct H; auto. - destruct H; auto. apply IHi in H. tauto. Qed.

Lemma In_remove_at : forall A i (y : A) l, In y (firstn i l ++ skipn (S i) l) -> In y l.
Proof.
  induction i; destruct l; cbn; intros; auto.
  destruct H; auto.
Qed.

(* ------------------------------------------------------------------ forallb / existsb / filter *)
Lemma forallb_nth_error : forall A (f : A -> bool) l i a,
  forallb f l = true -> nth_error l i = Some a -> f a = true.
Proof. intros. rewrite forallb_forall in H. apply H. eapply nth_error_In; eauto. Qed.

Lemma forallb_of_nth_error : forall A (f : A -> bool) l,
  (forall i a, nth_error l i = Some a -> f a = true) -> forallb f l = true.
Proof. intros. apply forallb_forall. intros x Hx. apply In_nth_error in Hx. destruct Hx as [i Hi]. eauto. Qed.

Lemma existsb_nth_error : forall A (f : A -> bool) l i a,
  nth_error l i = Some a -> f a = true -> existsb f l = true.
Proof. intros. apply existsb_exists. exists a. split; auto. eapply nth_error_In; eauto. Qed.

Lemma existsb_to_nth_error : forall A (f : A -> bool) l,
  existsb f l = true -> exists i a, nth_error l i = Some a /\ f a = true.
Proof. intros. apply existsb_exists in H. destruct H as [a [Hin Hf]]. apply In_nth_error in Hin. destruct Hin as [i Hi]. eauto. Qed.

Lemma existsb_false_In : forall A (f : A -> bool) l a, existsb f l = false -> In a l -> f a = false.
Proof.
  intros. destruct (f a) eqn:E; auto. assert (existsb f l = true) by (apply existsb_exists; eauto). congruence.
Qed.

Lemma filter_upd_count : forall A (f : A -> bool) i x l a, nth_error l i = Some a ->
  length (filter f (upd i x l)) + (if f a then 1 else 0) = length (filter f l) + (if f x then 1 else 0).
Proof.
  induction i; intros x l a H; destruct l as [|b l]; cbn in *; try discriminate.
  - inversion H; subst. destruct (f a), (f x); cbn; lia.
  - specialize (IHi x l a H). destruct (f b); cbn; lia.
Qed.

Lemma existsb_upd_inv : forall A (f : A -> bool) i x l, existsb f (upd i x l) = true -> f x = true \/ existsb f l = true.
Proof.
  intros. apply existsb_exists in H. destruct H as [y [Hin Hf]]. apply In_upd in Hin. destruct Hin.
  - subst; auto. - right. apply existsb_exists; eauto.
Qed.

Lemma existsb_remove_at_inv : forall A (f : A -> bool) i l,
  existsb f (firstn i l ++ skipn (S i) l) = true -> existsb f l = true.
Proof. intros. apply existsb_exists in H. destruct H as [y [Hin Hf]]. apply In_remove_at in Hin. apply existsb_exists; eauto. Qed.

(* ------------------------------------------------------------------ state plumbing *)
Lemma node_set_node_eq : forall s n x, n < length (nodes s) -> node (set_node s n x) n = x.
Proof. intros. unfold node, set_node; cbn [nodes]. apply nth_upd_eq; auto. Qed.
Lemma node_set_node_neq : forall s n m x, n <> m -> node (set_node s n x) m = node s m.
Proof. intros. unfold node, set_node; cbn [nodes]. apply nth_upd_neq; auto. Qed.
Lemma node_set_node_oob : forall s n m x, length (nodes s) <= n -> node (set_node s n x) m = node s m.
Proof. intros. unfold node, set_node; cbn [nodes]. rewrite upd_oob; auto. Qed.
Lemma node_log : forall s es n, node (log s es) n = node s n. Proof. reflexivity. Qed.
Lemma node_set_mn : forall s m n, node (set_mn s m) n = node s n. Proof. reflexivity. Qed.
Lemma node_set_src : forall s m n, node (set_src s m) n = node s n. Proof. reflexivity. Qed.
Lemma node_set_cbs : forall s m n, node (set_cbs s m) n = node s n. Proof. reflexivity. Qed.

Lemma nodes_len_set_node : forall s n x, length (nodes (set_node s n x)) = length (nodes s).
Proof. intros. unfold set_node; cbn [nodes]. apply upd_length. Qed.
Lemma nodes_log : forall s es, nodes (log s es) = nodes s. Proof. reflexivity. Qed.
Lemma nodes_set_mn : forall s m, nodes (set_mn s m) = nodes s. Proof. reflexivity. Qed.
Lemma nodes_set_src : forall s m, nodes (set_src s m) = nodes s. Proof. reflexivity. Qed.
Lemma nodes_set_cbs : forall s m, nodes (set_cbs s m) = nodes s. Proof. reflexivity. Qed.

Lemma cbs_set_node : forall s n x, cbs (set_node s n x) = cbs s. Proof. reflexivity. Qed.
Lemma cbs_log : forall s es, cbs (log s es) = cbs s. Proof. reflexivity. Qed.
Lemma cbs_set_mn : forall s m, cbs (set_mn s m) = cbs s. Proof. reflexivity. Qed.
Lemma cbs_set_src : forall s m, cbs (set_src s m) = cbs s. Proof. reflexivity. Qed.
Lemma cbs_set_cbs : forall s c, cbs (set_cbs s c) = c. Proof. reflexivity. Qed.

Lemma mn_set_node : forall s n x, mn (set_node s n x) = mn s. Proof. reflexivity. Qed.
Lemma mn_log : forall s es, mn (log s es) = mn s. Proof. reflexivity. Qed.
Lemma mn_set_mn : forall s m, mn (set_mn s m) = m. Proof. reflexivity. Qed.
Lemma mn_set_src : forall s m, mn (set_src s m) = mn s. Proof. reflexivity. Qed.
Lemma mn_set_cbs : forall s c, mn (set_cbs s c) = mn s. Proof. reflexivity. Qed.

Lemma timedout_set_node : forall s n x, timedout (set_node s n x) = timedout s. Proof. reflexivity. Qed.
Lemma timedout_log : forall s es, timedout (log s es) = timedout s. Proof. reflexivity. Qed.
Lemma timedout_set_mn : forall s m, timedout (set_mn s m) = timedout s. Proof. reflexivity. Qed.
Lemma timedout_set_src : forall s m, timedout (set_src s m) = timedout s. Proof. reflexivity. Qed.
Lemma timedout_set_cbs : forall s c, timedout (set_cbs s c) = timedout s. Proof. reflexivity. Qed.

Lemma tr_set_node : forall s n x, tr (set_node s n x) = tr s. Proof. reflexivity. Qed.
Lemma tr_log : forall s es, tr (log s es) = es ++ tr s. Proof. reflexivity. Qed.

#[export] Hint Rewrite node_log node_set_mn node_set_src node_set_cbs
  nodes_len_set_node nodes_log nodes_set_mn nodes_set_src nodes_set_cbs
  cbs_set_node cbs_log cbs_set_mn cbs_set_src cbs_set_cbs
  mn_set_node mn_log mn_set_mn mn_set_src mn_set_cbs
  timedout_set_node timedout_log timedout_set_mn timedout_set_src timedout_set_cbs
  tr_set_node tr_log : fb.

(* out-of-range nodes are the dummy *)
Lemma node_oob : forall s n, length (nodes s) <= n -> node s n = dummy_ns.
Proof. intros. unfold node. apply nth_overflow; auto. Qed.

Lemma node_ws_some_lt : forall s n w st, nth_error (ws (node s n)) w = Some st -> n < length (nodes s).
Proof.
  intros. destruct (Nat.lt_ge_cases n (length (nodes s))); auto.
  rewrite node_oob in H by assumption. cbn in H. destruct w; discriminate.
Qed.

Lemma node_In : forall s n, n < length (nodes s) -> In (node s n) (nodes s).
Proof. intros. unfold node. apply nth_In; auto. Qed.

(* ------------------------------------------------------------------ set_worker / set_once / count_outcome *)
Lemma ws_set_worker : forall x w st, ws (set_worker x w st) = upd w st (ws x). Proof. reflexivity. Qed.
Lemma once_set_worker : forall x w st, once (set_worker x w st) = once x. Proof. reflexivity. Qed.
Lemma closed_set_worker : forall x w st, closed (set_worker x w st) = closed x. Proof. reflexivity. Qed.
Lemma q_set_worker : forall x w st, q (set_worker x w st) = q x. Proof. reflexivity. Qed.
Lemma inflight_set_worker : forall x w st, inflight (set_worker x w st) = inflight x. Proof. reflexivity. Qed.
Lemma ws_set_once : forall x o, ws (set_once x o) = ws x. Proof. reflexivity. Qed.
Lemma once_set_once : forall x o, once (set_once x o) = o. Proof. reflexivity. Qed.
Lemma closed_set_once : forall x o, closed (set_once x o) = closed x. Proof. reflexivity. Qed.
Lemma q_set_once : forall x o, q (set_once x o) = q x. Proof. reflexivity. Qed.
Lemma inflight_set_once : forall x o, inflight (set_once x o) = inflight x. Proof. reflexivity. Qed.
Lemma ws_count_outcome : forall x o, ws (count_outcome x o) = ws x. Proof. destruct o as [[|? ?]| |]; reflexivity. Qed.
Lemma once_count_outcome : forall x o, once (count_outcome x o) = once x. Proof. destruct o as [[|? ?]| |]; reflexivity. Qed.
Lemma closed_count_outcome : forall x o, closed (count_outcome x o) = closed x. Proof. destruct o as [[|? ?]| |]; reflexivity. Qed.
Lemma q_count_outcome : forall x o, q (count_outcome x o) = q x. Proof. destruct o as [[|? ?]| |]; reflexivity. Qed.
Lemma inflight_count_outcome : forall x o, inflight (count_outcome x o) = inflight x. Proof. destruct o as [[|? ?]| |]; reflexivity. Qed.

#[export] Hint Rewrite ws_set_worker once_set_worker closed_set_worker q_set_worker inflight_set_worker
  ws_set_once once_set_once closed_set_once q_set_once inflight_set_once
  ws_count_outcome once_count_outcome closed_count_outcome q_count_outcome inflight_count_outcome : fb.

(* ------------------------------------------------------------------ try_send *)
(* the lifecycle-relevant part of a node: everything but the buffer content and the ghost / counter fields *)
Definition same_life (x y : nstate) : Prop :=
  ws y = ws x /\ once y = once x /\ closed y = closed x /\ inflight y = inflight x.

Lemma same_life_refl : forall x, same_life x x.
Proof. unfold same_life; auto. Qed.

(* try_send succeeds only on an open channel; it changes nothing but the buffer / ghost logs / discard
   counter of the target *)
Lemma try_send_sent : forall nt s c it s', try_send nt s c it = Sent s' ->
  closed (node s c) = false
  /\ (forall m, same_life (node s m) (node s' m))
  /\ (forall m, m <> c -> node s' m = node s m)
  /\ length (nodes s') = length (nodes s)
  /\ cbs s' = cbs s /\ mn s' = mn s /\ timedout s' = timedout s /\ src s' = src s.
Proof.
  unfold try_send. intros nt s c it s' H.
  destruct (closed (node s c)) eqn:Hc; try discriminate.
  assert (Hfr : forall x, same_life (node s c) x ->
     (forall m, same_life (node s m) (node (set_node s c x) m))
     /\ (forall m, m <> c -> node (set_node s c x) m = node s m)).
  { intros x Hx. split.
    - intros m. destruct (Nat.eq_dec m c) as [->|Hm].
      + destruct (Nat.lt_ge_cases c (length (nodes s))).
        * rewrite node_set_node_eq by assumption. exact Hx.
        * rewrite node_set_node_oob by assumption. apply same_life_refl.
      + rewrite node_set_node_neq by congruence. apply same_life_refl.
    - intros m Hm. apply node_set_node_neq; congruence. }
  destruct (length (q (node s c)) <? ncap (info nt c)).
  - inversion H; subst; clear H. split; auto.
    match goal with |- context [set_node s c ?x] => destruct (Hfr x) as [A B] end.
    { unfold same_life; cbn; auto. }
    repeat split; auto; try apply A. apply nodes_len_set_node.
  - destruct (ndisc (info nt c)); try discriminate.
    inversion H; subst; clear H. split; auto.
    match goal with |- context [set_node s c ?x] => destruct (Hfr x) as [A B] end.
    { unfold same_life; cbn; auto. }
    repeat split; auto; try apply A. apply nodes_len_set_node.
Qed.

Lemma try_send_panic : forall nt s c it, try_send nt s c it = SendPanic -> closed (node s c) = true.
Proof.
  unfold try_send. intros. destruct (closed (node s c)); auto.
  destruct (_ <? _); try discriminate. destruct (ndisc _); discriminate.
Qed.

(* ------------------------------------------------------------------ close_all *)
Definition same_but_closed (x y : nstate) : Prop :=
  ws y = ws x /\ once y = once x /\ inflight y = inflight x /\ q y = q x.

Lemma close_all_some : forall cs s s', close_all s cs = Some s' ->
  (forall c, In c cs -> closed (node s c) = false)
  /\ (forall m, same_but_closed (node s m) (node s' m))
  /\ (forall m, closed (node s m) = true -> closed (node s' m) = true)
  /\ (forall m, closed (node s' m) = true -> closed (node s m) = true \/ In m cs)
  /\ (forall m, In m cs -> m < length (nodes s) -> closed (node s' m) = true)
  /\ length (nodes s') = length (nodes s)
  /\ cbs s' = cbs s /\ mn s' = mn s /\ timedout s' = timedout s /\ src s' = src s
  /\ clock s' = clock s /\ tr s' = tr s.
Proof.
  induction cs as [|c cs IH]; intros s s' H.
  - cbn in H. inversion H; subst. unfold same_but_closed. repeat split; auto. intros c [].
  - cbn [close_all] in H. destruct (closed (node s c)) eqn:Hc; try discriminate.
    apply IH in H. clear IH.
    destruct H as (H1 & H2 & H3 & H4 & H5 & H6 & H7 & H8 & H9 & H10 & H11 & H12).
    set (x := {| q := q (node s c); closed := true; ws := ws (node s c); once := once (node s c);
                 inflight := inflight (node s c); offered := offered (node s c); dropped := dropped (node s c);
                 c_recv := c_recv (node s c); c_proc := c_proc (node s c); c_filt := c_filt (node s c);
                 c_fail := c_fail (node s c); c_disc := c_disc (node s c) |}) in *.
    assert (Hn : forall m, m <> c -> node (set_node s c x) m = node s m).
    { intros; apply node_set_node_neq; congruence. }
    assert (Hsb : forall m, same_but_closed (node s m) (node (set_node s c x) m)).
    { intros m. destruct (Nat.eq_dec m c) as [->|Hm].
      - destruct (Nat.lt_ge_cases c (length (nodes s))).
        + rewrite node_set_node_eq by assumption. unfold same_but_closed; cbn; auto.
        + rewrite node_set_node_oob by assumption. unfold same_but_closed; auto.
      - rewrite Hn by assumption. unfold same_but_closed; auto. }
    assert (Hmono : forall m, closed (node s m) = true -> closed (node (set_node s c x) m) = true).
    { intros m Hm. destruct (Nat.eq_dec m c) as [->|Hmc]; [congruence|]. rewrite Hn; auto. }
    repeat split.
    + intros c' [->|Hin]; auto.
      destruct (Nat.eq_dec c' c) as [->|Hne]; auto.
      specialize (H1 _ Hin). rewrite Hn in H1; auto.
    + destruct (H2 m) as (a & b & c0 & d). destruct (Hsb m) as (a' & b' & c' & d'). congruence.
    + destruct (H2 m) as (a & b & c0 & d). destruct (Hsb m) as (a' & b' & c' & d'). congruence.
    + destruct (H2 m) as (a & b & c0 & d). destruct (Hsb m) as (a' & b' & c' & d'). congruence.
    + destruct (H2 m) as (a & b & c0 & d). destruct (Hsb m) as (a' & b' & c' & d'). congruence.
    + intros m Hm. apply H3. apply Hmono; auto.
    + intros m Hm. apply H4 in Hm. destruct Hm as [Hm|Hm]; [|right; right; auto].
      destruct (Nat.eq_dec m c) as [->|Hmc]; [right; left; auto|]. rewrite Hn in Hm; auto.
    + intros m [->|Hin] Hlt.
      * apply H3. rewrite node_set_node_eq by assumption. reflexivity.
      * apply H5; auto. rewrite nodes_len_set_node; auto.
    + rewrite H6. apply nodes_len_set_node.
    + rewrite H7; reflexivity.
    + rewrite H8; reflexivity.
    + rewrite H9; reflexivity.
    + rewrite H10; reflexivity.
    + rewrite H11; reflexivity.
    + rewrite H12; reflexivity.
Qed.

(* close_all succeeds when the channels are distinct and all still open *)
Lemma close_all_total : forall cs s, NoDup cs -> (forall c, In c cs -> closed (node s c) = false) ->
  exists s', close_all s cs = Some s'.
Proof.
  induction cs as [|c cs IH]; intros s Hnd Hop.
  - eexists; reflexivity.
  - cbn [close_all]. rewrite (Hop c) by (left; auto).
    inversion Hnd; subst. apply IH; auto.
    intros c' Hin. rewrite node_set_node_neq.
    + apply Hop; right; auto.
    + intro; subst; contradiction.
Qed.

(* ------------------------------------------------------------------ remove_one *)
Lemma remove_one_some_nonempty : forall it l r, remove_one it l = Some r -> l <> [].
Proof. intros. destruct l; cbn in H; congruence. Qed.

(* ------------------------------------------------------------------ well-formed networks *)
Lemma nodup_nat_NoDup : forall l, nodup_nat l = true <-> NoDup l.
Proof.
  induction l as [|x r IH]; cbn.
  - split; auto. constructor.
  - rewrite andb_true_iff, negb_true_iff, IH. split.
    + intros [H1 H2]. constructor; auto. intro Hin.
      assert (existsb (Nat.eqb x) r = true) by (apply existsb_exists; exists x; split; auto; apply Nat.eqb_refl).
      congruence.
    + intros H. inversion H; subst. split; auto.
      destruct (existsb (Nat.eqb x) r) eqn:E; auto.
      apply existsb_exists in E. destruct E as [y [Hy Hxy]]. apply Nat.eqb_eq in Hxy. subst. contradiction.
Qed.

Lemma roots_from_spec : forall nt i r,
  In r (roots_from i nt) <-> (i <= r /\ r < i + length nt /\ nrole (nth (r - i) nt dummy_info) = RRoot).
Proof.
  induction nt as [|x rest IH]; intros i r; cbn [roots_from length].
  - split; [intros [] | intros (?&?&?); lia].
  - assert (Hrest : In r (roots_from (S i) rest) <-> (S i <= r /\ r < i + S (length rest)
                       /\ nrole (nth (r - i) (x :: rest) dummy_info) = RRoot)).
    { rewrite IH. split; intros (A & B & C); repeat split; try lia.
      - replace (r - i) with (S (r - S i)) by lia. exact C.
      - replace (r - i) with (S (r - S i)) in C by lia. exact C. }
    destruct (nrole x) eqn:Hx.
    + cbn [In]. rewrite Hrest. split.
      * intros [->|(A&B&C)]; [|repeat split; auto; lia]. rewrite Nat.sub_diag. cbn. repeat split; auto; lia.
      * intros (A&B&C). destruct (Nat.eq_dec i r); auto. right; repeat split; auto; lia.
    + rewrite Hrest. split; intros (A&B&C); repeat split; auto; try lia.
      destruct (Nat.eq_dec i r); [|lia]. subst. rewrite Nat.sub_diag in C. cbn in C. congruence.
    + rewrite Hrest. split; intros (A&B&C); repeat split; auto; try lia.
      destruct (Nat.eq_dec i r); [|lia]. subst. rewrite Nat.sub_diag in C. cbn in C. congruence.
Qed.

Lemma root_lt : forall nt r, In r (roots nt) -> r < length nt.
Proof. intros. apply roots_from_spec in H. lia. Qed.

Lemma roots_from_NoDup : forall nt i, NoDup (roots_from i nt).
Proof.
  induction nt as [|x rest IH]; intros i; cbn [roots_from]; [constructor|].
  destruct (nrole x); auto. constructor; auto.
  intro H. apply roots_from_spec in H. lia.
Qed.

Lemma In_targets_flat : forall nt n c, n < length nt -> In c (targets (info nt n)) -> In c (flat_map targets nt).
Proof.
  intros. apply in_flat_map. exists (info nt n). split; auto. unfold info. apply nth_In; auto.
Qed.

Lemma NoDup_app_l : forall A (l1 l2 : list A), NoDup (l1 ++ l2) -> NoDup l1.
Proof. induction l1; cbn; intros; [constructor|]. inversion H; subst. constructor; [|eapply IHl1; eauto]. intro; apply H2; apply in_or_app; auto. Qed.
Lemma NoDup_app_r : forall A (l1 l2 : list A), NoDup (l1 ++ l2) -> NoDup l2.
Proof. induction l1; cbn; intros; auto. inversion H; subst. auto. Qed.
Lemma NoDup_app_disj : forall A (l1 l2 : list A) x, NoDup (l1 ++ l2) -> In x l1 -> In x l2 -> False.
Proof.
  induction l1; cbn; intros; auto. inversion H; subst. destruct H0.
  - subst. apply H4. apply in_or_app; auto.
  - eapply IHl1; eauto.
Qed.

Lemma flat_map_unique : forall A B (f : A -> list B) (l : list A) d n m c,
  NoDup (flat_map f l) -> n < length l -> m < length l ->
  In c (f (nth n l d)) -> In c (f (nth m l d)) -> n = m.
Proof.
  induction l as [|a l IH]; cbn [length flat_map]; intros d n m c Hnd Hn Hm Hcn Hcm; [lia|].
  destruct n, m; auto; cbn [nth] in *.
  - exfalso. eapply NoDup_app_disj; eauto. apply in_flat_map. exists (nth m l d). split; auto. apply nth_In; lia.
  - exfalso. eapply NoDup_app_disj; eauto. apply in_flat_map. exists (nth n l d). split; auto. apply nth_In; lia.
  - f_equal. eapply IH; eauto; try lia. eapply NoDup_app_r; eauto.
Qed.

Lemma flat_map_NoDup_each : forall A B (f : A -> list B) (l : list A) a, NoDup (flat_map f l) -> In a l -> NoDup (f a).
Proof.
  induction l as [|x l IH]; cbn; intros a Hnd Hin; [contradiction|]. destruct Hin as [->|Hin].
  - eapply NoDup_app_l; eauto.
  - apply IH; auto. eapply NoDup_app_r; eauto.
Qed.

Section WF.
  Variable nt : net.
  Hypothesis Hwf : wf_net nt = true.

  Lemma wf_NoDup_all : NoDup (roots nt ++ flat_map targets nt).
  Proof. unfold wf_net in Hwf. apply andb_true_iff in Hwf. apply nodup_nat_NoDup. tauto. Qed.

  Lemma wf_target_lt : forall n c, n < length nt -> In c (targets (info nt n)) -> c < length nt.
  Proof.
    intros n c Hn Hc. unfold wf_net in Hwf. apply andb_true_iff in Hwf. destruct Hwf as [H _].
    rewrite forallb_forall in H. specialize (H (info nt n)).
    rewrite forallb_forall in H. apply Nat.ltb_lt. apply H; auto. unfold info. apply nth_In; auto.
  Qed.

  Lemma wf_targets_unique : forall n m c, n < length nt -> m < length nt ->
    In c (targets (info nt n)) -> In c (targets (info nt m)) -> n = m.
  Proof.
    intros. eapply (flat_map_unique _ _ targets nt dummy_info); eauto.
    eapply NoDup_app_r. apply wf_NoDup_all.
  Qed.

  Lemma wf_target_not_root : forall n c, n < length nt -> In c (targets (info nt n)) -> ~ In c (roots nt).
  Proof.
    intros n c Hn Hc Hr. eapply NoDup_app_disj. apply wf_NoDup_all. exact Hr. eapply In_targets_flat; eauto.
  Qed.

  Lemma wf_targets_NoDup : forall n, n < length nt -> NoDup (targets (info nt n)).
  Proof.
    intros. eapply (flat_map_NoDup_each _ _ targets nt). eapply NoDup_app_r. apply wf_NoDup_all.
    unfold info. apply nth_In; auto.
  Qed.

  Lemma wf_roots_NoDup : NoDup (roots nt).
  Proof. eapply NoDup_app_l. apply wf_NoDup_all. Qed.
End WF.

(* deliveries of a node only target its own children / handler *)
Lemma deliveries_targets : forall nt n it o d, In d (deliveries nt n it o) -> In (fst d) (targets (info nt n)).
Proof.
  intros nt n it o d H. unfold deliveries in H. unfold targets. destruct o.
  - apply in_flat_map in H. destruct H as [c [Hc Hd]]. apply in_map_iff in Hd. destruct Hd as [e [He _]]. subst.
    cbn. apply in_or_app; auto.
  - destruct (nhandler (info nt n)); [|destruct H]. destruct H as [<-|[]]. cbn. apply in_or_app; right; left; auto.
  - destruct H.
Qed.

Lemma after_deliveries_send : forall pend p, after_deliveries pend = WSend p -> p = pend /\ pend <> [].
Proof. intros. destruct pend; cbn in H; [discriminate|]. inversion H; subst. split; congruence. Qed.
