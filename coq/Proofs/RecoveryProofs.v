(* E4 — lemmas about Model/Recovery.v *)
From Coq Require Import List ZArith Bool Lia ZifyBool.
From FB Require Import Lib.Sexp Lib.Eqb Model.Tracker Model.Offsets Model.Recovery Judge.E4.
Import ListNotations.
Open Scope Z_scope.

(* ---------- finite maps ---------- *)
Lemma pget_pput_same {A} p (v : A) m : pget p (pput p v m) = Some v.
Proof.
  induction m as [|[q w] m IH]; cbn [pput pget].
  - rewrite Z.eqb_refl. reflexivity.
  - destruct (p <? q) eqn:E1; [cbn [pget]; now rewrite Z.eqb_refl|].
    destruct (q =? p) eqn:E2; cbn [pget]; [now rewrite Z.eqb_refl|]. rewrite E2. exact IH.
Qed.

Lemma pget_pput_other {A} p q (v : A) m : p <> q -> pget p (pput q v m) = pget p m.
Proof.
  intros Hne. induction m as [|[k w] m IH]; cbn [pput pget].
  - destruct (q =? p) eqn:E; [exfalso; lia|reflexivity].
  - destruct (q <? k) eqn:E1.
    + cbn [pget]. destruct (q =? p) eqn:E; [exfalso; lia|reflexivity].
    + destruct (k =? q) eqn:E2; cbn [pget].
      * destruct (q =? p) eqn:E; [exfalso; lia|]. destruct (k =? p) eqn:E3; [exfalso; lia|reflexivity].
      * destruct (k =? p); [reflexivity|exact IH].
Qed.

(* ---------- outputs ---------- *)
Definition flagged (out : rout) : Prop := forall e, In e (o_emits out) -> snd e = true.
Definition waits_ok (out : rout) : Prop := o_waits out = zrange 0 (length (o_emits out)).

Lemma zrange_app a n m : zrange a (n + m) = zrange a n ++ zrange (a + Z.of_nat n) m.
Proof.
  revert a. induction n as [|n IH]; intros a; cbn [zrange Nat.add app].
  - f_equal. lia.
  - rewrite IH. replace (a + 1 + Z.of_nat n) with (a + Z.of_nat (S n)) by lia. reflexivity.
Qed.

Lemma zrange_shift a k n : map (Z.add k) (zrange a n) = zrange (k + a) n.
Proof. revert a. induction n as [|n IH]; intros a; cbn [zrange map]; [reflexivity|]. rewrite IH. do 2 f_equal. lia. Qed.

Lemma out_app_flagged a b : flagged a -> flagged b -> flagged (out_app a b).
Proof. intros Ha Hb e He. cbn [out_app o_emits] in He. apply in_app_or in He as [H|H]; auto. Qed.

Lemma out_app_waits a b : waits_ok a -> waits_ok b -> waits_ok (out_app a b).
Proof.
  unfold waits_ok. intros Ha Hb. cbn [out_app o_waits o_emits]. rewrite Ha, Hb, app_length, zrange_app, zrange_shift.
  do 2 f_equal. lia.
Qed.

Lemma out_nil_flagged : flagged out_nil. Proof. intros e []. Qed.
Lemma out_nil_waits : waits_ok out_nil. Proof. reflexivity. Qed.

(* ---------- recoverSingleEvent ---------- *)
Lemma refresh_cases s : forall s' calls, refresh s = (s', calls) ->
  (calls = [] /\ s' = s) \/
  (calls = [CUnassign; CAssign (assign_arg (candidates (owned s) (active s) (trk s)))] /\
   s' = {| owned := owned s; active := candidates (owned s) (active s) (trk s); trk := trk s;
           cli := assign_arg (candidates (owned s) (active s) (trk s)); mlog := mlog s |}).
Proof.
  intros s' calls H. unfold refresh in H. destruct (changed _ _); inversion H; subst; auto.
Qed.

(* every way a record can be handled *)
Inductive rec_case (cfg : rcfg) (s : rstate) (p o : Z) : rstate -> rout -> Prop :=
| RcInactive : pget p (active s) = None -> rec_case cfg s p o s out_nil
| RcBelow f t : pget p (active s) = Some (f, t) -> o < f -> rec_case cfg s p o s out_nil
| RcComplete f t s' calls : pget p (active s) = Some (f, t) -> f <= o -> t < o ->
    refresh (with_trk s (ts (complete (trk s) p t)) (tout (complete (trk s) p t))) = (s', calls) ->
    rec_case cfg s p o s'
      {| o_emits := []; o_calls := calls; o_sent := tout (complete (trk s) p t); o_err := false; o_acks := 0; o_waits := [] |}
| RcInside f t r : pget p (active s) = Some (f, t) -> f <= o -> o <= t ->
    r = (if (o mod c_every cfg =? 0) && (t - o >? 0) then update (trk s) p o t else {| ts := trk s; terr := false; tout := [] |}) ->
    rec_case cfg s p o (with_trk s (ts r) (tout r))
      {| o_emits := if o >? f then [(p, o, true)] else []; o_calls := []; o_sent := tout r; o_err := false; o_acks := 0;
         o_waits := if o >? f then [0] else [] |}.

Lemma rec_step_case cfg s p o : rec_case cfg s p o (fst (rec_step cfg s p o)) (snd (rec_step cfg s p o)).
Proof.
  unfold rec_step. destruct (pget p (active s)) as [[f t]|] eqn:E; [|apply RcInactive; assumption].
  destruct (o <? f) eqn:E1; [eapply RcBelow; eauto; lia|].
  destruct (t - o <? 0) eqn:E2.
  - destruct (refresh _) as [s2 calls] eqn:ER. cbn [fst snd]. eapply RcComplete; eauto; lia.
  - cbn [fst snd]. eapply RcInside; eauto; lia.
Qed.

(* C07 window safety, one record: an emitted event is the record itself, flagged, strictly above the active from and
   at most the active to of ITS partition; exactly one limiter wait precedes it *)
Lemma rec_step_emits cfg s p o e :
  In e (o_emits (snd (rec_step cfg s p o))) ->
  e = (p, o, true) /\ exists f t, pget p (active s) = Some (f, t) /\ f < o <= t.
Proof.
  intros H. destruct (rec_step_case cfg s p o); cbn [o_emits out_nil] in H; try contradiction.
  destruct (o >? f) eqn:E; [|contradiction]. destruct H as [<-|[]]. split; [reflexivity|]. exists f, t. split; [assumption|lia].
Qed.

Lemma rec_step_flagged cfg s p o : flagged (snd (rec_step cfg s p o)).
Proof. intros e He. apply rec_step_emits in He as [-> _]. reflexivity. Qed.

Lemma rec_step_waits cfg s p o : waits_ok (snd (rec_step cfg s p o)).
Proof.
  destruct (rec_step_case cfg s p o); unfold waits_ok; cbn [o_emits o_waits out_nil]; try reflexivity.
  destruct (o >? f); reflexivity.
Qed.

(* completion: a record at or above from and above to marks (p, to) complete, broadcasts exactly that, emits nothing,
   and refreshes at once *)
Lemma rec_step_complete cfg s p o f t :
  pget p (active s) = Some (f, t) -> f <= o -> t < o ->
  let r := complete (trk s) p t in
  rec_step cfg s p o =
    (fst (refresh (with_trk s (ts r) (tout r))),
     {| o_emits := []; o_calls := snd (refresh (with_trk s (ts r) (tout r))); o_sent := tout r; o_err := false;
        o_acks := 0; o_waits := [] |}).
Proof.
  intros E H1 H2 r. unfold rec_step. rewrite E.
  destruct (o <? f) eqn:E1; [lia|]. destruct (t - o <? 0) eqn:E2; [|lia].
  fold r. destruct (refresh _) as [s2 calls]. reflexivity.
Qed.

(* ---------- pump ---------- *)
Lemma fresh_step_flagged cfg s p : flagged (snd (fresh_step cfg s p)) /\ waits_ok (snd (fresh_step cfg s p)).
Proof.
  unfold fresh_step. destruct (pget p (cli s)) as [n|]; [|split; [apply out_nil_flagged|apply out_nil_waits]].
  pose proof (rec_step_flagged cfg s p n) as Hf. pose proof (rec_step_waits cfg s p n) as Hw.
  destruct (rec_step cfg s p n) as [s1 out]. cbn [snd] in *. destruct (o_calls out); cbn [snd]; auto.
Qed.

Lemma pump_flagged cfg : forall k s p, flagged (snd (pump cfg s p k)) /\ waits_ok (snd (pump cfg s p k)).
Proof.
  induction k as [|k IH]; intros s p; cbn [pump].
  - split; [apply out_nil_flagged|apply out_nil_waits].
  - destruct (fresh_step_flagged cfg s p) as [Hf Hw]. destruct (fresh_step cfg s p) as [s1 o1]. cbn [snd] in *.
    destruct (IH s1 p) as [Hf2 Hw2]. destruct (pump cfg s1 p k) as [s2 o2]. cbn [snd] in *.
    split; [apply out_app_flagged|apply out_app_waits]; assumption.
Qed.

(* every record a pump delivers is judged against the active window at the moment it is handled *)
Fixpoint pump_windows (cfg : rcfg) (s : rstate) (p : Z) (k : nat) : Prop :=
  match k with
  | O => True
  | S k' =>
      (forall e, In e (o_emits (snd (fresh_step cfg s p))) ->
         exists o f t, e = (p, o, true) /\ pget p (cli s) = Some o /\ pget p (active s) = Some (f, t) /\ f < o <= t)
      /\ pump_windows cfg (fst (fresh_step cfg s p)) p k'
  end.

Lemma pump_windows_hold cfg : forall k s p, pump_windows cfg s p k.
Proof.
  induction k as [|k IH]; intros s p; cbn [pump_windows]; [exact I|]. split; [|apply IH].
  intros e He. unfold fresh_step in He. destruct (pget p (cli s)) as [n|] eqn:En; [|destruct He].
  pose proof (rec_step_emits cfg s p n e) as H. destruct (rec_step cfg s p n) as [s1 out]. cbn [snd] in *.
  assert (He' : In e (o_emits out)) by (destruct (o_calls out); exact He).
  destruct (H He') as [-> [f [t [Ha Hr]]]]. exists n, f, t. auto.
Qed.

Lemma pump_emits_unfold cfg s p k :
  o_emits (snd (pump cfg s p (S k))) =
  o_emits (snd (fresh_step cfg s p)) ++ o_emits (snd (pump cfg (fst (fresh_step cfg s p)) p k)).
Proof.
  cbn [pump]. destruct (fresh_step cfg s p) as [s1 o1]. cbn [fst snd]. destruct (pump cfg s1 p k) as [s2 o2]. reflexivity.
Qed.

Lemma ahead_step_flagged cfg s p d : flagged (snd (ahead_step cfg s p d)) /\ waits_ok (snd (ahead_step cfg s p d)).
Proof.
  unfold ahead_step. destruct (pget p (cli s)) as [n|]; [|split; [apply out_nil_flagged|apply out_nil_waits]].
  destruct (pget p (active s)) as [[f to]|]; [|split; [apply out_nil_flagged|apply out_nil_waits]].
  destruct (_ && _); [split; [apply rec_step_flagged|apply rec_step_waits]|split; [apply out_nil_flagged|apply out_nil_waits]].
Qed.

(* ---------- every op: flags and waits (C07 flags, C19 one wait per emitted recovery record) ---------- *)
Definition is_main (op : rop) : bool := match op with MainRec _ _ => true | _ => false end.
Definition is_reccrash (op : rop) : bool := match op with RecCrash _ => true | _ => false end.

Lemma rstep_flags_waits cfg s op :
  is_main op = false -> is_reccrash op = false -> flagged (snd (rstep cfg s op)) /\ waits_ok (snd (rstep cfg s op)).
Proof.
  intros Hm Hc. destruct op as [p k|p d|p d|p o|p o|code wm lows| |ps| |p f t|cerr pcs|m| |p|p d]; try discriminate; cbn [rstep].
  - apply pump_flagged.
  - split; [apply rec_step_flagged|apply rec_step_waits].
  - apply ahead_step_flagged.
  - split; [apply rec_step_flagged|apply rec_step_waits].
  - unfold kerr_step. destruct ((code =? 1) || (code =? 2)); [|split; [apply out_nil_flagged|apply out_nil_waits]].
    destruct wm; [split; [apply out_nil_flagged|apply out_nil_waits]|].
    destruct (kerr_loop _ _ _). split; [intros e []|reflexivity].
  - destruct (refresh s). split; [intros e []|reflexivity].
  - split; [apply out_nil_flagged|apply out_nil_waits].
  - destruct (refresh _). split; [intros e []|reflexivity].
  - destruct (trim _ _). split; [intros e []|reflexivity].
  - destruct (file_all _ _). split; [intros e []|reflexivity].
  - destruct m; split; try (intros e []); reflexivity.
  - split; [apply out_nil_flagged|apply out_nil_waits].
  - unfold wild_step. destruct (pget p (cli s)); [|split; [apply out_nil_flagged|apply out_nil_waits]].
    destruct (pget p (active s)); [split; [apply rec_step_flagged|apply rec_step_waits]|split; [apply out_nil_flagged|apply out_nil_waits]].
Qed.

(* the owner dies while handling a record: nothing is emitted; the one wait of the record it was about to emit may
   have been taken *)
Lemma rec_crash_out cfg s p :
  o_emits (snd (rec_crash cfg s p)) = [] /\ (o_waits (snd (rec_crash cfg s p)) = [] \/ o_waits (snd (rec_crash cfg s p)) = [0]).
Proof.
  unfold rec_crash. destruct (pget p (cli s)) as [n|]; [|cbn; auto].
  destruct (would_send s p n) eqn:Ew; [cbn; auto|].
  pose proof (rec_step_case cfg s p n) as Hc. destruct (rec_step cfg s p n) as [s1 out]. cbn [fst snd] in *.
  destruct Hc as [Ha|f t Ha Hlt|f t s' calls Ha Hfo Hto Hr|f t r Ha Hfo Hot Hr]; cbn [o_emits o_waits out_nil]; auto.
  unfold would_send in Ew. rewrite Ha in Ew. replace (n >? f) with false by lia. auto.
Qed.

Lemma rstep_flagged_all cfg s op :
  is_main op = false -> forall e, In e (o_emits (snd (rstep cfg s op))) -> snd e = true.
Proof.
  intros H. destruct (is_reccrash op) eqn:E.
  - destruct op; try discriminate. cbn [rstep]. rewrite (proj1 (rec_crash_out cfg s p)). intros e [].
  - exact (proj1 (rstep_flags_waits cfg s op H E)).
Qed.

Lemma mainrec_out cfg s p o :
  rstep cfg s (MainRec p o) = (s, {| o_emits := [(p, o, false)]; o_calls := []; o_sent := []; o_err := false; o_acks := 0; o_waits := [] |}).
Proof. reflexivity. Qed.

(* ---------- scan over the model's own observations ---------- *)
Lemma obs0_init : obs0 = mk_opobs init_state out_nil.
Proof. reflexivity. Qed.

Lemma scan_model_nil {R} (f : rop -> opobs -> opobs -> list R) cfg :
  (forall op s outprev, f op (mk_opobs s outprev) (mk_opobs (fst (rstep cfg s op)) (snd (rstep cfg s op))) = []) ->
  forall ops s outprev,
    scan f ops (mk_opobs s outprev) (map (fun so => mk_opobs (fst so) (snd so)) (rrun cfg s ops)) = [].
Proof.
  intros H. induction ops as [|op ops IH]; intros s outprev; cbn [rrun map scan]; [reflexivity|].
  specialize (H op s outprev). destruct (rstep cfg s op) as [s' out]. cbn [map scan fst snd] in *. rewrite H. apply IH.
Qed.

Lemma rrun_length cfg : forall ops s, length (rrun cfg s ops) = length ops.
Proof. induction ops as [|op ops IH]; intros s; cbn [rrun]; [reflexivity|]. destruct (rstep cfg s op). cbn. now rewrite IH. Qed.

Lemma rec_emits_flagged l : (forall e, In e l -> snd e = true) -> length (rec_emits l) = length l.
Proof.
  induction l as [|e l IH]; intros H; [reflexivity|]. cbn [rec_emits flat_map]. rewrite (H e (or_introl eq_refl)).
  cbn [app length]. f_equal. apply IH. intros x Hx; apply H; right; assumption.
Qed.

Lemma list_eqb_Z_refl l : list_eqb Z.eqb l l = true.
Proof. apply list_eqb_refl. apply Z.eqb_refl. Qed.

Lemma c19_waits_core_model cfg op s outprev :
  c19_waits_core op (mk_opobs s outprev) (mk_opobs (fst (rstep cfg s op)) (snd (rstep cfg s op))) = [].
Proof.
  destruct (is_reccrash op) eqn:Ec.
  - destruct op; try discriminate. unfold c19_waits_core. cbn [rstep mk_opobs b_emits b_waits].
    destruct (rec_crash_out cfg s p) as [He [Hw|Hw]]; rewrite He, Hw; reflexivity.
  - assert (Hsame : c19_waits_core op (mk_opobs s outprev) (mk_opobs (fst (rstep cfg s op)) (snd (rstep cfg s op))) =
      (let a := mk_opobs (fst (rstep cfg s op)) (snd (rstep cfg s op)) in
       let n := length (rec_emits (b_emits a)) in
       if list_eqb Z.eqb (b_waits a) (zrange 0 n)
          && (length (b_emits a) =? match op with MainRec _ _ => 1 | _ => n end)%nat
       then [] else [(1, [match op with MainRec _ _ => 2 | _ => 1 end])])) by (destruct op; try discriminate; reflexivity).
    rewrite Hsame. clear Hsame. cbv zeta. destruct (is_main op) eqn:Em.
    + destruct op; try discriminate. reflexivity.
    + destruct (rstep_flags_waits cfg s op Em Ec) as [Hf Hw]. cbn [b_emits b_waits mk_opobs].
      rewrite (rec_emits_flagged _ Hf). rewrite Hw, list_eqb_Z_refl.
      replace (match op with MainRec _ _ => 1%nat | _ => length (o_emits (snd (rstep cfg s op))) end)
        with (length (o_emits (snd (rstep cfg s op)))) by (destruct op; try reflexivity; discriminate).
      rewrite Nat.eqb_refl. reflexivity.
Qed.

Lemma zrange_nonneg : forall n a, 0 <= a -> existsb (fun w => w <? 0) (zrange a n) = false.
Proof. induction n as [|n IH]; intros a Ha; cbn [zrange existsb]; [reflexivity|]. rewrite IH by lia. lia. Qed.

Lemma model_waits_nonneg cfg s op : existsb (fun w => w <? 0) (o_waits (snd (rstep cfg s op))) = false.
Proof.
  destruct (is_reccrash op) eqn:Ec.
  - destruct op; try discriminate. cbn [rstep]. destruct (rec_crash_out cfg s p) as [_ [Hw|Hw]]; rewrite Hw; reflexivity.
  - destruct (is_main op) eqn:Em; [destruct op; try discriminate; reflexivity|].
    rewrite (proj2 (rstep_flags_waits cfg s op Em Ec)). apply zrange_nonneg. lia.
Qed.

Lemma c19_waits_model cfg op s outprev :
  c19_waits op (mk_opobs s outprev) (mk_opobs (fst (rstep cfg s op)) (snd (rstep cfg s op))) = [].
Proof.
  unfold c19_waits. cbn [b_waits mk_opobs]. rewrite model_waits_nonneg. apply c19_waits_core_model.
Qed.

Lemma dedup_fail_nil : dedup_fail [] = []. Proof. reflexivity. Qed.

Lemma spec_c19_logic_sound cfg ops :
  spec_c19_logic ops (map (fun so => mk_opobs (fst so) (snd so)) (rrun cfg init_state ops)) = [].
Proof.
  unfold spec_c19_logic. rewrite map_length, rrun_length, Nat.eqb_refl. rewrite obs0_init.
  rewrite (scan_model_nil c19_waits cfg (c19_waits_model cfg)). reflexivity.
Qed.

(* total over a run: as many limiter waits as emitted recovery events, none of them for a main-consumer record *)
Definition total_waits (l : list (rstate * rout)) : nat := length (flat_map (fun so => o_waits (snd so)) l).
Definition total_recovered (l : list (rstate * rout)) : nat := length (flat_map (fun so => rec_emits (o_emits (snd so))) l).

Lemma run_waits cfg : forall ops s, forallb (fun op => negb (is_reccrash op)) ops = true ->
  total_waits (rrun cfg s ops) = total_recovered (rrun cfg s ops).
Proof.
  induction ops as [|op ops IH]; intros s Hn; cbn [rrun]; [reflexivity|].
  cbn [forallb] in Hn. apply andb_true_iff in Hn as [Hn1 Hn2]. apply negb_true_iff in Hn1.
  destruct (rstep cfg s op) as [s' out] eqn:E. unfold total_waits, total_recovered in *. cbn [flat_map snd].
  rewrite !app_length, (IH s' Hn2). f_equal.
  destruct (is_main op) eqn:Em.
  - destruct op; try discriminate. cbn in E. inversion E; subst. reflexivity.
  - destruct (rstep_flags_waits cfg s op Em Hn1) as [Hf Hw]. rewrite E in Hf, Hw. cbn [snd] in *.
    rewrite (rec_emits_flagged _ Hf), Hw. clear. generalize 0. induction (length (o_emits out)); intros z; cbn; auto.
Qed.

(* with owners dying while blocked on an emission, waits can exceed emitted events by at most one per such stop *)
Lemma run_waits_bounds cfg : forall ops s,
  (total_recovered (rrun cfg s ops) <= total_waits (rrun cfg s ops)
   <= total_recovered (rrun cfg s ops) + length (filter is_reccrash ops))%nat.
Proof.
  induction ops as [|op ops IH]; intros s; cbn [rrun]; [cbn; lia|].
  destruct (rstep cfg s op) as [s' out] eqn:E. unfold total_waits, total_recovered in *. cbn [flat_map snd filter].
  rewrite !app_length. specialize (IH s').
  destruct (is_reccrash op) eqn:Ec.
  - destruct op; try discriminate. cbn [rstep] in E. pose proof (rec_crash_out cfg s p) as [He Hw]. rewrite E in He, Hw. cbn [snd] in *.
    rewrite He. cbn [rec_emits flat_map length]. destruct Hw as [-> | ->]; cbn [length]; lia.
  - assert (Heq : length (o_waits out) = length (rec_emits (o_emits out))).
    { destruct (is_main op) eqn:Em.
      - destruct op; try discriminate. cbn in E. inversion E; subst. reflexivity.
      - destruct (rstep_flags_waits cfg s op Em Ec) as [Hf Hw]. rewrite E in Hf, Hw. cbn [snd] in *.
        rewrite (rec_emits_flagged _ Hf), Hw. clear. generalize 0. induction (length (o_emits out)); intros z; cbn; auto. }
    lia.
Qed.
