(* E4 — lemmas about Model/Recovery.v *)
From Coq Require Import List ZArith Bool Lia ZifyBool.
From FB Require Import Lib.Eqb Model.Tracker Model.Offsets Model.Recovery.
Import ListNotations.
Open Scope Z_scope.

Lemma mainrec_out cfg s p o :
  rstep cfg s (MainRec p o) = (s, {| o_emits := [(p, o, false)]; o_calls := []; o_sent := []; o_err := false; o_acks := 0; o_waits := [] |}).
Proof. reflexivity. Qed.
