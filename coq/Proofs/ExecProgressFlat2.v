(* E1 — C03, liveness half, part 5: EVERY table produced by Model/Settle.flatten is well-formed
   ([flatten_wf]: [wf_net (flatten cfgs) = true] for any configuration forest), so for such tables
   [live_net] — and with it deadlock freedom of the shutdown cascade — needs only the value conditions
   that config validation enforces: every node has >= 1 worker and buffersize >= 1 (or discards)
   ([flatten_live], [flatten_can_always_finish]).
   Key fact: the heads of the root blocks together with all delivery targets are a permutation of the
   table's index range ([heads_targets_perm]): every entry is a root or fed, by exactly one feeder. *)
From Coq Require Import List ZArith Bool Arith Lia Permutation.
From FB Require Import Model.Exec Model.Settle Model.ExecInv Proofs.ExecProgress Proofs.ExecProgress2
                       Proofs.ExecProgressFlat.
From FB Require Proofs.ExecLifeBase Proofs.ExecSpec Proofs.ExecProps.
Import ListNotations.
Local Open Scope nat_scope.

Definition tg (F : net) : list nat := flat_map targets F.

(* blocks of a list of configurations, all with role r *)
Fixpoint flat_listr (r : role) (b : nat) (l : list cfg) : net :=
  match l with [] => [] | x :: rest => flat r b x ++ flat_listr r (b + size x) rest end.

Lemma flat_list_r : forall l b, flat_list b l = flat_listr RChild b l.
Proof. induction l as [|x l IH]; intros b; cbn [flat_list flat_listr]; auto. rewrite IH. reflexivity. Qed.
Lemma flatten_from_r : forall l b, flatten_from b l = flat_listr RRoot b l.
Proof. induction l as [|x l IH]; intros b; cbn [flatten_from flat_listr]; auto. rewrite IH. reflexivity. Qed.

Lemma length_flat_listr : forall r l b, length (flat_listr r b l) = size_list l.
Proof.
  induction l as [|x l IH]; intros b; cbn [flat_listr size_list]; auto.
  rewrite app_length, length_flat, IH. reflexivity.
Qed.

Lemma size_pos : forall c, dis c = false -> 0 < size c.
Proof. intros [id k w bf d disc kids h] Hd. cbn [dis] in Hd. subst d. rewrite size_eq. lia. Qed.

Lemma tg_app : forall F1 F2, tg (F1 ++ F2) = tg F1 ++ tg F2.
Proof. intros. apply flat_map_app. Qed.

Lemma tg_hnode : forall h, tg (hnode h) = [].
Proof. intros [x|]; reflexivity. Qed.

(* ------------------------------------------------------------------ heads + targets = the index range *)
Definition block_perm (c : cfg) : Prop :=
  forall r base, Permutation (tg (flat r base c)) (seq (S base) (size c - 1)).

Lemma perm_flat_listr : forall l, Forall block_perm l ->
  forall r b, Permutation (kid_indices b l ++ tg (flat_listr r b l)) (seq b (size_list l)).
Proof.
  induction 1 as [|c l Hc Hl IH]; intros r b; cbn [flat_listr size_list]; [constructor|].
  rewrite kid_indices_cons. destruct (dis c) eqn:Ed.
  - rewrite (flat_dis c _ _ Ed), (size_dis c Ed). cbn [app plus]. rewrite Nat.add_0_r. apply IH.
  - pose proof (size_pos c Ed) as Hp. rewrite tg_app, seq_app.
    specialize (Hc r b). specialize (IH r (b + size c)).
    destruct (size c) as [|k] eqn:Es; [lia|].
    cbn [seq app]. apply perm_skip.
    replace (S k - 1) with k in Hc by lia.
    eapply perm_trans; [apply Permutation_app_swap_app|].
    apply Permutation_app; auto.
Qed.

Lemma perm_flat : forall c, block_perm c.
Proof.
  induction c as [id k w b d disc kids h IH] using cfg_ind'. intros r base.
  rewrite flat_eq, size_eq. destruct d; [constructor|].
  replace (1 + hn h + size_list kids - 1) with (hn h + size_list kids) by lia.
  change (tg (top r base id k w b disc kids h :: hnode h ++ flat_list (base + 1 + hn h) kids))
    with (targets (top r base id k w b disc kids h) ++ tg (hnode h ++ flat_list (base + 1 + hn h) kids)).
  rewrite tg_app, tg_hnode, flat_list_r. cbn [app].
  pose proof (perm_flat_listr kids IH RChild (base + 1 + hn h)) as HQ.
  unfold targets, top. cbn [nkids nhandler]. rewrite seq_app.
  destruct h as [x|]; cbn [hn seq app] in *.
  - rewrite <- app_assoc. cbn [app].
    eapply perm_trans; [apply Permutation_sym; apply Permutation_middle|].
    replace (base + 1) with (S base) at 1 by lia. apply perm_skip.
    replace (S base + 1) with (S base + 1 + 0) by lia.
    replace (S base + 1 + 0) with (base + 1 + 1) by lia. exact HQ.
  - rewrite app_nil_r. replace (S base + 0) with (base + 1 + 0) by lia. exact HQ.
Qed.

Theorem heads_targets_perm : forall cfgs,
  Permutation (kid_indices 0 cfgs ++ tg (flatten cfgs)) (seq 0 (length (flatten cfgs))).
Proof.
  intros cfgs. unfold flatten. rewrite flatten_from_r, length_flat_listr.
  apply perm_flat_listr. apply Forall_forall. intros c _. apply perm_flat.
Qed.

(* ------------------------------------------------------------------ only heads of root blocks have role root *)
Definition block_nonroot (c : cfg) : Prop :=
  forall r base j, 0 < j -> j < size c -> nrole (nth j (flat r base c) dummy_info) <> RRoot.

Lemma nonroot_flat_list : forall l, Forall block_nonroot l ->
  forall b j, j < size_list l -> nrole (nth j (flat_listr RChild b l) dummy_info) <> RRoot.
Proof.
  induction 1 as [|c l Hc Hl IH]; intros b j Hj; cbn [flat_listr size_list] in *; [lia|].
  destruct (Nat.lt_ge_cases j (size c)) as [Hlt|Hge].
  - rewrite app_nth1 by (rewrite length_flat; exact Hlt).
    destruct j as [|j].
    + rewrite flat_head_role by exact Hlt. discriminate.
    + apply Hc; lia.
  - rewrite app_nth2 by (rewrite length_flat; exact Hge). rewrite length_flat. apply IH. lia.
Qed.

Lemma nonroot_flat : forall c, block_nonroot c.
Proof.
  induction c as [id k w b d disc kids h IH] using cfg_ind'. intros r base j Hj0 Hj.
  rewrite size_eq in Hj. rewrite flat_eq. destruct d; [lia|].
  destruct j as [|j]; [lia|]. cbn [nth].
  destruct (Nat.lt_ge_cases j (hn h)) as [Hh|Hk].
  - rewrite app_nth1 by (rewrite length_hnode; exact Hh).
    destruct h as [x|]; cbn [hn] in Hh; [|lia]. assert (j = 0) by lia. subst j. cbn. discriminate.
  - rewrite app_nth2 by (rewrite length_hnode; exact Hk). rewrite length_hnode, flat_list_r.
    apply (nonroot_flat_list _ IH). lia.
Qed.

Lemma root_is_head : forall l b j, j < size_list l ->
  nrole (nth j (flat_listr RRoot b l) dummy_info) = RRoot -> In (b + j) (kid_indices b l).
Proof.
  induction l as [|c l IH]; intros b j Hj Hr; cbn [flat_listr size_list] in *; [lia|].
  rewrite kid_indices_cons. destruct (dis c) eqn:Ed.
  - rewrite (flat_dis c _ _ Ed) in Hr. rewrite (size_dis c Ed) in *. cbn [app plus] in *.
    rewrite Nat.add_0_r in Hr. apply IH; auto.
  - destruct (Nat.lt_ge_cases j (size c)) as [Hlt|Hge].
    + rewrite app_nth1 in Hr by (rewrite length_flat; exact Hlt).
      destruct j as [|j]; [left; lia|].
      exfalso. apply (nonroot_flat c RRoot b (S j)); auto. lia.
    + rewrite app_nth2 in Hr by (rewrite length_flat; exact Hge). rewrite length_flat in Hr.
      right. replace (b + j) with (b + size c + (j - size c)) by lia. apply IH; auto. lia.
Qed.

(* ------------------------------------------------------------------ wf_net *)
Lemma NoDup_app_intro : forall (l1 l2 : list nat), NoDup l1 -> NoDup l2 ->
  (forall x, In x l1 -> ~ In x l2) -> NoDup (l1 ++ l2).
Proof.
  induction l1 as [|a l1 IH]; intros l2 H1 H2 Hd; cbn [app]; auto.
  inversion H1; subst. constructor.
  - intro Hin. apply in_app_or in Hin. destruct Hin as [Hin|Hin]; [contradiction|].
    apply (Hd a); auto. left; auto.
  - apply IH; auto. intros x Hx. apply Hd. right; auto.
Qed.

Theorem flatten_wf : forall cfgs, wf_net (flatten cfgs) = true.
Proof.
  intros cfgs. set (nt := flatten cfgs).
  pose proof (heads_targets_perm cfgs) as HP. fold nt in HP.
  assert (Hnd : NoDup (kid_indices 0 cfgs ++ tg nt)).
  { eapply Permutation_NoDup; [apply Permutation_sym; exact HP|]. apply seq_NoDup. }
  unfold wf_net. apply andb_true_iff. split.
  - apply forallb_forall. intros x Hx. apply forallb_forall. intros t Ht. apply Nat.ltb_lt.
    assert (Hin : In t (kid_indices 0 cfgs ++ tg nt)).
    { apply in_or_app. right. unfold tg. apply in_flat_map. exists x. split; auto. }
    apply (Permutation_in _ HP) in Hin. apply in_seq in Hin. lia.
  - apply ExecLifeBase.nodup_nat_NoDup. apply NoDup_app_intro.
    + apply ExecLifeBase.roots_from_NoDup.
    + eapply ExecLifeBase.NoDup_app_r. exact Hnd.
    + intros r Hr Hin. apply ExecSpec.root_role in Hr. destruct Hr as [Hlt Hrole].
      assert (Hh : In r (kid_indices 0 cfgs)).
      { unfold nt, flatten in Hlt, Hrole. unfold info in Hrole.
        rewrite flatten_from_r in Hlt, Hrole. rewrite length_flat_listr in Hlt.
        apply (root_is_head cfgs 0 r Hlt Hrole). }
      apply (ExecLifeBase.NoDup_app_disj _ _ _ r Hnd Hh Hin).
Qed.

(* ------------------------------------------------------------------ summary for flatten outputs *)
Theorem flatten_live : forall cfgs,
  forallb (fun x => 0 <? nworkers x) (flatten cfgs) = true ->
  buffered_b (flatten cfgs) = true ->
  live_net (flatten cfgs).
Proof. intros. apply flatten_live_net; auto. apply flatten_wf. Qed.

(* deadlock freedom of the shutdown cascade for every table the executor can be started with *)
Corollary flatten_can_always_finish : forall cfgs T s,
  forallb (fun x => 0 <? nworkers x) (flatten cfgs) = true ->
  buffered_b (flatten cfgs) = true ->
  reachable (flatten cfgs) T s -> src s = SClosed -> timedout s = false ->
  exists sch s', forallb finishing sch = true /\ run (flatten cfgs) T s sch = Ok s'
                 /\ mn s' = MDone /\ timedout s' = false.
Proof. intros. apply can_always_finish; auto. apply flatten_live; auto. Qed.

Print Assumptions flatten_wf.
Print Assumptions flatten_can_always_finish.
