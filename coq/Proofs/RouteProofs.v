(* Lemmas about Model/Route.v: the walk of the code (prune disabled subtrees, then visit source and
   every context through Children) computes exactly the recipients the statement names. *)
From Coq Require Import List ZArith Bool Lia.
From FB Require Import Lib.Eqb Model.Wire Model.Route Judge.E5 Proofs.WireProofs.
Import ListNotations.
Open Scope Z_scope.

(* induction over the rose tree *)
Section RnodeInd.
  Variable P : rnode -> Prop.
  Hypothesis step : forall p dis h kids, Forall P kids -> P (RNode p dis h kids).
  Fixpoint rnode_ind' (n : rnode) : P n :=
    match n with
    | RNode p dis h kids =>
        step p dis h kids
          ((fix go (l : list rnode) : Forall P l :=
              match l with
              | [] => Forall_nil P
              | k :: l' => Forall_cons k (rnode_ind' k) (go l')
              end) kids)
    end.
End RnodeInd.

(* unfolding equations: the local fixes are the list-level functions *)
Lemma init_ctx_eq p dis h kids :
  init_ctx (RNode p dis h kids) = if dis then None else Some (Ctx p h (init_roots kids)).
Proof. reflexivity. Qed.
Lemma deliver_node_eq t p h kids :
  deliver_node t (Ctx p h kids) = (if accepts p t then [(p_id p, p_fail p)] else []) ++ deliver_nodes t kids.
Proof.
  cbn [deliver_node]. f_equal. induction kids as [|k l IH]; [reflexivity|].
  cbn [deliver_nodes]. now rewrite IH.
Qed.
Lemma expected_node_eq t p dis h kids :
  expected_node t (RNode p dis h kids)
  = if dis then [] else (if subscribed t p then [(p_id p, p_fail p)] else []) ++ expected_nodes t kids.
Proof.
  cbn [expected_node]. destruct dis; [reflexivity|]. f_equal. induction kids as [|k l IH]; [reflexivity|].
  cbn [expected_nodes]. now rewrite IH.
Qed.
Lemma ids_node_eq p dis h kids :
  ids_node (RNode p dis h kids)
  = p_id p :: (match h with Some hp => [p_id hp] | None => [] end) ++ ids_nodes kids.
Proof. reflexivity. Qed.

Lemma accepts_subscribed p t : accepts p t = subscribed t p.
Proof. reflexivity. Qed.

Definition deliver_opt (t : bytes) (o : option ctx) : list (Z * bool) :=
  match o with Some c => deliver_node t c | None => [] end.

Lemma deliver_nodes_init t kids :
  Forall (fun n => deliver_opt t (init_ctx n) = expected_node t n) kids ->
  deliver_nodes t (init_roots kids) = expected_nodes t kids.
Proof.
  induction 1 as [|k l Hk _ IH]; [reflexivity|].
  cbn [init_roots expected_nodes]. rewrite <- Hk, <- IH.
  destruct (init_ctx k); reflexivity.
Qed.

Lemma deliver_init t n : deliver_opt t (init_ctx n) = expected_node t n.
Proof.
  induction n as [p dis h kids IH] using rnode_ind'.
  rewrite init_ctx_eq, expected_node_eq. destruct dis; [reflexivity|].
  cbn [deliver_opt]. rewrite deliver_node_eq, accepts_subscribed. f_equal.
  now apply deliver_nodes_init.
Qed.

Lemma deliver_roots t roots : deliver_nodes t (init_roots roots) = expected_nodes t roots.
Proof. apply deliver_nodes_init. apply Forall_forall. intros n _. apply deliver_init. Qed.

(* the walk of the code visits exactly the statement's recipients, in this order *)
Lemma route_expected src roots m :
  route src roots m
  = (map (fun c => (fst c, m)) (expected11 src roots (m_type m)),
     map fst (filter snd (expected11 src roots (m_type m)))).
Proof. unfold route, expected11. rewrite deliver_roots, accepts_subscribed. reflexivity. Qed.

(* ---------- who is in the processing tree ---------- *)
(* [reach n q]: q is n itself or a node below n, reached through Children of enabled nodes only *)
Inductive reach : rnode -> party -> Prop :=
  | reach_self p h kids : reach (RNode p false h kids) p
  | reach_kid p h kids k q : In k kids -> reach k q -> reach (RNode p false h kids) q.

Lemma expected_nodes_In t kids x :
  In x (expected_nodes t kids) <-> exists k, In k kids /\ In x (expected_node t k).
Proof.
  induction kids as [|k l IH]; cbn [expected_nodes].
  - split; [intros [] | intros [k [[] _]]].
  - rewrite in_app_iff, IH. split.
    + intros [H|[k' [H1 H2]]]; [exists k; split; [now left | exact H] | exists k'; split; [now right | exact H2]].
    + intros [k' [[->|H1] H2]]; [now left | right; exists k'; auto].
Qed.

Lemma expected_node_In t n id f :
  In (id, f) (expected_node t n)
  <-> exists q, reach n q /\ subscribed t q = true /\ p_id q = id /\ p_fail q = f.
Proof.
  revert id f. induction n as [p dis h kids IH] using rnode_ind'. intros id f.
  rewrite expected_node_eq. destruct dis.
  - split; [intros [] | intros [q [H _]]; inversion H].
  - rewrite in_app_iff, expected_nodes_In. split.
    + intros [H|[k [Hk Hx]]].
      * destruct (subscribed t p) eqn:S; [|destruct H]. destruct H as [H|[]]. injection H as <- <-.
        exists p. repeat split; auto. constructor.
      * rewrite Forall_forall in IH. apply (IH k Hk) in Hx as [q (Hq & S & I & F)].
        exists q. repeat split; auto. econstructor; eauto.
    + intros [q (Hq & S & I & F)]. inversion Hq; subst.
      * left. rewrite S. now left.
      * right. exists k. split; [assumption|]. rewrite Forall_forall in IH. apply (IH k); [assumption|].
        exists q. auto.
Qed.

Inductive reach_roots (roots : list rnode) (q : party) : Prop :=
  | reach_root n : In n roots -> reach n q -> reach_roots roots q.

Lemma expected11_In src roots t id f :
  In (id, f) (expected11 src roots t)
  <-> (subscribed t src = true /\ p_id src = id /\ p_fail src = f)
      \/ exists q, reach_roots roots q /\ subscribed t q = true /\ p_id q = id /\ p_fail q = f.
Proof.
  unfold expected11. fold (subscribed t src). rewrite in_app_iff, expected_nodes_In. split.
  - intros [H|[k [Hk Hx]]].
    + left. destruct (subscribed t src); [|destruct H]. destruct H as [H|[]]. injection H as <- <-. auto.
    + right. apply expected_node_In in Hx as [q (Hq & S & I & F)]. exists q. repeat split; auto.
      econstructor; eauto.
  - intros [(S & I & F)|[q (Hq & S & I & F)]].
    + left. rewrite S. left. congruence.
    + right. destruct Hq as [n Hn Hq]. exists n. split; [assumption|]. apply expected_node_In. exists q. auto.
Qed.

(* ---------- exactly once ---------- *)
Lemma nodup_app_inv {A} (a b : list A) :
  NoDup (a ++ b) -> NoDup a /\ NoDup b /\ (forall x, In x a -> ~ In x b).
Proof.
  induction a as [|x a IH]; cbn.
  - intros H. repeat split; [constructor | exact H | intros ? []].
  - intros H. inversion H as [|? ? Hn Hd]; subst. destruct (IH Hd) as (Na & Nb & D).
    repeat split; [constructor; [intros K; apply Hn, in_or_app; now left | exact Na] | exact Nb |].
    intros y [->|Hy]; [intros K; apply Hn, in_or_app; now right | now apply D].
Qed.
Lemma nodup_app_intro {A} (a b : list A) :
  NoDup a -> NoDup b -> (forall x, In x a -> ~ In x b) -> NoDup (a ++ b).
Proof.
  induction a as [|x a IH]; cbn; intros Na Nb D; [exact Nb|].
  inversion Na as [|? ? Hn Hd]; subst. constructor.
  - rewrite in_app_iff. intros [K|K]; [contradiction | apply (D x); [now left | exact K]].
  - apply IH; auto; intros y Hy; apply D; now right.
Qed.

Lemma expected_ids_sub t n x : In x (map fst (expected_node t n)) -> In x (ids_node n).
Proof.
  revert x. induction n as [p dis h kids IH] using rnode_ind'. intros x.
  rewrite expected_node_eq, ids_node_eq. destruct dis; [intros []|].
  rewrite map_app, in_app_iff. intros [H|H].
  - destruct (subscribed t p); [|destruct H]. destruct H as [<-|[]]. now left.
  - right. apply in_or_app. right. clear -H IH. induction kids as [|k l IHl]; [destruct H|].
    cbn [expected_nodes ids_nodes] in *. rewrite map_app, in_app_iff in H. apply in_or_app.
    inversion IH as [|? ? Hk Hl]; subst. destruct H as [H|H]; [left; now apply Hk | right; now apply IHl].
Qed.
Lemma expected_ids_sub_list t l x : In x (map fst (expected_nodes t l)) -> In x (ids_nodes l).
Proof.
  induction l as [|k l IH]; cbn [expected_nodes ids_nodes]; [intros []|].
  rewrite map_app, !in_app_iff. intros [H|H]; [left; eapply expected_ids_sub; eauto | right; auto].
Qed.

Lemma expected_nodes_nodup_list t l :
  Forall (fun n => NoDup (ids_node n) -> NoDup (map fst (expected_node t n))) l ->
  NoDup (ids_nodes l) -> NoDup (map fst (expected_nodes t l)).
Proof.
  induction 1 as [|k l Hk _ IH]; cbn [expected_nodes ids_nodes]; intros N; [constructor|].
  apply nodup_app_inv in N as (Nk & Nl & D). rewrite map_app. apply nodup_app_intro; auto.
  intros x Hx Hx'. apply (D x); [eapply expected_ids_sub; eauto | now apply expected_ids_sub_list in Hx'].
Qed.

Lemma expected_node_nodup t n : NoDup (ids_node n) -> NoDup (map fst (expected_node t n)).
Proof.
  induction n as [p dis h kids IH] using rnode_ind'.
  rewrite expected_node_eq, ids_node_eq. destruct dis; [constructor|].
  intros N. inversion N as [|? ? Hn Hd]; subst. apply nodup_app_inv in Hd as (_ & Nk & _).
  rewrite map_app. apply nodup_app_intro.
  - destruct (subscribed t p); repeat constructor. intros [].
  - now apply expected_nodes_nodup_list.
  - intros x Hx Hx'. destruct (subscribed t p); [|destruct Hx]. destruct Hx as [<-|[]].
    apply Hn. apply in_or_app. right. now apply expected_ids_sub_list in Hx'.
Qed.

Lemma expected11_nodup src roots t :
  NoDup (p_id src :: ids_nodes roots) -> NoDup (map fst (expected11 src roots t)).
Proof.
  intros N. inversion N as [|? ? Hn Hd]; subst. unfold expected11. fold (subscribed t src).
  rewrite map_app. apply nodup_app_intro.
  - destruct (subscribed t src); repeat constructor. intros [].
  - apply expected_nodes_nodup_list; [|exact Hd]. apply Forall_forall. intros n _. apply expected_node_nodup.
  - intros x Hx Hx'. destruct (subscribed t src); [|destruct Hx]. destruct Hx as [<-|[]].
    apply Hn. now apply expected_ids_sub_list in Hx'.
Qed.

(* ---------- soundness of the decision procedure ---------- *)
Lemma spec_c11_one_sound src roots m : spec_c11_one src roots m (route src roots m) = [].
Proof.
  unfold spec_c11_one. rewrite route_expected. cbn [fst snd].
  rewrite map_map. cbn [fst]. rewrite perm_eqb_refl, perm_eqb_refl.
  assert (forallb (fun r : Z * msg => msg_eqb (snd r) m)
            (map (fun c : Z * bool => (fst c, m)) (expected11 src roots (m_type m))) = true) as ->.
  { apply forallb_forall. intros r Hr. apply in_map_iff in Hr as [c [<- _]]. apply msg_eqb_refl. }
  reflexivity.
Qed.

Lemma spec_c11_all_sound src roots ms : spec_c11_all src roots ms (map (route src roots) ms) = [].
Proof.
  induction ms as [|m ms IH]; [reflexivity|]. cbn [map spec_c11_all].
  now rewrite spec_c11_one_sound, IH.
Qed.

Lemma spec_c11_sound i : spec_c11 i (model_obs11 i) = [].
Proof.
  unfold spec_c11, model_obs11. destruct (dom11 i); [|reflexivity].
  now rewrite spec_c11_all_sound.
Qed.

(* ---------- further consequences ---------- *)
Lemma failing_In (l : list (Z * bool)) id : In id (map fst (filter snd l)) <-> In (id, true) l.
Proof.
  rewrite in_map_iff. split.
  - intros [[i f] [<- H]]. apply filter_In in H as [H F]. cbn in F. now subst f.
  - intros H. exists (id, true). split; [reflexivity|]. apply filter_In. auto.
Qed.

Lemma route_recipient_iff src roots m id :
  In id (map fst (fst (route src roots m)))
  <-> (subscribed (m_type m) src = true /\ p_id src = id)
      \/ exists q, reach_roots roots q /\ subscribed (m_type m) q = true /\ p_id q = id.
Proof.
  rewrite route_expected. cbn [fst]. rewrite map_map. cbn [fst]. rewrite in_map_iff. split.
  - intros [[i f] [<- H]]. apply expected11_In in H as [(S & I & _)|[q (Hq & S & I & _)]]; [left; auto | right; exists q; auto].
  - intros [(S & I)|[q (Hq & S & I)]].
    + exists (id, p_fail src). split; [reflexivity|]. apply expected11_In. left; auto.
    + exists (id, p_fail q). split; [reflexivity|]. apply expected11_In. right. exists q; auto.
Qed.

Lemma route_errors_iff src roots m id :
  In id (snd (route src roots m))
  <-> (subscribed (m_type m) src = true /\ p_id src = id /\ p_fail src = true)
      \/ exists q, reach_roots roots q /\ subscribed (m_type m) q = true /\ p_id q = id /\ p_fail q = true.
Proof. rewrite route_expected. cbn [snd]. rewrite failing_In. apply expected11_In. Qed.

Lemma route_once src roots m :
  NoDup (p_id src :: ids_nodes roots) -> NoDup (map fst (fst (route src roots m))).
Proof.
  intros N. rewrite route_expected. cbn [fst]. rewrite map_map. cbn [fst]. now apply expected11_nodup.
Qed.

Lemma route_unchanged src roots m : Forall (fun r => snd r = m) (fst (route src roots m)).
Proof.
  rewrite route_expected. cbn [fst]. apply Forall_forall. intros r Hr.
  apply in_map_iff in Hr as [c [<- _]]. reflexivity.
Qed.

(* the errors are those of the failing recipients, in the order of the calls; the calls do not depend on
   who fails *)
Lemma route_errors_of_calls src roots m :
  exists calls : list (Z * bool),
    fst (route src roots m) = map (fun c => (fst c, m)) calls /\ snd (route src roots m) = map fst (filter snd calls).
Proof. exists (expected11 src roots (m_type m)). now rewrite route_expected. Qed.

Lemma resubscription_replaces id calls c f t :
  accepts {| p_id := id; p_subs := calls ++ [c]; p_fail := f |} t = existsb (bytes_eqb t) c.
Proof. unfold accepts, current. cbn [p_subs]. now rewrite last_last. Qed.
Lemma never_subscribed id f t : accepts {| p_id := id; p_subs := []; p_fail := f |} t = false.
Proof. reflexivity. Qed.
