(* E1 — counting invariants of the executor model: [inv_count nt s] (Model/ExecInv.v) holds in every
   reachable state of every network table (no well-formedness hypothesis), and the corollaries the
   property files cite (C04 discard / back-pressure, C05 bounded calls, C16 accounting identity).
   The per-action work is in ExecCount1.v (actions that move no item) and ExecCount2.v (the others). *)
From Coq Require Import List ZArith Bool Arith Lia.
From FB Require Import Model.Exec Model.TraceSpec Model.ExecInv Proofs.ExecBase Proofs.ExecCount1 Proofs.ExecCount2.
Import ListNotations.
Local Open Scope nat_scope.

(* ------------------------------------------------------------------ the initial state *)
Lemma init_node_facts : forall nt c,
  let y := node (init nt) c in
  q y = [] /\ offered y = [] /\ dropped y = [] /\ inflight y = [] /\ c_recv y = 0 /\ c_proc y = 0 /\ c_filt y = 0
  /\ c_fail y = 0 /\ c_disc y = 0 /\ (forall w, In w (ws y) -> w = WIdle)
  /\ (c < length nt -> length (ws y) = nworkers (info nt c)).
Proof.
  intros nt c y; unfold y. destruct (Nat.lt_ge_cases c (length nt)) as [L|G].
  - rewrite node_init by auto. unfold init_node; cbn [q offered dropped inflight ws c_recv c_proc c_filt c_fail c_disc].
    repeat split; auto.
    + intros w H; apply repeat_spec in H; auto.
    + intros _; apply repeat_length.
  - rewrite node_out by (rewrite length_nodes_init; auto). simpl. repeat split; auto.
    + intros w [].
    + intro; lia.
Qed.

Theorem count_inv_init : forall nt, inv_count nt (init nt).
Proof.
  intro nt. apply inv_count_split.
  pose proof (quiet_init_trace nt) as HS.
  assert (HW : forall c x m, wsum c x (node (init nt) m) = 0).
  { intros c x m. destruct (init_node_facts nt m) as (_&_&_&_&_&_&_&_&_&H&_).
    unfold wsum. apply sumf_zero. intros w Hw. rewrite (H w Hw); reflexivity. }
  split.
  - intros c x. rewrite <- (app_nil_r (tr (init nt))), produced_app, (produced_silent _ _ _ _ HS).
    destruct (init_node_facts nt c) as (_&E2&E3&_). rewrite E2, E3. simpl.
    unfold pending. replace (pend_workers c x (init nt)) with 0; [reflexivity|].
    symmetry. unfold pend_workers. apply sumf_zero. intros y Hy.
    destruct (In_nth _ _ dummy_ns Hy) as [m [_ <-]]. apply (HW c x m).
  - apply inv_rest_ninv. split; [apply length_nodes_init|]. intro c.
    destruct (untouched_proj c _ (quiet_untouched c _ (silent_quiet _ HS))) as (P1&P2&P3&P4&P5).
    destruct (init_node_facts nt c) as (E1&E2&E3&E4&E5&E6&E7&E8&E9&E10&E11).
    unfold ninv; cbv zeta. unfold n_proc, n_filt, n_fail. rewrite P1, P2, P3, P4, P5, E1, E2, E3, E4, E5, E6, E7, E8, E9.
    simpl. repeat split; auto; try lia.
    intro x. symmetry. apply sumf_zero. intros w Hw. rewrite (E10 w Hw); reflexivity.
Qed.

(* ------------------------------------------------------------------ one step, a run, reachability *)
Theorem count_inv_step : forall nt T s a s', inv_count nt s -> step nt T s a = Ok s' -> inv_count nt s'.
Proof.
  intros nt T s a s' I H. destruct a.
  - eapply step_SrcEmit_count; eauto.
  - eapply count_Qrel; eauto. eapply step_SrcReturnNil_Q; eauto.
  - eapply count_Qrel; eauto. eapply step_SrcReturnErr_Q; eauto.
  - eapply count_Qrel; eauto. eapply step_SrcRestart_Q; eauto.
  - eapply step_MainSend_count; eauto.
  - eapply count_Qrel; eauto. eapply step_MainSeeClosed_Q; eauto.
  - eapply step_MainCloseRoots_count; eauto.
  - eapply count_Qrel; eauto. eapply step_MainWgDone_Q; eauto.
  - eapply count_Qrel; eauto. eapply step_MainTimeout_Q; eauto.
  - eapply count_Qrel; eauto. eapply step_Tick_Q; eauto.
  - eapply step_Deq_count; eauto.
  - eapply step_Return_count; eauto.
  - eapply step_SendW_count; eauto.
  - eapply count_Qrel; eauto. eapply step_SeeClosed_Q; eauto.
  - eapply count_Qrel; eauto. eapply step_LastOut_Q; eauto.
  - eapply count_Qrel; eauto. eapply step_OnceEnter_Q; eauto.
  - eapply count_Qrel; eauto. eapply step_ShutdownReturn_Q; eauto.
  - eapply step_CloseKids_count; eauto.
  - eapply count_Qrel; eauto. eapply step_OnceSkip_Q; eauto.
  - eapply step_Callback_count; eauto.
  - eapply step_SendC_count; eauto.
  - eapply count_Qrel; eauto. eapply step_SrcSetupFail_Q; eauto.
Qed.

Theorem count_inv_run : forall nt T sch s s', inv_count nt s -> run nt T s sch = Ok s' -> inv_count nt s'.
Proof.
  intros nt T sch; induction sch as [|a sch IH]; intros s s' I H; simpl in H.
  - inversion H; subst; auto.
  - destruct (step nt T s a) as [s1| |] eqn:E; try discriminate.
    eapply IH; [|exact H]. eapply count_inv_step; eauto.
Qed.

Theorem count_inv_reachable : forall nt T s, reachable nt T s -> inv_count nt s.
Proof. intros nt T s [sch H]. eapply count_inv_run; [apply count_inv_init|exact H]. Qed.

(* ------------------------------------------------------------------ C04: discard and back-pressure *)
(* a drop happens only at a full buffer of a discarding node, and is counted *)
Theorem drop_only_when_full : forall nt s c it s',
  try_send nt s c it = Sent s' -> dropped (node s' c) <> dropped (node s c) ->
  ndisc (info nt c) = true /\ length (q (node s c)) >= ncap (info nt c)
  /\ dropped (node s' c) = it :: dropped (node s c) /\ c_disc (node s' c) = S (c_disc (node s c))
  /\ q (node s' c) = q (node s c).
Proof.
  intros nt s c it s' H HD. apply try_send_sent in H.
  destruct (Nat.lt_ge_cases c (length (nodes s))) as [L|G].
  - destruct H as [_ [[_ ->]|[HG [HN ->]]]]; rewrite node_set_node_same in * by auto.
    + exfalso; apply HD; reflexivity.
    + repeat split; auto.
  - exfalso; apply HD. destruct H as [_ [[_ ->]|[_ [_ ->]]]]; rewrite node_set_node_out by auto; auto.
Qed.

(* a send to a discarding open node is never blocked *)
Theorem discard_never_blocks : forall nt s c it,
  ndisc (info nt c) = true -> closed (node s c) = false -> exists s', try_send nt s c it = Sent s'.
Proof.
  intros nt s c it HD HC. unfold try_send. rewrite HC, HD.
  destruct (length (q (node s c)) <? ncap (info nt c)); eauto.
Qed.

(* a non-discarding full node blocks the sender (back-pressure) and loses nothing *)
Theorem full_nondiscard_blocks : forall nt s c it,
  ndisc (info nt c) = false -> closed (node s c) = false -> length (q (node s c)) >= ncap (info nt c) ->
  try_send nt s c it = Blocked.
Proof.
  intros nt s c it HD HC HL. unfold try_send. rewrite HC, HD.
  rewrite (proj2 (Nat.ltb_ge _ _)) by lia. reflexivity.
Qed.

(* ------------------------------------------------------------------ C05: bounded calls *)
Definition is_wproc (w : wstate) : bool := match w with WProc _ => true | _ => false end.

Lemma filter_length_bound : forall A (f : A -> bool) l, length (filter f l) <= length l.
Proof. intros A f l; induction l as [|a l IH]; simpl; auto. destruct (f a); simpl; lia. Qed.

Theorem calls_bounded : forall nt T s n, reachable nt T s -> n < length nt ->
  length (filter (fun w => match w with WProc _ => true | _ => false end) (ws (node s n))) <= nworkers (info nt n).
Proof.
  intros nt T s n HR Hn. apply count_inv_reachable in HR.
  destruct HR as (_&_&_&_&_&_&_&[_ HS]). rewrite <- (HS n Hn). apply filter_length_bound.
Qed.

(* ------------------------------------------------------------------ C16: accounting identity *)
(* the async callback of an event never reports "later" (outcome_ok ... true) *)
Definition cb_ok (p : list tev) : bool :=
  forallb (fun e => match e with TCb _ _ OLater => false | _ => true end) p.

Lemma cb_ok_app : forall p1 p2, cb_ok (p1 ++ p2) = cb_ok p1 && cb_ok p2.
Proof. intros; unfold cb_ok; apply forallb_app. Qed.

Lemma silent_cb_ok : forall ev, forallb silent_ev ev = true -> cb_ok ev = true.
Proof.
  induction ev as [|e ev IH]; simpl; auto. rewrite !andb_true_iff; intros [H1 H2]; split; auto.
  destruct e; simpl in *; auto; discriminate.
Qed.

Lemma step_trace : forall nt T s a s', step nt T s a = Ok s' -> exists ev, tr s' = ev ++ tr s /\ cb_ok ev = true.
Proof.
  intros nt T s a s' H.
  assert (Q : Qrel s s' -> exists ev, tr s' = ev ++ tr s /\ cb_ok ev = true).
  { intros (_&_&_&_&ev&E1&E2). exists ev; split; auto. apply silent_cb_ok; auto. }
  destruct a;
    try (apply Q; first [eapply step_SrcReturnNil_Q; eassumption
                        |eapply step_SrcReturnErr_Q; eassumption
                        |eapply step_SrcSetupFail_Q; eassumption
                        |eapply step_SrcRestart_Q; eassumption
                        |eapply step_MainSeeClosed_Q; eassumption
                        |eapply step_MainWgDone_Q; eassumption
                        |eapply step_MainTimeout_Q; eassumption
                        |eapply step_Tick_Q; eassumption
                        |eapply step_SeeClosed_Q; eassumption
                        |eapply step_LastOut_Q; eassumption
                        |eapply step_OnceEnter_Q; eassumption
                        |eapply step_ShutdownReturn_Q; eassumption
                        |eapply step_OnceSkip_Q; eassumption]; fail);
    clear Q; unfold step in H.
  - (* SrcEmit *) destruct (src s); try discriminate. destruct (mn s); try discriminate. inversion H; subst.
    exists [TEmit e]; split; reflexivity.
  - (* MainSend *) destruct (mn s) as [|it [|r rs]| | |]; try discriminate.
    destruct (try_send nt s r it) as [s1| |] eqn:ES; inversion H; subst.
    apply try_send_frame in ES. destruct ES as (_&_&_&_&E&_). exists []; split; auto.
  - (* MainCloseRoots *) destruct (mn s); try discriminate.
    destruct (close_all s (roots nt)) as [s1|] eqn:C; inversion H; subst.
    apply close_all_frame in C. destruct C as (_&_&_&_&E&_). exists []; split; auto.
  - (* Deq *) destruct (nth_error (ws (node s n)) w) as [[]|]; try discriminate.
    destruct (q (node s n)); inversion H; subst. exists [TEnter n i]; split; reflexivity.
  - (* Return *) destruct (nth_error (ws (node s n)) w) as [[]|]; try discriminate.
    destruct (outcome_ok (nkind (info nt n)) o false); try discriminate.
    destruct o; inversion H; subst; eexists [_]; split; reflexivity.
  - (* SendW *) destruct (nth_error (ws (node s n)) w) as [[| |[|[c0 it] rest]| | | | |]|]; try discriminate.
    destruct (try_send nt s c0 it) as [s1| |] eqn:ES; inversion H; subst.
    apply try_send_frame in ES. destruct ES as (_&_&_&_&E&_). exists []; split; auto.
  - (* CloseKids *) destruct (nth_error (ws (node s n)) w) as [[]|]; try discriminate.
    destruct (close_all s (targets (info nt n))) as [s1|] eqn:C; inversion H; subst.
    apply close_all_frame in C. destruct C as (_&_&_&_&E&_). exists []; split; auto.
  - (* Callback *) destruct (remove_one it (inflight (node s n))); try discriminate.
    destruct (outcome_ok (nkind (info nt n)) o true) eqn:HO; try discriminate. inversion H; subst.
    exists [TCb n it o]; split.
    + destruct (deliveries nt n it o); reflexivity.
    + apply outcome_ok_cb_not_later in HO. destruct o; auto; congruence.
  - (* SendC *) destruct (nth_error (cbs s) i) as [[n [|[c0 it] rest]]|]; try discriminate.
    destruct (try_send nt s c0 it) as [s1| |] eqn:ES; inversion H; subst.
    apply try_send_frame in ES. destruct ES as (_&_&_&_&E&_). exists []; split; auto.
Qed.

Lemma cb_ok_reachable : forall nt T s, reachable nt T s -> cb_ok (tr s) = true.
Proof.
  intros nt T s [sch H].
  assert (G : forall sch s0 s1, cb_ok (tr s0) = true -> run nt T s0 sch = Ok s1 -> cb_ok (tr s1) = true).
  { clear. induction sch as [|a sch IH]; intros s0 s1 I H; simpl in H.
    - inversion H; subst; auto.
    - destruct (step nt T s0 a) as [s2| |] eqn:E; try discriminate.
      eapply IH; [|exact H]. apply step_trace in E. destruct E as (ev&E1&E2).
      rewrite E1, cb_ok_app, E2, I; auto. }
  eapply G; [|exact H]. apply silent_cb_ok, quiet_init_trace.
Qed.

(* every return and every callback is a later or exactly one of processed / filtered / failed *)
Lemma trace_accounting : forall n p, cb_ok p = true ->
  length (rets n p) + length (cbacks n p) = n_proc n p + n_filt n p + n_fail n p + length (laters n p).
Proof.
  intros n p; induction p as [|e p IH]; intro H; [reflexivity|].
  change (cb_ok (e :: p)) with ((match e with TCb _ _ OLater => false | _ => true end) && cb_ok p) in H.
  apply andb_true_iff in H. destruct H as [H1 H2]. specialize (IH H2).
  rewrite rets_cons, cbacks_cons, laters_cons, n_proc_cons, n_filt_cons, n_fail_cons, !app_length.
  destruct e as [| | | | |m it|m it o|m it o| | | |]; simpl; try lia.
  - destruct o as [[|e es]|err|]; destruct (m =? n); simpl; lia.
  - destruct o as [[|e es]|err|]; try discriminate; destruct (m =? n); simpl; lia.
Qed.

Definition procs (l : list wstate) : list item :=
  flat_map (fun w => match w with WProc it => [it] | _ => [] end) l.

Lemma procs_count : forall x l, sumf (wproc x) l = count_item x (procs l).
Proof.
  intros x l; induction l as [|w l IH]; [reflexivity|].
  unfold procs in *; simpl. rewrite count_item_app, <- IH.
  destruct w; simpl; try lia. rewrite (item_eqb_sym x it). lia.
Qed.

Lemma procs_length : forall l, length (procs l) = length (filter is_wproc l).
Proof.
  induction l as [|w l IH]; [reflexivity|].
  unfold procs in *; simpl. rewrite app_length, IH. destruct w; reflexivity.
Qed.

(* received = processed + filtered + failed + calls in progress + async events in flight.
   (A sync worker that has returned is counted at [Return], before it makes its deliveries, so
   workers in [WSend] do not appear; an [OLater] return moves the event to [inflight] uncounted;
   the callback counts it.) *)
Theorem accounting_identity : forall nt T s n, reachable nt T s -> n < length nt ->
  c_recv (node s n) = c_proc (node s n) + c_filt (node s n) + c_fail (node s n)
                      + length (filter (fun w => match w with WProc _ => true | _ => false end) (ws (node s n)))
                      + length (inflight (node s n)).
Proof.
  intros nt T s n HR Hn. pose proof (cb_ok_reachable _ _ _ HR) as HC.
  apply count_inv_reachable in HR. destruct HR as (_&_&_&_&H5&H6&H7&[HL _]).
  rewrite <- HL in Hn. destruct (H5 n Hn) as (C1&C2&C3&C4&_).
  assert (L1 : length (entered n (tr s)) = length (rets n (tr s)) + length (procs (ws (node s n)))).
  { rewrite <- app_length. apply count_item_all_length. intro x.
    rewrite count_item_app, <- procs_count. apply H6. }
  assert (L2 : length (laters n (tr s)) = length (cbacks n (tr s)) + length (inflight (node s n))).
  { rewrite <- app_length. apply count_item_all_length. intro x.
    rewrite count_item_app. apply H7. }
  pose proof (trace_accounting n _ HC) as L3. rewrite procs_length in L1.
  change (fun w : wstate => match w with WProc _ => true | _ => false end) with is_wproc. lia.
Qed.

Print Assumptions count_inv_init.
Print Assumptions count_inv_step.
Print Assumptions count_inv_run.
Print Assumptions count_inv_reachable.
Print Assumptions drop_only_when_full.
Print Assumptions discard_never_blocks.
Print Assumptions full_nondiscard_blocks.
Print Assumptions calls_bounded.
Print Assumptions accounting_identity.
