(* E8 — lemmas about Model/Atoi.v *)
From Coq Require Import List ZArith Bool Lia ZifyBool String Ascii.
From FB Require Import Model.Literals Model.Atoi.
Import ListNotations.
Open Scope Z_scope.

(* Coq string literal -> bytes: only to state how the byte literals of Model/Literals.v are spelled *)
Fixpoint bs (s : string) : bytes :=
  match s with
  | EmptyString => []
  | String a r => Z.of_N (N_of_ascii a) :: bs r
  end.

Lemma literals_spelled :
  s_librdkafka_prefix = bs "librdkafka." /\
  s_topic_prefix = bs "{topic}." /\
  s_default_topic_config = bs "default.topic.config" /\
  s_bootstrap_servers = bs "bootstrap.servers" /\
  s_group_id = bs "group.id" /\
  s_session_timeout_ms = bs "session.timeout.ms" /\
  s_enable_auto_commit = bs "enable.auto.commit" /\
  s_auto_commit_interval_ms = bs "auto.commit.interval.ms" /\
  s_statistics_interval_ms = bs "statistics.interval.ms" /\
  s_go_events_channel_enable = bs "go.events.channel.enable" /\
  s_go_events_channel_size = bs "go.events.channel.size" /\
  s_go_application_rebalance_enable = bs "go.application.rebalance.enable" /\
  s_socket_keepalive_enable = bs "socket.keepalive.enable" /\
  s_log_connection_close = bs "log.connection.close" /\
  s_auto_offset_reset = bs "auto.offset.reset" /\
  s_enable_partition_eof = bs "enable.partition.eof" /\
  s_queue_buffering_max_messages = bs "queue.buffering.max.messages" /\
  s_queue_buffering_max_kbytes = bs "queue.buffering.max.kbytes" /\
  s_queue_buffering_max_ms = bs "queue.buffering.max.ms" /\
  s_compression_codec = bs "compression.codec" /\
  s_firebolt_recoveryconsumer = bs "firebolt-recoveryconsumer" /\
  s_firebolt_messages = bs "firebolt-messages" /\
  s_error = bs "error" /\
  s_snappy = bs "snappy" /\
  s_earliest = bs "earliest" /\
  s_brokers = bs "brokers" /\
  s_consumergroup = bs "consumergroup" /\
  s_topic = bs "topic" /\
  s_buffersize = bs "buffersize" /\
  s_maxpartitionlag = bs "maxpartitionlag" /\
  s_parallelrecoveryenabled = bs "parallelrecoveryenabled" /\
  s_lit1 = bs "1" /\
  s_lit_t = bs "t" /\
  s_lit_T = bs "T" /\
  s_lit_true = bs "true" /\
  s_lit_TRUE = bs "TRUE" /\
  s_lit_True = bs "True" /\
  s_lit0 = bs "0" /\
  s_lit_f = bs "f" /\
  s_lit_F = bs "F" /\
  s_lit_false = bs "false" /\
  s_lit_FALSE = bs "FALSE" /\
  s_lit_False = bs "False".
Proof. repeat split; reflexivity. Qed.


Lemma bytes_eqb_refl a : bytes_eqb a a = true.
Proof. induction a as [|x a IH]; simpl; [reflexivity|]. rewrite Z.eqb_refl, IH. reflexivity. Qed.

Lemma bytes_eqb_eq a b : bytes_eqb a b = true <-> a = b.
Proof.
  split; [|intros ->; apply bytes_eqb_refl].
  revert b; induction a as [|x a IH]; intros [|y b]; simpl; try discriminate; [reflexivity|].
  intros E. apply andb_true_iff in E as [E1 E2]. apply Z.eqb_eq in E1. f_equal; auto.
Qed.

Lemma bytes_eqb_spec a b : reflect (a = b) (bytes_eqb a b).
Proof. apply iff_reflect. symmetry. apply bytes_eqb_eq. Qed.

Lemma bytes_eqb_sym a b : bytes_eqb a b = bytes_eqb b a.
Proof. destruct (bytes_eqb_spec a b), (bytes_eqb_spec b a); congruence. Qed.

(* ---------- digits ---------- *)
Lemma dval_app a l d : dval a (l ++ [d]) = dval a l * 10 + (d - 48).
Proof. unfold dval. rewrite fold_left_app. reflexivity. Qed.

Lemma forallb_app_1 {A} (f : A -> bool) l x : forallb f (l ++ [x]) = forallb f l && f x.
Proof. rewrite forallb_app. simpl. rewrite andb_true_r. reflexivity. Qed.

Lemma to_digits_digits f : forall n, 0 <= n -> forallb is_digit (to_digits f n) = true.
Proof.
  induction f as [|f IH]; intros n Hn; cbn [to_digits].
  - cbn [forallb]. unfold is_digit. pose proof (Z.mod_pos_bound n 10). lia.
  - destruct (n <? 10) eqn:E.
    + cbn [forallb]. unfold is_digit. lia.
    + rewrite forallb_app_1, IH by (apply Z.div_pos; lia).
      unfold is_digit. pose proof (Z.mod_pos_bound n 10). lia.
Qed.

Lemma to_digits_nonempty f n : to_digits f n <> [].
Proof.
  destruct f; cbn [to_digits]; [discriminate|].
  destruct (n <? 10); [discriminate|]. intros H. apply app_eq_nil in H as [_ H]. discriminate.
Qed.

Lemma to_digits_val f : forall n, 0 <= n < 2 ^ Z.of_nat (S f) -> dval 0 (to_digits f n) = n.
Proof.
  induction f as [|f IH]; intros n Hn; cbn [to_digits].
  - change (2 ^ Z.of_nat 1) with 2 in Hn. unfold dval; cbn [fold_left].
    rewrite Z.mod_small by lia. lia.
  - destruct (n <? 10) eqn:E.
    + unfold dval; cbn [fold_left]. lia.
    + rewrite dval_app, IH.
      * pose proof (Z.div_mod n 10). lia.
      * rewrite Nat2Z.inj_succ, Z.pow_succ_r in Hn by lia.
        split; [apply Z.div_pos; lia|]. apply Z.div_lt_upper_bound; lia.
Qed.

Lemma to_digits_head f n : 0 <= n -> exists c r, to_digits f n = c :: r /\ is_digit c = true.
Proof.
  intros Hn. pose proof (to_digits_digits f n Hn) as D. pose proof (to_digits_nonempty f n) as N.
  destruct (to_digits f n) as [|c r]; [congruence|]. exists c, r. split; [reflexivity|].
  cbn [forallb] in D. apply andb_true_iff in D. tauto.
Qed.

Lemma digits_to_digits n : 0 <= n -> digits (to_digits (Z.to_nat (Z.log2 n)) n) = Some n.
Proof.
  intros Hn. unfold digits.
  pose proof (to_digits_nonempty (Z.to_nat (Z.log2 n)) n) as N.
  destruct (to_digits (Z.to_nat (Z.log2 n)) n) eqn:E; [congruence|]. rewrite <- E.
  rewrite to_digits_digits by lia. rewrite to_digits_val; [reflexivity|].
  rewrite Nat2Z.inj_succ, Z2Nat.id by apply Z.log2_nonneg.
  destruct (Z.eq_dec n 0) as [->|Hz]; [cbn; lia|].
  pose proof (Z.log2_spec n). lia.
Qed.

Lemma atoi_itoa z : int64 z -> atoi (itoa z) = Some z.
Proof.
  intros Hz. unfold itoa. destruct (z <? 0) eqn:Neg.
  - unfold atoi. rewrite Z.eqb_refl. cbn [orb].
    rewrite digits_to_digits by lia.
    replace (- Z.abs z) with z by lia.
    unfold int64 in Hz. unfold int64b. 
    destruct ((min_int64 <=? z) && (z <=? max_int64)) eqn:B; [reflexivity|lia].
  - replace (Z.abs z) with z by lia.
    pose proof (digits_to_digits z ltac:(lia)) as D.
    destruct (to_digits_head (Z.to_nat (Z.log2 z)) z ltac:(lia)) as (c & r & E & Hc).
    rewrite E in *. unfold atoi. unfold is_digit in Hc.
    replace (c =? 45) with false by lia. replace (c =? 43) with false by lia. cbn [orb].
    rewrite D. unfold int64 in Hz. unfold int64b.
    destruct ((min_int64 <=? z) && (z <=? max_int64)) eqn:B; [reflexivity|lia].
Qed.

Lemma atoi_int64 s z : atoi s = Some z -> int64 z.
Proof.
  unfold atoi. destruct s as [|c r]; [discriminate|].
  destruct (digits _); [|discriminate].
  match goal with |- context [int64b ?v] => destruct (int64b v) eqn:B end; [|discriminate].
  intros H; inversion H; subst. unfold int64b in B. unfold int64. lia.
Qed.

(* the shape strconv.Atoi accepts: optional sign, then a non-empty run of ASCII digits *)
Lemma atoi_shape s z : atoi s = Some z ->
  exists sign ds, s = sign ++ ds /\ (sign = [] \/ sign = [43] \/ sign = [45])
                  /\ ds <> [] /\ forallb is_digit ds = true
                  /\ z = (if bytes_eqb sign [45] then - dval 0 ds else dval 0 ds).
Proof.
  unfold atoi. cbv zeta. destruct s as [|c r]; [discriminate|].
  intros H. match type of H with context [digits ?x] => destruct (digits x) as [n|] eqn:D end; [|discriminate].
  destruct (int64b _); [|discriminate]. inversion H; subst; clear H.
  assert (forall l, digits l = Some n -> l <> [] /\ forallb is_digit l = true /\ n = dval 0 l) as DD.
  { intros l. unfold digits. destruct l; [discriminate|]. destruct (forallb is_digit (z :: l)) eqn:F; [|discriminate].
    intros H; inversion H. repeat split; congruence. }
  destruct (c =? 45) eqn:E1; [|destruct (c =? 43) eqn:E2]; cbn [orb] in D; apply DD in D as (N & F & V).
  - exists [45], r. assert (c = 45) by lia. subst. cbn. repeat split; auto.
  - exists [43], r. assert (c = 43) by lia. subst. cbn. repeat split; auto.
  - exists [], (c :: r). cbn. repeat split; auto.
Qed.

(* converse of [atoi_shape]: a well-shaped string parses to its value when that fits int64, and is an error otherwise *)
Lemma atoi_complete sign ds :
  sign = [] \/ sign = [43] \/ sign = [45] -> ds <> [] -> forallb is_digit ds = true ->
  let v := if bytes_eqb sign [45] then - dval 0 ds else dval 0 ds in
  atoi (sign ++ ds) = if int64b v then Some v else None.
Proof.
  intros S N D v.
  assert (digits ds = Some (dval 0 ds)) as Dg.
  { unfold digits. destruct ds; [congruence|]. now rewrite D. }
  destruct S as [->|[->| ->]]; cbn [app] in *.
  - destruct ds as [|c r]; [congruence|]. unfold atoi. cbv zeta.
    assert (is_digit c = true) as Hc by (cbn [forallb] in D; apply andb_true_iff in D; tauto).
    unfold is_digit in Hc. replace (c =? 45) with false by lia. replace (c =? 43) with false by lia.
    cbn [orb]. rewrite Dg. reflexivity.
  - unfold atoi. cbv zeta. cbn [Z.eqb Pos.eqb orb]. rewrite Dg. reflexivity.
  - unfold atoi. cbv zeta. cbn [Z.eqb Pos.eqb orb]. rewrite Dg. reflexivity.
Qed.

(* ---------- ParseBool ---------- *)
Lemma existsb_bytes_In s l : existsb (bytes_eqb s) l = true <-> In s l.
Proof.
  rewrite existsb_exists. split.
  - intros (x & Hx & E). apply bytes_eqb_eq in E. congruence.
  - intros H. exists s. split; [assumption|apply bytes_eqb_refl].
Qed.

Lemma parse_bool_true s : parse_bool s = Some true <-> In s true_spellings.
Proof.
  unfold parse_bool. rewrite <- existsb_bytes_In.
  destruct (existsb (bytes_eqb s) true_spellings); [tauto|].
  destruct (existsb (bytes_eqb s) false_spellings); split; congruence.
Qed.

Lemma spellings_disjoint s : In s true_spellings -> In s false_spellings -> False.
Proof.
  intros H1 H2. apply existsb_bytes_In in H2.
  cbn in H1. repeat destruct H1 as [<-|H1]; try (vm_compute in H2; discriminate). contradiction.
Qed.

Lemma parse_bool_false s : parse_bool s = Some false <-> In s false_spellings.
Proof.
  unfold parse_bool. pose proof (spellings_disjoint s) as D.
  rewrite <- !existsb_bytes_In in *.
  destruct (existsb (bytes_eqb s) true_spellings); [split; [discriminate|intros H; exfalso; auto]|].
  destruct (existsb (bytes_eqb s) false_spellings); split; congruence.
Qed.

Lemma parse_bool_none s : parse_bool s = None <-> ~ In s (true_spellings ++ false_spellings).
Proof.
  rewrite in_app_iff, <- parse_bool_true, <- parse_bool_false.
  destruct (parse_bool s) as [[|]|].
  - split; [discriminate|intros H; exfalso; apply H; auto].
  - split; [discriminate|intros H; exfalso; apply H; auto].
  - split; [intros _ [H|H]; discriminate|reflexivity].
Qed.

Lemma spellings_spelled :
  true_spellings = map bs ["1"; "t"; "T"; "true"; "TRUE"; "True"]%string
  /\ false_spellings = map bs ["0"; "f"; "F"; "false"; "FALSE"; "False"]%string.
Proof. split; reflexivity. Qed.
